(** C16N — sub-check of C16: NESTED error handling.  A replacement buffer
    supplied by an error handler is itself a stream-backed buffer with its own
    error handler (WithErrorHandler around a buffer from another backend), to
    any depth: buffers are trees (Buffer/EHNest.v).  The error-handling
    reader of such a replacement is opened at the delivered offset of the
    reader that asked for it; the position it hands to ITS replacements is
    absolute (start offset + bytes it has handed out). *)
From Coq Require Import List ZArith NArith Bool Lia.
From BBS Require Import Common.Sx Buffer.Source Buffer.Validate Buffer.Convert Buffer.ErrHandler
  Buffer.ConvertProofs Buffer.EHFullCarry Buffer.EHFullPrefix
  Buffer.C09FuelSuffices Buffer.EHNest Buffer.EHNestCarry Buffer.EHNestRules
  Buffer.EHNestMoreRet Buffer.EHNestMoreRoot Buffer.EHNestMoreMon Buffer.EHNestMoreFuel Buffer.EHNestMoreDone
  Buffer.EHNestMoreTop Buffer.EHNestDepth Buffer.EHNestTooLong Run.R09 Run.R16 Run.R16N Run.R16NProofs.
Import ListNotations.

(** No duplicated and no skipped range, trees of any depth: when every plain
    buffer of the tree (the original and every replacement any handler at any
    depth supplies) carries the object [C], a call / stream that completes has
    handed the consumer exactly the expected slice of [C] - every byte once, in
    order - for ToByteSlice, IntoWriter, ReadAt (any offset / length),
    ToChunkReader (any offset / chunk size), ToReader (any read sizes); every
    buffer kind, every failure position, every handler script, any fuel. *)
Theorem no_dup_no_skip_nested : forall H cfg fuel C t m,
  tcarry C t -> m <> MDiscard ->
  completed m (z_err (run_tree H cfg fuel t m)) = true ->
  z_data (run_tree H cfg fuel t m) = expected_slice m C.
Proof. exact run_tree_no_dup_no_skip. Qed.
Print Assumptions no_dup_no_skip_nested.

(** "... or an error": whatever the outcome of a streaming method on a wrapped
    tree (validation failure, a handler's error at any level, out of fuel) the
    bytes handed out are a prefix of the expected slice: nothing duplicated,
    nothing skipped, nothing foreign. *)
Theorem delivered_is_prefix_nested : forall H cfg fuel C inner ans m,
  tcarry C (NW inner ans) -> streaming m ->
  exists rest, expected_slice m C = z_data (run_tree H cfg fuel (NW inner ans) m) ++ rest.
Proof. exact run_tree_delivered_prefix. Qed.
Print Assumptions delivered_is_prefix_nested.

(** The offset bookkeeping itself: a tree opened at ANY offset [k] carries
    [C[k..]], and the nested errorHandlingChunkReaders satisfy C16's carrier
    law (every read hands out the next piece, io.EOF only at the end): the
    [off] of an error-handling reader opened at [k] is [k] + bytes handed out,
    and that is where its replacements are opened. *)
Theorem nested_chunk_readers_resume_at_the_absolute_offset : forall C ifuel max,
  (forall t k, tcarry C t -> (k <= lenN C)%N -> I_ncr C (dropN k C) (nopen ifuel t k)) /\
  (forall fuel, claw (nread ifuel fuel max) (I_ncr C)).
Proof. intros C ifuel max. split; [apply nopen_carries|apply nread_claw]. Qed.
Print Assumptions nested_chunk_readers_resume_at_the_absolute_offset.

Theorem nested_readers_resume_at_the_absolute_offset : forall C ifuel,
  (forall t k, tcarry C t -> (k <= lenN C)%N -> I_nrd C (dropN k C) (nropen ifuel t k)) /\
  rlaw (nrread ifuel) (I_nrd C).
Proof. intros C ifuel. split; [apply nropen_carries|apply nrread_is_rlaw]. Qed.
Print Assumptions nested_readers_resume_at_the_absolute_offset.

(** Done() exactly once to EVERY handler that exists (the handlers around the
    buffer handed to the consumer and the handler of every wrapped replacement
    created at any depth), and the offering rule on the whole tree ([chk]: the
    I/O error of a plain buffer is offered to the innermost enclosing handler,
    the error a handler returns is what the enclosing handler is offered,
    nothing else is offered, the record has the shape of the scripts) - every
    tree whose readers attaching EOF to data have clean scripts, every method,
    any fuel ([exf]: the model's out-of-fuel marker counts as an I/O error). *)
Theorem done_once_and_offering_rule_nested : forall H cfg fuel t m,
  twf t ->
  chk exf (streamingb m) t (codes_of (z_tree (run_tree H cfg fuel t m))) = true /\
  od1 (z_tree (run_tree H cfg fuel t m)) = true.
Proof. exact run_tree_rules. Qed.
Print Assumptions done_once_and_offering_rule_nested.

(** ... and without the fuel marker among the offers this is the monitor's own clause 4 *)
Theorem offering_rule_is_the_monitor_clause : forall s t o,
  chk exf s t o = true -> nofuel o = true -> chk no_ex s t o = true.
Proof. intros s. exact (proj1 (chk_walk_no_ex s)). Qed.
Print Assumptions offering_rule_is_the_monitor_clause.

(** Whole-operation retries (tryRepeatedly at every level of the tree): the
    record passes the check and an error result is justified by it. *)
Theorem whole_operation_retries_nested : forall H cfg fuel m t,
  wgood t (whole H cfg fuel m t).
Proof. intros H cfg fuel m. exact (proj1 (whole_rules H cfg fuel m)). Qed.
Print Assumptions whole_operation_retries_nested.

(** Done() exactly once to every handler that exists, INDEPENDENTLY of the
    offering rule and of any well-formedness of the scripts: every tree, every
    method, any fuel; and the observed tree is no deeper than the input tree
    (Buffer/EHNestMoreDone.v). *)
Theorem done_once_nested : forall H cfg fuel t m,
  od1 (z_tree (run_tree H cfg fuel t m)) = true /\
  (odepth (z_tree (run_tree H cfg fuel t m)) <= tdepth t)%nat.
Proof. exact run_tree_done_once. Qed.
Print Assumptions done_once_nested.

(** FUEL: [16 + tree_fuel t], the fuel [run16N] uses, suffices
    (Buffer/EHNestMoreFuel.v): for every tree, digest, hash function and every
    method with positive loop parameters the run neither ends in the
    out-of-fuel marker nor offers it to any handler at any depth ([noEF] of the
    observed tree).  Monotone in the fuel. *)
Theorem tree_fuel_suffices : forall H cfg fuel t m,
  (16 + tree_fuel t <= fuel)%nat -> good_param m = true ->
  z_err (run_tree H cfg fuel t m) <> EFuel /\ noEF (z_tree (run_tree H cfg fuel t m)) = true.
Proof. exact EHNestMoreFuel.tree_fuel_suffices. Qed.
Print Assumptions tree_fuel_suffices.

(** Clause 2 on the model (Buffer/EHNestMoreRet.v, EHNestMoreRoot.v): when the
    last answer of the OUTERMOST handler was the error [x], the consumer's
    result is [ECode x] - every method, every tree, any fuel that does not run
    out; for ToReader: or the validator's own error code (next theorem). *)
Theorem outermost_handler_error_is_result_nested : forall H cfg fuel inner ans m,
  z_err (run_tree H cfg fuel (NW inner ans) m) <> EFuel ->
  match z_tree (run_tree H cfg fuel (NW inner ans) m) with
  | ONode offs _ _ =>
      forall x, returnedN ans (length offs) = Some x ->
        z_err (run_tree H cfg fuel (NW inner ans) m) = ECode x \/
        (is_to_reader m = true /\ z_err (run_tree H cfg fuel (NW inner ans) m) = ECode (g_code cfg))
  | OLeaf _ => True
  end.
Proof. exact run_tree_clause2. Qed.
Print Assumptions outermost_handler_error_is_result_nested.

(** REFUTATION of "the monitor is silent on the model for every input of
    [dom16N]": clause 2 of [mon16N] fires on the model's own observation for
    [w2_inp] (notes/c16n-clause2-false-alarm.case; replayed on the real code:
    the implementation's observation is the model's).  ToReader with one read of 8
    bytes on WithErrorHandler(chunk-reader buffer "ab" + error 4, handler
    answering 7), digest size 1: the chunk-reader-backed reader hands out "ab"
    together with the error, the handler turns it into 7, and the
    casValidatingReader rejects 2 bytes against a size of 1 before it looks at
    the error: the consumer gets 13 (INTERNAL), not 7.  C16's monitor excepts
    this situation ([toolong], Run/R16.v); the raw [mon16N] does not - it would be a
    false alarm of clause 2; the monitor the judge applies, [mon16Nx] (below), has the
    exception. *)
Theorem monitor_clause_2_fires_on_the_model :
  dom16N w2_inp /\ mon16N w2_inp (run16N w2_inp) = [2%Z].
Proof. split; [exact w2_in_domain|exact (proj2 clause2_fires_on_the_model)]. Qed.
Print Assumptions monitor_clause_2_fires_on_the_model.

(** The monitor on the model's own observation, WITHOUT fuel or depth
    hypotheses on the run ([dom16NF], Buffer/EHNestMoreTop.v: every plain buffer
    carries the object, readers that attach EOF to data have clean scripts,
    the buffer handed to the consumer is wrapped, positive loop parameters, no
    handler is offered the gRPC code -3 (the code of the model's fuel marker; the
    harness's scripts use codes 1..16), positive final error code, input tree
    of depth <= 64): no clause other than 2 fires ... *)
Theorem monitor_on_model_all_but_clause_2 : forall inp,
  dom16NF inp -> forall c, In c (mon16N inp (run16N inp)) -> c = 2%Z.
Proof. exact mon16N_on_model_fuel. Qed.
Print Assumptions monitor_on_model_all_but_clause_2.

(** ... and none at all unless the method is ToReader and the run ends in the
    validator's own error code (the situation of the refutation above). *)
Theorem monitor_silent_on_model_nested : forall inp,
  dom16NF inp ->
  (is_to_reader (n_meth (dec_case16N inp)) = true ->
   z_err (out16N inp) <> ECode (g_code (n_cfg (dec_case16N inp)))) ->
  mon16N inp (run16N inp) = [].
Proof. exact mon16N_silent_on_model_fuel. Qed.
Print Assumptions monitor_silent_on_model_nested.

(** * The monitor the judge applies ([mon16Nx], Run/R16N.v): [mon16N] with the
    too-long exception on clause 2.  It reports a subset of what [mon16N] reports, so
    it is silent wherever [mon16N] is; on the refutation witness above it is silent
    (the exception is exactly that situation); it still reports clause 2 when the
    exception does not apply, and every other clause unchanged. *)
Theorem mon16Nx_incl : forall inp obs z, In z (mon16Nx inp obs) -> In z (mon16N inp obs).
Proof.
  intros inp obs z. unfold mon16Nx. destruct (toolong16N inp obs); [|exact (fun H => H)].
  intros H. apply filter_In in H. exact (proj1 H).
Qed.
Print Assumptions mon16Nx_incl.

Theorem mon16Nx_other_clauses_unchanged : forall inp obs z,
  z <> 2%Z -> In z (mon16N inp obs) -> In z (mon16Nx inp obs).
Proof.
  intros inp obs z Hz Hin. unfold mon16Nx. destruct (toolong16N inp obs); [|exact Hin].
  apply filter_In. split; [exact Hin|]. destruct (Z.eqb_spec z 2); [contradiction|reflexivity].
Qed.
Print Assumptions mon16Nx_other_clauses_unchanged.

Theorem judge_monitor_silent_on_model_nested : forall inp,
  dom16NF inp ->
  (is_to_reader (n_meth (dec_case16N inp)) = true ->
   z_err (out16N inp) <> ECode (g_code (n_cfg (dec_case16N inp)))) ->
  mon16Nx inp (run16N inp) = [].
Proof.
  intros inp Hd Hr. pose proof (monitor_silent_on_model_nested inp Hd Hr) as H.
  destruct (mon16Nx inp (run16N inp)) as [|z l] eqn:E; [reflexivity|].
  exfalso. assert (Hin : In z (mon16N inp (run16N inp))) by (apply mon16Nx_incl; rewrite E; left; reflexivity).
  rewrite H in Hin. exact Hin.
Qed.
Print Assumptions judge_monitor_silent_on_model_nested.

Theorem judge_monitor_on_model_only_clause_2_left : forall inp,
  dom16NF inp -> forall c, In c (mon16Nx inp (run16N inp)) -> c = 2%Z.
Proof. intros inp Hd c Hin. exact (monitor_on_model_all_but_clause_2 inp Hd c (mon16Nx_incl _ _ _ Hin)). Qed.
Print Assumptions judge_monitor_on_model_only_clause_2_left.

Example judge_monitor_silent_on_the_refutation_witness : mon16Nx w2_inp (run16N w2_inp) = [].
Proof. vm_compute. reflexivity. Qed.

(** * No depth hypothesis (Buffer/EHNestDepth.v).  [dom16NF] asks [tdepth <= 64] of
    the decoded tree because [tdepth (dec_tree 64 s) <= 64] is FALSE: the decoder
    cuts a deeper input with an error buffer, a leaf of depth 1 - the honest bound
    is [k + 1], and 65 is reached ([deep_tree_has_depth_65]).  The hypothesis is
    not needed: with depths that count an error buffer / a leaf observed with 0
    closes as 0 ([tdepth0], [odepth0]) the decoder stays within its fuel, the
    observed tree of EVERY run (any tree, method, fuel) is no deeper than the input
    tree, and the monitor's decoder [dec_ctree] is exact on observed trees of
    refined depth <= its fuel (out of fuel it answers [TLeaf 0], which is what an
    error buffer is observed as). *)
Theorem decoder_depth : forall k s,
  (tdepth0 (dec_tree k s) <= k)%nat /\ (tdepth (dec_tree k s) <= k + 1)%nat.
Proof. exact dec_tree_depths. Qed.
Print Assumptions decoder_depth.

Theorem observed_depth_nested : forall H cfg fuel t m,
  (odepth0 (z_tree (run_tree H cfg fuel t m)) <= tdepth0 t)%nat.
Proof. exact run_tree_depth0. Qed.
Print Assumptions observed_depth_nested.

Theorem monitor_decoder_exact : forall o n,
  (odepth0 o <= n)%nat -> dec_ctree n (enc_otree o) = codes_of o.
Proof. exact dec_enc_otree0. Qed.
Print Assumptions monitor_decoder_exact.

(** the monitor on the model's own observation is the monitor on the model's data: EVERY input *)
Theorem monitor_sees_the_model_run : forall inp,
  mon16N inp (run16N inp) =
  monN_data (n_tree (dec_case16N inp)) (n_meth (dec_case16N inp)) (n_obj (dec_case16N inp))
            (z_data (out16N inp)) (C09FullMonitor.code_of (z_err (out16N inp))) (codes_of (z_tree (out16N inp))).
Proof. exact mon16N_decoded0. Qed.
Print Assumptions monitor_sees_the_model_run.

(** [dom16NG] = [dom16NF] without its depth conjunct: no fuel and no depth hypothesis *)
Theorem dom16NF_is_in_dom16NG : forall inp, dom16NF inp -> dom16NG inp.
Proof. exact dom16NF_dom16NG. Qed.
Print Assumptions dom16NF_is_in_dom16NG.

Theorem monitor_on_model_all_but_clause_2_nodepth : forall inp,
  dom16NG inp -> forall c, In c (mon16N inp (run16N inp)) -> c = 2%Z.
Proof. exact mon16N_on_model_nodepth. Qed.
Print Assumptions monitor_on_model_all_but_clause_2_nodepth.

Theorem monitor_silent_on_model_nested_nodepth : forall inp,
  dom16NG inp ->
  (is_to_reader (n_meth (dec_case16N inp)) = true ->
   z_err (out16N inp) <> ECode (g_code (n_cfg (dec_case16N inp)))) ->
  mon16N inp (run16N inp) = [].
Proof. exact mon16N_silent_on_model_nodepth. Qed.
Print Assumptions monitor_silent_on_model_nested_nodepth.

(** non-vacuity: 64 handlers around a buffer; decoded depth 65: outside [dom16NF], inside [dom16NG] *)
Example deep_tree_has_depth_65 :
  tdepth (n_tree (dec_case16N deep_inp)) = 65%nat /\ tdepth0 (n_tree (dec_case16N deep_inp)) = 64%nat.
Proof. exact deep_tree_depth. Qed.
Example deep_input_in_domain : dom16NG deep_inp /\ ~ dom16NF deep_inp.
Proof. split; [exact deep_in_domain|exact deep_not_in_old_domain]. Qed.
Example deep_input_monitor_silent : mon16N deep_inp (run16N deep_inp) = [].
Proof. exact deep_monitor_silent. Qed.

(** * The judge's monitor is silent on the model, EVERY input of the domain
    (Buffer/EHNestTooLong.v).  Clause 2 on the model with the ToReader alternative
    made explicit: when the outermost handler's last answer was the error [x] and
    the consumer got the validator's own code instead, the object the tree carries
    is LONGER than the digest's size.  (The casValidatingReader produces its own
    code for data exceeding bytesRemaining - checked before the error that came
    with the data - and for a byte obtained by the final io.ReadFull, which drops
    the error that came with it: in both the bytes handed out, a prefix of the
    object, exceed the size; its other two uses need io.EOF from the reader, and a
    root handler passing on io.EOF has not answered with an error.) *)
Theorem outermost_handler_error_is_result_nested_or_too_long : forall H cfg fuel C inner ans m,
  tcarry C (NW inner ans) ->
  z_err (run_tree H cfg fuel (NW inner ans) m) <> EFuel ->
  match z_tree (run_tree H cfg fuel (NW inner ans) m) with
  | ONode offs _ _ =>
      forall x, returnedN ans (length offs) = Some x ->
        z_err (run_tree H cfg fuel (NW inner ans) m) = ECode x \/
        (is_to_reader m = true /\ z_err (run_tree H cfg fuel (NW inner ans) m) = ECode (g_code cfg) /\
         (g_size cfg < lenN C)%N)
  | OLeaf _ => True
  end.
Proof. exact run_tree_clause2_toolong. Qed.
Print Assumptions outermost_handler_error_is_result_nested_or_too_long.

(** when clause 2 of the raw monitor fires on the model, the exception of [mon16Nx] applies *)
Theorem clause_2_on_model_is_the_too_long_exception : forall inp,
  dom16NG inp -> In 2%Z (mon16N inp (run16N inp)) -> toolong16N inp (run16N inp) = true.
Proof. exact mon16N_clause2_toolong. Qed.
Print Assumptions clause_2_on_model_is_the_too_long_exception.

(** THE MONITOR THE JUDGE APPLIES IS SILENT ON THE MODEL: every input of [dom16NG]
    (hence of [dom16NF]), every clause, no condition on how the run ends. *)
Theorem judge_monitor_silent_on_model_nested_all : forall inp,
  dom16NG inp -> mon16Nx inp (run16N inp) = [].
Proof. exact mon16Nx_silent_on_model. Qed.
Print Assumptions judge_monitor_silent_on_model_nested_all.

Theorem judge_monitor_silent_on_model_nested_all_F : forall inp,
  dom16NF inp -> mon16Nx inp (run16N inp) = [].
Proof. exact mon16Nx_silent_on_model_F. Qed.
Print Assumptions judge_monitor_silent_on_model_nested_all_F.

(** non-vacuity: the refutation witness of the raw monitor is in the domain *)
Example refutation_witness_in_domain : dom16NG w2_inp.
Proof.
  unfold dom16NG. repeat match goal with |- _ /\ _ => split end.
  - vm_compute. reflexivity.
  - vm_compute. exact I.
  - vm_compute. reflexivity.
  - vm_compute. reflexivity.
  - intros x E. vm_compute in E. inversion E. lia.
Qed.

(** * Non-vacuity.  The shrunk witness of seeded change C16-c (corpus/C16N):
    WithErrorHandler(WithErrorHandler(stream failing after 2 bytes, h1), h0);
    h1's replacement is WithErrorHandler(stream failing after 2 bytes, h2) -
    opened at offset 2, it fails at once; h2 supplies a reader buffer with
    the whole object; ToChunkReader(0, 2). *)
Definition ex_inp : sx := L [A 0; L [A 2; L [A 0; A 0; A 0; A 1; A 0; A 0; A 0; A 0; A 0; A 6; A 0; A 0; A 0; A 0; A 0; A 0; A 0; A 0; A 0; A 0]; A 6]; L [A 4; L [A 4; L [A 0; L [L [A 0; L [A 98; A 99]]; L [A 1; A 6]]]; L [L [A 0; L [A 4; L [A 0; L [L [A 0; L [A 98; A 99]]; L [A 1; A 6]]]; L [L [A 0; L [A 1; A 1; L [L [A 0; L [A 98; A 99; A 99; A 98; A 99; A 97]]]]]]]]]]; L []]; L [A 3; A 0; A 2; A 1]; L [L [L [A 98; A 99; A 99; A 98; A 99; A 97]; L [A 186; A 60; A 219; A 1; A 177; A 155; A 16; A 120; A 122; A 6; A 252; A 16; A 186; A 249; A 144; A 104; A 252; A 253; A 147; A 78]]; L [L [A 98; A 99]; L [A 91; A 37; A 5; A 3; A 154; A 197; A 175; A 158; A 25; A 127; A 93; A 173; A 4; A 17; A 57; A 6; A 169; A 207; A 154; A 42]]]; L [A 98; A 99; A 99; A 98; A 99; A 97]].
Definition ex_obs_seeded : sx := L [L [A 98; A 99; A 98; A 99]; A 3; L [A 3]; L []; L []; L [A 1; L []; A 1; L [L [A 1; L [A 6]; A 1; L [L [A 0; A 1]; L [A 1; L [A 6]; A 1; L [L [A 0; A 1]; L [A 0; A 1]]]]]]]].
Definition ex_obs_model : sx := L [L [A 98; A 99; A 99; A 98]; A 3; L [A 3]; L []; L []; L [A 1; L []; A 1; L [L [A 1; L [A 6]; A 1; L [L [A 0; A 1]; L [A 1; L [A 6]; A 1; L [L [A 0; A 1]; L [A 0; A 1]]]]]]]].

Example ex_in_domain : dom16NF ex_inp.
Proof.
  unfold dom16NF. repeat match goal with |- _ /\ _ => split end.
  - vm_compute. reflexivity.
  - vm_compute. exact I.
  - vm_compute. reflexivity.
  - vm_compute. reflexivity.
  - intros x E. vm_compute in E. inversion E. lia.
  - apply Nat.leb_le. vm_compute. reflexivity.
Qed.
(** the model resumes at offset 2 ... *)
Example ex_model_run : run16N ex_inp = ex_obs_model.
Proof. vm_compute. reflexivity. Qed.
Example ex_monitor_silent_on_model : mon16N ex_inp (run16N ex_inp) = [].
Proof. vm_compute. reflexivity. Qed.
(** ... the implementation with [off: off] dropped resumes at offset 0 and hands
    out bytes 0-1 a second time: clause 7 fires *)
Example ex_monitor_fires_on_seeded_observation : mon16N ex_inp ex_obs_seeded = [7%Z].
Proof. vm_compute. reflexivity. Qed.
Example ex_tree_carries : tcarry [98; 99; 99; 98; 99; 97]%N (n_tree (dec_case16N ex_inp)).
Proof.
  apply (proj1 (tree_ok_carries _)). vm_compute. reflexivity.
Qed.
