(** C20 — Digest / resource-name codecs round-trip and reject bad input; sets obey
    algebra.  Statements only; proofs are in Digest/DigestProofs.v and Digest/SetProofs.v.

    Vocabulary (Digest/DigestModel.v): a Go [Digest] is its packed string [pack d];
    every getter re-parses it with the code's [unpack], whose index operations have an
    explicit [Panic] outcome.  [valid_digest d]: supported function, hash of the function's
    length in lower-case hex, 0 <= size < 2^63, instance name = valid components joined by
    single slashes.  The literal tables come from the Go source (Generated/Consts.v). *)
From Coq Require Import List NArith ZArith Bool Lia.
From BBS Require Import Common.Sx Generated.Consts Digest.DigestModel Digest.SetModel
     Digest.DigestProofs Digest.SetProofs Run.R20.
Import ListNotations.
Open Scope N_scope.

(** ** Packed string: the accessors of a constructed digest return its fields; none panics. *)
Theorem pack_unpack : forall d,
  valid_digest d ->
  get_function_enum (pack d) = Ok (d_fn d) /\
  get_hash_string (pack d) = Ok (d_hash d) /\
  get_size_bytes (pack d) = Ok (d_size d) /\
  get_instance_name (pack d) = Ok (d_inst d) /\
  get_proto (pack d) = Ok (d_hash d, d_size d) /\
  get_key (pack d) 1 = Ok (pack d) /\
  get_key (pack d) 0 = Ok (key0 d) /\
  (exists b, get_hash_bytes (pack d) = Ok b /\ hex_encode b = d_hash d) /\
  (exists b, get_compact_binary (pack d) = Ok (d_fn d :: b ++ put_varint (d_size d))
             /\ hex_encode b = d_hash d /\ N.of_nat (length b) * 2 = N.of_nat (length (d_hash d))).
Proof. exact pack_unpack_accessors. Qed.
Print Assumptions pack_unpack.

(** The validating constructor accepts exactly these fields and yields the packed string. *)
Theorem constructor_accepts_valid : forall d hb,
  valid_digest d -> get_bare_function (d_fn d) 0 = Some (d_fn d, hb) ->
  new_digest (d_inst d) (d_fn d, hb) (d_hash d) (d_size d) = Ok (pack d).
Proof. exact new_digest_valid. Qed.
Print Assumptions constructor_accepts_valid.

(** ** Round trips, for every valid digest, instance name and compressor *)
Theorem read_path_roundtrip : forall d comp,
  valid_digest d -> valid_compressor comp ->
  exists s, get_read_path (pack d) comp = Ok s /\ parse_read_path s = Ok (pack d, comp).
Proof. exact read_path_roundtrip_proof. Qed.
Print Assumptions read_path_roundtrip.

Theorem write_path_roundtrip : forall d uuid comp,
  valid_digest d -> valid_compressor comp -> uuid <> [] -> ~ In slash uuid ->
  exists s, get_write_path (pack d) uuid comp = Ok s /\ parse_write_path s = Ok (pack d, comp).
Proof. exact write_path_roundtrip_proof. Qed.
Print Assumptions write_path_roundtrip.

Theorem proto_roundtrip : forall d,
  valid_digest d ->
  exists f, get_digest_function (d_fn d) 0 = Ok f /\
    exists h s, get_proto (pack d) = Ok (h, s) /\ new_digest (d_inst d) f h s = Ok (pack d).
Proof. exact proto_roundtrip_proof. Qed.
Print Assumptions proto_roundtrip.

(** compact binary: also whatever follows the encoding in the reader is left unread *)
Theorem compact_roundtrip : forall d tail,
  valid_digest d ->
  exists b, get_compact_binary (pack d) = Ok b /\
            new_digest_from_compact_binary (d_inst d) (b ++ tail) = Ok (pack d, tail).
Proof. exact compact_roundtrip_proof. Qed.
Print Assumptions compact_roundtrip.

Theorem varint_roundtrip : forall x tail,
  (- 2 ^ 63 <= x < 2 ^ 63)%Z -> read_varint (put_varint x ++ tail) = Ok (x, tail).
Proof. exact read_put_varint. Qed.
Print Assumptions varint_roundtrip.

(** ** Keys are equal exactly when the fields agree *)
Theorem key_eq_iff_with_instance : forall d1 d2,
  valid_digest d1 -> valid_digest d2 ->
  (get_key (pack d1) 1 = get_key (pack d2) 1 <-> d1 = d2).
Proof. exact key_with_instance_eq_iff. Qed.
Print Assumptions key_eq_iff_with_instance.

Theorem key_eq_iff_without_instance : forall d1 d2,
  valid_digest d1 -> valid_digest d2 ->
  (get_key (pack d1) 0 = get_key (pack d2) 0 <->
   d_fn d1 = d_fn d2 /\ d_hash d1 = d_hash d2 /\ d_size d1 = d_size d2).
Proof. exact key_without_instance_eq_iff. Qed.
Print Assumptions key_eq_iff_without_instance.

(** ** Ancestors: exactly the chain of component prefixes, shortest first *)
Theorem parents_spec : forall d comps,
  valid_digest d -> d_inst d = join_slash comps -> Forall valid_component comps ->
  get_parents (pack d) = Ok (map (fun p => pack (with_instance d (join_slash p))) (prefixes comps)).
Proof. exact parents_spec_proof. Qed.
Print Assumptions parents_spec.

(** ** Totality: no input makes a parser panic (arbitrary byte strings) *)
Theorem parse_total : forall s, parse_read_path s <> Panic /\ parse_write_path s <> Panic.
Proof. exact parse_total_proof. Qed.
Print Assumptions parse_total.

Theorem instance_name_total : forall s, new_instance_name s <> Panic.
Proof. exact instance_name_total_proof. Qed.
Print Assumptions instance_name_total.

Theorem compact_total : forall inst inp, new_digest_from_compact_binary inst inp <> Panic.
Proof. exact compact_total_proof. Qed.
Print Assumptions compact_total.

(** ** Rejection, one statement per malformed class of the property *)
Theorem reject_wrong_length : forall inst f h s,
  N.of_nat (length h) <> 2 * snd f -> new_digest inst f h s = Err InvalidArgument.
Proof. exact reject_wrong_hash_length. Qed.
Print Assumptions reject_wrong_length.

Theorem reject_non_hex : forall inst f h s c,
  In c h -> lowerhex c = false -> new_digest inst f h s = Err InvalidArgument.
Proof. exact reject_non_lowerhex. Qed.
Print Assumptions reject_non_hex.

Theorem reject_uppercase : forall c, 65 <= c <= 70 -> lowerhex c = false.
Proof. exact uppercase_is_not_lowerhex. Qed.
Print Assumptions reject_uppercase.

Theorem reject_negative : forall inst f h s,
  (s < 0)%Z -> new_digest inst f h s = Err InvalidArgument.
Proof. exact reject_negative_size. Qed.
Print Assumptions reject_negative.

Theorem reject_non_numeric : forall s,
  forallb is_digit (strip_sign s) = false -> parse_int s = None.
Proof. exact reject_non_numeric_size. Qed.
Print Assumptions reject_non_numeric.

Theorem reject_overflowing : forall ds,
  ds <> [] -> forallb is_digit ds = true -> 2 ^ 63 <= horner 0 ds -> parse_int ds = None.
Proof. exact reject_overflowing_size. Qed.
Print Assumptions reject_overflowing.

Theorem accepted_size_is_int64 : forall s z, parse_int s = Some z -> (- 2 ^ 63 <= z < 2 ^ 63)%Z.
Proof. exact parse_int_range. Qed.
Print Assumptions accepted_size_is_int64.

Theorem reject_reserved : forall comps c,
  Forall (fun c => c <> []) comps -> In c comps -> In c c20_reserved ->
  new_instance_name_from_components comps = Err InvalidArgument.
Proof. exact reject_reserved_keyword. Qed.
Print Assumptions reject_reserved.

Theorem reject_redundant_slash :
  (forall s, new_instance_name (slash :: s) = Err InvalidArgument) /\
  (forall s, new_instance_name (s ++ [slash]) = Err InvalidArgument) /\
  (forall a b, new_instance_name (a ++ slash :: slash :: b) = Err InvalidArgument).
Proof. exact reject_redundant_slashes. Qed.
Print Assumptions reject_redundant_slash.

Theorem reject_unknown_fn : forall e,
  get_bare_function e 0 = None -> get_digest_function e 0 = Err InvalidArgument.
Proof. exact reject_unknown_function. Qed.
Print Assumptions reject_unknown_fn.

Theorem reject_unknown_comp : forall header name rest,
  validate_components header = Ok tt -> compressor_by_name name = None ->
  parse_common header (c20_compressed_blobs :: name :: rest) = Err Unimplemented.
Proof. exact reject_unknown_compressor. Qed.
Print Assumptions reject_unknown_comp.

Theorem reject_truncated : forall s,
  ((length (fields_by_slash s) < 3)%nat -> parse_read_path s = Err InvalidArgument) /\
  ((length (fields_by_slash s) < 5)%nat -> parse_write_path s = Err InvalidArgument).
Proof. exact reject_truncated_paths. Qed.
Print Assumptions reject_truncated.

(** ** Digest sets: sorted (Go string order, strictly: hence duplicate-free) and equal to the
    mathematical sets.  [sorted l] = StronglySorted by [bltb]. *)
Theorem build_spec : forall l,
  sorted (build l) /\ NoDup (build l) /\ forall x, In x (build l) <-> In x l.
Proof. exact build_spec_proof. Qed.
Print Assumptions build_spec.

Theorem union_spec : forall sets,
  Forall sorted sets ->
  sorted (union sets) /\ NoDup (union sets) /\
  forall x, In x (union sets) <-> exists s, In s sets /\ In x s.
Proof. exact union_spec_proof. Qed.
Print Assumptions union_spec.

Theorem diff_inter_spec : forall a b,
  sorted a -> sorted b ->
  let '(only_a, both, only_b) := diff_inter a b in
  (sorted only_a /\ sorted both /\ sorted only_b) /\
  (forall x, In x only_a <-> In x a /\ ~ In x b) /\
  (forall x, In x both <-> In x a /\ In x b) /\
  (forall x, In x only_b <-> In x b /\ ~ In x a).
Proof. exact diff_inter_spec_proof. Qed.
Print Assumptions diff_inter_spec.

Theorem remove_empty_spec : forall ds,
  Forall valid_digest ds -> sorted (map pack ds) ->
  exists r, remove_empty_blob (map pack ds) = Ok r /\ sorted r /\
    r = map pack (filter (fun d => negb (Z.eqb (d_size d) 0)) ds).
Proof. exact remove_empty_spec_proof. Qed.
Print Assumptions remove_empty_spec.

(** PartitionByInstanceName: one set per instance name, in the order of first occurrence, each
    holding exactly the digests of that instance name in the set's order; no panic. *)
Theorem partition_spec : forall ds,
  Forall valid_digest ds ->
  partition_by_instance_name (map pack ds) =
  Ok (map (fun i => map pack (filter (fun d => beqb (d_inst d) i) ds)) (firsts beqb (map d_inst ds))).
Proof. exact partition_spec_proof. Qed.
Print Assumptions partition_spec.

(** the generic form: for any key function *)
Theorem partition_generic : forall (T K : Type) (keqb : K -> K -> bool),
  (forall a b, keqb a b = true <-> a = b) ->
  forall (key : T -> K) s, partition_by keqb key s = map (part_of keqb key s) (firsts keqb (map key s)).
Proof. exact @partition_by_spec. Qed.
Print Assumptions partition_generic.

(** ** Instance names: every valid name is accepted unchanged *)
Theorem instance_name_accepts_valid : forall v, valid_instance v -> new_instance_name v = Ok v.
Proof. exact instance_name_accepts_valid_proof. Qed.
Print Assumptions instance_name_accepts_valid.

(** ** Whatever a resource name parser accepts is a non-degenerate digest with a known compressor
    (the contrapositive rejects every malformed class at once: wrong length, non-hex, uppercase,
    negative / non-numeric / overflowing size, reserved keyword, unknown function or compressor). *)
Theorem parse_accepts_only_wellformed : forall s v c,
  (parse_read_path s = Ok (v, c) \/ parse_write_path s = Ok (v, c)) ->
  (exists d, valid_digest d /\ v = pack d) /\ valid_compressor c.
Proof. exact parse_sound_proof. Qed.
Print Assumptions parse_accepts_only_wellformed.

(** ** Non-vacuity: concrete instances that meet the hypotheses *)
Definition ex_md5 : bytes := [56; 98; 49; 97; 57; 57; 53; 51; 99; 52; 54; 49; 49; 50; 57; 54; 97; 56; 50; 55; 97; 98; 102; 56; 99; 52; 55; 56; 48; 52; 100; 55].
Definition ex_digest : digest :=
  {| d_fn := 3; d_hash := ex_md5; d_size := 5%Z; d_inst := [97; 47; 46; 46; 47; 98] (* "a/../b" *) |}.
Example ex_digest_valid : valid_digest ex_digest.
Proof.
  constructor; cbn [ex_digest d_fn d_hash d_size d_inst].
  - unfold supported_enums. apply (in_map fst c20_supported (3, [109; 100; 53])). vm_compute. tauto.
  - exists 16. split; reflexivity.
  - reflexivity.
  - lia.
  - exists [[97]; [46; 46]; [98]]. split; [reflexivity|].
    assert (forall c, memb c c20_reserved = false -> c <> [] -> ~ In slash c -> valid_component c) as K.
    { intros c H1 H2 H3. repeat split; try assumption. intro H. apply memb_In in H. congruence. }
    repeat constructor; apply K; try reflexivity; try discriminate;
      cbn; unfold slash; intuition discriminate.
Qed.
(** the read path of "a/../b" keeps the dot-dot component and parses back (finding F8 is the
    pinned code cleaning it away) *)
Definition ex_path : bytes :=
  [97; 47; 46; 46; 47; 98; 47] ++ c20_compressed_blobs ++ [47; 122; 115; 116; 100; 47] ++ ex_md5 ++ [47; 53].
Example ex_read_path :
  get_read_path (pack ex_digest) 1 = Ok ex_path /\ parse_read_path ex_path = Ok (pack ex_digest, 1).
Proof. split; vm_compute; reflexivity. Qed.
Example ex_valid_compressor : valid_compressor 1 /\ valid_compressor 0.
Proof. split; vm_compute; tauto. Qed.
Example ex_union :
  union [[[1]; [3]]; []; [[2]; [3]]; [[1]; [4]]] = [[1]; [2]; [3]; [4]]
  /\ Forall sorted [[[1]; [3]]; []; [[2]; [3]]; [[1]; [4]]].
Proof. split; [vm_compute; reflexivity|]. repeat constructor. Qed.

(** ** The monitor used on implementation observations never fires on the model.

    [judge20] is deterministic ([judge_det]): the model predicts one observation,
    [run20 inp]; the monitor [mon20] - the property as a decidable check, clauses
    1..17 - is silent on it for every input.  [inp_wf20 inp] (Run/R20Proofs.v) is
      - structured digests (kind 3): the size is below 2^63 (an int64);
      - digest sets (kind 6): the universe is a list of canonically written valid
        digests [(inst fn hash size)] (bytes and function as non-negative atoms,
        exactly these four fields) and every set member is an index into it.
    No condition for resource names (arbitrary bytes), instance names and compact
    binary (arbitrary bytes).  harness/c20.go takes sizes as int64 and builds the
    universe entries itself from digests it constructed. *)
From BBS Require Import Run.R20Proofs.

Theorem monitor_silent_on_model : forall inp, inp_wf20 inp -> mon20 inp (run20 inp) = [].
Proof. exact mon20_silent_on_model. Qed.
Print Assumptions monitor_silent_on_model.

(** Each hypothesis is needed: size 2^63 in a structured digest; two universe
    entries differing only in how a byte is written; an entry that is no digest;
    an entry of size 2^64; a set member outside the universe. *)
Example monitor_domain_boundary :
  mon20 (ex_structured (2 ^ 63)) (run20 (ex_structured (2 ^ 63))) = [8; 1; 2; 3; 4; 5]%Z
  /\ (let i := ex_sets (L [ex_entry (L [A 0]) 3 5; ex_entry (L [A (-5)]) 3 5]) (L []) in mon20 i (run20 i) = [6]%Z)
  /\ (let i := ex_sets (L [ex_entry (L [A 97]) 99 5]) (L []) in mon20 i (run20 i) = [6; 13; 14]%Z)
  /\ (let i := ex_sets (L [ex_entry (L [A 97]) 3 (2 ^ 64)]) (L [L [A 0]]) in mon20 i (run20 i) = [14]%Z)
  /\ (let i := ex_sets (L [ex_entry (L [A 97]) 3 5]) (L [L [A 5]]) in mon20 i (run20 i) = [9; 11; 13; 14]%Z).
Proof.
  exact (conj size_bound_needed (conj canonical_entries_needed (conj valid_entries_needed
          (conj entry_size_needed set_index_needed)))).
Qed.

(** Non-vacuity: a set case inside the domain. *)
Example monitor_silent_example : inp_wf20 ex_sets_ok /\ mon20 ex_sets_ok (run20 ex_sets_ok) = []%Z.
Proof. exact (conj ex_sets_ok_wf ex_sets_ok_silent). Qed.
