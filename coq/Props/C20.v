(** C20 — statements only (work in progress). *)
From BBS Require Import Common.Sx Generated.Consts Digest.DigestModel Digest.SetModel Run.R20.
