(** C06 — Index lookups are sound; entries are displaced oldest-first, never
    silently.  Statements only; proofs are in Index/KlmProofs.v and Index/KlmFrame.v.

    Every theorem is about the model Index/Klm.v of HashingKeyLocationMap for
    an ARBITRARY key type with decidable equality, an ARBITRARY slot function
    [slot k a < n] (any hash initialisation, any collisions, any table size n),
    arbitrary attempt limits [maxGet]/[maxPut], and ALL histories of
    Put/Get/PopFront/PushBack from the empty table ([run], by induction). *)
From Coq Require Import List NArith.
From BBS Require Import Index.Klm Index.KlmProofs Index.KlmFrame Index.KlmFnv Index.KlmFnvProofs Index.RecordCodec Index.RecordCodecProofs.
(* -- (keeps lib/checklib.py's dependency scan from reading past the sentence) *)
Import ListNotations.
Local Open Scope nat_scope.

Section C06.
  Variable key : Type.
  Variable key_eqb : key -> key -> bool.
  Hypothesis key_eqb_spec : forall a b, key_eqb a b = true <-> a = b.
  Variable n : nat.
  Variable slot : key -> nat -> nat.
  Hypothesis slot_lt : forall k a, slot k a < n.
  Variables maxGet maxPut : nat.

  Notation run := (run key key_eqb slot maxGet maxPut).
  Notation lookup := (lookup key key_eqb slot maxGet).
  Notation put := (put key key_eqb slot maxGet maxPut).
  Notation Reachable := (Reachable key key_eqb n slot maxGet maxPut).
  Notation Inv := (Inv key n slot).
  Notation klm_put := (klm_put key key_eqb slot maxGet maxPut).
  Notation discards := (discards key key_eqb slot maxGet maxPut).

  (** The probe-order invariant ("everything further along a probe sequence is
      older"; every record sits at its own slot; no record points beyond the
      newest block) holds initially and is preserved by Put, by releasing a
      block and by adding one; hence in every reachable state. *)
  Theorem invariant_initial : forall lo hi, Inv lo hi (repeat None n).
  Proof. exact (inv_empty key n slot). Qed.

  Theorem invariant_put : forall lo hi t k l,
    Inv lo hi t -> valid lo hi l = true -> Inv lo hi (fst (put lo hi t k l)).
  Proof. exact (put_inv key key_eqb n slot slot_lt maxGet maxPut). Qed.

  Theorem invariant_release : forall lo hi t, Inv lo hi t -> Inv (N.succ lo) hi t.
  Proof. exact (release_inv key n slot). Qed.

  Theorem invariant_grow : forall lo hi t, Inv lo hi t -> Inv lo (N.succ hi) t.
  Proof. exact (grow_inv key n slot). Qed.

  Theorem invariant_reachable : forall s, Reachable s -> Inv (lo s) (hi s) (tbl s).
  Proof. exact (reachable_inv key key_eqb n slot slot_lt maxGet maxPut). Qed.

  (** get_sound: a lookup returns only a location that was stored for exactly
      that key (never another key's), lying in a block that has not been
      released. *)
  Theorem get_sound : forall h0 h s k l,
    run (klm_empty key n h0) h = Some s -> lookup s k = Some l ->
    In (OPut k l) h /\ valid (lo s) (hi s) l = true.
  Proof. exact (get_sound_thm key key_eqb key_eqb_spec n slot maxGet maxPut). Qed.

  (** release_exact: releasing a block removes exactly the entries that point
      into it: every lookup is what it was, filtered by the new block window. *)
  Theorem release_exact : forall s k,
    Reachable s ->
    lookup (klm_release key s) k
    = match lookup s k with
      | Some l => if valid (N.succ (lo s)) (hi s) l then Some l else None
      | None => None
      end.
  Proof. exact (release_exact_thm key key_eqb key_eqb_spec n slot slot_lt maxGet maxPut). Qed.

  (** Adding a block changes no lookup. *)
  Theorem grow_frame : forall s k, Reachable s -> lookup (klm_grow key s) k = lookup s k.
  Proof. exact (grow_frame_thm key key_eqb n slot slot_lt maxGet maxPut). Qed.

  (** victim_not_newer: the record a Put reports as discarded (TooManyAttempts
      outcome / too_many_iterations counter) is never newer than the entry
      being stored.  (Any table, not only reachable ones.) *)
  Theorem victim_not_newer : forall lo hi t k l t' o d,
    put lo hi t k l = (t', o) -> discarded o = Some d -> older l (rloc d) = false.
  Proof. exact (victim_not_newer_thm key key_eqb slot maxGet maxPut). Qed.

  (** Records of one key at different probe attempts are strictly ordered by
      age in every reachable state (no ties: IsOlder is strict), which is why
      "the newest" is well defined although sizes are not compared. *)
  Theorem strict_reachable : forall s, Reachable s ->
    forall k a1 l1 a2 l2,
      cand key slot (lo s) (hi s) (tbl s) k a1 l1 -> cand key slot (lo s) (hi s) (tbl s) k a2 l2 ->
      a1 < a2 -> older l2 l1 = true.
  Proof. exact (strict_reachable_thm key key_eqb key_eqb_spec n slot slot_lt maxGet maxPut). Qed.

  (** put_frame: storing an entry leaves the result for every other key
      unchanged, except for the key of the record the Put reports as discarded
      (at most one per Put: [discarded o] is one record or none). *)
  Theorem put_frame : forall s k l s' o k',
    Reachable s -> valid (lo s) (hi s) l = true -> klm_put s k l = (s', o) ->
    k' <> k -> (forall d, discarded o = Some d -> rkey d <> k') ->
    lookup s' k' = lookup s k'.
  Proof. exact (put_frame_thm key key_eqb key_eqb_spec n slot slot_lt maxGet maxPut). Qed.

  (** put_self: unless the Put reports a discard of a record of the key itself,
      the key now maps to the newer of its previous location and the new one
      (a tie keeps the previous one). *)
  Theorem put_self : forall s k l s' o,
    Reachable s -> valid (lo s) (hi s) l = true -> klm_put s k l = (s', o) ->
    (forall d, discarded o = Some d -> rkey d <> k) ->
    lookup s' k = Some (match lookup s k with
                        | Some l0 => if older l0 l then l else l0
                        | None => l
                        end).
  Proof. exact (put_self_thm key key_eqb key_eqb_spec n slot slot_lt maxGet maxPut). Qed.

  (** victim_falls_back: whatever a Put leaves for ANY key (victim or not) is
      the new location (only for the key stored), or what the key had before,
      or a strictly older location that was already in the table (valid and
      stored for that key by get_sound) -- or nothing. *)
  Theorem victim_falls_back : forall s k l s' o k' x,
    Reachable s -> valid (lo s) (hi s) l = true -> klm_put s k l = (s', o) ->
    lookup s' k' = Some x ->
    (k' = k /\ x = l) \/
    exists prev, lookup s k' = Some prev /\ (x = prev \/ older x prev = true).
  Proof. exact (put_falls_back_thm key key_eqb key_eqb_spec n slot slot_lt maxGet maxPut). Qed.

  (** no_discard_newest: if no discard was reported in the history, the index
      IS the map key -> newest valid stored location (refinement to
      [amap_run], the fold of [amap_put] over the Puts of the history). *)
  Theorem no_discard_newest : forall h0 h s,
    run (klm_empty key n h0) h = Some s -> discards (klm_empty key n h0) h = [] ->
    forall k, lookup s k = amap_get key (lo s) (hi s) (amap_run key key_eqb (amap_empty key) h) k.
  Proof. exact (no_discard_newest_thm key key_eqb key_eqb_spec n slot slot_lt maxGet maxPut). Qed.
End C06.

Print Assumptions invariant_initial.
Print Assumptions invariant_put.
Print Assumptions invariant_release.
Print Assumptions invariant_grow.
Print Assumptions invariant_reachable.
Print Assumptions get_sound.
Print Assumptions release_exact.
Print Assumptions grow_frame.
Print Assumptions victim_not_newer.
Print Assumptions strict_reachable.
Print Assumptions put_frame.
Print Assumptions put_self.
Print Assumptions victim_falls_back.
Print Assumptions no_discard_newest.


(** The theorems apply to the real slot function (FNV-1a over key bytes and
    little-endian attempt, any hash initialisation, modulo any positive number
    of records): e.g. soundness and the refinement. *)
Theorem get_sound_fnv : forall init n maxGet maxPut h0 h s k l,
  run bkey bkey_eqb (fnv_slot init n) maxGet maxPut (klm_empty bkey n h0) h = Some s ->
  lookup bkey bkey_eqb (fnv_slot init n) maxGet s k = Some l ->
  In (OPut k l) h /\ valid (lo s) (hi s) l = true.
Proof. exact (fun init n => get_sound bkey bkey_eqb (fun a b => bkey_eqb_spec a b) n (fnv_slot init n)). Qed.
Print Assumptions get_sound_fnv.

Theorem no_discard_newest_fnv : forall init n maxGet maxPut, (0 < n)%nat -> forall h0 h s,
  run bkey bkey_eqb (fnv_slot init n) maxGet maxPut (klm_empty bkey n h0) h = Some s ->
  discards bkey bkey_eqb (fnv_slot init n) maxGet maxPut (klm_empty bkey n h0) h = [] ->
  forall k, lookup bkey bkey_eqb (fnv_slot init n) maxGet s k
            = amap_get bkey (lo s) (hi s) (amap_run bkey bkey_eqb (amap_empty bkey) h) k.
Proof.
  exact (fun init n maxGet maxPut Hn =>
           no_discard_newest bkey bkey_eqb (fun a b => bkey_eqb_spec a b) n (fnv_slot init n)
                             (fun k a => fnv_slot_lt init n k a Hn) maxGet maxPut).
Qed.
Print Assumptions no_discard_newest_fnv.

(** codec_roundtrip: a well-formed record written in the 66-byte layout of the
    block-device backed array (widths regenerated from the source) is read back
    unchanged under the same epoch hash seed. *)
Theorem codec_roundtrip : forall seed r, wf_drec r -> decode seed (encode seed r) = Some r.
Proof. exact codec_roundtrip_thm. Qed.
Print Assumptions codec_roundtrip.

(** stale_seed_invalid: a record written under one epoch hash seed is rejected
    under any other 64-bit seed (restarts after crashes reuse epoch ids with a
    different seed): FNV-1a with the source's prime is injective in its start
    value. *)
Theorem stale_seed_invalid : forall seed seed' r,
  wf_drec r -> (seed < 2 ^ 64)%N -> (seed' < 2 ^ 64)%N -> seed <> seed' ->
  decode seed' (encode seed r) = None.
Proof. exact stale_seed_invalid_thm. Qed.
Print Assumptions stale_seed_invalid.

(** Non-vacuity: keys 0,1,2 all probing slots 0 then 1 of a two-record table
    (total collision), maxGet 2, maxPut 3.  Three Puts of increasingly new
    locations: the third displaces both others and the oldest is reported as
    discarded (TooManyAttempts); the victim (key 0) falls back to nothing, key 1
    keeps its location, key 2 has the new one; releasing block 0 then removes
    exactly the entries in block 0. *)
Definition ex_slot (k a : nat) : nat := Nat.modulo a 2.
Definition ex_loc (b o : N) : loc := {| blk := b; off := o; size := 1 |}.
Definition ex_hist : list (op nat) :=
  [OPut 0%nat (ex_loc 0 0); OPut 1%nat (ex_loc 0 1); OGrow; OPut 2%nat (ex_loc 1 0)].

Example ex_discard :
  exists s, run nat Nat.eqb ex_slot 2 3 (klm_empty nat 2 1) ex_hist = Some s
    /\ map rloc (discards nat Nat.eqb ex_slot 2 3 (klm_empty nat 2 1) ex_hist) = [ex_loc 0 0]
    /\ map (lookup nat Nat.eqb ex_slot 2 s) [0; 1; 2]%nat = [None; Some (ex_loc 0 1); Some (ex_loc 1 0)]
    /\ map (lookup nat Nat.eqb ex_slot 2 (klm_release nat s)) [0; 1; 2]%nat = [None; None; Some (ex_loc 1 0)].
Proof. eexists. vm_compute. repeat split; reflexivity. Qed.

(** a history without discards on a totally colliding three-record table
    (maxGet 3, maxPut 4): the third Put displaces two records, none is lost;
    the refinement's hypotheses are met and the lookups are the newest stored
    locations. *)
Definition ex_slot3 (k a : nat) : nat := Nat.modulo a 3.
Example ex_no_discard :
  let h := [OPut 0%nat (ex_loc 0 0); OPut 1%nat (ex_loc 0 1); OPut 0%nat (ex_loc 0 2); OPut 1%nat (ex_loc 0 1)] in
  discards nat Nat.eqb ex_slot3 3 4 (klm_empty nat 3 1) h = []
  /\ exists s, run nat Nat.eqb ex_slot3 3 4 (klm_empty nat 3 1) h = Some s
      /\ map (lookup nat Nat.eqb ex_slot3 3 s) [0; 1]%nat = [Some (ex_loc 0 2); Some (ex_loc 0 1)]
      /\ map (amap_get nat (lo s) (hi s) (amap_run nat Nat.eqb (amap_empty nat) h)) [0; 1]%nat
         = [Some (ex_loc 0 2); Some (ex_loc 0 1)].
Proof. vm_compute. split; [reflexivity|]. eexists. repeat split; reflexivity. Qed.

Example ex_codec :
  let r := {| d_epoch := 7; d_bfl := 2; d_key := repeat 171%N 32; d_att := 3; d_off := 2 ^ 63 - 1; d_size := 5 |} in
  length (encode 99 r) = 66 /\ decode 99 (encode 99 r) = Some r /\ decode 98 (encode 99 r) = None.
Proof. vm_compute. repeat split; reflexivity. Qed.

(** ** The monitor is silent on the model

    [mon06] (the property as a decidable check on an observation: soundness,
    frame with at most one victim per reported discard, victims fall back to
    older locations, victims are not newer than the entry stored, the key
    stored, exact release, refinement without discards; record round trip)
    never fires on what the model itself predicts, for every well-formed input
    [wf06]:
    - history cases: the operations respect the block window ([wf_ops]: a Put
      names a block in [lo, hi), PopFront finds a block, kinds are 0..3) --
      exactly what the harness validates; ANY table size (including 0), keys
      (equal byte strings under different indices, indices beyond the key
      list), attempt limits, hash initialisation;
    - codec cases: only when the monitor compares at all (same seed, no
      damaged byte): the key has 32 entries and attempt < 2^32, offset and
      size < 2^64 (epoch id, blocks-from-last and key "bytes" are arbitrary).
    Every hypothesis is necessary ([monitor_on_model_needs_*]); none of the
    counterexample inputs is accepted by the harness. *)
From BBS Require Import Common.Sx Common.SxFactsMA Index.MonSilentKlm Index.MonSilentCodec Run.R06 Run.R06Proofs.

Theorem monitor_silent_on_model : forall inp, wf06 inp -> mon06 inp (run06 inp) = nil.
Proof. exact mon06_silent. Qed.
Print Assumptions monitor_silent_on_model.

(** the two new model theorems behind clauses 4 and 5 (any slot function):
    a key whose location is newer than the one being stored keeps it, so a key
    whose lookup changes had a location that is not newer; the key stored ends
    with the newer of (previous, new) or -- only when a discard is reported --
    with what it had. *)
Theorem put_keeps_newer_locations :
  forall (key : Type) (key_eqb : key -> key -> bool), (forall a b, key_eqb a b = true <-> a = b) ->
  forall (n : nat) (slot : key -> nat -> nat), (forall k a, (slot k a < n)%nat) ->
  forall (maxGet maxPut : nat) (s : klm key) k l s' o k' p,
    InvS2 key n slot maxGet s -> valid (lo s) (hi s) l = true ->
    klm_put key key_eqb slot maxGet maxPut s k l = (s', o) ->
    lookup key key_eqb slot maxGet s k' = Some p -> older l p = true ->
    lookup key key_eqb slot maxGet s' k' = Some p.
Proof. exact put_newer_kept. Qed.
Print Assumptions put_keeps_newer_locations.

Theorem put_own_key_outcome :
  forall (key : Type) (key_eqb : key -> key -> bool), (forall a b, key_eqb a b = true <-> a = b) ->
  forall (n : nat) (slot : key -> nat -> nat), (forall k a, (slot k a < n)%nat) ->
  forall (maxGet maxPut : nat) (s : klm key) k l s' o,
    InvS2 key n slot maxGet s -> valid (lo s) (hi s) l = true ->
    klm_put key key_eqb slot maxGet maxPut s k l = (s', o) ->
    lookup key key_eqb slot maxGet s' k = Some (newest (lookup key key_eqb slot maxGet s k) l)
    \/ lookup key key_eqb slot maxGet s' k = lookup key key_eqb slot maxGet s k.
Proof. exact put_self_or. Qed.
Print Assumptions put_own_key_outcome.

Example monitor_on_model_needs_put_in_window :
  let inp := ex_hist 1 [L [A 0; A 0; A 5; A 0; A 1]]%Z in ~ wf06 inp /\ mon06 inp (run06 inp) = [5%Z].
Proof. exact mon06_needs_put_in_window. Qed.
Example monitor_on_model_needs_pop_with_block :
  let inp := ex_hist 0 [L [A 2]; L [A 3]; L [A 0; A 0; A 0; A 0; A 1]]%Z in
  ~ wf06 inp /\ mon06 inp (run06 inp) = [1%Z; 7%Z].
Proof. exact mon06_needs_pop_with_block. Qed.
Example monitor_on_model_needs_known_kinds :
  let inp := ex_hist 0 [L [A 4]; L [A 0; A 0; A 0; A 0; A 1]]%Z in
  ~ wf06 inp /\ mon06 inp (run06 inp) = [1%Z; 7%Z].
Proof. exact mon06_needs_known_kinds. Qed.
Example monitor_on_model_needs_key_32_bytes :
  let inp := ex_codec (List.repeat (A 7) 31) 0 0 0 in ~ wf06 inp /\ mon06 inp (run06 inp) = [8%Z].
Proof. exact mon06_needs_key_32_bytes. Qed.
Example monitor_on_model_needs_attempt_32_bits :
  let inp := ex_codec (List.repeat (A 7) 32) (2 ^ 32) 0 0 in ~ wf06 inp /\ mon06 inp (run06 inp) = [8%Z].
Proof. exact mon06_needs_attempt_32_bits. Qed.
Example monitor_on_model_needs_offset_64_bits :
  let inp := ex_codec (List.repeat (A 7) 32) 0 (2 ^ 64) 0 in ~ wf06 inp /\ mon06 inp (run06 inp) = [8%Z].
Proof. exact mon06_needs_offset_64_bits. Qed.
Example monitor_on_model_needs_size_64_bits :
  let inp := ex_codec (List.repeat (A 7) 32) 0 0 (2 ^ 64) in ~ wf06 inp /\ mon06 inp (run06 inp) = [8%Z].
Proof. exact mon06_needs_size_64_bits. Qed.
Example wf06_nonvacuous_history :
  wf06 (L [A 0; A 0; A 2; A 2; A 3; A 7; A 1; L [L [A 1]; L [A 2]; L [A 3]; L [A 1]];
           L [L [A 0; A 0; A 0; A 0; A 1]; L [A 0; A 1; A 0; A 1; A 1]; L [A 3]; L [A 0; A 2; A 1; A 0; A 1];
              L [A 1; A 3]; L [A 0; A 3; A 1; A 5; A 2]; L [A 2]; L [A 1; A 0]]]%Z).
Proof. exact wf06_hist_example. Qed.
Example wf06_nonvacuous_codec :
  wf06 (L [A 1; A (2 ^ 40); A (2 ^ 20); L (A 300 :: List.repeat (A 7) 31); A 1; A 2; A 3; A 7; A 7; A 66]%Z).
Proof. exact wf06_codec_example. Qed.

(** For the judge the driver runs: "agree" implies "no violation". *)
Theorem judge_agree_implies_no_violation : forall inp obs,
  wf06 inp -> judged_agree (judge06 inp obs) = true -> judged_violates (judge06 inp obs) = false.
Proof. exact judge06_agree_not_violates. Qed.
Print Assumptions judge_agree_implies_no_violation.
