(** C06 — Index lookups are sound; entries are displaced oldest-first, never
    silently.  Statements only; proofs are in Index/KlmProofs.v (+ KlmFrame.v).

    Every theorem is about the model Index/Klm.v of HashingKeyLocationMap for
    an ARBITRARY key type with decidable equality, an ARBITRARY slot function
    [slot k a < n] (any hash initialisation, any collisions, any table size n),
    arbitrary attempt limits [maxGet]/[maxPut], and ALL histories of
    Put/Get/PopFront/PushBack from the empty table ([run], by induction). *)
From Coq Require Import List NArith.
From BBS Require Import Index.Klm Index.KlmProofs.

Section C06.
  Variable key : Type.
  Variable key_eqb : key -> key -> bool.
  Hypothesis key_eqb_spec : forall a b, key_eqb a b = true <-> a = b.
  Variable n : nat.
  Variable slot : key -> nat -> nat.
  Hypothesis slot_lt : forall k a, slot k a < n.
  Variables maxGet maxPut : nat.

  Notation run := (run key key_eqb slot maxGet maxPut).
  Notation lookup := (lookup key key_eqb slot maxGet).
  Notation put := (put key key_eqb slot maxGet maxPut).
  Notation Reachable := (Reachable key key_eqb n slot maxGet maxPut).
  Notation Inv := (Inv key n slot).

  (** The probe-order invariant ("everything further along a probe sequence is
      older"; every record sits at its own slot; no record points beyond the
      newest block) holds initially and is preserved by Put, by releasing a
      block and by adding one; hence in every reachable state. *)
  Theorem invariant_initial : forall lo hi, Inv lo hi (repeat None n).
  Proof. exact (inv_empty key n slot). Qed.

  Theorem invariant_put : forall lo hi t k l,
    Inv lo hi t -> valid lo hi l = true -> Inv lo hi (fst (put lo hi t k l)).
  Proof. exact (put_inv key key_eqb n slot slot_lt maxGet maxPut). Qed.

  Theorem invariant_release : forall lo hi t, Inv lo hi t -> Inv (N.succ lo) hi t.
  Proof. exact (release_inv key n slot). Qed.

  Theorem invariant_grow : forall lo hi t, Inv lo hi t -> Inv lo (N.succ hi) t.
  Proof. exact (grow_inv key n slot). Qed.

  Theorem invariant_reachable : forall s, Reachable s -> Inv (lo s) (hi s) (tbl s).
  Proof. exact (reachable_inv key key_eqb n slot slot_lt maxGet maxPut). Qed.

  (** get_sound: a lookup returns only a location that was stored for exactly
      that key (never another key's), lying in a block that has not been
      released. *)
  Theorem get_sound : forall h0 h s k l,
    run (klm_empty key n h0) h = Some s -> lookup s k = Some l ->
    In (OPut k l) h /\ valid (lo s) (hi s) l = true.
  Proof. exact (get_sound_thm key key_eqb key_eqb_spec n slot maxGet maxPut). Qed.

  (** release_exact: releasing a block removes exactly the entries that point
      into it: every lookup is what it was, filtered by the new block window. *)
  Theorem release_exact : forall s k,
    Reachable s ->
    lookup (klm_release key s) k
    = match lookup s k with
      | Some l => if valid (N.succ (lo s)) (hi s) l then Some l else None
      | None => None
      end.
  Proof. exact (release_exact_thm key key_eqb key_eqb_spec n slot slot_lt maxGet maxPut). Qed.

  (** Adding a block changes no lookup. *)
  Theorem grow_frame : forall s k, Reachable s -> lookup (klm_grow key s) k = lookup s k.
  Proof. exact (grow_frame_thm key key_eqb n slot slot_lt maxGet maxPut). Qed.

  (** victim_not_newer: the record a Put reports as discarded (TooManyAttempts
      outcome / too_many_iterations counter) is never newer than the entry
      being stored.  (Any table, not only reachable ones.) *)
  Theorem victim_not_newer : forall lo hi t k l t' o d,
    put lo hi t k l = (t', o) -> discarded o = Some d -> older l (rloc d) = false.
  Proof. exact (victim_not_newer_thm key key_eqb slot maxGet maxPut). Qed.
End C06.

Print Assumptions invariant_initial.
Print Assumptions invariant_put.
Print Assumptions invariant_release.
Print Assumptions invariant_grow.
Print Assumptions invariant_reachable.
Print Assumptions get_sound.
Print Assumptions release_exact.
Print Assumptions grow_frame.
Print Assumptions victim_not_newer.
