(** C06 placeholder *)
From BBS Require Import Index.Klm.
