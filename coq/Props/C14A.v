(** C14A — sub-check of C14: "a client and server of this repository
    connected back to back behave like the backend they front", for the
    ACTION CACHE (grpcclients.NewACBlobAccess in front of
    grpcservers.NewActionCacheServer), over all digest functions the
    repository supports.  The Action Cache is a map keyed by (instance name,
    digest function, hash, size) and is not content addressed: client∘server
    must be the identity on keys, in particular on the digest function —
    SHA256 / BLAKE3 / SHA256TREE hashes (64 hex digits) and SHA1 / GITSHA1
    hashes (40) cannot be told apart by their length.

    Model: Rpc/ActionCache.v ([server_digest]: NewInstanceName,
    GetDigestFunction with the inference from the hash length when the
    digest_function field is UNKNOWN, NewDigestFromProto; [client_request]:
    the request carries the digest's own function). *)
From Coq Require Import List ZArith Bool.
From BBS Require Import Common.Sx Rpc.ActionCache Rpc.ActionCacheProofs Run.R14A Run.R14AProofs.
Import ListNotations.
Open Scope Z_scope.

(** ** client_server_ac_*: for every set of valid instance names, every
    state of the backend, every well-formed key (valid instance name,
    supported function, hash of that function's length, size >= 0). *)

(** identity on keys: the server derives exactly the key the caller named *)
Theorem client_server_ac_identity_on_keys : forall inst_ok k,
  key_wf inst_ok k = true -> server_digest inst_ok (client_request k) = inr k.
Proof. exact server_digest_wf. Qed.
Print Assumptions client_server_ac_identity_on_keys.

(** Put succeeds, the backend receives one Put of exactly that key, and a
    Get of the same key returns the stored value from exactly that key *)
Theorem client_server_ac_put_get : forall inst_ok st k v,
  key_wf inst_ok k = true ->
  exists st', client_put inst_ok st k v = (st', mkR 0 0 [(false, k)])
    /\ client_get inst_ok st' k = mkR 0 v [(true, k)].
Proof. exact client_server_put_get. Qed.
Print Assumptions client_server_ac_put_get.

(** a write under one key never shows up under another — in particular not
    under the same instance name, hash and size with another digest function *)
Theorem client_server_ac_put_other_key : forall inst_ok st k k' v,
  key_wf inst_ok k = true -> key_wf inst_ok k' = true -> k <> k' ->
  client_get inst_ok (fst (client_put inst_ok st k v)) k' = client_get inst_ok st k'.
Proof. exact client_server_put_other. Qed.
Print Assumptions client_server_ac_put_other_key.

(** a key the backend does not hold is NOT_FOUND, and the backend is asked for that key *)
Theorem client_server_ac_not_found : forall inst_ok st k,
  key_wf inst_ok k = true -> ac_get st k = None ->
  client_get inst_ok st k = mkR cNotFoundAC 0 [(true, k)].
Proof. exact client_server_not_found. Qed.
Print Assumptions client_server_ac_not_found.

(** ** the server's handling of the digest_function field *)

(** any request: the key used keeps instance name, hash and size, is well
    formed, carries the requested function unless that is UNKNOWN, and
    otherwise the function inferred from the hash length *)
Theorem server_key_of_request : forall inst_ok q k,
  server_digest inst_ok q = inr k ->
  key_wf inst_ok k = true /\ k_inst k = k_inst q /\ k_len k = k_len q /\ k_hi k = k_hi q /\ k_size k = k_size q
  /\ (k_fn q <> 0 -> k_fn k = k_fn q) /\ (k_fn q = 0 -> infer_fn (k_len q) = Some (k_fn k)).
Proof. exact server_digest_inr. Qed.
Print Assumptions server_key_of_request.

Theorem server_rejects_with_invalid_argument : forall inst_ok q c,
  server_digest inst_ok q = inl c -> c = cInvalidArgument.
Proof. exact server_digest_inl. Qed.
Print Assumptions server_rejects_with_invalid_argument.

(** inference yields a legacy function (MD5 .. SHA512) of that hash length *)
Theorem inference_is_legacy : forall len f, infer_fn len = Some f -> 1 <= f <= 5 /\ fn_len f = Some len.
Proof. exact infer_fn_legacy. Qed.
Print Assumptions inference_is_legacy.

(** for legacy keys a request without the field means the same key ... *)
Theorem unknown_function_legacy_same_key : forall inst_ok k,
  key_wf inst_ok k = true -> 1 <= k_fn k <= 5 ->
  server_digest inst_ok (mkK (k_inst k) 0 (k_len k) (k_hi k) (k_size k)) = inr k.
Proof. exact unknown_function_same_key. Qed.
Print Assumptions unknown_function_legacy_same_key.

(** ... for BLAKE3, SHA256TREE and GITSHA1 keys it means ANOTHER key: the
    client must send the function (the model's reason for [client_request]) *)
Theorem unknown_function_new_other_key : forall inst_ok k k',
  key_wf inst_ok k = true -> 6 <= k_fn k <= 8 ->
  server_digest inst_ok (mkK (k_inst k) 0 (k_len k) (k_hi k) (k_size k)) = inr k' ->
  k' <> k /\ 1 <= k_fn k' <= 5.
Proof. exact unknown_function_other_key. Qed.
Print Assumptions unknown_function_new_other_key.

(** ** The monitor (Run/R14A.v, mon14A) applied to implementation
    observations is silent on every observation the judge accepts as agreeing
    with the model, and on the model's own output: for all histories.
    Hypothesis: the operations through the client carry well-formed keys (the
    client's argument is a digest.Digest). *)
Theorem monitor_silent_on_agreeing_observation_ac : forall inp obs,
  inp_wf14A inp -> agree14A (run14A inp) obs = true -> mon14A inp obs = [].
Proof. exact mon14A_silent_on_agreeing. Qed.
Print Assumptions monitor_silent_on_agreeing_observation_ac.

Theorem model_outcome_is_accepted_ac : forall inp, agree14A (run14A inp) (run14A inp) = true.
Proof. exact agree14A_model. Qed.
Print Assumptions model_outcome_is_accepted_ac.

Theorem monitor_silent_on_model_ac : forall inp, inp_wf14A inp -> mon14A inp (run14A inp) = [].
Proof. exact mon14A_silent_on_model. Qed.
Print Assumptions monitor_silent_on_model_ac.

(** ** Non-vacuity *)

(** Put under BLAKE3 (6), Get under BLAKE3, SHA256 (3) and SHA256TREE (7) with
    the same instance name, hash and size; a raw Get without the function
    (inferred: SHA256); a raw Update without the function, read back under
    SHA256; a raw request with a hash length no function has. *)
Definition example_history : sx :=
  L [L [L [A 0; A 1; A 6; A 64; A 0; A 11; A 7];
        L [A 1; A 1; A 6; A 64; A 0; A 11; A 0];
        L [A 1; A 1; A 3; A 64; A 0; A 11; A 0];
        L [A 1; A 1; A 7; A 64; A 0; A 11; A 0];
        L [A 3; A 1; A 0; A 64; A 0; A 11; A 0];
        L [A 2; A 1; A 0; A 64; A 0; A 11; A 9];
        L [A 1; A 1; A 3; A 64; A 0; A 11; A 0];
        L [A 3; A 1; A 0; A 10; A 0; A 11; A 0]]].

Example history_in_domain :
  inp_wf14A example_history
  /\ run14A example_history =
     L [L [L [A 0; A 0; L [L [A 0; A 1; A 6; A 64; A 0; A 11]]];
           L [A 0; A 7; L [L [A 1; A 1; A 6; A 64; A 0; A 11]]];
           L [A 5; A 0; L [L [A 1; A 1; A 3; A 64; A 0; A 11]]];
           L [A 5; A 0; L [L [A 1; A 1; A 7; A 64; A 0; A 11]]];
           L [A 5; A 0; L [L [A 1; A 1; A 3; A 64; A 0; A 11]]];
           L [A 0; A 0; L [L [A 0; A 1; A 3; A 64; A 0; A 11]]];
           L [A 0; A 9; L [L [A 1; A 1; A 3; A 64; A 0; A 11]]];
           L [A 3; A 0; L []]];
        L [L [A 1; A 3; A 64; A 0; A 11; A 9]; L [A 1; A 6; A 64; A 0; A 11; A 7]]].
Proof.
  split; [|vm_compute; reflexivity].
  unfold inp_wf14A. cbn [example_history sx_nth sx_list nth].
  repeat (apply Forall_cons;
          [unfold op_wf14A; intros [H|H]; try (vm_compute in H; discriminate); vm_compute; reflexivity|]).
  apply Forall_nil.
Qed.

(** The monitor is not trivially silent: the observation of a client that
    does not send the digest function (the server files the BLAKE3 result
    under the SHA256 key; Get under BLAKE3 is NOT_FOUND, Get under SHA256
    returns a value never written there) violates clauses 2, 1, 1 and 5. *)
Example monitor_fires_on_dropped_function :
  mon14A (L [L [L [A 0; A 1; A 6; A 64; A 0; A 11; A 7];
                L [A 1; A 1; A 6; A 64; A 0; A 11; A 0];
                L [A 1; A 1; A 3; A 64; A 0; A 11; A 0]]])
    (L [L [L [A 0; A 0; L [L [A 0; A 1; A 3; A 64; A 0; A 11]]];
           L [A 5; A 0; L [L [A 1; A 1; A 6; A 64; A 0; A 11]]];
           L [A 0; A 7; L [L [A 1; A 1; A 3; A 64; A 0; A 11]]]];
        L [L [A 1; A 3; A 64; A 0; A 11; A 7]]]) = [2; 1; 1; 5].
Proof. vm_compute. reflexivity. Qed.

(** The hypothesis of the monitor theorem is needed: a "client" operation
    without a digest function is outside the client's domain; the model
    sends it on, the server infers SHA256, and clause 4 fires on the model. *)
Example wf_needed :
  let inp := L [L [L [A 0; A 1; A 0; A 64; A 0; A 11; A 7]]] in
  mon14A inp (run14A inp) <> [].
Proof. vm_compute. discriminate. Qed.
