(** C08 — detected corruption is quarantined: affected and older blocks are
    not served.  Statements only; proofs are in Store/P08*.v.  The object is
    the executable store model Store/Model.v (tied to pkg/blobstore/local by
    the differential harness).  "All schedules" = all event lists [es] (any
    length, any interleaving at the model's step granularity, OCorrupt events
    anywhere, any number); "all states" statements hold in particular in
    every reachable state.  None of the statements needs a well-formedness
    hypothesis on the world. *)
From Coq Require Import List NArith ZArith Bool Arith.
From BBS Require Import Common.Sx Store.Model Store.Wf Store.P08Frame Store.P08Step Store.P08Quarantine
  Store.P08Monitor Store.P08Accept Run.RStore Run.R08.
Import ListNotations.
Open Scope N_scope.

(** ---- 1. detect_fails_internal ---- *)

(** The detection proper: a read through a validating store whose bytes
    differ from the object's content counts a negative verdict and raises the
    quarantine boundary above the block that was read. *)
Theorem detect_raises_boundary : forall w s o u l bytes s',
  read_validated w s o u l = (false, bytes, s') ->
  bytes <> content w o /\ s_negs s' = S (s_negs s) /\
  s_tbr s' = N.max (s_tbr s) (l_abs l + 1) /\ l_abs l + 1 <= s_tbr s' /\ s_tbr s <= s_tbr s'.
Proof. exact detect_read_validated. Qed.
Print Assumptions detect_raises_boundary.

(** Every step of every operation: if the verdict counter grows, the
    operation's output carries INTERNAL (Done 13 / Missing 13), so it is
    never [Done 0]; the counter grows by at most one; the boundary never
    decreases. *)
Theorem detect_fails_internal : forall w s e s' out,
  step w s e = (s', out) ->
  (s_negs s' = s_negs s \/ (s_negs s' = S (s_negs s) /\ out_internal out)) /\ s_tbr s <= s_tbr s'.
Proof. exact detect_step. Qed.
Print Assumptions detect_fails_internal.

Theorem internal_is_never_ok : forall out, out_internal out -> forall b, out <> Done cOK b.
Proof. exact out_internal_not_ok. Qed.
Print Assumptions internal_is_never_ok.

(** ... and conversely a mismatch IS detected by each reading operation: *)
Theorem detect_fails_internal_get : forall w s tid o uid l r fk s' out,
  thr_get (s_threads s) tid = Some (TGet o uid l r fk) ->
  fst (fst (read_validated w s o uid l)) = false ->
  step w s (OGetConsume tid) = (s', out) ->
  out = Done cInternal [] /\ s_negs s' = S (s_negs s) /\ l_abs l + 1 <= s_tbr s'.
Proof. exact detect_get_consume. Qed.
Print Assumptions detect_fails_internal_get.

Theorem detect_fails_internal_composite_hier : forall w s tid o uid l r fk slices s' out,
  thr_get (s_threads s) tid = Some (TGet o uid l r fk) ->
  fst (fst (read_validated w s o uid l)) = false ->
  step w s (OGfcSlice tid slices) = (s', out) ->
  out = Done cInternal [] /\ s_negs s' = S (s_negs s) /\ l_abs l + 1 <= s_tbr s'.
Proof. exact detect_slice_hier. Qed.
Print Assumptions detect_fails_internal_composite_hier.

Theorem detect_fails_internal_composite_flat : forall w s tid p i uid pl r pk slices s' out,
  thr_get (s_threads s) tid = Some (TGfc p i uid pl r pk) ->
  fst (fst (read_validated w s p uid pl)) = false ->
  step w s (OGfcSlice tid slices) = (s', out) ->
  out = Done cInternal [] /\ s_negs s' = S (s_negs s) /\ l_abs pl + 1 <= s_tbr s' /\ s_index s' = s_index s.
Proof. exact detect_slice_flat. Qed.
Print Assumptions detect_fails_internal_composite_flat.

Theorem detect_fails_internal_find_missing : forall w s ds s' out,
  step w s (OFindMissing ds) = (s', out) -> s_negs s' <> s_negs s ->
  out = Missing cInternal [] /\ s_negs s' = S (s_negs s).
Proof. exact detect_find_missing. Qed.
Print Assumptions detect_fails_internal_find_missing.

(** the FindMissing refresh of one digest: the location the digest resolved
    to failed validation and the boundary now lies above its block *)
Theorem detect_fails_internal_refresh : forall w s o i r s',
  fm_refresh_one w s o i = (r, s') -> s_negs s' <> s_negs s ->
  r = Err cInternal /\ s_negs s' = S (s_negs s) /\
  exists k l, least_specific s (lookup_keys w o i) = Some (k, l) /\ l_abs l + 1 <= s_tbr s'.
Proof. exact detect_fm_refresh_one. Qed.
Print Assumptions detect_fails_internal_refresh.

(** no false alarm: bytes equal to the content are never condemned *)
Theorem no_detection_on_intact_bytes : forall w s o u l,
  read_block s u (l_off l) (l_size l) = content w o -> fst (fst (read_validated w s o u l)) = true.
Proof. exact read_validated_sound. Qed.
Print Assumptions no_detection_on_intact_bytes.

Theorem boundary_monotone_on_schedules : forall w es s, s_tbr s <= s_tbr (exec w s es).
Proof. exact exec_tbr_mono. Qed.
Print Assumptions boundary_monotone_on_schedules.

(** ---- 2. quarantine_hides ---- *)

(** every lookup resolves outside the quarantine *)
Theorem resolved_location_outside_quarantine : forall s k l,
  index_get s k = Some l -> s_tbr s <= l_abs l.
Proof. exact index_get_quarantine. Qed.
Print Assumptions resolved_location_outside_quarantine.

(** On traces: once the boundary has been raised to B+1 (by a detection in
    block B, theorem detect_raises_boundary), no OGetOpen invoked later parks
    a reader on a block with absolute number <= B ... *)
Theorem quarantine_hides : forall w s0 es1 es2 B tid o j s',
  B + 1 <= s_tbr (exec w s0 es1) ->
  step w (exec w s0 (es1 ++ es2)) (OGetOpen tid o j) = (s', Parked) ->
  exists uid l r fk, thr_get (s_threads s') tid = Some (TGet o uid l r fk) /\ B < l_abs l.
Proof. exact quarantine_hides_get. Qed.
Print Assumptions quarantine_hides.

(** ... and no later FindMissing reports a digest present unless one of its
    lookup keys resolves (at invocation) to a location in a block > B. *)
Theorem quarantine_hides_existence : forall w s0 es1 es2 B ds m s' pos o j,
  B + 1 <= s_tbr (exec w s0 es1) ->
  step w (exec w s0 (es1 ++ es2)) (OFindMissing ds) = (s', Missing cOK m) ->
  nth_error ds pos = Some (o, j) -> ~ In pos m ->
  exists k l, In k (lookup_keys w o j) /\ index_get (exec w s0 (es1 ++ es2)) k = Some l /\ B < l_abs l.
Proof. exact quarantine_hides_find_missing. Qed.
Print Assumptions quarantine_hides_existence.

(** an object all of whose stored locations lie below the boundary is NOT_FOUND *)
Theorem quarantined_object_not_found : forall w s tid o j,
  thr_get (s_threads s) tid = None ->
  (forall k l, In k (lookup_keys w o j) -> In (k, l) (s_index s) -> l_abs l < s_tbr s) ->
  step w s (OGetOpen tid o j) = (s, Done cNotFound []).
Proof. exact quarantined_get_not_found. Qed.
Print Assumptions quarantined_object_not_found.

(** ---- 3. newer_unaffected ---- *)
Theorem newer_unaffected : forall w s o u l bytes s',
  read_validated w s o u l = (false, bytes, s') ->
  forall k l0, index_get s k = Some l0 -> l_abs l < l_abs l0 -> index_get s' k = Some l0.
Proof. exact newer_unaffected_read_validated. Qed.
Print Assumptions newer_unaffected.

(** the whole step in which a reader detects the corruption *)
Theorem newer_unaffected_by_failing_read : forall w s tid o uid l r fk s' out,
  thr_get (s_threads s) tid = Some (TGet o uid l r fk) ->
  step w s (OGetConsume tid) = (s', out) -> s_negs s' <> s_negs s ->
  forall k l0, index_get s k = Some l0 -> l_abs l < l_abs l0 -> index_get s' k = Some l0.
Proof. exact newer_unaffected_get_consume. Qed.
Print Assumptions newer_unaffected_by_failing_read.

(** ---- 4. inflight_upload_fails ---- *)
Theorem inflight_upload_fails : forall w s tid o i wr acc err s' out,
  thr_get (s_threads s) tid = Some (TPut o i wr acc) -> wr_abs wr < s_tbr s ->
  step w s (OPutEnd tid err) = (s', out) ->
  (exists code, out = Done code [] /\ code <> 0%Z) /\ s_index s' = s_index s.
Proof. exact P08Quarantine.inflight_upload_fails. Qed.
Print Assumptions inflight_upload_fails.

(** ---- 6. the monitor of Run/R08.v is silent on every run of the model ---- *)
Theorem store_model_satisfies_C08 : forall w es, mon08_model w es = [].
Proof. exact P08Monitor.store_model_satisfies_C08. Qed.
Print Assumptions store_model_satisfies_C08.

Theorem monitor_silent_on_model : forall inp, mon08 inp (run_store inp) = [].
Proof. exact mon08_silent_on_model. Qed.
Print Assumptions monitor_silent_on_model.

(** ---- 5. still_accepts_uploads (partial) ---- *)
(** Full statement (not proved): in every reachable state, OPutStart of an
    object that fits a block parks whenever the allocator can supply a block.
    Proved: in EVERY state (in particular after any number of detections,
    whatever the quarantine boundary), OPutStart on a free thread id of an
    object that fits a block either parks, or is refused with UNAVAILABLE by
    the block-device allocator and then the free list of the resulting state
    is empty (the exact condition: no free region at the moment a block is
    needed, after the quarantine pops), or returns the model's out-of-fuel
    code -1.  Never INTERNAL, never INVALID_ARGUMENT, never -2.  Not covered:
    that -1 does not occur in reachable states (needs the allocator
    accounting of C04: length s_blocks = s_old + s_cur + s_new, s_tbr below
    the top of the list, fuel of the HasSpace loop). *)
Theorem still_accepts_uploads_partial : forall w s tid o i s' out,
  thr_get (s_threads s) tid = None -> osize w o <= c_bs (w_cfg w) ->
  step w s (OPutStart tid o i) = (s', out) ->
  out = Parked \/
  (out = Done cUnavailable [] /\ in_memory (w_cfg w) = false /\ s_free s' = []) \/
  out = Done (-1)%Z [].
Proof. exact put_start_accepts. Qed.
Print Assumptions still_accepts_uploads_partial.

Theorem still_accepts_uploads_in_memory_partial : forall w s tid o i s' out,
  in_memory (w_cfg w) = true ->
  thr_get (s_threads s) tid = None -> osize w o <= c_bs (w_cfg w) ->
  step w s (OPutStart tid o i) = (s', out) ->
  out = Parked \/ out = Done (-1)%Z [].
Proof. exact put_start_accepts_in_memory. Qed.
Print Assumptions still_accepts_uploads_in_memory_partial.

(** ---- non-vacuity: a run with a detection ---- *)
Definition ex_cfg : config :=
  {| c_bs := 16; c_old := 1; c_cur := 1; c_new := 1; c_mutable := false; c_nblocks := 5;
     c_hier := false; c_inst_keys := false; c_validate := true |}.
Definition ex_w : world := {| w_cfg := ex_cfg; w_objs := [[1; 2; 3; 4]]; w_anc := [[0%nat]] |}.
Definition ex_es : list op :=
  [OPutStart 0 0 0; OPutChunk 0 [1; 2; 3; 4]; OPutEnd 0 0%Z;   (* upload into block 0 *)
   OPutStart 6 0 0;                                           (* a second upload in flight into block 0 *)
   OCorrupt 0 0 2; OGetOpen 1 0 0; OGetConsume 1;             (* corruption, detected by a read: INTERNAL *)
   OGetOpen 2 0 0;                                            (* NOT_FOUND *)
   OPutChunk 6 [1; 2; 3; 4]; OPutEnd 6 0%Z;                   (* the in-flight upload fails: INTERNAL *)
   OFindMissing [(0, 0)%nat];                                 (* reported missing *)
   OPutStart 3 0 0; OPutChunk 3 [1; 2; 3; 4]; OPutEnd 3 0%Z;  (* the store still accepts uploads *)
   OGetOpen 7 0 0; OGetConsume 7].                            (* ... and serves them *)
Example ex_run :
  wf_world ex_w = true /\
  snd (run ex_w (init_state ex_cfg) ex_es) =
  [Parked; Parked; Done 0 []; Parked; Done 0 []; Parked; Done 13 []; Done 5 []; Parked; Done 13 [];
   Missing 0 [0%nat]; Parked; Parked; Done 0 []; Parked; Done 0 [1; 2; 3; 4]] /\
  s_tbr (exec ex_w (init_state ex_cfg) ex_es) = 1 /\ s_negs (exec ex_w (init_state ex_cfg) ex_es) = 1%nat.
Proof. vm_compute. repeat split. Qed.
