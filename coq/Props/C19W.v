(** C19W — the wiring of the demultiplexing backend in
    pkg/blobstore/configuration/new_blob_access.go (sub-check of C19).

    The composite is built by the real NewBlobAccessFromConfiguration from a
    `demultiplexing` configuration message; the model is C19's demultiplexer
    model (Routing/Demux.v through Run/R19.v [run_demux_op]) plus the backend
    name of the error annotation, which the wiring sets to the MATCHED prefix.
    The monitor is C19's clauses 6-10 on what the configured backends were asked
    and answered, plus clause 15: errors name the matched prefix. *)
From Coq Require Import List ZArith NArith Bool Lia.
From BBS Require Import Common.Sx Routing.Names Routing.Demux Routing.TrieFullMonDemux Run.R19 Run.R19W Run.R19WProofs.
Import ListNotations.
Open Scope Z_scope.

(** The monitor is silent on the model's own output for ALL inputs such that every
    configuration entry has a backend description and the instance names of the
    operations are well-formed ([op_wf]: name_ok (split inst)) — C19's hypotheses
    for demultiplexer inputs, both necessary there.  Nothing is assumed of the
    configuration (duplicate prefixes, shared or clashing add-prefixes, ill-formed
    strings), of the backends' contents or of their fault codes. *)
Theorem mon19W_silent_on_model : forall inp,
  (length (dec_cfg (sx_nth inp 1)) <= length (sx_list (sx_nth inp 2)))%nat ->
  forallb op_wf (sx_list (sx_nth inp 3)) = true ->
  mon19W inp (run19W inp) = [].
Proof. exact mon19W_silent. Qed.
Print Assumptions mon19W_silent_on_model.

(** clause 15 alone, one operation *)
Theorem error_annotation_names_the_matched_prefix : forall cfg bsx op,
  (length cfg <= length bsx)%nat -> op_wf op = true ->
  mon15_op cfg bsx op (run_op19W cfg (mk_backends 0 bsx) op) = [].
Proof. exact mon15_op_silent. Qed.
Print Assumptions error_annotation_names_the_matched_prefix.

(** The model is C19's demultiplexer: without the annotation its output is
    [run19]'s on the same input, operation by operation ... *)
Theorem wiring_model_is_the_demultiplexer : forall inp, sx_Z (sx_nth inp 0) = 2 ->
  L (map strip3 (sx_list (run19W inp))) = run19 inp.
Proof. exact run19W_is_run19. Qed.
Print Assumptions wiring_model_is_the_demultiplexer.

Theorem wiring_model_op_is_the_demultiplexer : forall cfg bs op,
  strip3 (run_op19W cfg bs op) = run_demux_op cfg bs op.
Proof. exact strip3_run_op19W. Qed.
Print Assumptions wiring_model_op_is_the_demultiplexer.

(** ... and the monitor is C19's [mon19] followed by clause 15 *)
Theorem wiring_monitor_is_the_demultiplexer_monitor : forall inp obs, sx_Z (sx_nth inp 0) = 2 ->
  mon19W inp obs = mon19 inp obs
    ++ concat (zip_with (mon15_op (dec_cfg (sx_nth inp 1)) (sx_list (sx_nth inp 2)))
                        (sx_list (sx_nth inp 3)) (sx_list obs)).
Proof. exact mon19W_is_mon19. Qed.
Print Assumptions wiring_monitor_is_the_demultiplexer_monitor.

(** Non-vacuity.  Prefixes "a" (backend 0) and "b" (backend 1), both stripped
    (add-prefix empty, the default); backend 0 holds ("", 1), backend 1 holds
    nothing and a third prefix "c" has a failing backend.
    - the model: one FindMissing over a/1 and b/q/1 asks each backend about its own
      digest under the stripped name and reports b/q/1 missing; a failing Get below
      "c" is annotated with "c";
    - an implementation that keys the partitions by the ADDED prefix (both "")
      sends both digests to backend 0 with the patcher of "a" and reports a/q/1, a
      name nobody asked about: clauses 10 and 9; annotating errors with the added
      prefix: clause 15. *)
Example wiring_example :
  let a := [97%N] in let b := [98%N] in let c := [99%N] in let q := [113%N] in
  let bq := b ++ [47%N] ++ q in let aq := a ++ [47%N] ++ q in
  let inp := L [A 2; L [L [enc_str a; enc_str []]; L [enc_str b; enc_str []]; L [enc_str c; enc_str []]];
                L [L [enc_dgs [([], 1%N)]; A 0]; L [L []; A 0]; L [L []; A 14]];
                L [L [A 3; enc_dgs [(a, 1%N); (bq, 1%N)]]; L [A 0; enc_dg (c, 1%N)]]] in
  run19W inp = L [L [A 0; enc_dgs [(bq, 1%N)]; L [L [A 0; A 3; enc_dgs [([], 1%N)]]; L [A 1; A 3; enc_dgs [(q, 1%N)]]]; L []];
                  L [A 14; L []; L [L [A 2; A 0; enc_dgs [([], 1%N)]]]; L [enc_str c]]]
  /\ mon19W inp (run19W inp) = []
  /\ mon19W inp (L [L [A 0; enc_dgs [(aq, 1%N)]; L [L [A 0; A 3; enc_dgs [([], 1%N); (q, 1%N)]]]; L []];
                    L [A 14; L []; L [L [A 2; A 0; enc_dgs [([], 1%N)]]]; L [enc_str []]]]) = [10; 9; 15].
Proof. vm_compute. repeat split; reflexivity. Qed.

(** the hypotheses are C19's and remain necessary: the ill-formed name "a/" *)
Example wiring_needs_wf_names :
  let inp := L [A 2; L [L [enc_str [97%N]; enc_str [98%N]]]; L [L [L []; A 0]];
                L [L [A 0; enc_dg ([97%N; 47%N], 1%N)]]] in
  mon19W inp (run19W inp) = [7].
Proof. vm_compute. reflexivity. Qed.
