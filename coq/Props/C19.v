(** C19 — Instance-name routing: longest-prefix demultiplexing with prefix
    rewriting, instance-name trie, patcher, hierarchical instance names.
    Statements only; proofs are in Routing/*Proofs.v. *)
From BBS Require Import Common.Sx Routing.Names Routing.NamesProofs Routing.Trie Routing.TrieProofs Routing.TrieFull Routing.TrieFullMon Routing.TrieFullMonHier Routing.TrieFullMonPatcher
  Routing.TrieFullMonDemux Routing.TrieFullMonAll
  Routing.Patcher Routing.PatcherProofs Routing.Demux Routing.DemuxProofs Routing.HierNames Routing.HierProofs Run.R19.
Open Scope Z_scope.

(** ------------------------------------------------------------------ trie
    [reach t]: t is obtained from the empty trie by any history of Set (values
    >= 0, i.e. backend indices) and successful Remove.  [to_map t] is the
    association list name -> value the trie stands for. *)

Theorem glp_spec : forall t n, reach t ->
  get_longest_prefix t n = longest_prefix_value (to_map t) n.
Proof. exact glp_to_map. Qed.
Print Assumptions glp_spec.

(** what [longest_prefix_value] means: the value of the LONGEST registered
    component-wise prefix, -1 when no registered name is a prefix *)
Theorem longest_prefix_value_is_longest : forall (m : list (list comp * Z)) n,
  (exists p, is_prefix p n = true /\ 0 <= assoc_get m p /\ longest_prefix_value m n = assoc_get m p /\
             forall q, is_prefix q n = true -> 0 <= assoc_get m q -> (length q <= length p)%nat)
  \/ (longest_prefix_value m n = -1 /\ forall q, is_prefix q n = true -> assoc_get m q < 0).
Proof. exact lpv_assoc_longest. Qed.
Print Assumptions longest_prefix_value_is_longest.

Theorem get_exact_spec : forall t n, reach t -> get_exact t n = assoc_get (to_map t) n.
Proof. exact get_exact_to_map. Qed.
Print Assumptions get_exact_spec.

Theorem contains_prefix_spec : forall t n, reach t -> contains_prefix t n = has_prefix (to_map t) n.
Proof. exact contains_prefix_to_map. Qed.
Print Assumptions contains_prefix_spec.

Theorem set_spec : forall t n v, reach t -> 0 <= v ->
  forall m, assoc_get (to_map (set t n v)) m = assoc_get (assoc_set (to_map t) n v) m.
Proof. exact set_to_map. Qed.
Print Assumptions set_spec.

(** No dead branches: in every reachable trie every node other than the root
    lies on the path to a registered name, and every leaf other than the root is
    itself registered ([subtrie t p] = the node reached from the root along [p]).
    Hence a reachable trie that stands for the empty map IS the empty trie. *)
Theorem reachable_trie_has_no_dead_branch : forall t p s, reach t -> subtrie t p = Some s -> p <> nil ->
  (exists m, 0 <= assoc_get (to_map t) (p ++ m)) /\ (tch s = nil -> 0 <= assoc_get (to_map t) p).
Proof. exact reach_no_dead_branch. Qed.
Print Assumptions reachable_trie_has_no_dead_branch.

Theorem reachable_trie_without_names_is_empty : forall t, reach t ->
  (forall m, assoc_get (to_map t) m = -1) -> t = empty_trie.
Proof. exact reach_no_names_empty. Qed.
Print Assumptions reachable_trie_without_names_is_empty.

(** Remove of a registered name: succeeds (no nil dereference), deletes exactly
    that name, and returns [true] exactly when the trie became empty.  Remove of
    an absent name whose node does not exist is [Panic] in the model (nil
    dereference in Go), hence the hypothesis. *)
Theorem remove_spec : forall t n, reach t -> 0 <= assoc_get (to_map t) n ->
  exists t' b, remove t n = Ok (t', b) /\
    (forall m, assoc_get (to_map t') m = assoc_get (assoc_remove (to_map t) n) m) /\
    (b = true <-> forall m, assoc_get (to_map t') m = -1).
Proof. exact remove_to_map_full. Qed.
Print Assumptions remove_spec.

(** ... and whenever Remove does not panic (the node of the name exists, with or
    without a value) its result is "the trie is now empty" *)
Theorem remove_result_iff_empty : forall t n t' b, reach t -> remove t n = Ok (t', b) ->
  (b = true <-> forall m, assoc_get (to_map t') m = -1).
Proof. exact remove_ok_full. Qed.
Print Assumptions remove_result_iff_empty.

(** non-vacuity: removing the only name below an inner chain cuts the whole
    chain (the trie is the empty trie again, result true); with a sibling left
    the result is false and no value-less leaf remains *)
Example remove_example :
  let a := [97%N] in let b := [98%N] in
  remove (set empty_trie [a; b; a] 3) [a; b; a] = Ok (empty_trie, true)
  /\ remove (set (set empty_trie [a; b; a] 3) [a; a] 4) [a; b; a]
     = Ok (Node (-1) [(a, Node (-1) [(a, Node 4 [])])], false)
  /\ remove (set (set empty_trie [a; b] 3) [a] 4) [a] = Ok (set empty_trie [a; b] 3, false).
Proof. vm_compute. repeat split; reflexivity. Qed.

(** ------------------------------------------- the monitor on the model
    The monitor [mon19] (the decidable check that judges the Go code) is silent on
    the model's own output [run19], for every input such that
    - kind 0 (trie history): the model does not panic (it panics only on a Remove
      of a name whose node does not exist, a nil dereference in Go; second theorem
      below: no panic when every Remove is of a registered name and every Set
      value is >= 0);
    - kind 2 (demultiplexer): every owner index has a backend description and the
      instance names in the operations are well-formed ([op_wf]: name_ok (split
      inst); for GetFromComposite only when parent and child carry the same name);
    - kind 1 (patcher) and kind 3 / any other kind (hierarchical decorator, any
      backend description, error names, FindMissing faults): no hypothesis.
    Each hypothesis is necessary: [monitor_on_model_needs_*] below. *)
Theorem monitor_silent_on_model : forall inp, model_input_ok inp -> mon19 inp (run19 inp) = nil.
Proof. exact mon19_silent_on_model. Qed.
Print Assumptions monitor_silent_on_model.

Example model_input_ok_examples :
  let a := [97%N] in let b := [98%N] in
  model_input_ok (L [A 0; L [L [A 0; enc_str a; A 3]; L [A 3; enc_str (a ++ [47%N] ++ b)]; L [A 1; enc_str a]]])
  /\ model_input_ok (L [A 2; L [L [enc_str a; enc_str b]]; L [L [L []; A 0]];
                         L [L [A 3; enc_dgs [(a ++ [47%N] ++ b, 1%N); (b, 2%N)]]]]).
Proof.
  split; (split; [intros H; vm_compute in H; try discriminate; vm_compute; try discriminate
                 |intros H; vm_compute in H; try discriminate; vm_compute; split; reflexivity]).
Qed.

(** the hypotheses are needed: a trie history on which the model panics (Remove of
    a name without node); a demultiplexer input with the ill-formed name "a/"; a
    demultiplexer configuration whose owner has no backend *)
Example monitor_on_model_needs_no_panic :
  let inp := L [A 0; L [L [A 4; enc_str [97%N]]; L [A 1; enc_str [98%N]]]] in
  run19 inp = panic_obs /\ mon19 inp (run19 inp) = [2].
Proof. vm_compute. split; reflexivity. Qed.
Example monitor_on_model_needs_wf_names :
  let inp := L [A 2; L [L [enc_str [97%N]; enc_str [98%N]]]; L [L [L []; A 0]];
                L [L [A 0; enc_dg ([97%N; 47%N], 1%N)]]] in
  mon19 inp (run19 inp) = [7].
Proof. vm_compute. reflexivity. Qed.
Example monitor_on_model_needs_backends :
  let inp := L [A 2; L [L [enc_str [97%N]; enc_str [98%N]]]; L [];
                L [L [A 0; enc_dg ([97%N], 1%N)]]] in
  mon19 inp (run19 inp) = [7; 8].
Proof. vm_compute. reflexivity. Qed.

(** the four kinds separately *)
Theorem monitor_silent_on_model_trie : forall inp,
  sx_Z (sx_nth inp 0) = 0 ->
  run_trie (sx_list (sx_nth inp 1)) empty_trie <> None ->
  mon19 inp (run19 inp) = nil.
Proof. exact mon19_silent_on_trie_model. Qed.
Print Assumptions monitor_silent_on_model_trie.

Theorem trie_model_no_panic_on_registered_removes : forall inp,
  sx_Z (sx_nth inp 0) = 0 ->
  removes_registered (sx_list (sx_nth inp 1)) nil ->
  run_trie (sx_list (sx_nth inp 1)) empty_trie <> None /\ mon19 inp (run19 inp) = nil.
Proof. exact mon19_silent_on_trie_model_registered. Qed.
Print Assumptions trie_model_no_panic_on_registered_removes.

(** ... demultiplexer inputs (kind 2), clauses 6-10, faulty backends included *)
Theorem monitor_silent_on_model_demux : forall inp,
  sx_Z (sx_nth inp 0) = 2 ->
  (length (dec_cfg (sx_nth inp 1)) <= length (sx_list (sx_nth inp 2)))%nat ->
  forallb op_wf (sx_list (sx_nth inp 3)) = true ->
  mon19 inp (run19 inp) = nil.
Proof. exact mon19_silent_on_demux_model. Qed.
Print Assumptions monitor_silent_on_model_demux.

(** ... patcher inputs (kind 1), clauses 4 and 5: no hypothesis *)
Theorem monitor_silent_on_model_patcher : forall inp,
  sx_Z (sx_nth inp 0) = 1 -> mon19 inp (run19 inp) = nil.
Proof. exact mon19_silent_on_patcher_model. Qed.
Print Assumptions monitor_silent_on_model_patcher.

(** ... hierarchical-decorator inputs (kind 3 and every kind other than 0, 1, 2),
    clauses 11-14, any backend description including error names and FindMissing
    faults at any call: no hypothesis *)
Theorem monitor_silent_on_model_hier : forall inp,
  sx_Z (sx_nth inp 0) <> 0 -> sx_Z (sx_nth inp 0) <> 1 -> sx_Z (sx_nth inp 0) <> 2 ->
  mon19 inp (run19 inp) = nil.
Proof. exact mon19_silent_on_hier_model. Qed.
Print Assumptions monitor_silent_on_model_hier.

(** "ab" has the string prefix "a" but not the component prefix: it is not
    routed to "a"; "a/b" is. *)
Example string_prefix_not_component :
  let a := [97%N] in let ab := [97%N; 98%N] in let b := [98%N] in
  let t := set (set empty_trie [a] 0) [a; b; a] 1 in
  str_prefix (join [a]) (join [ab]) = true
  /\ get_longest_prefix t [ab] = -1
  /\ get_longest_prefix t [ab; b] = -1
  /\ get_longest_prefix t [a; b] = 0
  /\ get_longest_prefix t [a; ab] = 0
  /\ get_longest_prefix t [a; b; a; ab] = 1
  /\ get_longest_prefix t [a; b; ab] = 0
  /\ contains_prefix t [ab] = false
  /\ get_longest_prefix (set t [] 7) [ab] = 7.
Proof. vm_compute. repeat split; reflexivity. Qed.

(** --------------------------------------------------------------- patcher *)

Theorem patch_spec : forall old new r,
  name_ok old = true -> name_ok new = true -> name_ok r = true ->
  patch_name (new_patcher (join old) (join new)) (join (old ++ r)) = join (new ++ r).
Proof. exact patch_name_spec. Qed.
Print Assumptions patch_spec.

Theorem unpatch_spec : forall old new r,
  name_ok old = true -> name_ok new = true -> name_ok r = true ->
  unpatch_name (new_patcher (join old) (join new)) (join (new ++ r)) = join (old ++ r).
Proof. exact unpatch_name_spec. Qed.
Print Assumptions unpatch_spec.

Theorem unpatch_patch : forall old new r b,
  name_ok old = true -> name_ok new = true -> name_ok r = true ->
  let p := new_patcher (join old) (join new) in
  unpatch_digest p (patch_digest p (join (old ++ r), b)) = (join (old ++ r), b).
Proof. exact unpatch_patch_digest. Qed.
Print Assumptions unpatch_patch.

(** string form and component form of well-formed names correspond *)
Theorem split_join_id : forall n, name_ok n = true -> split (join n) = n.
Proof. exact split_join. Qed.
Print Assumptions split_join_id.

Example patch_example :
  let a := [97%N] in let ab := [97%N; 98%N] in let b := [98%N] in
  let p := new_patcher (join [a]) (join [b; ab]) in
  patch_name p (join [a]) = join [b; ab]
  /\ patch_name p (join [a; b]) = join [b; ab; b]
  /\ unpatch_name p (join [b; ab; b]) = join [a; b]
  /\ patch_name (new_patcher (join []) (join [a])) (join []) = join [a]
  /\ patch_name (new_patcher (join [a]) (join [])) (join [a; b]) = join [b].
Proof. vm_compute. repeat split; reflexivity. Qed.

(** ----------------------------------------------------------- demultiplexer
    [cfg]: list of (prefix to match, prefix to put in its place), registered in
    the trie as new_blob_access.go does; [owner cfg inst]: index of the entry
    registered (last) for the longest component-wise prefix of [inst], else -1
    — defined on the configuration list, without any trie. *)

Theorem getter_lookup_is_owner : forall cfg inst,
  get_longest_prefix (build_trie cfg) (split inst) = owner cfg inst.
Proof. exact glp_owner. Qed.
Print Assumptions getter_lookup_is_owner.

(** the getter: InvalidArgument for unknown names; otherwise the owner's
    index, its name and the patcher old-prefix -> new-prefix, the instance name
    being the matched prefix followed by some rest; never a panic *)
Theorem getter_spec : forall cfg m, cfg_ok cfg -> name_ok m = true ->
  match get_backend cfg (join m) with
  | Err e => e = INVALID_ARGUMENT /\ owner cfg (join m) = -1
  | Ok (i, key, p) =>
      exists o n r, nth_error cfg i = Some (join o, join n) /\ name_ok o = true /\ name_ok n = true /\
                    name_ok r = true /\ m = o ++ r /\ key = join o /\ p = new_patcher (join o) (join n) /\
                    owner cfg (join m) = Z.of_nat i
  | Panic => False
  end.
Proof. exact get_backend_spec. Qed.
Print Assumptions getter_spec.

Theorem demux_unknown_rejected : forall (D : Type) cfg (backends : list (backend D)),
  cfg_ok cfg -> forall m b, name_ok m = true -> owner cfg (join m) < 0 ->
  demux_get cfg backends (join m, b) = (Err INVALID_ARGUMENT, [])
  /\ (forall c, demux_gfc cfg backends (join m, b) c = (Err INVALID_ARGUMENT, []))
  /\ demux_put cfg backends (join m, b) = (Ok (INVALID_ARGUMENT, true), []).
Proof. exact @demux_unknown. Qed.
Print Assumptions demux_unknown_rejected.

(** Get / Put / GetFromComposite: exactly one call, to the owning backend, the
    matched prefix [o] replaced by the configured [n]; the result is that backend's *)
Theorem demux_routes_to_owner : forall (D : Type) cfg (backends : list (backend D)),
  cfg_ok cfg -> forall m b, name_ok m = true -> 0 <= owner cfg (join m) ->
  exists i o n r, owner cfg (join m) = Z.of_nat i /\ nth_error cfg i = Some (join o, join n) /\ m = o ++ r /\
    forall bk, nth_error backends i = Some bk ->
      demux_get cfg backends (join m, b) = (b_get bk (join (n ++ r), b), [CGet i (join (n ++ r), b)])
      /\ demux_put cfg backends (join m, b) = (Ok (b_put bk (join (n ++ r), b), false), [CPut i (join (n ++ r), b)])
      /\ (forall cb, demux_gfc cfg backends (join m, b) (join m, cb)
                     = (b_gfc bk (join (n ++ r), b) (join (n ++ r), cb),
                        [CGfc i (join (n ++ r), b) (join (n ++ r), cb)])).
Proof. exact @demux_known. Qed.
Print Assumptions demux_routes_to_owner.

(** FindMissing over backends with stable contents [present i]: an unknown
    name rejects the whole call before any backend is contacted; otherwise the
    result is exactly the set of requested digests whose rewritten form is
    missing at their owner — expressed in the caller's names — and every backend
    call is a FindMissing about exactly the rewritten digests that backend owns.
    ([getter_spec] says what (i, key, p) are.) *)
Theorem demux_find_missing_spec : forall (D : Type) cfg (backends : list (backend D)) (present : nat -> digest -> bool),
  cfg_ok cfg -> length backends = length cfg ->
  (forall i bk, nth_error backends i = Some bk ->
     forall q, b_fm bk q = Ok (filter (fun d => negb (present i d)) q)) ->
  forall ds, (forall d, In d ds -> exists m, name_ok m = true /\ fst d = join m) ->
  ((exists d, In d ds /\ owner cfg (fst d) < 0) -> demux_fm cfg backends ds = (Err INVALID_ARGUMENT, []))
  /\ ((forall d, In d ds -> 0 <= owner cfg (fst d)) ->
      exists res calls, demux_fm cfg backends ds = (Ok res, calls) /\
        (forall d, In d res <-> In d ds /\ exists i key p, get_backend cfg (fst d) = Ok (i, key, p)
                                                       /\ present i (patch_digest p d) = false) /\
        (forall i q, In (CFm i q) calls ->
           forall x, In x q <-> exists d key p, In d ds /\ get_backend cfg (fst d) = Ok (i, key, p)
                                                /\ x = patch_digest p d) /\
        (forall c, In c calls -> exists i q, c = CFm i q)).
Proof. exact @demux_fm_correct. Qed.
Print Assumptions demux_find_missing_spec.

(** prefixes "" -> "x", "a" -> "", "a/b" -> "a/b": digests of three names, one call per owner *)
Example demux_example :
  let a := [97%N] in let ab := [97%N; 98%N] in let b := [98%N] in let x := [120%N] in
  let cfg := [(join [], join [x]); (join [a], join []); (join [a; b], join [a; b])] in
  let bk (i : nat) : backend unit :=
    {| b_get := fun _ => Err NOT_FOUND; b_gfc := fun _ _ => Err NOT_FOUND; b_put := fun _ => 0;
       b_fm := fun q => Ok (filter (fun d => negb (N.eqb (snd d) 1)) q) |} in
  demux_fm cfg [bk 0%nat; bk 1%nat; bk 2%nat]
    [(join [ab], 1%N); (join [ab], 2%N); (join [a; ab], 2%N); (join [a; b; a], 3%N); (join [a], 4%N)]
  = (Ok [(join [a; ab], 2%N); (join [ab], 2%N); (join [a; b; a], 3%N); (join [a], 4%N)],
     [CFm 0 [(join [x; ab], 1%N); (join [x; ab], 2%N)];
      CFm 1 [(join [ab], 2%N); (join [], 4%N)];
      CFm 2 [(join [a; b; a], 3%N)]]).
Proof. vm_compute. reflexivity. Qed.

(** ------------------------------------------- hierarchical instance names
    [parents_of d]: d under every prefix of its instance name, d itself last. *)

(** Get returns what [first_answer] says: going from the most specific name
    upwards, the first answer other than NOT_FOUND. *)
Theorem hier_get_spec : forall (D : Type) (get : digest -> outcome D) d,
  (forall a, get a <> Panic) ->
  fst (hier_get get d) = first_answer get (rev (parents_of d)).
Proof. exact @hier_get_first_answer. Qed.
Print Assumptions hier_get_spec.

(** ... i.e. the object of the most specific ancestor that has it, *)
Theorem hier_get_most_specific : forall (D : Type) (get : digest -> outcome D) pre a post x,
  (forall b, In b pre -> get b = Err NOT_FOUND) -> get a = Ok x ->
  first_answer get (pre ++ a :: post) = Ok x.
Proof. exact @first_answer_found. Qed.
Print Assumptions hier_get_most_specific.
(** other errors surface, *)
Theorem hier_get_error_surfaces : forall (D : Type) (get : digest -> outcome D) pre a post e,
  (forall b, In b pre -> get b = Err NOT_FOUND) -> get a = Err e -> e <> NOT_FOUND ->
  first_answer get (pre ++ a :: post) = Err e.
Proof. exact @first_answer_error. Qed.
Print Assumptions hier_get_error_surfaces.
(** and NOT_FOUND is returned only if no ancestor has it. *)
Theorem hier_get_not_found_iff : forall (D : Type) (get : digest -> outcome D) chain,
  (forall b, In b chain -> get b <> Panic) ->
  (first_answer get chain = Err NOT_FOUND <-> forall b, In b chain -> get b = Err NOT_FOUND).
Proof. exact @first_answer_not_found. Qed.
Print Assumptions hier_get_not_found_iff.

(** FindMissing over a backend whose contents are stable during the operation:
    terminates (the result is never the out-of-fuel [Panic]) and reports a digest
    missing exactly when it is missing under its name and all its ancestors. *)
Theorem hier_fm_spec : forall (present : digest -> bool) ds,
  exists res asked, hier_fm (honest_fm present) ds = (Ok res, asked) /\
    forall d, In d res <-> In d ds /\ forall a, In a (parents_of d) -> present a = false.
Proof. exact hier_fm_honest. Qed.
Print Assumptions hier_fm_spec.

(** termination whatever the backend does (errors, answers that change between the levels) *)
Theorem hier_fm_terminates : forall (fm : nat -> list digest -> outcome (list digest)) ds,
  (forall k q, fm k q <> Panic) -> fst (hier_fm fm ds) <> Panic.
Proof. exact hier_fm_no_panic. Qed.
Print Assumptions hier_fm_terminates.

Theorem parents_of_contains_self : forall d, In d (parents_of d).
Proof. exact parents_of_self. Qed.
Print Assumptions parents_of_contains_self.

Example hier_example :
  let a := [97%N] in let b := [98%N] in
  let present (d : digest) := dg_eqb d (join [a], 1%N) || dg_eqb d (join [], 2%N) in
  fst (hier_fm (honest_fm present)
         [(join [a; b], 1%N); (join [a; b], 2%N); (join [a; b], 3%N); (join [b], 1%N)])
  = Ok [(join [b], 1%N); (join [a; b], 3%N)].
Proof. vm_compute. reflexivity. Qed.
