(** C19 — instance-name routing.  Statements only. *)
From BBS Require Import Common.Sx Routing.Names Routing.Trie Routing.Patcher Routing.Demux Routing.HierNames Run.R19.
