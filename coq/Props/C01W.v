(** C01W / C05W — sub-checks of C01 and C05: the [local] backend as wired by
    the real configuration constructor.  Statements only; proofs in
    Store/WiringProofs.v and Run/R01WProofs.v.

    Object: [wire] (Store/Wiring.v), the configuration of Store/Model.v that a
    LocalBlobAccessConfiguration message denotes under the CAS or the AC
    creator ([None] = refused), and the C01 / C05 monitors applied to the
    store model at that configuration. *)
From Coq Require Import List NArith ZArith Bool Arith.
From BBS Require Import Common.Sx Store.Model Store.Wf Store.WfTids Store.Wiring Store.WiringProofs.
From BBS Require Import Run.RStore Run.R01 Run.R05 Run.R01W Run.R01WProofs.
(* -- (keeps lib/checklib.py's dependency scan from reading past the sentence) *)
Import ListNotations.

(** every accepted, sane configuration denotes a well-formed store: all store
    theorems of C01, C04, C05, C08, C10 apply to it *)
Theorem accepted_configuration_is_well_formed : forall wi c,
  wire wi = Some c -> wiring_sane wi = true -> wf_config c = true.
Proof. exact wire_wf. Qed.
Print Assumptions accepted_configuration_is_well_formed.

(** the retention parameters of the store are the configured counts; a
    block device is divided into spare + old + current + new regions *)
Theorem wired_retention_parameters : forall wi c, wire wi = Some c ->
  c_old c = wi_old wi /\ c_cur c = wi_cur wi /\ c_new c = wi_new wi /\
  (wi_device wi = true -> c_nblocks c = (wi_spare wi + wi_old wi + wi_cur wi + wi_new wi)%nat).
Proof. exact wire_retention. Qed.
Print Assumptions wired_retention_parameters.

(** growth policy and key format follow the storage type; hierarchical
    access exists for the CAS only and keys then carry the instance name *)
Theorem wired_storage_type : forall wi c, wire wi = Some c ->
  c_mutable c = wi_ac wi /\
  (c_hier c = true -> wi_ac wi = false /\ c_inst_keys c = true) /\
  (c_hier c = false -> c_inst_keys c = wi_ac wi).
Proof. exact wire_storage_type. Qed.
Print Assumptions wired_storage_type.

Theorem wired_blocks_fit_device : forall wi c, wire wi = Some c -> wi_device wi = true ->
  (c_bs c * N.of_nat (c_nblocks c) <= wi_sector_size wi * wi_sector_count wi)%N.
Proof. exact wire_blocks_fit_device. Qed.
Print Assumptions wired_blocks_fit_device.

(** the refusals *)
Theorem refuses_hierarchical_action_cache : forall wi, wi_ac wi = true -> wi_hier wi = true -> wire wi = None.
Proof. exact wire_refuses_ac_hierarchical. Qed.
Print Assumptions refuses_hierarchical_action_cache.
Theorem refuses_action_cache_with_several_new_blocks : forall wi, wi_ac wi = true -> wi_new wi <> 1%nat -> wire wi = None.
Proof. exact wire_refuses_ac_several_new. Qed.
Print Assumptions refuses_action_cache_with_several_new_blocks.
Theorem refuses_more_than_100_blocks : forall wi, wi_device wi = true -> (100 < wi_block_count wi)%nat -> wire wi = None.
Proof. exact wire_refuses_too_many_blocks. Qed.
Print Assumptions refuses_more_than_100_blocks.
Theorem refuses_device_smaller_than_block_count : forall wi,
  wi_device wi = true -> (wi_sector_count wi < N.of_nat (wi_block_count wi))%N -> wire wi = None.
Proof. exact wire_refuses_tiny_device. Qed.
Print Assumptions refuses_device_smaller_than_block_count.

(** C01 and C05 (clauses 1-3) on the wired store: for every accepted sane
    configuration, all object contents, name trees and well-formed schedules,
    the monitors that judge the real constructor's store report nothing on
    the model's own observations *)
Theorem mon01W_silent_on_model : forall inp w,
  wired_world inp = Some w -> wiring_sane (dec_wiring (sx_nth inp 0)) = true -> wf_anc w = true ->
  wf_ops w [] (dec_ops inp) = true -> wf_tids (dec_ops inp) = true ->
  mon01W w (dec_ops inp) (run01W inp) = [].
Proof. exact mon01W_silent. Qed.
Print Assumptions mon01W_silent_on_model.

Theorem mon05W_silent_on_model : forall inp w,
  wired_world inp = Some w -> wiring_sane (dec_wiring (sx_nth inp 0)) = true -> wf_anc w = true ->
  wf_ops w [] (dec_ops inp) = true -> wf_tids (dec_ops inp) = true ->
  mon05W w (dec_ops inp) (run01W inp) = [].
Proof. exact mon05W_silent. Qed.
Print Assumptions mon05W_silent_on_model.

Theorem judges_report_no_violation_on_model : forall inp,
  (forall w, wired_world inp = Some w ->
     wiring_sane (dec_wiring (sx_nth inp 0)) = true /\ wf_anc w = true /\
     wf_ops w [] (dec_ops inp) = true /\ wf_tids (dec_ops inp) = true) ->
  sx_nth (judge01W inp (run01W inp)) 1 = of_bool false /\
  sx_nth (judge05W inp (run01W inp)) 1 = of_bool false.
Proof. exact judge01W_no_violation_on_model. Qed.
Print Assumptions judges_report_no_violation_on_model.

(** C08's quarantine monitor on the wired store (sub-check C08W): silent on the
    model for every accepted configuration and ALL schedules, corruption
    events included *)
Theorem mon08W_silent_on_model : forall inp w,
  wired_world inp = Some w -> mon08W w (dec_ops inp) (run01W inp) = [].
Proof. exact mon08W_silent. Qed.
Print Assumptions mon08W_silent_on_model.

(** non-vacuity: a CAS store on a block device (2 spare, 1 old, 2 current, 3
    new regions; 4096-byte sectors, 35 of them) and an in-memory Action Cache *)
Definition wiA : wiring := {| wi_ac := false; wi_hier := true; wi_old := 1; wi_cur := 2; wi_new := 3; wi_device := true;
  wi_spare := 2; wi_block_size := 0; wi_sector_size := 4096; wi_sector_count := 35 |}.
Definition wiB : wiring := {| wi_ac := true; wi_hier := false; wi_old := 2; wi_cur := 1; wi_new := 1; wi_device := false;
  wi_spare := 0; wi_block_size := 64; wi_sector_size := 0; wi_sector_count := 0 |}.
Example wired_examples :
  wire wiA = Some {| c_bs := 16384; c_old := 1; c_cur := 2; c_new := 3; c_mutable := false; c_nblocks := 8;
                     c_hier := true; c_inst_keys := true; c_validate := true |} /\ wiring_sane wiA = true /\
  wire wiB = Some {| c_bs := 64; c_old := 2; c_cur := 1; c_new := 1; c_mutable := true; c_nblocks := 0;
                     c_hier := false; c_inst_keys := true; c_validate := false |} /\ wiring_sane wiB = true.
Proof. vm_compute. repeat split. Qed.
