(** C10 — hierarchical CAS: objects visible exactly under the uploader's
    instance subtree.  Statements only; proofs are in Store/P10*.v (built on
    Store/P08Frame.v, P08Step.v, P08Quarantine.v).  The object is the
    executable store model Store/Model.v with [c_hier (w_cfg w) = true];
    "all schedules" = all event lists [es] from the initial state, any
    length, any interleaving at the model's step granularity (concurrent
    uploads of one digest under unrelated names, rotations, refreshes,
    corruption events included).  [ups w s es] is the list of (object,
    instance) of uploads (TPut = new copy, TPutExisting = validated against
    the existing copy) whose OPutEnd returned [Done 0] during [es]
    (characterised by [successful_uploads_spec]). *)
From Coq Require Import List NArith ZArith Bool Arith.
From BBS Require Import Common.Sx Store.Model Store.Wf Store.P08Frame Store.P08Step Store.P08Quarantine
  Store.P10Inv Store.P10Visible Store.P10Shape Store.P08Monitor Store.P10Monitor Run.RStore Run.R01 Run.R10.
Import ListNotations.
Open Scope N_scope.

Theorem successful_uploads_spec : forall w es s o i, In (o, i) (ups w s es) <->
  exists es1 e es2, es = es1 ++ e :: es2 /\ In (o, i) (completed w (exec w s es1) e).
Proof. exact ups_spec. Qed.
Print Assumptions successful_uploads_spec.

Theorem completed_upload_spec : forall w s e o i, In (o, i) (completed w s e) <->
  exists tid err b, e = OPutEnd tid err /\ snd (step w s e) = Done cOK b /\
    ((exists wr acc, thr_get (s_threads s) tid = Some (TPut o i wr acc)) \/
     (exists acc, thr_get (s_threads s) tid = Some (TPutExisting o i acc))).
Proof. exact completed_spec. Qed.
Print Assumptions completed_upload_spec.

(** ---- 1. visible_only_under_uploader_subtree ---- *)

(** invariant: every index entry under a lookup key (o, S i) stems from a
    successful upload of o under i *)
Theorem lookup_entry_provenance : forall w es o i, c_hier (w_cfg w) = true ->
  has_entry (exec w (init_state (w_cfg w)) es) (o, S i) -> In (o, i) (ups w (init_state (w_cfg w)) es).
Proof. exact entry_provenance. Qed.
Print Assumptions lookup_entry_provenance.

Theorem visible_only_under_uploader_subtree_get : forall w es tid o j s', c_hier (w_cfg w) = true ->
  step w (exec w (init_state (w_cfg w)) es) (OGetOpen tid o j) = (s', Parked) ->
  exists i, In i (ancestors w j) /\ In (o, i) (ups w (init_state (w_cfg w)) es).
Proof. exact visible_get. Qed.
Print Assumptions visible_only_under_uploader_subtree_get.

Theorem visible_only_under_uploader_subtree_find_missing : forall w es ds m s' pos o j, c_hier (w_cfg w) = true ->
  step w (exec w (init_state (w_cfg w)) es) (OFindMissing ds) = (s', Missing cOK m) ->
  nth_error ds pos = Some (o, j) -> ~ In pos m ->
  exists i, In i (ancestors w j) /\ In (o, i) (ups w (init_state (w_cfg w)) es).
Proof. exact visible_find_missing. Qed.
Print Assumptions visible_only_under_uploader_subtree_find_missing.

(** hierarchical composite read of parent o under j: the slicer receives the
    parent's reader only if o is visible under j; otherwise it receives an
    error buffer, and slicing an error buffer never returns [Done 0] *)
Theorem visible_only_under_uploader_subtree_composite : forall w es tid o j ch s' uid l r fk,
  c_hier (w_cfg w) = true ->
  step w (exec w (init_state (w_cfg w)) es) (OGfcStart tid o j ch) = (s', Parked) ->
  thr_get (s_threads s') tid = Some (TGet o uid l r fk) ->
  exists i, In i (ancestors w j) /\ In (o, i) (ups w (init_state (w_cfg w)) es).
Proof. exact visible_composite. Qed.
Print Assumptions visible_only_under_uploader_subtree_composite.

Theorem composite_of_invisible_parent_fails : forall w es tid e slices s' out, c_hier (w_cfg w) = true ->
  thr_get (s_threads (exec w (init_state (w_cfg w)) es)) tid = Some (TGfcErr e) ->
  step w (exec w (init_state (w_cfg w)) es) (OGfcSlice tid slices) = (s', out) ->
  exists c, out = Done c [] /\ c <> 0%Z.
Proof. exact composite_error_never_ok. Qed.
Print Assumptions composite_of_invisible_parent_fails.

(** ---- 2. existing_copy_requires_valid_content ---- *)
Theorem existing_copy_requires_valid_content : forall w s tid o i acc err s' out,
  thr_get (s_threads s) tid = Some (TPutExisting o i acc) ->
  step w s (OPutEnd tid err) = (s', out) ->
  (out = Done cOK [] /\ err = 0%Z /\ acc = content w o /\
   exists l, index_get s (canonical_key o) = Some l /\ s_index s' = ((o, S i), l) :: s_index s) \/
  ((exists c, out = Done c [] /\ c <> 0%Z) /\ s_index s' = s_index s).
Proof. exact existing_copy_end. Qed.
Print Assumptions existing_copy_requires_valid_content.

Theorem existing_copy_chunks_do_not_touch_index : forall w s tid o i acc data s' out,
  thr_get (s_threads s) tid = Some (TPutExisting o i acc) ->
  step w s (OPutChunk tid data) = (s', out) -> s_index s' = s_index s.
Proof. exact existing_copy_chunk. Qed.
Print Assumptions existing_copy_chunks_do_not_touch_index.

(** ---- 3. never_widens ---- *)
(** in every reachable state, whatever the next event (refresh, sync,
    eviction, FindMissing, reads, corruption, concurrent operations): a
    lookup key has an entry afterwards only if it had one before or this
    very step completed a successful upload of that object under that
    instance name *)
Theorem never_widens : forall w es e s' out o i, c_hier (w_cfg w) = true ->
  let s := exec w (init_state (w_cfg w)) es in
  step w s e = (s', out) ->
  has_entry s' (o, S i) -> has_entry s (o, S i) \/ In (o, i) (completed w s e).
Proof. exact never_widens_step. Qed.
Print Assumptions never_widens.

(** ---- 4. readable_under_every_descendant (absent eviction) ---- *)
(** after a successful upload of o under i, as long as the quarantine /
    release boundary s_tbr is unchanged (s_released <= s_tbr bounds the
    released blocks; only s_tbr enters the validity of a location), a read
    under any j below i does not answer NOT_FOUND *)
Theorem readable_under_every_descendant : forall w es1 e es2 o i j tid s' outG, c_hier (w_cfg w) = true ->
  let s := exec w (init_state (w_cfg w)) es1 in
  let sU := fst (step w s e) in
  In (o, i) (completed w s e) ->
  s_tbr (exec w sU es2) = s_tbr sU ->
  In i (ancestors w j) ->
  step w (exec w sU es2) (OGetOpen tid o j) = (s', outG) ->
  forall b, outG <> Done cNotFound b.
Proof. exact readable_under_every_descendant_trace. Qed.
Print Assumptions readable_under_every_descendant.

(** ---- 5. the monitor of Run/R10.v on runs of the model ---- *)
(** [mon10] = C01's monitor (clauses 1 content, 2 provenance, 3 integrity
    verdict without corruption) + clause 4 (readable under every descendant).
    C10 owns clause 2 (hierarchical case) and clause 4: neither ever fires,
    for every world with c_hier = true and every schedule (no thread-id
    discipline needed).  Clauses 1 and 3 are C01's statement; given it, the
    whole monitor is silent. *)
Theorem monitor_is_model_monitor : forall inp,
  mon10 inp (run_store inp) = mon10_model (dec_world inp) (dec_ops inp).
Proof. exact mon10_model_eq. Qed.
Print Assumptions monitor_is_model_monitor.

Theorem clause2_provenance_never_fires : forall w es, c_hier (w_cfg w) = true -> ~ In 2%Z (mon01_raw w es).
Proof. exact mon01_no_clause2. Qed.
Print Assumptions clause2_provenance_never_fires.

Theorem clause4_readability_never_fires : forall w es, c_hier (w_cfg w) = true -> mon10_clause4 w es = [].
Proof. exact mon10_no_clause4. Qed.
Print Assumptions clause4_readability_never_fires.

Theorem store_model_satisfies_C10_partial : forall w es, c_hier (w_cfg w) = true ->
  mon10_clause4 w es = [] /\
  forall v, In v (mon10_model w es) -> v <> 2%Z /\ In v (mon01_model w es).
Proof. exact mon10_model_only_data_clauses. Qed.
Print Assumptions store_model_satisfies_C10_partial.

(** full statement  [forall w es, c_hier (w_cfg w) = true -> mon10_model w es = []]
    = the following with C01's theorem [mon01_model w es = []] plugged in *)
Theorem store_model_satisfies_C10_given_C01 : forall w es, c_hier (w_cfg w) = true ->
  mon01_model w es = [] -> mon10_model w es = [].
Proof. exact P10Monitor.store_model_satisfies_C10_given_C01. Qed.
Print Assumptions store_model_satisfies_C10_given_C01.

(** ---- non-vacuity ---- *)
Definition ex_cfg : config :=
  {| c_bs := 16; c_old := 1; c_cur := 1; c_new := 1; c_mutable := false; c_nblocks := 5;
     c_hier := true; c_inst_keys := true; c_validate := true |}.
(** instance names: 0 = "", 1 = "a", 2 = "b", 3 = "a/x" *)
Definition ex_w : world :=
  {| w_cfg := ex_cfg; w_objs := [[1; 2; 3; 4]]; w_anc := [[0]; [0; 1]; [0; 2]; [0; 1; 3]]%nat |}.
Definition ex_es : list op :=
  [OPutStart 0 0 1; OPutChunk 0 [1; 2; 3; 4]; OPutEnd 0 0%Z;      (* upload under "a" *)
   OGetOpen 1 0 3; OGetConsume 1;                                (* readable under "a/x" *)
   OGetOpen 2 0 2; OGetOpen 3 0 0;                               (* NOT_FOUND under "b" and "" *)
   OPutStart 4 0 2; OPutChunk 4 [1; 2; 3; 5]; OPutEnd 4 0%Z;     (* existing copy, wrong bytes under "b": refused *)
   OGetOpen 5 0 2; OFindMissing [(0, 2); (0, 3)]%nat;            (* still NOT_FOUND / missing under "b" *)
   OPutStart 6 0 2; OPutChunk 6 [1; 2; 3; 4]; OPutEnd 6 0%Z;     (* existing copy, valid bytes under "b" *)
   OGetOpen 7 0 2; OGetConsume 7;                                (* now readable under "b" *)
   OGfcStart 8 0 3 0; OGfcSlice 8 [(0%nat, (0, 4))];             (* composite read under "a/x" *)
   OGfcStart 9 0 0 0; OGfcSlice 9 [(0%nat, (0, 4))]].            (* composite read under "": NOT_FOUND *)
Example ex_run :
  wf_world ex_w = true /\
  snd (run ex_w (init_state ex_cfg) ex_es) =
  [Parked; Parked; Done 0 []; Parked; Done 0 [1; 2; 3; 4]; Done 5 []; Done 5 []; Parked; Parked; Done 3 [];
   Done 5 []; Missing 0 [0%nat]; Parked; Parked; Done 0 []; Parked; Done 0 [1; 2; 3; 4]; Parked;
   Done 0 [1; 2; 3; 4]; Parked; Done 5 []] /\
  ups ex_w (init_state ex_cfg) ex_es = [(0, 1); (0, 2)]%nat.
Proof. vm_compute. repeat split. Qed.
