(** C14P — sub-check of C14: client <-> server uploads that fail at the END
    of the ByteStream.Write RPC.

    "A ByteStream Write stores an object only if ... the concatenated (for
    compressed uploads: decompressed) data matches the digest in the resource
    name; in every other case the RPC fails and nothing becomes visible" and
    "A client and server of this repository connected back to back behave
    like the backend they front" — for uploads whose verdict exists only as
    the final status of the RPC: the backend's Put fails after it consumed
    the upload, or the server-side validation rejects data the client sent
    in good faith (a buffer without a client-side digest check).

    Model: Run/R14P.v.  [pair_put]: what the client sends for ANY bytes, the
    server's Write of Rpc/ByteStream.v, an armed backend (fm 0: none, 1: fail
    after consuming, 2 / 3: fail before / while reading), the client returning
    the RPC's final status.  Reference [backend_put]: the same armed backend
    handed a CAS buffer of the same digest and data directly.  All theorems
    hold for every hash function and every codec with
    decompress (compress x) = DOk x, every chunk size >= 1, every cutting of
    the compressed stream, every state of the backend. *)
From Coq Require Import List ZArith Bool Lia.
From BBS Require Import Common.Sx Rpc.ByteStream Rpc.Batch Rpc.ClientServer Run.R14 Run.R14P Run.R14PProofs.
Import ListNotations.
Open Scope Z_scope.

(** a Put through the pair returns OK iff the data matches the digest and the
    backend accepted the upload (it was not armed) *)
Theorem put_ok_iff_valid_and_accepted :
  forall hashf decompress compress, (forall x, decompress (compress x) = DOk x) ->
  forall zstd chunk pieces st d x fm code,
  (0 < chunk)%nat -> 0 <= d_size d -> blen x <= backend_max -> fault_wf fm code ->
  (snd (pair_put hashf decompress compress zstd chunk pieces st d x fm code) = 0
   <-> valid hashf d x = true /\ fm = 0).
Proof. exact pair_put_ok_iff. Qed.
Print Assumptions put_ok_iff_valid_and_accepted.

(** ... and then exactly the data is stored under exactly the digest *)
Theorem ok_put_stores_the_data :
  forall hashf decompress compress, (forall x, decompress (compress x) = DOk x) ->
  forall zstd chunk pieces st d x fm code,
  (0 < chunk)%nat -> 0 <= d_size d -> blen x <= backend_max -> fault_wf fm code ->
  snd (pair_put hashf decompress compress zstd chunk pieces st d x fm code) = 0 ->
  fst (pair_put hashf decompress compress zstd chunk pieces st d x fm code) = st_put st d x.
Proof. exact pair_put_ok_stores. Qed.
Print Assumptions ok_put_stores_the_data.

(** a failed Put leaves the backend's contents unchanged: nothing becomes visible *)
Theorem failed_put_changes_nothing :
  forall hashf decompress compress, (forall x, decompress (compress x) = DOk x) ->
  forall zstd chunk pieces st d x fm code,
  (0 < chunk)%nat -> 0 <= d_size d -> blen x <= backend_max -> fault_wf fm code ->
  snd (pair_put hashf decompress compress zstd chunk pieces st d x fm code) <> 0 ->
  fst (pair_put hashf decompress compress zstd chunk pieces st d x fm code) = st.
Proof. exact pair_put_failed_unchanged. Qed.
Print Assumptions failed_put_changes_nothing.

(** one upload: the pair returns the code and leaves the contents the armed
    backend itself would — the backend's code on a backend failure,
    INVALID_ARGUMENT for data not matching the digest *)
Theorem pair_put_behaves_like_backend :
  forall hashf decompress compress, (forall x, decompress (compress x) = DOk x) ->
  forall zstd chunk pieces st d x fm code,
  (0 < chunk)%nat -> 0 <= d_size d -> blen x <= backend_max -> fault_wf fm code ->
  pair_put hashf decompress compress zstd chunk pieces st d x fm code = backend_put hashf st d x fm code.
Proof. exact pair_put_is_backend_put. Qed.
Print Assumptions pair_put_behaves_like_backend.

(** the Write RPC over an unarmed backend for ANY bytes handed to the client:
    OK and stored iff they match the digest; INVALID_ARGUMENT and nothing stored otherwise *)
Theorem write_of_unchecked_upload :
  forall hashf decompress compress, (forall x, decompress (compress x) = DOk x) ->
  forall zstd chunk pieces d x,
  (0 < chunk)%nat -> 0 <= d_size d -> blen x <= backend_max ->
  let r := write hashf decompress 0 (pair_rn zstd d) (pair_msgs compress zstd chunk pieces x) TEof in
  if valid hashf d x then wr_code r = 0 /\ wr_stored r = Some x
  else wr_code r = cInvalidArgument /\ wr_stored r = None.
Proof. exact pair_write_spec. Qed.
Print Assumptions write_of_unchecked_upload.

(** whole histories of Put / Get / FindMissing, from any state: the pair
    gives the results and the final contents of the armed backend used directly *)
Theorem pair_behaves_like_backend :
  forall hashf decompress compress, (forall x, decompress (compress x) = DOk x) ->
  forall blobs zstd chunk, (0 < chunk)%nat ->
  forall ops st, Forall (op_wf14P blobs) ops ->
  p_ops blobs (pair_put hashf decompress compress zstd chunk []) (pair_get hashf decompress compress zstd chunk) st ops
  = p_ops blobs (backend_put hashf) (direct_get hashf) st ops.
Proof. exact p_ops_pair_backend. Qed.
Print Assumptions pair_behaves_like_backend.

(** the judge's model (run14P) is the reference (run14P_backend) on every well-formed case *)
Theorem model_of_pair_is_backend : forall inp, inp_wf14P inp -> run14P inp = run14P_backend inp.
Proof. exact run14P_is_backend. Qed.
Print Assumptions model_of_pair_is_backend.

(** the monitor never fires on the model (all histories; hypotheses: chunk >= 1,
    Put sizes >= 0 and data <= 1 MiB, faults armed with a non-OK code, Get
    sizes <= 1 MiB, FindMissing sizes >= 0) and the judge accepts the model's output *)
Theorem mon14P_silent_on_model : forall inp, inp_wf14P inp -> mon14P inp (run14P inp) = [].
Proof. exact R14PProofs.mon14P_silent_on_model. Qed.
Print Assumptions mon14P_silent_on_model.

Theorem model_outcome_is_accepted_p : forall inp, agree14P inp (run14P inp) (run14P inp) = true.
Proof. exact agree14P_model. Qed.
Print Assumptions model_outcome_is_accepted_p.

(** ** Non-vacuity *)

(** the seed's demonstration: zstd, the backend's Put of "hello world" fails
    with RESOURCE_EXHAUSTED after consuming the upload; FindMissing; the
    unfaulted Put; Get — plus an upload of another blob's bytes *)
Definition example_history : sx :=
  L [L [of_Zs [104; 101; 108; 108; 111]; of_Zs [104; 101; 108; 108; 112]]; A 1; A 64;
     L [L [A 0; A 0; A 5; A 1; A 8; A 0];
        L [A 2; L [L [A 0; A 5]]];
        L [A 0; A 0; A 5; A 0; A 0; A 1];
        L [A 1; A 0; A 5];
        L [A 0; A 0; A 5; A 0; A 0; A 0];
        L [A 1; A 0; A 5]]].

Example example_history_run :
  inp_wf14P example_history
  /\ run14P example_history =
     L [L [L [A 8; L []; A 8];
           L [A 0; L [L [A 0; A 5]]; A (-1)];
           L [A 3; L []; A 3];
           L [A 5; L []; A (-1)];
           L [A 0; L []; A 0];
           L [A 0; of_Zs [104; 101; 108; 108; 111]; A (-1)]];
        L [L [A 0; A 5; of_Zs [104; 101; 108; 108; 111]]]].
Proof.
  split; [|vm_compute; reflexivity].
  split; [apply Nat.ltb_lt; vm_compute; reflexivity|].
  cbn [example_history sx_nth sx_list nth].
  repeat (apply Forall_cons;
          [unfold op_wf14P, fault_wf; vm_compute; repeat constructor; vm_compute; intuition discriminate|]).
  apply Forall_nil.
Qed.

(** The monitor is not trivially silent: the observation of a client that
    drops the final status of the Write RPC (seeded C14-h: Put returns OK
    although the backend failed with RESOURCE_EXHAUSTED, and although the
    server rejected mismatching data) violates clauses 1 and 4. *)
Example monitor_fires_on_dropped_status :
  mon14P example_history
    (L [L [L [A 0; L []; A 8];
           L [A 0; L [L [A 0; A 5]]; A (-1)];
           L [A 0; L []; A 3];
           L [A 5; L []; A (-1)];
           L [A 0; L []; A 0];
           L [A 0; of_Zs [104; 101; 108; 108; 111]; A (-1)]];
        L [L [A 0; A 5; of_Zs [104; 101; 108; 108; 111]]]]) = [1; 4; 1; 4].
Proof. vm_compute. reflexivity. Qed.

(** ... a client reporting a backend failure with another code violates
    clause 4, a spurious failure clause 2, a blob left behind by a failed
    Put clause 3 *)
Example monitor_fires_on_other_code :
  mon14P (L [L [of_Zs [1; 2]]; A 0; A 1; L [L [A 0; A 0; A 2; A 1; A 8; A 0]]])
         (L [L [L [A 13; L []; A 8]]; L []]) = [4].
Proof. vm_compute. reflexivity. Qed.
Example monitor_fires_on_spurious_failure :
  mon14P (L [L [of_Zs [1; 2]]; A 0; A 1; L [L [A 0; A 0; A 2; A 0; A 0; A 0]]])
         (L [L [L [A 14; L []; A 0]]; L [L [A 0; A 2; of_Zs [1; 2]]]]) = [2; 3].
Proof. vm_compute. reflexivity. Qed.

(** The hypothesis of the monitor theorem is needed: a "fault" armed with
    code OK is no failure; the model then returns OK with nothing stored and
    clause 1 fires on it. *)
Example fault_wf_needed :
  let inp := L [L [of_Zs [1; 2]]; A 0; A 1; L [L [A 0; A 0; A 2; A 1; A 0; A 0]]] in
  mon14P inp (run14P inp) <> [].
Proof. vm_compute. discriminate. Qed.
