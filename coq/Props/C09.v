(** C09 — CAS buffers never complete a read of content that mismatches its
    digest.  Statements only; proofs are in Buffer/ValidateProofs.v and
    Buffer/ConvertProofs.v.

    [H] is the hash function of the digest (any function), [cfg] the digest's
    hash and size and the Source's error code.  The validator theorems hold
    over ANY underlying ChunkReader [(S, rd)] — scripted sources, decorated
    readers, and the error-handling reader of C16 alike; [drains rd s bs e s']
    says that reading [s] to its first error yields the chunks [bs] (concatenated)
    and then error [e] (io.EOF = [EEof]); [pulls] is any number of successful reads. *)
From Coq Require Import List ZArith NArith Bool.
From BBS Require Import Common.Sx Buffer.Source Buffer.Validate Buffer.Convert
  Buffer.StreamProofs Buffer.ValidateProofs Buffer.ConvertProofs
  Buffer.ValidateReaderProofs Buffer.ReaderBufferProofs Buffer.ConvertProofs2 Buffer.OtherwiseProofs Run.R09
  Buffer.C09FullValidate Buffer.C09FullCombinators Buffer.C09FullReader Buffer.C09FullChunk
  Buffer.C09FullReaderBuf Buffer.C09FullSizeFirst Buffer.C09FullComplete Buffer.C09FullMonitor Buffer.C09FullExtras
  Buffer.C09FuelLoops Buffer.C09FuelSuffices Buffer.C09FuelProps.
Import ListNotations.
Open Scope N_scope.

(** Completion of the validated stream implies that the complete content has
    exactly the digest's size and hash, and that it is what was handed out. *)
Theorem complete_implies_valid : forall H cfg S (rd : S -> bytes * err * S) fuel u0 out st',
  drains (vcr_read H cfg rd fuel) (vinit cfg u0) out EEof st' ->
  (exists u, drains rd u0 out EEof u) /\ lenN out = g_size cfg /\ g_hash cfg = H out.
Proof. exact vcr_complete_implies_valid. Qed.
Print Assumptions complete_implies_valid.

(** The final portion is withheld: after any number of reads, a consumer of
    an invalid stream holds fewer than [size] bytes (for content shorter than
    the digest's size that is all of it; for an empty digest, nothing). *)
Theorem withhold : forall H cfg S (rd : S -> bytes * err * S) fuel u0 out st',
  pulls (vcr_read H cfg rd fuel) (vinit cfg u0) out st' ->
  ~ valid_stream H cfg rd u0 -> lenN out < g_size cfg \/ out = [].
Proof. exact vcr_withhold. Qed.
Print Assumptions withhold.

(** The integrity callback never reports valid for an invalid stream and
    never invalid for a valid one (in every reachable state, and at the end). *)
Theorem callback_sound : forall H cfg S (rd : S -> bytes * err * S) fuel u0 out st',
  pulls (vcr_read H cfg rd fuel) (vinit cfg u0) out st' ->
  (In true (v_cbs st') -> valid_stream H cfg rd u0) /\
  (In false (v_cbs st') -> ~ valid_stream H cfg rd u0).
Proof. exact vcr_callback_sound. Qed.
Print Assumptions callback_sound.

Theorem callback_sound_at_end : forall H cfg S (rd : S -> bytes * err * S) fuel u0 out e st',
  drains (vcr_read H cfg rd fuel) (vinit cfg u0) out e st' ->
  (In true (v_cbs st') -> valid_stream H cfg rd u0) /\
  (In false (v_cbs st') -> ~ valid_stream H cfg rd u0).
Proof. exact vcr_callback_sound_end. Qed.
Print Assumptions callback_sound_at_end.

(** A failure is the Source's code for an invalid stream, or the source's own
    first I/O error passed through (or the model ran out of fuel). *)
Theorem failure_origin : forall H cfg S (rd : S -> bytes * err * S) fuel u0 out e st',
  drains (vcr_read H cfg rd fuel) (vinit cfg u0) out e st' -> e <> EEof ->
  e = EFuel \/ (e = ECode (g_code cfg) /\ ~ valid_stream H cfg rd u0) \/
  (exists bs u', drains rd u0 bs e u').
Proof. exact vcr_error_origin. Qed.
Print Assumptions failure_origin.

(** Mismatch => error with the Source's code when the source itself ends cleanly. *)
Theorem mismatch_code : forall H cfg S (rd : S -> bytes * err * S) fuel u0 content uend out e st',
  drains rd u0 content EEof uend -> ~ valid_stream H cfg rd u0 ->
  drains (vcr_read H cfg rd fuel) (vinit cfg u0) out e st' ->
  e = ECode (g_code cfg) \/ e = EFuel.
Proof. exact vcr_mismatch_code. Qed.
Print Assumptions mismatch_code.

(** Errors (and io.EOF) are sticky. *)
Theorem sticky : forall H cfg S (rd : S -> bytes * err * S) fuel st c e st',
  vcr_read H cfg rd fuel st = ((c, e), st') -> e <> ENone ->
  c = [] /\ vcr_read H cfg rd fuel st' = (([], e), st').
Proof. exact vcr_sticky. Qed.
Print Assumptions sticky.

(** * casValidatingReader, over ANY underlying io.Reader [(S, rd)] whose
    remaining content is given by [cont] (law [rd_spec]: a read hands out a
    prefix of what is left; an error ends it) and that never returns
    io.ErrUnexpectedEOF itself.  [rdrains]/[rpulls]: reads with arbitrary
    buffer sizes; data returned together with the final error is received. *)
Theorem reader_complete_implies_valid : forall H cfg S (rd : N -> S -> bytes * err * S) fuel cont,
  (forall cap s c e s', rd cap s = ((c, e), s') ->
     match e with ENone => cont s = (c ++ fst (cont s'), snd (cont s')) | _ => cont s = (c, e) end) ->
  (forall cap s c e s', rd cap s = ((c, e), s') -> e <> EUnexp) ->
  forall u0 out st',
  rdrains (vr_read H cfg rd fuel) (vinit cfg u0) out EEof st' ->
  cont u0 = (out, EEof) /\ lenN out = g_size cfg /\ g_hash cfg = H out.
Proof. exact vr_complete_implies_valid. Qed.
Print Assumptions reader_complete_implies_valid.

Theorem reader_withhold : forall H cfg S (rd : N -> S -> bytes * err * S) fuel cont,
  (forall cap s c e s', rd cap s = ((c, e), s') ->
     match e with ENone => cont s = (c ++ fst (cont s'), snd (cont s')) | _ => cont s = (c, e) end) ->
  (forall cap s c e s', rd cap s = ((c, e), s') -> e <> EUnexp) ->
  forall u0 out e st',
  rpulls (vr_read H cfg rd fuel) (vinit cfg u0) out st' \/ rdrains (vr_read H cfg rd fuel) (vinit cfg u0) out e st' ->
  ~ valid_reader H cfg cont u0 -> lenN out < g_size cfg \/ out = [].
Proof. exact vr_withhold. Qed.
Print Assumptions reader_withhold.

Theorem reader_callback_sound : forall H cfg S (rd : N -> S -> bytes * err * S) fuel cont,
  (forall cap s c e s', rd cap s = ((c, e), s') ->
     match e with ENone => cont s = (c ++ fst (cont s'), snd (cont s')) | _ => cont s = (c, e) end) ->
  (forall cap s c e s', rd cap s = ((c, e), s') -> e <> EUnexp) ->
  forall u0 out e st',
  rpulls (vr_read H cfg rd fuel) (vinit cfg u0) out st' \/ rdrains (vr_read H cfg rd fuel) (vinit cfg u0) out e st' ->
  (In true (v_cbs st') -> valid_reader H cfg cont u0) /\ (In false (v_cbs st') -> ~ valid_reader H cfg cont u0).
Proof. exact vr_callback_sound. Qed.
Print Assumptions reader_callback_sound.

Theorem reader_sticky : forall H cfg S (rd : N -> S -> bytes * err * S) fuel st cap d e st',
  vr_read H cfg rd fuel cap st = ((d, e), st') -> e <> ENone ->
  forall cap', vr_read H cfg rd fuel cap' st' = (([], e), st').
Proof. exact vr_sticky. Qed.
Print Assumptions reader_sticky.

(** * The exported constructors: for both stream constructors, every script
    (chunkings, empty chunks, short reads, early EOF, trailing data, errors
    anywhere, EOF/error attached to data or not), every digest and hash
    function, every method but Discard and every parameter (offset, chunk
    size, read sizes, buffer length): the call/stream completes only if the
    script's content ends with EOF and has the digest's size and hash, and the
    consumer then holds exactly the expected slice of it. *)
Theorem chunk_reader_buffer_complete_implies_valid : forall H cfg fuel evs m o,
  m <> MDiscard ->
  cas_chunk_reader H cfg fuel evs m = o -> completed m (o_err o) = true ->
  valid_script H cfg evs /\ o_data o = expected_slice m (fst (content evs)).
Proof. exact chunk_reader_complete_implies_valid. Qed.
Print Assumptions chunk_reader_buffer_complete_implies_valid.

Theorem reader_buffer_complete_implies_valid : forall H cfg fuel evs attach m o,
  m <> MDiscard ->
  cas_reader H cfg fuel evs attach m = o -> completed m (o_err o) = true ->
  valid_script H cfg evs /\ o_data o = expected_slice m (fst (content evs)).
Proof. exact ReaderBufferProofs.reader_complete_implies_valid. Qed.
Print Assumptions reader_buffer_complete_implies_valid.

(** * The model's fuel.  Every consumption loop of the model runs on a fuel
    counter and yields the marker [EFuel] when it runs out; one fuel value is
    handed to every loop.  [script_fuel evs] (= 16 + 4 * (number of events +
    number of bytes in chunks), the value [run09] uses) is enough: for EVERY
    script, digest, hash function, attach flag and method whose loop
    parameters are positive ([good_param]: ToChunkReader's maximum chunk size
    and every ToReader buffer size at least 1), no constructor's outcome is
    [EFuel].  Monotone in the fuel.  (A maximum chunk size 0 makes the
    normalizing reader hand out empty chunks for ever, a zero-length read
    buffer makes no progress either: witnesses [c09_fuel_needs_good_param].) *)
Theorem script_fuel_suffices_chunk_reader : forall H cfg fuel evs m,
  (script_fuel evs <= fuel)%nat -> good_param m = true ->
  o_err (cas_chunk_reader H cfg fuel evs m) <> EFuel.
Proof. exact chunk_fuel_suffices. Qed.
Print Assumptions script_fuel_suffices_chunk_reader.

Theorem script_fuel_suffices_reader : forall H cfg fuel evs attach m,
  (script_fuel evs <= fuel)%nat -> good_param m = true ->
  o_err (cas_reader H cfg fuel evs attach m) <> EFuel.
Proof. exact reader_fuel_suffices. Qed.
Print Assumptions script_fuel_suffices_reader.

(** NewCASBufferFromByteSlice: fuel above the length of the data; in particular
    [script_fuel] of a script whose content the data is. *)
Theorem script_fuel_suffices_byte_slice : forall H cfg fuel data m,
  (length data < fuel)%nat -> good_param m = true ->
  o_err (cas_byte_slice H cfg fuel data m) <> EFuel.
Proof. exact byte_slice_fuel_suffices. Qed.
Print Assumptions script_fuel_suffices_byte_slice.

Theorem script_fuel_suffices_byte_slice_of_script : forall H cfg fuel evs m,
  (script_fuel evs <= fuel)%nat -> good_param m = true ->
  o_err (cas_byte_slice H cfg fuel (fst (content evs)) m) <> EFuel.
Proof. exact byte_slice_script_fuel_suffices. Qed.
Print Assumptions script_fuel_suffices_byte_slice_of_script.

(** the decoded model run of [run09] never ends with [EFuel] *)
Theorem script_fuel_suffices_run09 : forall inp,
  good_param (k_meth (dec_case inp)) = true -> o_err (out09 inp) <> EFuel.
Proof. exact out09_not_fuel. Qed.
Print Assumptions script_fuel_suffices_run09.

(** Non-vacuity: a script and a method that meet the hypotheses; and each
    clause of [good_param] is needed (chunk size 0 / read buffer size 0 run out
    of any fuel: here [script_fuel]). *)
Example c09_fuel_instance :
  let H := lookup [([1; 2; 3], [9; 9])] in
  let cfg := mkVcfg [9; 9] 3 13 in
  let evs := [Chunk [1]; Chunk []; Chunk [2; 3]; Eof] in
  let m := MToChunkReader 1 2 1 in
  (script_fuel evs <= script_fuel evs)%nat /\ good_param m = true /\
  cas_chunk_reader H cfg (script_fuel evs) evs m = mkOut [2; 3] EEof [EEof] [true] 1 [].
Proof. split; [apply le_n|]. vm_compute. auto. Qed.
Example c09_fuel_needs_good_param :
  let H := lookup [([1; 2; 3], [9; 9])] in
  let cfg := mkVcfg [9; 9] 3 13 in
  let evs := [Chunk [1]; Chunk [2; 3]; Eof] in
  good_param (MToChunkReader 0 0 0) = false /\ good_param (MToReader [2; 0] 0) = false /\
  o_err (cas_chunk_reader H cfg (script_fuel evs) evs (MToChunkReader 0 0 0)) = EFuel /\
  o_err (cas_reader H cfg (script_fuel evs) evs true (MToChunkReader 0 0 0)) = EFuel /\
  o_err (cas_byte_slice H cfg (script_fuel evs) [1; 2; 3] (MToChunkReader 0 0 0)) = EFuel /\
  o_err (cas_chunk_reader H cfg (script_fuel evs) evs (MToReader [2; 0] 0)) = EFuel /\
  o_err (cas_reader H cfg (script_fuel evs) evs false (MToReader [2; 0] 0)) = EFuel /\
  o_err (cas_byte_slice H cfg (script_fuel evs) [1; 2; 3] (MToReader [2; 0] 0)) = EFuel.
Proof. vm_compute. repeat split; reflexivity. Qed.

(** * The "otherwise" half at constructor level, for EVERY consumption method
    (ToByteSlice, IntoWriter, ReadAt, ToChunkReader at any offset and chunk
    size, ToReader with any read sizes, CloneCopy + ToByteSlice on both copies;
    Discard consumes nothing), every script, digest, hash function, and every
    fuel of at least [script_fuel] with positive loop parameters ([good_param]).

    (a) The integrity callback verdicts are sound — no hypothesis at all (not
        even on fuel): never positive for mismatching content, never negative
        for matching content. *)
Theorem chunk_reader_buffer_callbacks_sound : forall H cfg fuel evs m,
  (In true (o_cbs (cas_chunk_reader H cfg fuel evs m)) -> valid_script H cfg evs) /\
  (In false (o_cbs (cas_chunk_reader H cfg fuel evs m)) -> ~ valid_script H cfg evs).
Proof. exact chunk_callbacks_sound. Qed.
Print Assumptions chunk_reader_buffer_callbacks_sound.

Theorem reader_buffer_callbacks_sound : forall H cfg fuel evs attach m,
  (In true (o_cbs (cas_reader H cfg fuel evs attach m)) -> valid_script H cfg evs) /\
  (In false (o_cbs (cas_reader H cfg fuel evs attach m)) -> ~ valid_script H cfg evs).
Proof. exact reader_callbacks_sound. Qed.
Print Assumptions reader_buffer_callbacks_sound.

(** (b) The error.  [expected_err cfg c t] is the error a consumer must see for
    content [c] terminated by [t] that is not valid: content longer than the
    digest's size => the Source's code (INVALID_ARGUMENT 3 for client-supplied,
    INTERNAL 13 for backend data) whatever follows; otherwise a source I/O
    error is passed through; a clean end (content too short, or of the right
    size with the wrong hash) => the Source's code.  It is never a completion. *)
Theorem expected_err_too_long : forall cfg c t,
  g_size cfg < lenN c -> expected_err cfg c t = ECode (g_code cfg).
Proof. exact C09FullValidate.expected_err_too_long. Qed.
Print Assumptions expected_err_too_long.
Theorem expected_err_io_first : forall cfg c x,
  lenN c <= g_size cfg -> expected_err cfg c (ECode x) = ECode x.
Proof. exact C09FullValidate.expected_err_io_first. Qed.
Print Assumptions expected_err_io_first.
Theorem expected_err_clean_end : forall cfg c, expected_err cfg c EEof = ECode (g_code cfg).
Proof. exact C09FullValidate.expected_err_clean_end. Qed.
Print Assumptions expected_err_clean_end.
Theorem expected_err_is_error : forall cfg evs,
  let e := expected_err cfg (fst (content evs)) (snd (content evs)) in
  e <> ENone /\ e <> EEof /\ e <> EUnexp /\ e <> EFuel.
Proof. exact expected_not_done. Qed.
Print Assumptions expected_err_is_error.

(** (c) Invalid content, parameters the method accepts ([bad_param] = false:
    max >= size for ToByteSlice/CloneCopy, offset >= 0 for ReadAt, 0 <= offset
    <= size for ToChunkReader), positive loop parameters and fuel of at least
    [script_fuel] (so the model does not run out of fuel): the
    consumer receives exactly [expected_err]; counted from the method's offset
    it has received fewer than [size] bytes of the candidate (nothing at all
    through the non-streaming methods). *)
Theorem chunk_reader_buffer_otherwise : forall H cfg fuel evs m o,
  m <> MDiscard -> cas_chunk_reader H cfg fuel evs m = o ->
  (script_fuel evs <= fuel)%nat -> good_param m = true ->
  ~ valid_script H cfg evs -> bad_param (g_size cfg) m = false ->
  o_err o = expected_err cfg (fst (content evs)) (snd (content evs)) /\
  (o_data o = [] \/ Z.to_N (m_off m) + lenN (o_data o) < g_size cfg) /\
  (streams m = false -> o_data o = []).
Proof. exact chunk_otherwise_fuel. Qed.
Print Assumptions chunk_reader_buffer_otherwise.

Theorem reader_buffer_otherwise : forall H cfg fuel evs attach m o,
  m <> MDiscard -> cas_reader H cfg fuel evs attach m = o ->
  (script_fuel evs <= fuel)%nat -> good_param m = true ->
  ~ valid_script H cfg evs -> bad_param (g_size cfg) m = false ->
  o_err o = expected_err cfg (fst (content evs)) (snd (content evs)) /\
  (o_data o = [] \/ Z.to_N (m_off m) + lenN (o_data o) < g_size cfg) /\
  (streams m = false -> o_data o = []).
Proof. exact reader_otherwise_fuel. Qed.
Print Assumptions reader_buffer_otherwise.

(** (d) A parameter the method must reject is rejected with INVALID_ARGUMENT
    before anything is read (whatever the content and the loop parameters). *)
Theorem chunk_reader_buffer_bad_param : forall H cfg fuel evs m o,
  cas_chunk_reader H cfg fuel evs m = o -> (script_fuel evs <= fuel)%nat ->
  bad_param (g_size cfg) m = true ->
  o_err o = ECode 3 /\ o_data o = [] /\ o_cbs o = [] /\ o_aux o = [].
Proof. exact chunk_bad_param_fuel. Qed.
Print Assumptions chunk_reader_buffer_bad_param.

Theorem reader_buffer_bad_param : forall H cfg fuel evs attach m o,
  cas_reader H cfg fuel evs attach m = o -> bad_param (g_size cfg) m = true ->
  o_err o = ECode 3 /\ o_data o = [] /\ o_cbs o = [] /\ o_aux o = [].
Proof. exact reader_bad_param. Qed.
Print Assumptions reader_buffer_bad_param.

(** (e) The converse the monitor relies on: VALID content with accepted
    parameters (and positive loop parameters, fuel of at least [script_fuel])
    is never rejected — the call / stream completes. *)
Theorem chunk_reader_buffer_valid_completes : forall H cfg fuel evs m o,
  m <> MDiscard -> cas_chunk_reader H cfg fuel evs m = o ->
  (script_fuel evs <= fuel)%nat -> good_param m = true ->
  valid_script H cfg evs -> bad_param (g_size cfg) m = false ->
  completed m (o_err o) = true.
Proof. exact chunk_valid_completes_fuel. Qed.
Print Assumptions chunk_reader_buffer_valid_completes.

Theorem reader_buffer_valid_completes : forall H cfg fuel evs attach m o,
  m <> MDiscard -> cas_reader H cfg fuel evs attach m = o ->
  (script_fuel evs <= fuel)%nat -> good_param m = true ->
  valid_script H cfg evs -> bad_param (g_size cfg) m = false ->
  completed m (o_err o) = true.
Proof. exact reader_valid_completes_fuel. Qed.
Print Assumptions reader_buffer_valid_completes.

(** (f) After the end of the stream nothing more is handed out (any script,
    valid or not; positive loop parameters, fuel of at least [script_fuel]):
    further reads of a ToChunkReader repeat the error and carry no data;
    further reads of a ToReader carry no data. *)
Theorem chunk_reader_buffer_chunk_reader_extras : forall H cfg fuel evs off max k,
  let o := cas_chunk_reader H cfg fuel evs (MToChunkReader off max k) in
  (script_fuel evs <= fuel)%nat -> good_param (MToChunkReader off max k) = true ->
  o_extra o = repeat (o_err o) k /\ o_aux o = [].
Proof. exact chunk_to_chunk_reader_extras_fuel. Qed.
Print Assumptions chunk_reader_buffer_chunk_reader_extras.
Theorem reader_buffer_chunk_reader_extras : forall H cfg fuel evs attach off max k,
  let o := cas_reader H cfg fuel evs attach (MToChunkReader off max k) in
  (script_fuel evs <= fuel)%nat -> good_param (MToChunkReader off max k) = true ->
  o_extra o = repeat (o_err o) k /\ o_aux o = [].
Proof. exact reader_to_chunk_reader_extras_fuel. Qed.
Print Assumptions reader_buffer_chunk_reader_extras.
Theorem chunk_reader_buffer_reader_extras : forall H cfg fuel evs caps k,
  let o := cas_chunk_reader H cfg fuel evs (MToReader caps k) in
  (script_fuel evs <= fuel)%nat -> good_param (MToReader caps k) = true -> o_aux o = [].
Proof. exact chunk_to_reader_extras_fuel. Qed.
Print Assumptions chunk_reader_buffer_reader_extras.
Theorem reader_buffer_reader_extras : forall H cfg fuel evs attach caps k,
  let o := cas_reader H cfg fuel evs attach (MToReader caps k) in
  (script_fuel evs <= fuel)%nat -> good_param (MToReader caps k) = true -> o_aux o = [].
Proof. exact reader_to_reader_extras_fuel. Qed.
Print Assumptions reader_buffer_reader_extras.

(** (g) NewCASBufferFromByteSlice validates eagerly: mismatching data => every
    method fails with the Source's code, hands out nothing, one negative verdict. *)
Theorem byte_slice_buffer_otherwise : forall H cfg fuel data m,
  m <> MDiscard -> ~ (lenN data = g_size cfg /\ g_hash cfg = H data) ->
  let o := cas_byte_slice H cfg fuel data m in
  o_err o = ECode (g_code cfg) /\ o_data o = [] /\ o_aux o = [] /\ o_cbs o = [false].
Proof. exact byte_slice_otherwise. Qed.
Print Assumptions byte_slice_buffer_otherwise.

(** * size_before_hash.  The hash function enters only through the comparison
    with the digest's hash; the whole outcome (data, error, further reads,
    callbacks, closes) is the same for any two hash functions that agree on
    the complete content, and even that matters only for content that ends
    with io.EOF and has exactly the digest's size.  So for content of the wrong
    size, or ending in an I/O error, the hash is never consulted. *)
Theorem chunk_reader_buffer_hash_only_at_content : forall H1 H2 cfg fuel evs,
  (snd (content evs) = EEof -> lenN (fst (content evs)) = g_size cfg ->
   H1 (fst (content evs)) = H2 (fst (content evs))) ->
  forall m, cas_chunk_reader H1 cfg fuel evs m = cas_chunk_reader H2 cfg fuel evs m.
Proof. exact chunk_hash_only_at_content. Qed.
Print Assumptions chunk_reader_buffer_hash_only_at_content.

Theorem reader_buffer_hash_only_at_content : forall H1 H2 cfg fuel evs,
  (snd (content evs) = EEof -> lenN (fst (content evs)) = g_size cfg ->
   H1 (fst (content evs)) = H2 (fst (content evs))) ->
  forall attach m, cas_reader H1 cfg fuel evs attach m = cas_reader H2 cfg fuel evs attach m.
Proof. exact reader_hash_only_at_content. Qed.
Print Assumptions reader_buffer_hash_only_at_content.

Theorem size_before_hash_chunk_reader : forall H1 H2 cfg fuel evs m,
  ~ (snd (content evs) = EEof /\ lenN (fst (content evs)) = g_size cfg) ->
  cas_chunk_reader H1 cfg fuel evs m = cas_chunk_reader H2 cfg fuel evs m.
Proof. exact chunk_size_before_hash. Qed.
Print Assumptions size_before_hash_chunk_reader.

Theorem size_before_hash_reader : forall H1 H2 cfg fuel evs attach m,
  ~ (snd (content evs) = EEof /\ lenN (fst (content evs)) = g_size cfg) ->
  cas_reader H1 cfg fuel evs attach m = cas_reader H2 cfg fuel evs attach m.
Proof. exact reader_size_before_hash. Qed.
Print Assumptions size_before_hash_reader.

Theorem size_before_hash_byte_slice : forall H1 H2 cfg fuel data m,
  lenN data <> g_size cfg ->
  cas_byte_slice H1 cfg fuel data m = cas_byte_slice H2 cfg fuel data m.
Proof. exact byte_slice_size_before_hash. Qed.
Print Assumptions size_before_hash_byte_slice.

(** NewCASBufferFromByteSlice: every method. *)
Theorem byte_slice_buffer_complete_implies_valid : forall H cfg fuel data m,
  m <> MDiscard ->
  completed m (o_err (cas_byte_slice H cfg fuel data m)) = true ->
  lenN data = g_size cfg /\ g_hash cfg = H data /\
  o_data (cas_byte_slice H cfg fuel data m) = expected_slice m data.
Proof. exact byte_slice_complete_implies_valid. Qed.
Print Assumptions byte_slice_buffer_complete_implies_valid.

Theorem byte_slice_buffer_callback : forall H cfg fuel data m,
  o_cbs (cas_byte_slice H cfg fuel data m) =
    [(g_size cfg =? lenN data) && bytes_eqb (g_hash cfg) (H data)].
Proof. exact byte_slice_callback. Qed.
Print Assumptions byte_slice_buffer_callback.

(** Non-vacuity: a valid script read at offset 1 in chunks of 2 completes with
    the expected slice and one positive verdict; the same script with one byte
    changed hands out nothing of the last chunk and reports a negative verdict. *)
Example c09_completes :
  let H := lookup [([1; 2; 3], [9; 9])] in
  let cfg := mkVcfg [9; 9] 3 13 in
  cas_chunk_reader H cfg 40 [Chunk [1]; Chunk []; Chunk [2; 3]; Eof] (MToChunkReader 1 2 1)
  = mkOut [2; 3] EEof [EEof] [true] 1 [].
Proof. vm_compute. reflexivity. Qed.
Example c09_withholds :
  let H := lookup [([1; 2; 3], [9; 9])] in
  let cfg := mkVcfg [9; 9] 3 13 in
  cas_chunk_reader H cfg 40 [Chunk [1]; Chunk []; Chunk [2; 4]; Eof] (MToChunkReader 0 2 1)
  = mkOut [1] (ECode 13) [ECode 13] [false] 1 [].
Proof. vm_compute. reflexivity. Qed.

(** Non-vacuity of the "otherwise" theorems: invalid scripts with sane
    parameters and enough fuel; the error is [expected_err]: an I/O error after
    at most [size] bytes is passed through, after more than [size] bytes the
    Source's code wins; with offset 1 fewer than size-1 bytes arrive. *)
Example c09_io_error_first :
  let H := lookup [([1; 2; 3], [9; 9])] in
  let cfg := mkVcfg [9; 9] 3 13 in
  let evs := [Chunk [1; 2]; Chunk [3]; Err 14] in
  ~ valid_script H cfg evs /\ bad_param 3 (MToReader [2] 1) = false /\
  expected_err cfg (fst (content evs)) (snd (content evs)) = ECode 14 /\
  cas_reader H cfg 40 evs true (MToReader [2] 1) = mkOut [1; 2] (ECode 14) [ECode 14] [] 1 [].
Proof. vm_compute. split; [intros (A & _); discriminate|auto]. Qed.
Example c09_too_long_before_io_error :
  let H := lookup [([1; 2; 3], [9; 9])] in
  let cfg := mkVcfg [9; 9] 3 13 in
  let evs := [Chunk [1; 2]; Chunk [3; 4]; Err 14] in
  ~ valid_script H cfg evs /\
  expected_err cfg (fst (content evs)) (snd (content evs)) = ECode 13 /\
  cas_chunk_reader H cfg 40 evs (MToChunkReader 1 8 0) = mkOut [2] (ECode 13) [] [false] 1 [].
Proof. vm_compute. split; [intros (A & _); discriminate|auto]. Qed.
(** size before hash: content of the wrong size gives the same outcome for a
    hash function under which it would match and one under which it would not. *)
Example c09_size_before_hash :
  let cfg := mkVcfg [9; 9] 3 3 in
  let evs := [Chunk [1; 2]; Eof] in
  cas_chunk_reader (fun _ => [9; 9]) cfg 40 evs MIntoWriter = mkOut [1; 2] (ECode 3) [] [false] 1 [] /\
  cas_chunk_reader (fun _ => []) cfg 40 evs MIntoWriter = mkOut [1; 2] (ECode 3) [] [false] 1 [].
Proof. vm_compute. auto. Qed.

(** * The monitor never fires on the model: for every input (any sx, all three
    constructors, every method) whose script error codes are genuine gRPC
    error codes (positive) and whose method has positive loop parameters
    ([good_param]: ToChunkReader's maximum chunk size and every ToReader buffer
    size at least 1), all seven clauses of [mon09] are silent on the model's
    own output.  There is no fuel hypothesis any more: [run09] runs the model
    on [script_fuel] of the decoded script, which suffices
    ([script_fuel_suffices_run09]).
    Full statement (no hypotheses) is FALSE in the sx encoding — see the two
    witnesses below; kept as a comment:
      forall inp, mon09 inp (run09 inp) = []. *)
Theorem mon09_silent_on_model_partial : forall inp,
  (forall x, In (Err x) (k_evs (dec_case inp)) -> (0 < x)%Z) ->
  good_param (k_meth (dec_case inp)) = true ->
  mon09 inp (run09 inp) = [].
Proof. exact mon09_silent_on_model_good. Qed.
Print Assumptions mon09_silent_on_model_partial.

(** Both hypotheses are necessary.  ToChunkReader with maximum chunk size 0
    ([good_param] = false) never ends (the normalizing reader hands out empty
    chunks for ever): the model runs out of fuel and clause 3 fires on code -3.
    A script error with code 0 is passed through and reads as nil in an
    observation: clause 1. *)
Example mon09_fires_without_fuel :
  let inp := L [A 2; A 0; L [A 0; L [A 9]; A 1]; L [A 0; L [L [A 0; L [A 7]]; L [A 2]]];
                L [A 3; A 0; A 0; A 0]; L [L [L [A 7]; L [A 9]]]] in
  good_param (k_meth (dec_case inp)) = false /\
  o_err (out09 inp) = EFuel /\ mon09 inp (run09 inp) = [3%Z].
Proof. vm_compute. auto. Qed.
Example mon09_fires_on_error_code_0 :
  let inp := L [A 2; A 0; L [A 0; L [A 9]; A 1]; L [A 0; L [L [A 0; L [A 7]]; L [A 1; A 0]]];
                L [A 0; A 5]; L [L [L [A 7]; L [A 9]]]] in
  good_param (k_meth (dec_case inp)) = true /\
  o_err (out09 inp) = ECode 0 /\ mon09 inp (run09 inp) = [1%Z].
Proof. vm_compute. auto. Qed.
(** non-vacuity: an input that meets both hypotheses *)
Example mon09_silent_instance :
  let inp := L [A 2; A 1; L [A 0; L [A 9]; A 1]; L [A 0; L [L [A 0; L [A 7]]; L [A 2]]];
                L [A 3; A 0; A 4; A 1]; L [L [L [A 7]; L [A 9]]]] in
  (forall x, In (Err x) (k_evs (dec_case inp)) -> (0 < x)%Z) /\
  good_param (k_meth (dec_case inp)) = true /\ o_err (out09 inp) = EEof /\
  run09 inp = L [L [A 7]; A (-1); L [A (-1)]; L [A 1]; A 1; L []].
Proof. vm_compute. split; [intros x [Hx|[Hx|[]]]; discriminate|auto]. Qed.
