(** C09 — CAS buffers never complete a read of content that mismatches its
    digest.  Statements only; proofs are in Buffer/ValidateProofs.v and
    Buffer/ConvertProofs.v.

    [H] is the hash function of the digest (any function), [cfg] the digest's
    hash and size and the Source's error code.  The validator theorems hold
    over ANY underlying ChunkReader [(S, rd)] — scripted sources, decorated
    readers, and the error-handling reader of C16 alike; [drains rd s bs e s']
    says that reading [s] to its first error yields the chunks [bs] (concatenated)
    and then error [e] (io.EOF = [EEof]); [pulls] is any number of successful reads. *)
From Coq Require Import List ZArith NArith Bool.
From BBS Require Import Common.Sx Buffer.Source Buffer.Validate Buffer.Convert
  Buffer.StreamProofs Buffer.ValidateProofs Buffer.ConvertProofs
  Buffer.ValidateReaderProofs Buffer.ReaderBufferProofs Buffer.ConvertProofs2 Buffer.OtherwiseProofs Run.R09.
Import ListNotations.
Open Scope N_scope.

(** Completion of the validated stream implies that the complete content has
    exactly the digest's size and hash, and that it is what was handed out. *)
Theorem complete_implies_valid : forall H cfg S (rd : S -> bytes * err * S) fuel u0 out st',
  drains (vcr_read H cfg rd fuel) (vinit cfg u0) out EEof st' ->
  (exists u, drains rd u0 out EEof u) /\ lenN out = g_size cfg /\ g_hash cfg = H out.
Proof. exact vcr_complete_implies_valid. Qed.
Print Assumptions complete_implies_valid.

(** The final portion is withheld: after any number of reads, a consumer of
    an invalid stream holds fewer than [size] bytes (for content shorter than
    the digest's size that is all of it; for an empty digest, nothing). *)
Theorem withhold : forall H cfg S (rd : S -> bytes * err * S) fuel u0 out st',
  pulls (vcr_read H cfg rd fuel) (vinit cfg u0) out st' ->
  ~ valid_stream H cfg rd u0 -> lenN out < g_size cfg \/ out = [].
Proof. exact vcr_withhold. Qed.
Print Assumptions withhold.

(** The integrity callback never reports valid for an invalid stream and
    never invalid for a valid one (in every reachable state, and at the end). *)
Theorem callback_sound : forall H cfg S (rd : S -> bytes * err * S) fuel u0 out st',
  pulls (vcr_read H cfg rd fuel) (vinit cfg u0) out st' ->
  (In true (v_cbs st') -> valid_stream H cfg rd u0) /\
  (In false (v_cbs st') -> ~ valid_stream H cfg rd u0).
Proof. exact vcr_callback_sound. Qed.
Print Assumptions callback_sound.

Theorem callback_sound_at_end : forall H cfg S (rd : S -> bytes * err * S) fuel u0 out e st',
  drains (vcr_read H cfg rd fuel) (vinit cfg u0) out e st' ->
  (In true (v_cbs st') -> valid_stream H cfg rd u0) /\
  (In false (v_cbs st') -> ~ valid_stream H cfg rd u0).
Proof. exact vcr_callback_sound_end. Qed.
Print Assumptions callback_sound_at_end.

(** A failure is the Source's code for an invalid stream, or the source's own
    first I/O error passed through (or the model ran out of fuel). *)
Theorem failure_origin : forall H cfg S (rd : S -> bytes * err * S) fuel u0 out e st',
  drains (vcr_read H cfg rd fuel) (vinit cfg u0) out e st' -> e <> EEof ->
  e = EFuel \/ (e = ECode (g_code cfg) /\ ~ valid_stream H cfg rd u0) \/
  (exists bs u', drains rd u0 bs e u').
Proof. exact vcr_error_origin. Qed.
Print Assumptions failure_origin.

(** Mismatch => error with the Source's code when the source itself ends cleanly. *)
Theorem mismatch_code : forall H cfg S (rd : S -> bytes * err * S) fuel u0 content uend out e st',
  drains rd u0 content EEof uend -> ~ valid_stream H cfg rd u0 ->
  drains (vcr_read H cfg rd fuel) (vinit cfg u0) out e st' ->
  e = ECode (g_code cfg) \/ e = EFuel.
Proof. exact vcr_mismatch_code. Qed.
Print Assumptions mismatch_code.

(** Errors (and io.EOF) are sticky. *)
Theorem sticky : forall H cfg S (rd : S -> bytes * err * S) fuel st c e st',
  vcr_read H cfg rd fuel st = ((c, e), st') -> e <> ENone ->
  c = [] /\ vcr_read H cfg rd fuel st' = (([], e), st').
Proof. exact vcr_sticky. Qed.
Print Assumptions sticky.

(** * casValidatingReader, over ANY underlying io.Reader [(S, rd)] whose
    remaining content is given by [cont] (law [rd_spec]: a read hands out a
    prefix of what is left; an error ends it) and that never returns
    io.ErrUnexpectedEOF itself.  [rdrains]/[rpulls]: reads with arbitrary
    buffer sizes; data returned together with the final error is received. *)
Theorem reader_complete_implies_valid : forall H cfg S (rd : N -> S -> bytes * err * S) fuel cont,
  (forall cap s c e s', rd cap s = ((c, e), s') ->
     match e with ENone => cont s = (c ++ fst (cont s'), snd (cont s')) | _ => cont s = (c, e) end) ->
  (forall cap s c e s', rd cap s = ((c, e), s') -> e <> EUnexp) ->
  forall u0 out st',
  rdrains (vr_read H cfg rd fuel) (vinit cfg u0) out EEof st' ->
  cont u0 = (out, EEof) /\ lenN out = g_size cfg /\ g_hash cfg = H out.
Proof. exact vr_complete_implies_valid. Qed.
Print Assumptions reader_complete_implies_valid.

Theorem reader_withhold : forall H cfg S (rd : N -> S -> bytes * err * S) fuel cont,
  (forall cap s c e s', rd cap s = ((c, e), s') ->
     match e with ENone => cont s = (c ++ fst (cont s'), snd (cont s')) | _ => cont s = (c, e) end) ->
  (forall cap s c e s', rd cap s = ((c, e), s') -> e <> EUnexp) ->
  forall u0 out e st',
  rpulls (vr_read H cfg rd fuel) (vinit cfg u0) out st' \/ rdrains (vr_read H cfg rd fuel) (vinit cfg u0) out e st' ->
  ~ valid_reader H cfg cont u0 -> lenN out < g_size cfg \/ out = [].
Proof. exact vr_withhold. Qed.
Print Assumptions reader_withhold.

Theorem reader_callback_sound : forall H cfg S (rd : N -> S -> bytes * err * S) fuel cont,
  (forall cap s c e s', rd cap s = ((c, e), s') ->
     match e with ENone => cont s = (c ++ fst (cont s'), snd (cont s')) | _ => cont s = (c, e) end) ->
  (forall cap s c e s', rd cap s = ((c, e), s') -> e <> EUnexp) ->
  forall u0 out e st',
  rpulls (vr_read H cfg rd fuel) (vinit cfg u0) out st' \/ rdrains (vr_read H cfg rd fuel) (vinit cfg u0) out e st' ->
  (In true (v_cbs st') -> valid_reader H cfg cont u0) /\ (In false (v_cbs st') -> ~ valid_reader H cfg cont u0).
Proof. exact vr_callback_sound. Qed.
Print Assumptions reader_callback_sound.

Theorem reader_sticky : forall H cfg S (rd : N -> S -> bytes * err * S) fuel st cap d e st',
  vr_read H cfg rd fuel cap st = ((d, e), st') -> e <> ENone ->
  forall cap', vr_read H cfg rd fuel cap' st' = (([], e), st').
Proof. exact vr_sticky. Qed.
Print Assumptions reader_sticky.

(** * The exported constructors: for both stream constructors, every script
    (chunkings, empty chunks, short reads, early EOF, trailing data, errors
    anywhere, EOF/error attached to data or not), every digest and hash
    function, every method but Discard and every parameter (offset, chunk
    size, read sizes, buffer length): the call/stream completes only if the
    script's content ends with EOF and has the digest's size and hash, and the
    consumer then holds exactly the expected slice of it. *)
Theorem chunk_reader_buffer_complete_implies_valid : forall H cfg fuel evs m o,
  m <> MDiscard ->
  cas_chunk_reader H cfg fuel evs m = o -> completed m (o_err o) = true ->
  valid_script H cfg evs /\ o_data o = expected_slice m (fst (content evs)).
Proof. exact chunk_reader_complete_implies_valid. Qed.
Print Assumptions chunk_reader_buffer_complete_implies_valid.

Theorem reader_buffer_complete_implies_valid : forall H cfg fuel evs attach m o,
  m <> MDiscard ->
  cas_reader H cfg fuel evs attach m = o -> completed m (o_err o) = true ->
  valid_script H cfg evs /\ o_data o = expected_slice m (fst (content evs)).
Proof. exact ReaderBufferProofs.reader_complete_implies_valid. Qed.
Print Assumptions reader_buffer_complete_implies_valid.

(** The "otherwise" half at constructor level for IntoWriter, the method through
    which partial data reaches the consumer: invalid content => an error, fewer
    than [size] bytes written, sound callback verdicts; for chunk-reader buffers
    also the code: the Source's when the source ends cleanly, else the source's
    own I/O error or (content already too long) the Source's.
    Full statement: the same for every method; proved for IntoWriter, the other
    methods rest on the validator-level theorems [withhold], [callback_sound],
    [failure_origin], [mismatch_code] above. *)
Theorem chunk_reader_buffer_otherwise_partial : forall H cfg fuel evs o,
  cas_chunk_reader H cfg fuel evs MIntoWriter = o -> o_err o <> EFuel ->
  ((In true (o_cbs o) -> valid_script H cfg evs) /\ (In false (o_cbs o) -> ~ valid_script H cfg evs)) /\
  (~ valid_script H cfg evs ->
     o_err o <> ENone /\ (lenN (o_data o) < g_size cfg \/ o_data o = []) /\
     (snd (content evs) = EEof -> o_err o = ECode (g_code cfg)) /\
     (forall c, snd (content evs) = ECode c -> o_err o = ECode c \/ o_err o = ECode (g_code cfg))).
Proof. exact chunk_into_writer_otherwise. Qed.
Print Assumptions chunk_reader_buffer_otherwise_partial.

Theorem reader_buffer_otherwise_partial : forall H cfg fuel evs attach o,
  cas_reader H cfg fuel evs attach MIntoWriter = o -> o_err o <> EFuel ->
  ((In true (o_cbs o) -> valid_script H cfg evs) /\ (In false (o_cbs o) -> ~ valid_script H cfg evs)) /\
  (~ valid_script H cfg evs ->
     o_err o <> ENone /\ (lenN (o_data o) < g_size cfg \/ o_data o = [])).
Proof. exact reader_into_writer_otherwise. Qed.
Print Assumptions reader_buffer_otherwise_partial.

(** NewCASBufferFromByteSlice: every method. *)
Theorem byte_slice_buffer_complete_implies_valid : forall H cfg fuel data m,
  m <> MDiscard ->
  completed m (o_err (cas_byte_slice H cfg fuel data m)) = true ->
  lenN data = g_size cfg /\ g_hash cfg = H data /\
  o_data (cas_byte_slice H cfg fuel data m) = expected_slice m data.
Proof. exact byte_slice_complete_implies_valid. Qed.
Print Assumptions byte_slice_buffer_complete_implies_valid.

Theorem byte_slice_buffer_callback : forall H cfg fuel data m,
  o_cbs (cas_byte_slice H cfg fuel data m) =
    [(g_size cfg =? lenN data) && bytes_eqb (g_hash cfg) (H data)].
Proof. exact byte_slice_callback. Qed.
Print Assumptions byte_slice_buffer_callback.

(** Non-vacuity: a valid script read at offset 1 in chunks of 2 completes with
    the expected slice and one positive verdict; the same script with one byte
    changed hands out nothing of the last chunk and reports a negative verdict. *)
Example c09_completes :
  let H := lookup [([1; 2; 3], [9; 9])] in
  let cfg := mkVcfg [9; 9] 3 13 in
  cas_chunk_reader H cfg 40 [Chunk [1]; Chunk []; Chunk [2; 3]; Eof] (MToChunkReader 1 2 1)
  = mkOut [2; 3] EEof [EEof] [true] 1 [].
Proof. vm_compute. reflexivity. Qed.
Example c09_withholds :
  let H := lookup [([1; 2; 3], [9; 9])] in
  let cfg := mkVcfg [9; 9] 3 13 in
  cas_chunk_reader H cfg 40 [Chunk [1]; Chunk []; Chunk [2; 4]; Eof] (MToChunkReader 0 2 1)
  = mkOut [1] (ECode 13) [ECode 13] [false] 1 [].
Proof. vm_compute. reflexivity. Qed.
