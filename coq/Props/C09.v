(** C09 — placeholder while the harness is brought up. *)
From BBS Require Import Common.Sx Buffer.Source Buffer.Validate Buffer.Convert Run.R09.
