(** C01 — the local store returns exactly what was uploaded, or nothing.
    Statements only; the proofs are in Store/P01*.v.

    Object of the theorems: the executable model Store/Model.v of
    pkg/blobstore/local (block allocator with FIFO free list and use counts,
    volatile block list, OldCurrentNewLocationBlobMap, abstract newest-valid
    index, flat and hierarchical blob access in atomic steps) and the C01
    monitor Run/R01.v (the decidable check of the property that bin/check
    evaluates on the observations of the real Go code).  [mon01_model w es] is
    the violation list the monitor computes when it is fed the schedule [es]
    and the model's own observations; the theorems quantify over ALL worlds
    (all geometries, both allocators, both growth policies, flat keys with and
    without instance names, hierarchical access, validating and raw read
    factories, all object contents) and ALL schedules (any length, any
    interleaving at the model's step granularity, any upload data, corruption
    events included). *)
From Coq Require Import List NArith ZArith Bool.
From BBS Require Import Common.Sx Store.Model Store.Wf Store.WfTids Run.RStore Run.R01 Store.P01Defs Store.P01Inv Store.P01Main Store.P01Final.
(* -- (keeps lib/checklib.py's dependency scan from reading past the sentence) *)
Import ListNotations.
Local Open Scope N_scope.

(** The monitor run of the check on the model's own output IS [mon01_model]
    (up to the final de-duplication of clause numbers). *)
Theorem monitor_on_model_is_mon01_model : forall inp : sx,
  mon01 inp (run_store inp) = dedupZ (mon01_model (dec_world inp) (dec_ops inp)).
Proof. exact mon01_reduces. Qed.
Print Assumptions monitor_on_model_is_mon01_model.

(** FULL-STRENGTH STATEMENT (as designed) - REFUTED as stated, see the three
    Examples [full_statement_refuted_*] below: [wf_ops] does not force a
    thread id to denote one operation, and the monitor (like the harness)
    keys its bookkeeping by thread id.

      Theorem store_model_satisfies_C01 :
        forall (w : world) (es : list op),
          wf_world w = true -> wf_ops w [] es = true ->
          mon01_model w es = [].

    PROVED: the same statement for every schedule in which each operation
    start (OPutStart / OGetOpen / OGfcStart) uses a thread id that no earlier
    start event used ([wf_tids], Store/WfTids.v; the generator of the harness
    only produces such schedules).  No restriction on operations or
    configurations: Put/Get/FindMissing/GetFromComposite (direct and sliced),
    flat and hierarchical, in-memory and block-device allocators, corruption
    events.  All three clauses of the monitor: (1) every successful read
    returns exactly the content of the object asked for (validating store:
    always; raw store: until the first corruption event), (2) every successful
    read / reported presence is covered by a completed successful upload or a
    sliced composite read, (3) no negative integrity verdict before the first
    corruption event. *)
Theorem store_model_satisfies_C01_partial :
  forall (w : world) (es : list op),
    wf_world w = true -> wf_ops w [] es = true -> wf_tids es = true ->
    mon01_model w es = [].
Proof. exact P01_final. Qed.
Print Assumptions store_model_satisfies_C01_partial.

(** The data invariant behind it ([SInv], Store/P01Inv.v: counters, distinct
    uids / regions of listed blocks, zombies and the free list, use counts
    bounded below by the references of parked operations, allocations below
    the cursor and pairwise disjoint from every in-flight writer, every valid
    index entry and every pinned reader range holds the content of its object)
    holds initially and is preserved by every event other than OCorrupt, and
    such an event raises no negative verdict and reads correctly ([read_ok]).
    [step_wf] only constrains OGfcSlice on a parked flat composite read: the
    slices are slices of that read's parent (follows from wf_ops + wf_tids). *)
Theorem store_invariant_initial : forall w, wf_world w = true -> SInv w (init_state (w_cfg w)).
Proof. exact P01_init. Qed.
Print Assumptions store_invariant_initial.

Theorem store_invariant_step : forall w s e,
  wf_world w = true -> SInv w s -> is_corrupt e = false -> step_wf w s e ->
  SInv w (fst (step w s e)) /\ read_ok w s e (fst (step w s e)) (snd (step w s e)).
Proof. exact P01_step. Qed.
Print Assumptions store_invariant_step.

(** Clause 3 as a statement about the model alone: on a schedule without
    corruption events the store never reports a data-integrity error, and the
    final state satisfies the store invariant. *)
Theorem no_integrity_error_without_corruption :
  forall (w : world) (es : list op),
    wf_world w = true -> wf_ops w [] es = true -> wf_tids es = true ->
    forallb (fun e => negb (is_corrupt e)) es = true ->
    SInv w (fst (run w (init_state (w_cfg w)) es)) /\
    s_negs (fst (run w (init_state (w_cfg w)) es)) = 0%nat.
Proof. exact P01_no_negs. Qed.
Print Assumptions no_integrity_error_without_corruption.

(** ---- refutation witnesses for the full-strength statement ---- *)
Definition cfgA : config := {| c_bs := 16; c_old := 1; c_cur := 1; c_new := 1; c_mutable := false; c_nblocks := 0;
  c_hier := false; c_inst_keys := false; c_validate := false |}.
Definition wA : world := {| w_cfg := cfgA; w_objs := [[1;2;3;4]; [1;2]; [5;6;7;8]; [7;8]]; w_anc := [[0%nat]] |}.
(** (a) flat: the second OGfcStart with the busy thread id 1 is answered Bad
    but redirects wf_ops' [pending] entry of thread 1 to another parent. *)
Definition esA : list op := [OPutStart 0 0 0; OPutChunk 0 [1;2;3;4]; OPutEnd 0 0;
  OGfcStart 1 0 0 1; OGfcStart 1 2 0 3; OGfcSlice 1 [(3%nat,(2,2))]].
Example full_statement_refuted_a :
  wf_world wA = true /\ wf_ops wA [] esA = true /\ wf_tids esA = false /\ mon01_model wA esA = [1%Z].
Proof. vm_compute. repeat split. Qed.

Definition cfgB : config := {| c_bs := 16; c_old := 1; c_cur := 1; c_new := 1; c_mutable := false; c_nblocks := 0;
  c_hier := true; c_inst_keys := true; c_validate := false |}.
Definition wB : world := {| w_cfg := cfgB; w_objs := [[1;2;3;4]; [5;6;7;8]; [1;2]]; w_anc := [[0%nat]] |}.
(** (b) hierarchical: OGetConsume consumes the reader parked by OGfcStart 1;
    thread id 1 is then reused by a plain Get which OGfcSlice 1 consumes. *)
Definition esB : list op := [OPutStart 0 0 0; OPutChunk 0 [1;2;3;4]; OPutEnd 0 0;
  OPutStart 0 1 0; OPutChunk 0 [5;6;7;8]; OPutEnd 0 0;
  OGfcStart 1 0 0 2; OGetConsume 1; OGetOpen 1 1 0; OGfcSlice 1 [(2%nat,(0,2))]].
Example full_statement_refuted_b :
  wf_world wB = true /\ wf_ops wB [] esB = true /\ wf_tids esB = false /\ mon01_model wB esB = [1%Z].
Proof. vm_compute. repeat split. Qed.
(** (c) hierarchical, the other way round. *)
Definition esC : list op := [OPutStart 0 0 0; OPutChunk 0 [1;2;3;4]; OPutEnd 0 0;
  OPutStart 0 1 0; OPutChunk 0 [5;6;7;8]; OPutEnd 0 0;
  OGetOpen 1 0 0; OGfcSlice 1 []; OGfcStart 1 1 0 2; OGetConsume 1].
Example full_statement_refuted_c :
  wf_world wB = true /\ wf_ops wB [] esC = true /\ wf_tids esC = false /\ mon01_model wB esC = [1%Z].
Proof. vm_compute. repeat split. Qed.

(** ---- non-vacuity: a block-device, validating, instance-keyed flat store;
    interleaved uploads, a rotation, a refreshing Get, a sliced composite
    read, FindMissing, a read of the child entry, a failed (short) upload, a
    corruption event and a read after it: the hypotheses hold and the
    schedule contains successful reads with the uploaded bytes. ---- *)
Definition cfgN : config := {| c_bs := 8; c_old := 1; c_cur := 1; c_new := 1; c_mutable := false; c_nblocks := 5;
  c_hier := false; c_inst_keys := true; c_validate := true |}.
Definition wN : world := {| w_cfg := cfgN; w_objs := [[1;2;3;4]; [1;2]; [5;6;7;8;9;10]; [7;7;7;7;7]]; w_anc := [[0%nat]] |}.
Definition esN : list op := [
  OPutStart 0 0 0; OPutChunk 0 [1;2]; OPutStart 1 2 0; OPutChunk 1 [5;6;7;8;9;10]; OPutChunk 0 [3;4]; OPutEnd 0 0; OPutEnd 1 0;
  OPutStart 5 3 0; OPutChunk 5 [7;7;7;7;7]; OPutEnd 5 0;
  OGetOpen 2 0 0; OGetConsume 2;
  OGfcStart 3 0 0 1; OGfcSlice 3 [(1%nat,(0,2))];
  OFindMissing [(0%nat,0%nat);(1%nat,0%nat);(2%nat,0%nat)];
  OGetOpen 4 1 0; OGetConsume 4;
  OPutStart 7 2 0; OPutChunk 7 [5;6;7;8;9]; OPutEnd 7 0; OCorrupt 0 0 8; OGetOpen 8 0 0; OGetConsume 8].
Example hypotheses_satisfiable :
  wf_world wN = true /\ wf_ops wN [] esN = true /\ wf_tids esN = true /\
  ob_ok (nth 11 (model_obs wN esN) (L [])) = true /\ ob_bytes (nth 11 (model_obs wN esN) (L [])) = [1;2;3;4] /\
  ob_ok (nth 13 (model_obs wN esN) (L [])) = true /\ ob_bytes (nth 13 (model_obs wN esN) (L [])) = [1;2] /\
  ob_ok (nth 16 (model_obs wN esN) (L [])) = true /\ ob_bytes (nth 16 (model_obs wN esN) (L [])) = [1;2] /\
  ob_code (nth 19 (model_obs wN esN) (L [])) = 3%Z /\
  ob_ok (nth 22 (model_obs wN esN) (L [])) = true /\ ob_bytes (nth 22 (model_obs wN esN) (L [])) = [1;2;3;4].
Proof. vm_compute. repeat split. Qed.
