(** C15 — Cloned buffers, the multiplexed chunk reader and buffers with
    background tasks.  Statements only; proofs are in Buffer/AlgebraProofs.v
    and Buffer/MuxProofs.v. *)
From Coq Require Import List ZArith NArith Bool.
From BBS Require Import Buffer.Algebra Buffer.AlgebraProofs.
Import ListNotations.
Open Scope Z_scope.

(** ** M2: decorator programs of any depth (repaired decorateBuffer) *)

(** Every object any program builds is well-formed: each digest-bearing node
    carries the base object's digest and source. *)
Theorem wellformed_closed : forall D flt p n,
  build D flt true p = BNode n -> wf D n.
Proof. exact build_wf. Qed.
Print Assumptions wellformed_closed.

(** No constructor and no method panics: for every program of any depth, every
    contents, every source behaviour and every method, on the kept handle ... *)
Theorem all_methods_work : forall D flt p m, run D flt true p m <> Panic.
Proof. exact run_nopanic. Qed.
Print Assumptions all_methods_work.

(** ... and on every sibling handle handed out by a CloneStream/CloneCopy on the way. *)
Theorem all_methods_work_on_clones : forall D flt p h,
  In h (siblings D flt true p) ->
  exists n, fst h = BNode n /\ wf D n /\ eval D flt n (snd h) <> Panic.
Proof. exact siblings_nopanic. Qed.
Print Assumptions all_methods_work_on_clones.

(** Both halves of a clone are the same object (same bytes or the same error
    for all consumers, whatever they are decorated with afterwards). *)
Theorem clone_halves_equal : forall D flt p sib max,
  build D flt true (CloneStreamL p sib) = build D flt true (CloneStreamR p sib) /\
  build D flt true (CloneCopyL p max sib) = build D flt true (CloneCopyR p max sib).
Proof. intros. split; [apply halves_equal|apply copy_halves_equal]. Qed.
Print Assumptions clone_halves_equal.

(** GetSizeBytes keeps reporting the object's size unless the buffer has
    become an error buffer. *)
Theorem size_preserved : forall D flt p n,
  build D flt true p = BNode n ->
  (exists c, n = NErr c) \/ eval D flt n MSize = Ok [Z.of_nat (length D)].
Proof. intros D flt p n H. apply size_preserved. exact (build_wf D flt p n H). Qed.
Print Assumptions size_preserved.

(** A completing method (anything but GetSizeBytes/Discard; for ToReader:
    Close returning) has waited for every background task of the object —
    including the objects obtained by cloning a buffer with a task. *)
Theorem task_waited : forall n m, m <> MSize -> m <> MDiscard -> incl (tasks n) (waits n m).
Proof. intros n m H1 H2. apply tasks_waited. split; assumption. Qed.
Print Assumptions task_waited.

Theorem clones_of_task_buffer_wait_too : forall D flt b dg src id terr sv max r m,
  m <> MSize -> m <> MDiscard ->
  In id (waits (cloneStream true sv (NTask b dg src id terr)) m) /\
  (cloneCopy D flt true max (NTask b dg src id terr) = BNode r -> In id (waits r m)).
Proof.
  intros D flt b dg src id terr sv max r m H1 H2. split.
  - apply (tasks_waited _ m (conj H1 H2)). apply task_kept_by_cloneStream. left. reflexivity.
  - intros H. apply (tasks_waited _ m (conj H1 H2)).
    exact (task_kept_by_cloneCopy D flt max b dg src id terr r H).
Qed.
Print Assumptions clones_of_task_buffer_wait_too.

(** If the data was fine the task's error is reported; a data error takes
    precedence.
    FULL statement (not proved for ReadAt hitting end-of-file, where the code
    returns (n, io.EOF) and drops the task's error — see the report):
      forall n id terr m, terr <> 0 -> completing m -> success (eval n m) ->
        eval (withTask id terr n) m = Err terr.
    Proved for every result [Ok _]: *)
Theorem task_error_reported_if_data_ok_partial : forall D flt n id terr m x,
  terr <> 0 -> m <> MSize -> m <> MDiscard -> eval D flt n m = Ok x ->
  eval D flt (withTask id terr n) m = Err terr.
Proof. intros D flt n id terr m x Ht H1 H2. apply task_error_reported; [exact Ht|split; assumption]. Qed.
Print Assumptions task_error_reported_if_data_ok_partial.

(** Finding F1 (pinned tree): with decorateBuffer copying only base and task,
    the same model panics on a clone of a buffer with a task. *)
Theorem all_methods_work_refuted_on_pinned_tree :
  run [1; 2; 3] FNone false (CloneStreamL (WithTask (Base KReader) 0 0) MDiscard) MSize = Panic.
Proof. exact (proj1 pinned_refuted). Qed.
Print Assumptions all_methods_work_refuted_on_pinned_tree.

(** Non-vacuity: a depth-4 program over a failing-task chunk reader. *)
Example m2_example :
  let p := WithEH (CloneStreamR (WithTask (CloneStreamL (Base KChunk) MDiscard) 1 14) (MSlice 100)) 7 in
  run [10; 2; 5; 6] FNone true p (MSlice 100) = Err 7 /\
  run [10; 2; 5; 6] FNone true p MSize = Ok [4] /\
  run [10; 2; 5; 6] FCorrupt true p MReader = Err 7 /\
  run [10; 2; 5; 6] FNone true (CloneStreamL (Base KReader) MDiscard) (MChunks 1) = Ok [2; 5; 6].
Proof. vm_compute. repeat split; reflexivity. Qed.
