(** C15 — Cloned buffers, the multiplexed chunk reader and buffers with
    background tasks.  Statements only; proofs are in Buffer/AlgebraProofs.v
    and Buffer/MuxProofs.v. *)
From Coq Require Import List ZArith NArith Bool.
From BBS Require Import Buffer.Algebra Buffer.AlgebraProofs Buffer.Mux Buffer.MuxProofs.
From BBS Require Import Buffer.AlgebraTask Buffer.MuxSeq.
From BBS Require Import Common.Sx Run.R15 Buffer.MuxSeqMon Buffer.AlgebraTaskMon.
Import ListNotations.
Open Scope Z_scope.

(** ** M2: decorator programs of any depth (repaired decorateBuffer) *)

(** Every object any program builds is well-formed: each digest-bearing node
    carries the base object's digest and source. *)
Theorem wellformed_closed : forall D flt p n,
  build D flt true p = BNode n -> wf D n.
Proof. exact build_wf. Qed.
Print Assumptions wellformed_closed.

(** No constructor and no method panics: for every program of any depth, every
    contents, every source behaviour and every method, on the kept handle ... *)
Theorem all_methods_work : forall D flt p m, Algebra.run D flt true p m <> Panic.
Proof. exact run_nopanic. Qed.
Print Assumptions all_methods_work.

(** ... and on every sibling handle handed out by a CloneStream/CloneCopy on the way. *)
Theorem all_methods_work_on_clones : forall D flt p h,
  In h (siblings D flt true p) ->
  exists n, fst h = BNode n /\ wf D n /\ eval D flt n (snd h) <> Panic.
Proof. exact siblings_nopanic. Qed.
Print Assumptions all_methods_work_on_clones.

(** Both halves of a clone are the same object (same bytes or the same error
    for all consumers, whatever they are decorated with afterwards). *)
Theorem clone_halves_equal : forall D flt p sib max,
  build D flt true (CloneStreamL p sib) = build D flt true (CloneStreamR p sib) /\
  build D flt true (CloneCopyL p max sib) = build D flt true (CloneCopyR p max sib).
Proof. intros. split; [apply halves_equal|apply copy_halves_equal]. Qed.
Print Assumptions clone_halves_equal.

(** Every consumer that completes sees the object's bytes: on the object built
    by any program, a method that succeeds returns exactly the bytes the Buffer
    interface promises for it ([expected]: the whole object, the tail from the
    offset, the requested slice, the size), and (n, io.EOF) only comes from a
    ReadAt that reaches the end. *)
Theorem successful_methods_return_the_object : forall D flt p n m,
  build D flt true p = BNode n -> spec_ok D m (eval D flt n m).
Proof. intros D flt p n m H. apply eval_spec. exact (build_wf D flt p n H). Qed.
Print Assumptions successful_methods_return_the_object.

(** GetSizeBytes keeps reporting the object's size unless the buffer has
    become an error buffer. *)
Theorem size_preserved : forall D flt p n,
  build D flt true p = BNode n ->
  (exists c, n = NErr c) \/ eval D flt n MSize = Ok [Z.of_nat (length D)].
Proof. intros D flt p n H. apply size_preserved. exact (build_wf D flt p n H). Qed.
Print Assumptions size_preserved.

(** A completing method (anything but GetSizeBytes/Discard; for ToReader:
    Close returning) has waited for every background task of the object —
    including the objects obtained by cloning a buffer with a task. *)
Theorem task_waited : forall n m, m <> MSize -> m <> MDiscard -> incl (tasks n) (waits n m).
Proof. intros n m H1 H2. apply tasks_waited. split; assumption. Qed.
Print Assumptions task_waited.

Theorem clones_of_task_buffer_wait_too : forall D flt b dg src id terr sv max r m,
  m <> MSize -> m <> MDiscard ->
  In id (waits (cloneStream true sv (NTask b dg src id terr)) m) /\
  (cloneCopy D flt true max (NTask b dg src id terr) = BNode r -> In id (waits r m)).
Proof.
  intros D flt b dg src id terr sv max r m H1 H2. split.
  - apply (tasks_waited _ m (conj H1 H2)). apply task_kept_by_cloneStream. left. reflexivity.
  - intros H. apply (tasks_waited _ m (conj H1 H2)).
    exact (task_kept_by_cloneCopy D flt max b dg src id terr r H).
Qed.
Print Assumptions clones_of_task_buffer_wait_too.

(** Completion is never reported before the tasks have finished, at any depth
    (clones of clones of ... buffers with tasks, error handlers in between):
    for EVERY program, on the object it builds, a completing method — whatever
    its result, in particular a successful one — has waited for every task
    attached anywhere along the program, except those that had already
    finished when the constructors returned ([finished_at_build]: a task given
    to a trivially cloneable or error buffer runs in the foreground; CloneCopy
    of a stream consumes it and so waits for its tasks). *)
Theorem completion_not_before_task : forall D flt p n m,
  build D flt true p = BNode n -> m <> MSize -> m <> MDiscard ->
  incl (prog_tasks p) (finished_at_build D flt p ++ waits n m).
Proof. intros D flt p n m H H1 H2. apply completion_not_before_task; [exact H|split; assumption]. Qed.
Print Assumptions completion_not_before_task.

(** ... and the same for every handle given to a sibling consumer on the way
    (it is the object built by a sub-program [q]). *)
Theorem completion_not_before_task_on_clones : forall D flt p h n,
  In h (siblings D flt true p) -> fst h = BNode n -> snd h <> MSize -> snd h <> MDiscard ->
  exists q, subprog q p /\ incl (prog_tasks q) (finished_at_build D flt q ++ waits n (snd h)).
Proof.
  intros D flt p h n Hin Hn H1 H2.
  apply completion_not_before_task_siblings; [exact Hin|exact Hn|split; assumption].
Qed.
Print Assumptions completion_not_before_task_on_clones.

(** The EXACT result of every completing method on a buffer with a failed
    task, for every node (no well-formedness needed): a trivially cloneable
    buffer has become the task's error; any other buffer reports its own
    result, except that [Ok] becomes the task's error. *)
Theorem task_result_exact : forall D flt n id terr m,
  terr <> 0 -> m <> MSize -> m <> MDiscard ->
  eval D flt (withTask id terr n) m =
    if is_plain n then Err terr
    else match eval D flt n m with Ok _ => Err terr | r => r end.
Proof. intros D flt n id terr m Ht H1 H2. apply withTask_exact; [exact Ht|split; assumption]. Qed.
Print Assumptions task_result_exact.

(** Hence: the task's error is what the caller sees exactly when the buffer
    was trivially cloneable, or the data was fine ([Ok]), or the data error is
    that very code. *)
Theorem task_error_reported_exactly_when : forall D flt n id terr m,
  terr <> 0 -> m <> MSize -> m <> MDiscard ->
  (eval D flt (withTask id terr n) m = Err terr <->
   is_plain n = true \/ (exists x, eval D flt n m = Ok x) \/ eval D flt n m = Err terr).
Proof. intros D flt n id terr m Ht H1 H2. apply task_error_reported_iff; [exact Ht|split; assumption]. Qed.
Print Assumptions task_error_reported_exactly_when.

(** "Reports the task's error if the data itself was fine" ([success]: Ok, or
    ReadAt's (n, io.EOF)).  The statement without the last hypothesis is FALSE
    on the model and on the code (observation O3; see
    [task_error_dropped_at_readat_eof] and the Example below): the one
    exception is ReadAt hitting end-of-file on a buffer that is not trivially
    cloneable ([eof_exception]). *)
Theorem task_error_reported_if_data_ok : forall D flt n id terr m,
  terr <> 0 -> m <> MSize -> m <> MDiscard -> success (eval D flt n m) ->
  ~ eof_exception D flt n m ->
  eval D flt (withTask id terr n) m = Err terr.
Proof.
  intros D flt n id terr m Ht H1 H2. apply task_error_reported_unless_eof; [exact Ht|split; assumption].
Qed.
Print Assumptions task_error_reported_if_data_ok.

(** In the exceptional case the task's error is dropped: the caller gets the
    bytes and io.EOF exactly as if the task had succeeded. *)
Theorem task_error_dropped_at_readat_eof : forall D flt n id terr m,
  terr <> 0 -> eof_exception D flt n m ->
  exists len off b, m = MReadAt len off /\ eval D flt n m = Eof b /\
                    eval D flt (withTask id terr n) m = Eof b.
Proof. exact task_error_dropped_at_readat_eof. Qed.
Print Assumptions task_error_dropped_at_readat_eof.

Example task_error_dropped_example :
  let n := NReader (Some 3%nat) (Some 13) in
  eval [1; 2; 3] FNone n (MReadAt 5 0) = Eof [1; 2; 3] /\
  eval [1; 2; 3] FNone (withTask 0 14 n) (MReadAt 5 0) = Eof [1; 2; 3] /\
  eval [1; 2; 3] FNone (withTask 0 14 n) (MReadAt 3 0) = Err 14 /\
  Algebra.run [1; 2; 3] FNone true (WithTask (Base KReader) 0 14) (MReadAt 5 0) = Eof [1; 2; 3].
Proof. exact readat_eof_drops_task_error. Qed.

(** A data error takes precedence. *)
Theorem data_error_takes_precedence : forall D flt n id terr m c,
  terr <> 0 -> m <> MSize -> m <> MDiscard -> is_plain n = false -> eval D flt n m = Err c ->
  eval D flt (withTask id terr n) m = Err c.
Proof. intros D flt n id terr m c Ht H1 H2. apply data_error_first; [exact Ht|split; assumption]. Qed.
Print Assumptions data_error_takes_precedence.

(** At any depth: once a task has failed, no handle derived from the buffer by
    CloneStream, CloneCopy or further WithTask ever reports plain success from
    a completing method (it reports the task's error, a data error, or the
    ReadAt end-of-file exception above). *)
Theorem failed_task_never_ok_on_derived : forall D flt n id terr,
  terr <> 0 ->
  never_ok D flt (withTask id terr n) /\
  (forall r sv, never_ok D flt r -> never_ok D flt (cloneStream true sv r)) /\
  (forall r max r', never_ok D flt r -> cloneCopy D flt true max r = BNode r' -> never_ok D flt r') /\
  (forall r id' terr', never_ok D flt r -> never_ok D flt (withTask id' terr' r)).
Proof.
  intros D flt n id terr Ht. split; [apply never_ok_withTask_failing; exact Ht|].
  split; [intros r sv; apply never_ok_cloneStream|].
  split; [intros r max r'; apply never_ok_cloneCopy|intros r id' terr'; apply never_ok_withTask].
Qed.
Print Assumptions failed_task_never_ok_on_derived.

(** Finding F1 (pinned tree): with decorateBuffer copying only base and task,
    the same model panics on a clone of a buffer with a task. *)
Theorem all_methods_work_refuted_on_pinned_tree :
  Algebra.run [1; 2; 3] FNone false (CloneStreamL (WithTask (Base KReader) 0 0) MDiscard) MSize = Panic.
Proof. exact (proj1 pinned_refuted). Qed.
Print Assumptions all_methods_work_refuted_on_pinned_tree.

(** Non-vacuity: a depth-4 program over a failing-task chunk reader. *)
Example m2_example :
  let p := WithEH (CloneStreamR (WithTask (CloneStreamL (Base KChunk) MDiscard) 1 14) (MSlice 100)) 7 in
  Algebra.run [10; 2; 5; 6] FNone true p (MSlice 100) = Err 7 /\
  Algebra.run [10; 2; 5; 6] FNone true p MSize = Ok [4] /\
  Algebra.run [10; 2; 5; 6] FCorrupt true p MReader = Err 7 /\
  Algebra.run [10; 2; 5; 6] FNone true (CloneStreamL (Base KReader) MDiscard) (MChunks 1) = Ok [2; 5; 6].
Proof. vm_compute. repeat split; reflexivity. Qed.

Close Scope Z_scope.

(** ** M1: n consumers of one stream-cloned buffer, any interleaving

    For any number n >= 1 of consumers with any programs (Read^k ; Close, or
    Discard), any source script (any number of chunks, EOF or any error) and
    any schedule accepted by the transition system: *)

(** no panic ("no pending consumers", "already fully consumed") *)
Theorem mux_no_panic : forall nch term progs sched s,
  progs <> [] -> Mux.run nch term (init progs) sched = Some s -> panicked s = false.
Proof. intros. eapply no_panic, run_inv; [apply init_inv; eassumption|eassumption]. Qed.
Print Assumptions mux_no_panic.

(** Same sequence, full strength.  In every reachable state, consumer i with
    program p (k = [prog_reads p] Reads: Read^k ; Close, or Discard with k = 0)
    has completed exactly [completed k c] = k - (Reads not yet issued) - (1 if
    parked in Read) of them, and their results are, in order, the first that
    many results the underlying source produced (chunks, then the same error
    or EOF for ever); a consumer that has not closed is level with the source;
    a consumer that has closed has exactly the first k results. *)
Theorem same_sequence : forall nch term progs sched s,
  progs <> [] -> Mux.run nch term (init progs) sched = Some s ->
  length (cs s) = length progs /\
  forall i c p, nth_error (cs s) i = Some c -> nth_error progs i = Some p ->
    let k := prog_reads p in
    reads c + b2n (is_st CWaitRead c) <= k /\
    got c = items nch term (completed k c) /\
    completed k c <= srcpos s /\
    (st c <> CDone -> completed k c = srcpos s) /\
    (st c = CDone -> got c = items nch term k).
Proof. exact same_sequence_full. Qed.
Print Assumptions same_sequence.

(** The same, result by result: the j-th Read result of every consumer equals
    the j-th result the source produced, for every j below the number of Reads
    the consumer has completed, and the consumer holds no other results. *)
Theorem same_sequence_pointwise : forall nch term progs sched s i c p,
  progs <> [] -> Mux.run nch term (init progs) sched = Some s ->
  nth_error (cs s) i = Some c -> nth_error progs i = Some p ->
  length (got c) = completed (prog_reads p) c /\
  completed (prog_reads p) c <= srcpos s /\
  forall j, j < completed (prog_reads p) c -> nth_error (got c) j = Some (item_at nch term j).
Proof. exact MuxSeq.same_sequence_pointwise. Qed.
Print Assumptions same_sequence_pointwise.

(** every complete run (all consumers finished — by [no_stuck] and
    [all_terminate] the only maximal ones) leaves consumer i with exactly the
    first k_i results of the source: identical sequences for all who read *)
Theorem same_sequence_at_the_end : forall nch term progs sched s,
  progs <> [] -> Mux.run nch term (init progs) sched = Some s -> all_done s = true ->
  map got (cs s) = map (fun p => items nch term (prog_reads p)) progs.
Proof. exact final_results. Qed.
Print Assumptions same_sequence_at_the_end.

(** the source is closed at most once, and it is closed exactly when every
    consumer has finished *)
Theorem source_closed_once_after_all : forall nch term progs sched s,
  progs <> [] -> Mux.run nch term (init progs) sched = Some s ->
  closed s <= 1 /\ (closed s = 1 <-> all_done s = true).
Proof. intros. eapply closed_once_after_all, run_inv; [apply init_inv; eassumption|eassumption]. Qed.
Print Assumptions source_closed_once_after_all.

(** no stuck state: while some consumer has not finished, some consumer can
    take a step (so a parked consumer is always woken eventually) *)
Theorem no_stuck : forall nch term progs sched s,
  progs <> [] -> Mux.run nch term (init progs) sched = Some s -> all_done s = false ->
  exists i s', step nch term s i = Some s'.
Proof. intros. eapply MuxProofs.no_stuck; [eapply run_inv; [apply init_inv; eassumption|eassumption]|assumption]. Qed.
Print Assumptions no_stuck.

(** ranking: every step strictly decreases the number of steps still to be
    taken, so no schedule is longer than the initial rank and (with no_stuck)
    every maximal schedule ends with all consumers finished — under any
    scheduler, fair or not *)
Theorem all_terminate : forall nch term progs sched s,
  progs <> [] -> Mux.run nch term (init progs) sched = Some s ->
  length sched + rank s <= rank (init progs) /\ (rank s = 0 -> all_done s = true).
Proof.
  intros nch term progs sched s Hne Hr. split.
  - eapply (bounded_runs nch term); [apply init_inv; exact Hne|exact Hr].
  - apply (rank_zero_done nch term). eapply run_inv; [apply init_inv; exact Hne|exact Hr].
Qed.
Print Assumptions all_terminate.

(** Non-vacuity: three consumers, two chunks then an error, a schedule that
    makes consumer 0 wait, consumer 2 close early on behalf of the others. *)
Example m1_example :
  match Mux.run 2 5 (init [(3, false, 100%N); (3, false, 1%N); (0, true, 1%N)]) [0; 1; 2; 0; 2; 1; 0; 1; 1; 0; 0; 1] with
  | Some s => map got (cs s) = [[0; 1; -6]; [0; 1; -6]; []]%Z /\ closed s = 1 /\ all_done s = true
              /\ nval s = true /\ minchunk s = Some 1%N
  | None => False
  end.
Proof. vm_compute. repeat split; reflexivity. Qed.

(** ** The monitor is silent on the model

    [mon15] (the property as a decidable check on an observation) never fires
    on the observation the model itself predicts: for every decorator-program
    input without any condition, and for every schedule input with at least
    one consumer and a terminal code other than 99 (the harness accepts codes
    0..16; item -(1+99) = -100 is its marker for a panicked consumer). *)
Theorem monitor_silent_on_model : forall inp,
  (sx_nth inp 0 = A 2%Z -> sx_list (sx_nth inp 3) <> [] /\ sx_Z (sx_nth inp 2) <> 99%Z) ->
  mon15 inp (run15 inp) = [].
Proof. exact mon15_silent_on_model. Qed.
Print Assumptions monitor_silent_on_model.

(** Both hypotheses are needed (inputs outside the harness's domain). *)
Example monitor_domain_boundary :
  mon15 (L [A 2; A 1; A 99; L [L [A 2; A 0; A 1]]; L []]%Z)
        (run15 (L [A 2; A 1; A 99; L [L [A 2; A 0; A 1]]; L []]%Z)) = [11%Z] /\
  mon15 (L [A 2; A 1; A 0; L []; L []]%Z) (run15 (L [A 2; A 1; A 0; L []; L []]%Z)) = [13%Z].
Proof. vm_compute. split; reflexivity. Qed.

(** Non-vacuity of [same_sequence]: mid-run, consumer 0 is parked in its second
    Read (1 of 3 completed), consumer 1 has completed 1 of 2 and is level with
    the source. *)
Example same_sequence_midrun :
  match Mux.run 2 5 (init [(3, false, 100%N); (2, false, 1%N)]) [0; 1; 0; 1; 0] with
  | Some s => map (completed 3) (firstn 1 (cs s)) = [1] /\ map (completed 2) (skipn 1 (cs s)) = [1] /\
              map got (cs s) = [[0]; [0]]%Z /\ srcpos s = 1 /\ map st (cs s) = [CWaitRead; CReady]
  | None => False
  end.
Proof. vm_compute. repeat split; reflexivity. Qed.
