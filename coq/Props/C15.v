(** C15 — Cloned buffers, the multiplexed chunk reader and buffers with
    background tasks.  Statements only; proofs are in Buffer/AlgebraProofs.v
    and Buffer/MuxProofs.v. *)
From Coq Require Import List ZArith NArith Bool.
From BBS Require Import Buffer.Algebra Buffer.AlgebraProofs Buffer.Mux Buffer.MuxProofs.
Import ListNotations.
Open Scope Z_scope.

(** ** M2: decorator programs of any depth (repaired decorateBuffer) *)

(** Every object any program builds is well-formed: each digest-bearing node
    carries the base object's digest and source. *)
Theorem wellformed_closed : forall D flt p n,
  build D flt true p = BNode n -> wf D n.
Proof. exact build_wf. Qed.
Print Assumptions wellformed_closed.

(** No constructor and no method panics: for every program of any depth, every
    contents, every source behaviour and every method, on the kept handle ... *)
Theorem all_methods_work : forall D flt p m, Algebra.run D flt true p m <> Panic.
Proof. exact run_nopanic. Qed.
Print Assumptions all_methods_work.

(** ... and on every sibling handle handed out by a CloneStream/CloneCopy on the way. *)
Theorem all_methods_work_on_clones : forall D flt p h,
  In h (siblings D flt true p) ->
  exists n, fst h = BNode n /\ wf D n /\ eval D flt n (snd h) <> Panic.
Proof. exact siblings_nopanic. Qed.
Print Assumptions all_methods_work_on_clones.

(** Both halves of a clone are the same object (same bytes or the same error
    for all consumers, whatever they are decorated with afterwards). *)
Theorem clone_halves_equal : forall D flt p sib max,
  build D flt true (CloneStreamL p sib) = build D flt true (CloneStreamR p sib) /\
  build D flt true (CloneCopyL p max sib) = build D flt true (CloneCopyR p max sib).
Proof. intros. split; [apply halves_equal|apply copy_halves_equal]. Qed.
Print Assumptions clone_halves_equal.

(** GetSizeBytes keeps reporting the object's size unless the buffer has
    become an error buffer. *)
Theorem size_preserved : forall D flt p n,
  build D flt true p = BNode n ->
  (exists c, n = NErr c) \/ eval D flt n MSize = Ok [Z.of_nat (length D)].
Proof. intros D flt p n H. apply size_preserved. exact (build_wf D flt p n H). Qed.
Print Assumptions size_preserved.

(** A completing method (anything but GetSizeBytes/Discard; for ToReader:
    Close returning) has waited for every background task of the object —
    including the objects obtained by cloning a buffer with a task. *)
Theorem task_waited : forall n m, m <> MSize -> m <> MDiscard -> incl (tasks n) (waits n m).
Proof. intros n m H1 H2. apply tasks_waited. split; assumption. Qed.
Print Assumptions task_waited.

Theorem clones_of_task_buffer_wait_too : forall D flt b dg src id terr sv max r m,
  m <> MSize -> m <> MDiscard ->
  In id (waits (cloneStream true sv (NTask b dg src id terr)) m) /\
  (cloneCopy D flt true max (NTask b dg src id terr) = BNode r -> In id (waits r m)).
Proof.
  intros D flt b dg src id terr sv max r m H1 H2. split.
  - apply (tasks_waited _ m (conj H1 H2)). apply task_kept_by_cloneStream. left. reflexivity.
  - intros H. apply (tasks_waited _ m (conj H1 H2)).
    exact (task_kept_by_cloneCopy D flt max b dg src id terr r H).
Qed.
Print Assumptions clones_of_task_buffer_wait_too.

(** If the data was fine the task's error is reported; a data error takes
    precedence.
    FULL statement (not proved for ReadAt hitting end-of-file, where the code
    returns (n, io.EOF) and drops the task's error — see the report):
      forall n id terr m, terr <> 0 -> completing m -> success (eval n m) ->
        eval (withTask id terr n) m = Err terr.
    Proved for every result [Ok _]: *)
Theorem task_error_reported_if_data_ok_partial : forall D flt n id terr m x,
  terr <> 0 -> m <> MSize -> m <> MDiscard -> eval D flt n m = Ok x ->
  eval D flt (withTask id terr n) m = Err terr.
Proof. intros D flt n id terr m x Ht H1 H2. apply task_error_reported; [exact Ht|split; assumption]. Qed.
Print Assumptions task_error_reported_if_data_ok_partial.

(** Finding F1 (pinned tree): with decorateBuffer copying only base and task,
    the same model panics on a clone of a buffer with a task. *)
Theorem all_methods_work_refuted_on_pinned_tree :
  Algebra.run [1; 2; 3] FNone false (CloneStreamL (WithTask (Base KReader) 0 0) MDiscard) MSize = Panic.
Proof. exact (proj1 pinned_refuted). Qed.
Print Assumptions all_methods_work_refuted_on_pinned_tree.

(** Non-vacuity: a depth-4 program over a failing-task chunk reader. *)
Example m2_example :
  let p := WithEH (CloneStreamR (WithTask (CloneStreamL (Base KChunk) MDiscard) 1 14) (MSlice 100)) 7 in
  Algebra.run [10; 2; 5; 6] FNone true p (MSlice 100) = Err 7 /\
  Algebra.run [10; 2; 5; 6] FNone true p MSize = Ok [4] /\
  Algebra.run [10; 2; 5; 6] FCorrupt true p MReader = Err 7 /\
  Algebra.run [10; 2; 5; 6] FNone true (CloneStreamL (Base KReader) MDiscard) (MChunks 1) = Ok [2; 5; 6].
Proof. vm_compute. repeat split; reflexivity. Qed.

Close Scope Z_scope.

(** ** M1: n consumers of one stream-cloned buffer, any interleaving

    For any number n >= 1 of consumers with any programs (Read^k ; Close, or
    Discard), any source script (any number of chunks, EOF or any error) and
    any schedule accepted by the transition system: *)

(** no panic ("no pending consumers", "already fully consumed") *)
Theorem mux_no_panic : forall nch term progs sched s,
  progs <> [] -> Mux.run nch term (init progs) sched = Some s -> panicked s = false.
Proof. intros. eapply no_panic, run_inv; [apply init_inv; eassumption|eassumption]. Qed.
Print Assumptions mux_no_panic.

(** every consumer has seen a prefix of the sequence the source produced (the
    same chunks in the same order, or the same error), and every consumer that
    has not closed has seen all of it.
    FULL statement additionally says that a finished consumer with program
    Read^k has exactly the first k results; the length part is checked on the
    implementation by the monitor but not proved here. *)
Theorem same_sequence_partial : forall nch term progs sched s c,
  progs <> [] -> Mux.run nch term (init progs) sched = Some s -> In c (cs s) ->
  (exists k, k <= srcpos s /\ got c = items nch term k) /\
  (st c <> CDone -> got c = items nch term (srcpos s)).
Proof. intros. eapply same_sequence; [eapply run_inv; [apply init_inv; eassumption|eassumption]|assumption]. Qed.
Print Assumptions same_sequence_partial.

(** the source is closed at most once, and it is closed exactly when every
    consumer has finished *)
Theorem source_closed_once_after_all : forall nch term progs sched s,
  progs <> [] -> Mux.run nch term (init progs) sched = Some s ->
  closed s <= 1 /\ (closed s = 1 <-> all_done s = true).
Proof. intros. eapply closed_once_after_all, run_inv; [apply init_inv; eassumption|eassumption]. Qed.
Print Assumptions source_closed_once_after_all.

(** no stuck state: while some consumer has not finished, some consumer can
    take a step (so a parked consumer is always woken eventually) *)
Theorem no_stuck : forall nch term progs sched s,
  progs <> [] -> Mux.run nch term (init progs) sched = Some s -> all_done s = false ->
  exists i s', step nch term s i = Some s'.
Proof. intros. eapply MuxProofs.no_stuck; [eapply run_inv; [apply init_inv; eassumption|eassumption]|assumption]. Qed.
Print Assumptions no_stuck.

(** ranking: every step strictly decreases the number of steps still to be
    taken, so no schedule is longer than the initial rank and (with no_stuck)
    every maximal schedule ends with all consumers finished — under any
    scheduler, fair or not *)
Theorem all_terminate : forall nch term progs sched s,
  progs <> [] -> Mux.run nch term (init progs) sched = Some s ->
  length sched + rank s <= rank (init progs) /\ (rank s = 0 -> all_done s = true).
Proof.
  intros nch term progs sched s Hne Hr. split.
  - eapply (bounded_runs nch term); [apply init_inv; exact Hne|exact Hr].
  - apply (rank_zero_done nch term). eapply run_inv; [apply init_inv; exact Hne|exact Hr].
Qed.
Print Assumptions all_terminate.

(** Non-vacuity: three consumers, two chunks then an error, a schedule that
    makes consumer 0 wait, consumer 2 close early on behalf of the others. *)
Example m1_example :
  match Mux.run 2 5 (init [(3, false, 100%N); (3, false, 1%N); (0, true, 1%N)]) [0; 1; 2; 0; 2; 1; 0; 1; 1; 0; 0; 1] with
  | Some s => map got (cs s) = [[0; 1; -6]; [0; 1; -6]; []]%Z /\ closed s = 1 /\ all_done s = true
              /\ nval s = true /\ minchunk s = Some 1%N
  | None => False
  end.
Proof. vm_compute. repeat split; reflexivity. Qed.
