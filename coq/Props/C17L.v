(** C17L - sub-check of C17: the replicator decorators under a MIX of entry
    points (ReplicateMultiple, ReplicateSingle, ReplicateComposite).

    "Replicator decorators never run more than one concurrent copy of the same
    object (deduplicating) or more copies than configured (concurrency-
    limiting)" - for callers of every entry point; every path out of the
    limiter (success, failure of the base replicator, cancellation before or
    while waiting, cancellation after the hand-over) gives the permit back;
    a single-object entry point reports success only after reading the object
    from the sink. *)
From Coq Require Import List ZArith NArith Bool Arith.
From BBS Require Import Common.Sx Compose.ExistenceCache Compose.Replicators Compose.ReplicatorsProofs
  Compose.MonSilentRepl Compose.ReplEntry Compose.ReplEntryProofs Run.R17Conc Run.R17L Run.R17LProofs.
Import ListNotations.

(** ** The bound, for every mix of entry points and every schedule
    [kinds] says per caller which entry point it uses, [tr] is any sequence of
    events (starts, backend returns with any fault, cancellations, internal
    steps in any order).  [copies]: callers inside a source->sink copy;
    [maxall]: running maximum of calls of the base replicator in flight. *)
Theorem mix_limit_bound : forall lim kinds sets source sink tr x,
  xrun kinds (MLimit lim) (xinit kinds sets source sink) tr = Some x ->
  (copies (xb x) <= lim /\ maxall (xb x) <= lim)%nat.
Proof. exact ReplEntryProofs.mix_limit_bound. Qed.
Print Assumptions mix_limit_bound.

Theorem mix_dedup_bound : forall kinds sets source sink tr x,
  xrun kinds MDedup (xinit kinds sets source sink) tr = Some x ->
  (forall k, copies_of k (xb x) <= 1)%nat /\ (maxkey (xb x) <= 1)%nat.
Proof. exact ReplEntryProofs.mix_dedup_bound. Qed.
Print Assumptions mix_dedup_bound.

(** ** Release on every path
    In every reachable state the permits in use are exactly those of the
    callers that hold one (inside the base replicator, or just handed one),
    the semaphore's FIFO holds exactly the callers that wait, and somebody
    waits only while all [lim] permits are in use. *)
Theorem mix_limit_accounting : forall lim kinds sets source sink tr x,
  xrun kinds (MLimit lim) (xinit kinds sets source sink) tr = Some x ->
  holders (xb x) = cur (xb x) /\
  (forall j, In j (semq (xb x)) <-> wait_at (xb x) j) /\
  (semq (xb x) <> [] -> cur (xb x) = lim).
Proof. exact ReplEntryProofs.mix_limit_accounting. Qed.
Print Assumptions mix_limit_accounting.

(** After all callers finished (on whichever path) no permit is in use and
    nobody is queued ... *)
Theorem mix_limit_all_released : forall lim kinds sets source sink tr x,
  xrun kinds (MLimit lim) (xinit kinds sets source sink) tr = Some x ->
  (forall i t, nth_error (thr (xb x)) i = Some t -> tpc t = NotStarted \/ exists c, tpc t = Done c) ->
  cur (xb x) = 0%nat /\ semq (xb x) = [].
Proof. exact ReplEntryProofs.mix_limit_all_released. Qed.
Print Assumptions mix_limit_all_released.

(** ... so that [lim] further callers are all admitted at once: from a state
    with no permit in use and an empty FIFO, any [lim] (or fewer) distinct
    callers that have not started yet, each asking for at least one object,
    are all inside a copy after they arrived one after the other. *)
Theorem limit_further_copies_run_at_once : forall lim s late,
  cur s = 0%nat -> semq s = [] -> NoDup late -> (length late <= lim)%nat ->
  (forall i, In i late -> exists t d rest, nth_error (thr s) i = Some t /\ tpc t = NotStarted /\
                                            cancelled t = false /\ todo t = d :: rest) ->
  exists s', run (MLimit lim) s (arrivals late) = Some s' /\
             (forall i, In i late -> exists t, nth_error (thr s') i = Some t /\ in_copy t = true) /\
             cur s' = length late.
Proof. exact ReplEntryProofs.limit_further_copies_run_at_once. Qed.
Print Assumptions limit_further_copies_run_at_once.

(** ** Results of the single-object entry points
    The sink is read only after the ReplicateMultiple part returned OK; the
    result of the read is OK exactly when the call was not faulted and the sink
    holds the object. *)
Theorem read_back_step : forall kinds m x i f d,
  reading kinds x i = Some d ->
  xstep kinds m x (ERel i f) = Some (mkxs (xb x) (upd i (PRead (read_code f d (snk (xb x)))) (xpost x))) /\
  exists t, nth_error (thr (xb x)) i = Some t /\ tpc t = Done 0 /\ read_obj (nth i kinds KMulti) = Some d.
Proof. exact ReplEntryProofs.read_back_step. Qed.
Print Assumptions read_back_step.

Theorem read_code_ok : forall f d sink, read_code f d sink = 0%Z <-> f = 0%Z /\ memn d sink = true.
Proof. exact ReplEntryProofs.read_code_ok. Qed.
Print Assumptions read_code_ok.

(** ** The monitor is silent on everything the judge accepts
    Clauses 21/22/23 (calls of the base replicator in flight, every entry
    point) and clause 26 (a caller is blocked at a quiescent point only while
    [limit] copies are in flight), for all inputs and observations. *)
Theorem bound_and_release_silent_on_accepted : forall inp obs,
  agreeL inp obs = true -> monL_counts inp obs = [] /\ monL_release inp obs = [].
Proof. exact R17LProofs.bound_and_release_silent_on_accepted. Qed.
Print Assumptions bound_and_release_silent_on_accepted.

Theorem mon17L_is_the_three_groups : forall inp obs,
  mon17L inp obs = if sx_eqb obs (L [A (-1)]) then [] else monL_counts inp obs ++ monL_release inp obs ++ monL_results inp obs.
Proof. exact R17LProofs.mon17L_split. Qed.
Print Assumptions mon17L_is_the_three_groups.

(** ** Non-vacuity *)

(** An observation of the REAL limiter (limit 1; callers 0 and 1 use
    ReplicateComposite for objects 0 and 1, caller 2 ReplicateMultiple for
    both; corpus/C17L/seed-C17-d...): the second and third caller wait, each
    composite caller reads the sink after giving the permit back.  The judge
    accepts it and the monitor is silent. *)
Definition ex_inp : sx :=
  L [A 2; L [A 1; A 1]; L [L [A 0]; L [A 1]; L [A 0; A 1]]; L [A 0; A 1]; L []; L [L [A 0; A 0]; L [A 0; A 1]; L [A 0; A 2]; L [A 1; A 0; A 0]; L [A 1; A 0; A 0]; L [A 1; A 0; A 0]; L [A 1; A 1; A 0]; L [A 1; A 1; A 0]; L [A 1; A 1; A 0]; L [A 1; A 2; A 0]; L [A 1; A 2; A 0]; L [A 1; A 2; A 0]; L [A 1; A 2; A 0]]; L [A 2; A 2; A 0]].
Definition ex_obs : sx :=
  L [L [L [L [A 1; A 1; A 0; L [A 0]]; L [A 0]; L [A 0]]; L [L [A 1; A 1; A 0; L [A 0]]; L [A 2]; L [A 0]]; L [L [A 1; A 1; A 0; L [A 0]]; L [A 2]; L [A 2]]; L [L [A 1; A 0; A 1; L [A 0]]; L [A 2]; L [A 2]]; L [L [A 1; A 0; A 3; L [A 0]]; L [A 1; A 1; A 0; L [A 1]]; L [A 2]]; L [L [A 3; A 0]; L [A 1; A 1; A 0; L [A 1]]; L [A 2]]; L [L [A 3; A 0]; L [A 1; A 0; A 1; L [A 1]]; L [A 2]]; L [L [A 3; A 0]; L [A 1; A 0; A 3; L [A 1]]; L [A 1; A 1; A 0; L [A 0]]]; L [L [A 3; A 0]; L [A 3; A 0]; L [A 1; A 1; A 0; L [A 0]]]; L [L [A 3; A 0]; L [A 3; A 0]; L [A 1; A 0; A 1; L [A 0]]]; L [L [A 3; A 0]; L [A 3; A 0]; L [A 1; A 1; A 0; L [A 1]]]; L [L [A 3; A 0]; L [A 3; A 0]; L [A 1; A 0; A 1; L [A 1]]]; L [L [A 3; A 0]; L [A 3; A 0]; L [A 3; A 0]]]; A 1; A 1; L [A 0; A 1]; L [L [A 0; A 0; A 0]; L [A 1; A 0; A 1; A 0; L [A 0]; A 0]; L [A 0; A 1; A 0]; L [A 0; A 2; A 0]; L [A 2; A 0; A 1; A 0; L [A 0]; A 0; L []; A 0]; L [A 1; A 0; A 0; A 1; L [A 0]; A 0]; L [A 2; A 0; A 0; A 1; L [A 0]; A 0; L []; A 0]; L [A 1; A 0; A 0; A 3; L [A 0]; A 0]; L [A 1; A 1; A 1; A 0; L [A 1]; A 0]; L [A 2; A 0; A 0; A 3; L [A 0]; A 0; L []; A 0]; L [A 3; A 0; A 0; A 0]; L [A 2; A 1; A 1; A 0; L [A 1]; A 0; L []; A 0]; L [A 1; A 1; A 0; A 1; L [A 1]; A 0]; L [A 2; A 1; A 0; A 1; L [A 1]; A 0; L []; A 0]; L [A 1; A 1; A 0; A 3; L [A 1]; A 0]; L [A 1; A 2; A 1; A 0; L [A 0]; A 0]; L [A 2; A 1; A 0; A 3; L [A 1]; A 0; L []; A 0]; L [A 3; A 1; A 0; A 0]; L [A 2; A 2; A 1; A 0; L [A 0]; A 0; L []; A 0]; L [A 1; A 2; A 0; A 1; L [A 0]; A 0]; L [A 2; A 2; A 0; A 1; L [A 0]; A 0; L []; A 0]; L [A 1; A 2; A 1; A 0; L [A 1]; A 0]; L [A 2; A 2; A 1; A 0; L [A 1]; A 0; L []; A 0]; L [A 1; A 2; A 0; A 1; L [A 1]; A 0]; L [A 2; A 2; A 0; A 1; L [A 1]; A 0; L []; A 0]; L [A 3; A 2; A 0; A 0]]].
Example accepted_observation : agreeL ex_inp ex_obs = true /\ mon17L ex_inp ex_obs = [].
Proof. vm_compute. split; reflexivity. Qed.

(** What the seeded change C17-d (ReplicateComposite forwarded to the base
    replicator without the semaphore) was observed to do with limit 1: a
    composite caller is inside the base replicator, a ReplicateMultiple caller
    gets the permit nevertheless - two calls in flight.  The judge rejects the
    observation and clause 22 fires. *)
Example seeded_bypass_is_flagged :
  let inp := L [A 2; L [A 1; A 1]; L [L [A 0]; L []]; L []; L []; L [L [A 0; A 0]; L [A 0; A 1]]; L [A 2]] in
  let obs := L [L [L [L [A 1; A 1; A 0; L [A 0]]; L [A 0]]; L [L [A 1; A 1; A 0; L [A 0]]; L [A 3; A 0]]]; A 1; A 2; L [];
                L [L [A 0; A 0; A 0]; L [A 1; A 0; A 1; A 0; L [A 0]; A 0]; L [A 0; A 1; A 0]; L [A 3; A 1; A 0; A 0]]] in
  agreeL inp obs = false /\ mon17L inp obs = [22]%Z.
Proof. vm_compute. split; reflexivity. Qed.

(** A limiter that does not release on the error path, as observed: caller 0's
    copy fails (NOT_FOUND from the source), caller 1 stays blocked although no
    copy is in flight.  Clause 26 fires. *)
Example leaked_permit_is_flagged :
  let inp := L [A 2; L [A 1; A 1]; L [L [A 0]; L []]; L []; L []; L [L [A 0; A 0]; L [A 0; A 1]; L [A 1; A 0; A 0]; L [A 1; A 0; A 0]]; L []] in
  let obs := L [L [L [L [A 1; A 1; A 0; L [A 0]]; L [A 0]]; L [L [A 1; A 1; A 0; L [A 0]]; L [A 2]]; L [L [A 1; A 0; A 1; L [A 0]]; L [A 2]]; L [L [A 3; A 5]; L [A 2]]];
                A 1; A 1; L [];
                L [L [A 0; A 0; A 0]; L [A 1; A 0; A 1; A 0; L [A 0]; A 0]; L [A 0; A 1; A 0]; L [A 2; A 0; A 1; A 0; L [A 0]; A 5; L []; A 0]; L [A 1; A 0; A 0; A 1; L [A 0]; A 0]; L [A 2; A 0; A 0; A 1; L [A 0]; A 5; L []; A 0]; L [A 3; A 0; A 5; A 0]]] in
  agreeL inp obs = false /\ mon17L inp obs = [26]%Z.
Proof. vm_compute. split; reflexivity. Qed.

Local Open Scope nat_scope.

(** A run of the extended system: limit 1, caller 0 ReplicateComposite(0),
    caller 1 ReplicateSingle(1).  Caller 1 queues, is handed the permit when
    caller 0's copy ends, and both read the sink afterwards. *)
Example mixed_run :
  let kinds := [KComposite 0; KSingle 1] in
  let tr := [EStart 0; ETau 0 false; EStart 1; ETau 1 false; ERel 0 0; ERel 0 0; ETau 1 false;
             ERel 1 0; ERel 0 0; ERel 1 0; ERel 1 0] in
  match xrun kinds (MLimit 1) (xinit kinds [[0]; [1]] [0; 1] []) tr with
  | Some x => xresult kinds x 0 = Some 0%Z /\ xresult kinds x 1 = Some 0%Z /\ snk (xb x) = [0; 1] /\
              maxall (xb x) = 1 /\ cur (xb x) = 0 /\ semq (xb x) = []
  | None => False
  end.
Proof. vm_compute. repeat split; reflexivity. Qed.

(** ... and in the middle of it the hypothesis of the waiting clause is met:
    caller 1 is queued while caller 0 holds the only permit. *)
Example mixed_run_waiting :
  let kinds := [KComposite 0; KSingle 1] in
  match xrun kinds (MLimit 1) (xinit kinds [[0]; [1]] [0; 1] []) [EStart 0; ETau 0 false; EStart 1; ETau 1 false] with
  | Some x => semq (xb x) = [1] /\ cur (xb x) = 1 /\ holders (xb x) = 1 /\ copies (xb x) = 1
  | None => False
  end.
Proof. vm_compute. repeat split; reflexivity. Qed.

(** [limit_further_copies_run_at_once] with two permits and two late callers. *)
Example two_late_callers :
  match run (MLimit 2) (init_state [[0]; [1]] [0; 1] []) (arrivals [0; 1]) with
  | Some s => copies s = 2 /\ cur s = 2
  | None => False
  end.
Proof. vm_compute. split; reflexivity. Qed.

(** ** Clause 27 on the event log of EVERY trace of the mixed-entry-point system

    As for C17's clauses 24/25, the agreement test does not read the event
    log; Compose/EventLog.v says which harness events a step of the system
    emits ([xlog]: a ReplicateSingle / ReplicateComposite caller whose
    ReplicateMultiple part reached OK arrives in sink.Get / GetFromComposite;
    the release of that read emits its return and then the caller's return
    with [read_code]).  By induction over all traces - any decorator, any mix
    of entry points, any schedule, faults and cancellations. *)
From BBS Require Import Compose.EventLog Run.R17LogBase Run.R17LogEntry Run.R17LogOrder Run.R17LogMon Run.R17LogExamples.
Local Open Scope nat_scope.

Theorem clause27_silent_on_every_trace : forall kinds m x0 tr x,
  xrun kinds m x0 tr = Some x -> clause27_ok kinds (xlog kinds m x0 tr).
Proof. exact entry_clause27. Qed.
Print Assumptions clause27_silent_on_every_trace.

Theorem clause27_is_what_the_monitor_checks : forall kinds lg, clause27_ok kinds lg -> mon_results kinds lg = [].
Proof. exact mon_results_silent. Qed.
Print Assumptions clause27_is_what_the_monitor_checks.

(** "Agree implies no violation", all clauses of C17L: an observation the
    judge accepts, carrying the log of ANY trace of the model, is still
    accepted and raises none of 21/22/23, 26, 27. *)
Theorem monitor_silent_on_accepted_observation_with_model_log :
  forall inp obs m kinds sets source sink evs tr x,
  agreeL inp obs = true ->
  cfgL inp = (m, kinds, sets, source, sink, evs) ->
  xrun kinds m (xinit kinds sets source sink) tr = Some x ->
  let obs' := L [sx_nth obs 0; sx_nth obs 1; sx_nth obs 2; sx_nth obs 3; L (xlog kinds m (xinit kinds sets source sink) tr)] in
  agreeL inp obs' = true /\ mon17L inp obs' = [].
Proof. exact mon17L_silent_on_accepted_with_model_log. Qed.
Print Assumptions monitor_silent_on_accepted_observation_with_model_log.

(** ... and carrying any rewrite of that log that keeps every caller's lines in
    order and moves no line across a start event ([same_run], see Props/C17.v:
    the order in which two callers woken in the same round write their lines
    is not determined); clause 27 does not depend on the order at all. *)
Theorem monitor_silent_on_accepted_observation_any_write_order :
  forall inp obs m kinds sets source sink evs tr x lg',
  agreeL inp obs = true ->
  cfgL inp = (m, kinds, sets, source, sink, evs) ->
  xrun kinds m (xinit kinds sets source sink) tr = Some x ->
  same_run (xlog kinds m (xinit kinds sets source sink) tr) lg' ->
  let obs' := L [sx_nth obs 0; sx_nth obs 1; sx_nth obs 2; sx_nth obs 3; L lg'] in
  agreeL inp obs' = true /\ mon17L inp obs' = [].
Proof. exact mon17L_silent_on_accepted_any_write_order. Qed.
Print Assumptions monitor_silent_on_accepted_observation_any_write_order.

(** Non-vacuity and the tie to the real code: limit 1, caller 0 uses
    ReplicateSingle, caller 1 ReplicateComposite (its read-back fails with
    NOT_FOUND, reported as INTERNAL); [xlog] of the trace is the log recorded
    from the real limiter on that schedule, and clause 27 is silent on it. *)
Example model_log_is_the_recorded_log_mixed_entry_points :
  let kinds := [KSingle 0; KComposite 0] in
  let tr := [EStart 0; ETau 0 false; EStart 1; ETau 1 false; ERel 0 0%Z; ERel 0 0%Z; ETau 1 false; ERel 0 0%Z;
             ERel 1 0%Z; ERel 1 0%Z; ERel 1 5%Z] in
  let lg := xlog kinds (MLimit 1) (xinit kinds [[0]; [0]] [0] []) tr in
  map lg_kind lg = [0; 1; 0; 2; 1; 2; 1; 1; 2; 3; 2; 1; 2; 1; 2; 3]%Z
  /\ existsb (fun e => Z.eqb (lg_kind e) 3%Z && Nat.eqb (lg_caller e) 0 && Z.eqb (sx_Z (sx_nth e 2)) 0%Z) lg = true
  /\ mon_results kinds lg = [].
Proof. vm_compute. repeat split; reflexivity. Qed.
