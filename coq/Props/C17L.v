(** C17L - sub-check of C17: the replicator decorators under a MIX of entry
    points (ReplicateMultiple, ReplicateSingle, ReplicateComposite).

    "Replicator decorators never run more than one concurrent copy of the same
    object (deduplicating) or more copies than configured (concurrency-
    limiting)" - for callers of every entry point; every path out of the
    limiter (success, failure of the base replicator, cancellation before or
    while waiting, cancellation after the hand-over) gives the permit back;
    a single-object entry point reports success only after reading the object
    from the sink. *)
From Coq Require Import List ZArith NArith Bool Arith.
From BBS Require Import Common.Sx Compose.ExistenceCache Compose.Replicators Compose.ReplicatorsProofs
  Compose.MonSilentRepl Compose.ReplEntry Compose.ReplEntryProofs Run.R17Conc Run.R17L Run.R17LProofs.
Import ListNotations.

(** ** The bound, for every mix of entry points and every schedule
    [kinds] says per caller which entry point it uses, [tr] is any sequence of
    events (starts, backend returns with any fault, cancellations, internal
    steps in any order).  [copies]: callers inside a source->sink copy;
    [maxall]: running maximum of calls of the base replicator in flight. *)
Theorem mix_limit_bound : forall lim kinds sets source sink tr x,
  xrun kinds (MLimit lim) (xinit kinds sets source sink) tr = Some x ->
  (copies (xb x) <= lim /\ maxall (xb x) <= lim)%nat.
Proof. exact ReplEntryProofs.mix_limit_bound. Qed.
Print Assumptions mix_limit_bound.

Theorem mix_dedup_bound : forall kinds sets source sink tr x,
  xrun kinds MDedup (xinit kinds sets source sink) tr = Some x ->
  (forall k, copies_of k (xb x) <= 1)%nat /\ (maxkey (xb x) <= 1)%nat.
Proof. exact ReplEntryProofs.mix_dedup_bound. Qed.
Print Assumptions mix_dedup_bound.

(** ** Release on every path
    In every reachable state the permits in use are exactly those of the
    callers that hold one (inside the base replicator, or just handed one),
    the semaphore's FIFO holds exactly the callers that wait, and somebody
    waits only while all [lim] permits are in use. *)
Theorem mix_limit_accounting : forall lim kinds sets source sink tr x,
  xrun kinds (MLimit lim) (xinit kinds sets source sink) tr = Some x ->
  holders (xb x) = cur (xb x) /\
  (forall j, In j (semq (xb x)) <-> wait_at (xb x) j) /\
  (semq (xb x) <> [] -> cur (xb x) = lim).
Proof. exact ReplEntryProofs.mix_limit_accounting. Qed.
Print Assumptions mix_limit_accounting.

(** After all callers finished (on whichever path) no permit is in use and
    nobody is queued ... *)
Theorem mix_limit_all_released : forall lim kinds sets source sink tr x,
  xrun kinds (MLimit lim) (xinit kinds sets source sink) tr = Some x ->
  (forall i t, nth_error (thr (xb x)) i = Some t -> tpc t = NotStarted \/ exists c, tpc t = Done c) ->
  cur (xb x) = 0%nat /\ semq (xb x) = [].
Proof. exact ReplEntryProofs.mix_limit_all_released. Qed.
Print Assumptions mix_limit_all_released.

(** ... so that [lim] further callers are all admitted at once: from a state
    with no permit in use and an empty FIFO, any [lim] (or fewer) distinct
    callers that have not started yet, each asking for at least one object,
    are all inside a copy after they arrived one after the other. *)
Theorem limit_further_copies_run_at_once : forall lim s late,
  cur s = 0%nat -> semq s = [] -> NoDup late -> (length late <= lim)%nat ->
  (forall i, In i late -> exists t d rest, nth_error (thr s) i = Some t /\ tpc t = NotStarted /\
                                            cancelled t = false /\ todo t = d :: rest) ->
  exists s', run (MLimit lim) s (arrivals late) = Some s' /\
             (forall i, In i late -> exists t, nth_error (thr s') i = Some t /\ in_copy t = true) /\
             cur s' = length late.
Proof. exact ReplEntryProofs.limit_further_copies_run_at_once. Qed.
Print Assumptions limit_further_copies_run_at_once.

(** ** Results of the single-object entry points
    The sink is read only after the ReplicateMultiple part returned OK; the
    result of the read is OK exactly when the call was not faulted and the sink
    holds the object. *)
Theorem read_back_step : forall kinds m x i f d,
  reading kinds x i = Some d ->
  xstep kinds m x (ERel i f) = Some (mkxs (xb x) (upd i (PRead (read_code f d (snk (xb x)))) (xpost x))) /\
  exists t, nth_error (thr (xb x)) i = Some t /\ tpc t = Done 0 /\ read_obj (nth i kinds KMulti) = Some d.
Proof. exact ReplEntryProofs.read_back_step. Qed.
Print Assumptions read_back_step.

Theorem read_code_ok : forall f d sink, read_code f d sink = 0%Z <-> f = 0%Z /\ memn d sink = true.
Proof. exact ReplEntryProofs.read_code_ok. Qed.
Print Assumptions read_code_ok.

(** ** The monitor is silent on everything the judge accepts
    Clauses 21/22/23 (calls of the base replicator in flight, every entry
    point) and clause 26 (a caller is blocked at a quiescent point only while
    [limit] copies are in flight), for all inputs and observations. *)
Theorem bound_and_release_silent_on_accepted : forall inp obs,
  agreeL inp obs = true -> monL_counts inp obs = [] /\ monL_release inp obs = [].
Proof. exact R17LProofs.bound_and_release_silent_on_accepted. Qed.
Print Assumptions bound_and_release_silent_on_accepted.

Theorem mon17L_is_the_three_groups : forall inp obs,
  mon17L inp obs = if sx_eqb obs (L [A (-1)]) then [] else monL_counts inp obs ++ monL_release inp obs ++ monL_results inp obs.
Proof. exact R17LProofs.mon17L_split. Qed.
Print Assumptions mon17L_is_the_three_groups.
