(** C07D — the directory-backed persistent state store.  Statements only; the
    proofs are in Persist/DirStoreProofs.v and Run/R07DProofs.v.

    Object: [write_call] (Persist/DirStore.v), the seven directory operations
    of WritePersistentState with an injected failure or a process kill at any
    of them, over a directory with a volatile and a durable name space;
    histories of calls, kills, power cuts and reads ([drun]); the monitor
    [mrun] that judges the real store on the same histories. *)
From Coq Require Import List ZArith Bool Arith.
From BBS Require Import Common.Sx Persist.DirStore Persist.DirStoreProofs Run.R07D Run.R07DProofs.
(* -- (keeps lib/checklib.py's dependency scan from reading past the sentence) *)
Import ListNotations.

(** C07 "transient failures of the state write are retried until they
    succeed": from ANY directory state - whatever earlier failed, killed or
    power-cut calls left behind, a stale state.new included - a call during
    which no operation fails returns OK. *)
Theorem fault_free_state_write_succeeds : forall s d, snd (fst (write_call s d 0 false)) = true.
Proof. exact fault_free_call_succeeds. Qed.
Print Assumptions fault_free_state_write_succeeds.

(** C02/C03/C04 "a state file ... has been durably written": when the call
    returns OK the new state is what a read returns, now and after a power
    cut, and no temporary file is left in either name space. *)
Theorem successful_state_write_is_durable : forall s d f s' log,
  write_call s d f false = (s', true, log) ->
  read_state s' = Some d /\ read_state (power s') = Some d /\ v_new s' = None /\ d_new s' = None.
Proof. exact successful_call_is_durable. Qed.
Print Assumptions successful_state_write_is_durable.

(** a failed or killed call is atomic: a read returns the previous state or
    the new one, and a power cut right after it returns what a power cut
    before it would have returned *)
Theorem failed_or_killed_state_write_is_atomic : forall s d f killed s' log,
  write_call s d f killed = (s', false, log) ->
  (read_state s' = read_state s \/ read_state s' = Some d) /\
  read_state (power s') = read_state (power s).
Proof. exact failed_or_killed_call_is_atomic. Qed.
Print Assumptions failed_or_killed_state_write_is_atomic.

Theorem state_write_operation_order : forall s d,
  snd (write_call s d 0 false) = [1; 2; 3; 4; 5; 6; 7]%Z.
Proof. exact call_operation_order. Qed.
Print Assumptions state_write_operation_order.

(** C07 "transient failures ... of the state write are retried until they
    succeed", over the real store's directory protocol: the syncer's retry loop
    ([retry_write]: the same state again until OK) ends after at most one attempt
    more than there were failed attempts - each failing at any operation - with
    the state committed and durable.  This discharges, for the directory-backed
    store, the assumption under which C07's main model treats the state store
    (an attempt without a fault succeeds). *)
Theorem retry_loop_commits : forall faults s d,
  fst (retry_write s d faults) = done_dir d /\ (snd (retry_write s d faults) <= S (length faults))%nat.
Proof. exact retry_commits. Qed.
Print Assumptions retry_loop_commits.

(** once a call returned OK, every read returns its state as long as no
    further call is attempted, across any number of power cuts *)
Theorem committed_state_survives_power_cuts : forall s d f log es,
  write_call s d f false = (done_dir d, true, log) -> forallb quiet es = true ->
  Forall (fun o => match o with ORead r => r = Some d | _ => True end) (drun (done_dir d) es).
Proof. exact committed_state_survives. Qed.
Print Assumptions committed_state_survives_power_cuts.

(** every history: calls with a failure at any operation, kills at any
    operation, power cuts, reads, in any order and number - a fault-free call
    returns OK (clause 1) and every read returns the state of the last call
    that returned OK or of a call attempted since (clause 2) *)
Theorem monitor_silent_on_every_history : forall es, m_viol (mrun m_init es (drun dir_empty es)) = [].
Proof. exact DirStoreProofs.monitor_silent_on_every_history. Qed.
Print Assumptions monitor_silent_on_every_history.

Theorem mon07D_silent_on_model : forall inp, mon07D inp (run07D inp) = [].
Proof. exact mon07D_silent. Qed.
Print Assumptions mon07D_silent_on_model.

(** non-vacuity: a kill after the temporary file was created, a restart, a
    fault-free call, a power cut, a read *)
Example stale_temporary_file_history :
  drun dir_empty [EKill 5 3; EWrite 6 0; EPower; ERead; EWrite 7 6; ERead; EPower; ERead]
  = [OKill [1; 2; 3]%Z; OWrite true [1; 2; 3; 4; 5; 6; 7]%Z; OPower; ORead (Some 6%Z);
     OWrite false [1; 2; 3; 4; 5; 6]%Z; ORead (Some 6%Z); OPower; ORead (Some 6%Z)].
Proof. vm_compute. reflexivity. Qed.
