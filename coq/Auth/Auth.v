(** Model of pkg/auth/any_authorizer.go, pkg/auth/static_authorizer.go over the
    instance-name trie filled by pkg/auth/configuration/authorizer_factory.go
    (policy instance_name_prefix) and pkg/blobstore/authorizing_blob_access.go.
    Definitions only (proofs: AuthProofs.v). *)
From BBS Require Import Common.Sx Common.ListX Routing.Names Routing.Trie.

(** gRPC codes as Z: 0 = OK (allowed), 7 = PermissionDenied (denied), anything
    else = a failure other than denial. *)
Definition vd := Z.
Definition allowed (v : vd) : bool := Z.eqb v 0.
Definition denied (v : vd) : bool := Z.eqb v 7.

(** Names are small naturals (indices into the name alphabet of the case,
    [nm] below).  A scripted leaf authorizer is an oracle answering each name
    on its own (table lookup; unknown names are denied); every scripted leaf
    has an identity so that calls can be logged.  A [Prefix] leaf is the
    static authorizer the configuration factory builds for the policy
    instance_name_prefix: [auth.NewStaticAuthorizer(trie.ContainsPrefix)] over
    a fresh [digest.InstanceNameTrie] into which every allowed prefix was
    [Set] to 0, in the order of the configuration. *)
Inductive atree : Type :=
| Leaf (id : nat) (tbl : list vd)
| Prefix (ps : list (list comp))
| Any (ms : list atree).

Definition leaf_answer (tbl : list vd) (n : nat) : vd := nth n tbl 7.

(** authorizer_factory.go: trie := NewInstanceNameTrie(); for each prefix: trie.Set(prefix, 0) *)
Definition build_trie (ps : list (list comp)) : trie :=
  fold_left (fun t p => set t p 0) ps empty_trie.
(** static_authorizer.go: nil if the matcher (ContainsPrefix, the C19 model of
    the Go loop) accepts the name, else the fixed PermissionDenied error. *)
Definition prefix_answer (ps : list (list comp)) (n : list comp) : vd :=
  if contains_prefix (build_trie ps) n then 0 else 7.

(** Specification of a prefix leaf, knowing nothing about tries: the name is
    covered iff some allowed prefix is a component-wise prefix of it. *)
Definition covered (ps : list (list comp)) (n : list comp) : bool :=
  existsb (fun p => is_prefix p n) ps.
Definition prefix_sem (ps : list (list comp)) (n : list comp) : vd :=
  if covered ps n then 0 else 7.

(** A call log entry: leaf id and the names it was asked about. *)
Definition call := (nat * list nat)%type.

Section WithNames.
(** The instance name (component list) a name index stands for. *)
Variable nm : nat -> list comp.

(** The names whose verdict so far has code PermissionDenied
    ([currentInstanceNames] in the code; the parallel index slice
    [currentErrsIndex] is rendered by [merge] walking both lists). *)
Fixpoint still_denied (names : list nat) (errs : list vd) : list nat :=
  match names, errs with
  | n :: ns, e :: es => if denied e then n :: still_denied ns es else still_denied ns es
  | _, _ => []
  end.

(** errs[currentErrsIndex[i]] = res[i] for every i whose res is not a denial
    (a denial overwrites a denial, which leaves the code unchanged). *)
Fixpoint merge (errs res : list vd) : list vd :=
  match errs with
  | [] => []
  | e :: es =>
      if denied e then
        match res with
        | r :: rs => r :: merge es rs
        | [] => e :: es
        end
      else e :: merge es res
  end.

(** The code, with the recursion over the tree made structural.
    [authorize t names] = (verdict per name, calls made on leaves in order). *)
Fixpoint authorize (t : atree) (names : list nat) {struct t} : list vd * list call :=
  match t with
  | Leaf id tbl => (map (leaf_answer tbl) names, [(id, names)])
  | Prefix ps => (map (fun n => prefix_answer ps (nm n)) names, [])   (* not a logging leaf *)
  | Any ms =>
      match ms with
      | [] => (map (fun _ => 7) names, [])       (* NewAnyAuthorizer: static deny-all *)
      | m0 :: rest =>
          let '(errs0, log0) := authorize m0 names in
          (fix loop (rest : list atree) (errs : list vd) (log : list call)
             {struct rest} : list vd * list call :=
             match rest with
             | [] => (errs, log)
             | m :: rest' =>
                 match still_denied names errs with
                 | [] => (errs, log)                (* break *)
                 | cn =>
                     let '(res, lg) := authorize m cn in
                     loop rest' (merge errs res) (log ++ lg)
                 end
             end) rest errs0 log0
      end
  end.

(** Specification: the first verdict among members that is not a denial,
    otherwise a denial. *)
Fixpoint first_nondenied (vs : list vd) : vd :=
  match vs with
  | [] => 7
  | v :: vs' => if denied v then first_nondenied vs' else v
  end.

Fixpoint sem (t : atree) (n : nat) {struct t} : vd :=
  match t with
  | Leaf _ tbl => leaf_answer tbl n
  | Prefix ps => prefix_sem ps (nm n)
  | Any ms => first_nondenied (map (fun m => sem m n) ms)
  end.

(** The authorizing decorator.  Operations carry the instance names of the
    digests involved. *)
Inductive aop : Type :=
| OGet (n : nat)
| OGetFromComposite (parent child : nat)
| OPut (n : nat)
| OFindMissing (ns : list nat).          (* one name per digest of the set *)

Inductive bufev := BufNone | BufPassedOn | BufDiscarded | BufLeaked.

Record aresult := {
  forwarded : bool;          (* backend contacted *)
  code : vd;                 (* code returned when not forwarded *)
  buf : bufev;
  calls : list call;
}.

Fixpoint first_nonallowed (vs : list vd) : option vd :=
  match vs with
  | [] => None
  | v :: vs' => if allowed v then first_nonallowed vs' else Some v
  end.

(** [put_discards]: does a rejected Put release its buffer?  (true on a tree
    where finding F4 is repaired.) *)
Definition authorizing (get put fm : atree) (o : aop) : aresult :=
  match o with
  | OGet n | OGetFromComposite n _ =>
      let '(vs, lg) := authorize get [n] in
      let v := hd 7 vs in
      {| forwarded := allowed v; code := v; buf := BufNone; calls := lg |}
  | OPut n =>
      let '(vs, lg) := authorize put [n] in
      let v := hd 7 vs in
      {| forwarded := allowed v; code := v;
         buf := if allowed v then BufPassedOn else BufDiscarded; calls := lg |}
  | OFindMissing ns =>
      (* The code iterates a Go map, so the order of the distinct names is
         unspecified; the model uses the sorted order and [agree] accepts
         any non-allowed name's code. *)
      let names := dedup_sort ns in
      let '(vs, lg) := authorize fm names in
      match first_nonallowed vs with
      | None => {| forwarded := true; code := 0; buf := BufNone; calls := lg |}
      | Some v => {| forwarded := false; code := v; buf := BufNone; calls := lg |}
      end
  end.

Definition names_of (o : aop) : list nat :=
  match o with
  | OGet n | OPut n => [n]
  | OGetFromComposite p _ => [p]
  | OFindMissing ns => ns
  end.
Definition tree_of (get put fm : atree) (o : aop) : atree :=
  match o with
  | OGet _ | OGetFromComposite _ _ => get
  | OPut _ => put
  | OFindMissing _ => fm
  end.
End WithNames.

(** Trees made of prefix leaves and 'any' only (what a configuration without
    scripted/remote/JMESPath members yields), and the union of their allowed
    prefixes.  Used by the monitor clauses 4 and 5, which are stated on the
    allowed prefixes of the input alone. *)
Fixpoint static_only (t : atree) : bool :=
  match t with
  | Leaf _ _ => false
  | Prefix _ => true
  | Any ms => forallb static_only ms
  end.
Fixpoint all_prefixes (t : atree) : list (list comp) :=
  match t with
  | Leaf _ _ => []
  | Prefix ps => ps
  | Any ms => flat_map all_prefixes ms
  end.
