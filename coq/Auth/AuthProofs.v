From BBS Require Import Common.Sx Common.ListX Routing.Names Routing.NamesProofs
  Routing.Trie Routing.TrieProofs Auth.Auth.

Lemma denied_eq v : denied v = true <-> v = 7.
Proof. unfold denied. apply Z.eqb_eq. Qed.

(** ---- The prefix leaf: the trie built by the factory, asked with
    ContainsPrefix, answers exactly "some allowed prefix is a component-wise
    prefix of the name". ---- *)
Lemma gval_build_aux ps : forall t q,
  (0 <=? gval (fold_left (fun t p => set t p 0) ps t) q)
  = existsb (fun p => name_eqb p q) ps || (0 <=? gval t q).
Proof.
  induction ps as [|p ps IH]; intros t q; cbn [fold_left existsb]; [reflexivity|].
  rewrite IH, gval_set.
  destruct (name_eqb p q); cbn [orb].
  - rewrite orb_true_r. reflexivity.
  - reflexivity.
Qed.

Lemma gval_empty q : gval empty_trie q = -1.
Proof. destruct q; reflexivity. Qed.

Lemma gval_build ps q :
  (0 <=? gval (build_trie ps) q) = existsb (fun p => name_eqb p q) ps.
Proof.
  unfold build_trie. rewrite gval_build_aux, gval_empty. cbn. apply orb_false_r.
Qed.

Theorem contains_prefix_build ps n :
  contains_prefix (build_trie ps) n = covered ps n.
Proof.
  rewrite contains_prefix_gval. unfold hasp_f, covered.
  apply eq_iff_eq_true. rewrite !existsb_exists. split.
  - intros (q & Hq & Hv). rewrite gval_build in Hv. apply existsb_exists in Hv.
    destruct Hv as (p & Hp & He). apply name_eqb_eq in He. subst q.
    exists p. split; [exact Hp|]. apply prefixes_In. exact Hq.
  - intros (p & Hp & Hpre). exists p. split; [apply prefixes_In; exact Hpre|].
    rewrite gval_build. apply existsb_exists. exists p. split; [exact Hp|apply name_eqb_refl].
Qed.

Theorem prefix_answer_spec ps n : prefix_answer ps n = prefix_sem ps n.
Proof. unfold prefix_answer, prefix_sem. rewrite contains_prefix_build. reflexivity. Qed.

(** [covered] is what the property text says. *)
Theorem covered_iff ps n :
  covered ps n = true <-> exists p r, In p ps /\ n = p ++ r.
Proof.
  unfold covered. rewrite existsb_exists. split.
  - intros (p & Hp & H). apply is_prefix_iff in H. destruct H as (r & ->). exists p, r. auto.
  - intros (p & r & Hp & ->). exists p. split; [exact Hp|apply is_prefix_app].
Qed.

Section TreeInd.
  Variable P : atree -> Prop.
  Hypothesis Hleaf : forall id tbl, P (Leaf id tbl).
  Hypothesis Hprefix : forall ps, P (Prefix ps).
  Hypothesis Hany : forall ms, Forall P ms -> P (Any ms).
  Fixpoint atree_ind' (t : atree) : P t :=
    match t with
    | Leaf id tbl => Hleaf id tbl
    | Prefix ps => Hprefix ps
    | Any ms =>
        Hany ms ((fix go (l : list atree) : Forall P l :=
                    match l with
                    | [] => Forall_nil P
                    | x :: l' => Forall_cons x (atree_ind' x) (go l')
                    end) ms)
    end.
End TreeInd.

Section WithNames.
Variable nm : nat -> list comp.
Notation authorize := (Auth.authorize nm).
Notation sem := (Auth.sem nm).
Notation authorizing := (Auth.authorizing nm).

Lemma merge_spec (g f : nat -> vd) names :
  merge (map g names) (map f (still_denied names (map g names)))
  = map (fun n => if denied (g n) then f n else g n) names.
Proof.
  induction names as [|n ns IH]; cbn [map still_denied merge]; [reflexivity|].
  destruct (denied (g n)) eqn:Hd; cbn [map merge]; rewrite IH; reflexivity.
Qed.

Lemma still_denied_nil (g : nat -> vd) names :
  still_denied names (map g names) = [] -> forall n, In n names -> denied (g n) = false.
Proof.
  induction names as [|a ns IH]; cbn [map still_denied]; intros H n Hin; [contradiction|].
  destruct (denied (g a)) eqn:Hd; [discriminate|].
  destruct Hin as [->|Hin]; [exact Hd|]. apply IH; assumption.
Qed.

Definition spec_ok (t : atree) : Prop :=
  forall names, fst (authorize t names) = map (sem t) names.

Lemma loop_spec (names : list nat) :
  forall rest, Forall spec_ok rest ->
  forall (g : nat -> vd) log,
    fst ((fix loop (rest : list atree) (errs : list vd) (log : list call)
            {struct rest} : list vd * list call :=
            match rest with
            | [] => (errs, log)
            | m :: rest' =>
                match still_denied names errs with
                | [] => (errs, log)
                | cn =>
                    let '(res, lg) := authorize m cn in
                    loop rest' (merge errs res) (log ++ lg)
                end
            end) rest (map g names) log)
    = map (fun n => if denied (g n)
                    then first_nondenied (map (fun m => sem m n) rest)
                    else g n) names.
Proof.
  induction rest as [|m rest' IH]; intros HF g log.
  - cbn. apply map_ext. intros n. destruct (denied (g n)) eqn:Hd; [|reflexivity].
    apply denied_eq in Hd. congruence.
  - inversion HF as [|m' r' Hm Hrest]; subst.
    destruct (still_denied names (map g names)) as [|c cn] eqn:Hsd.
    + cbn [fst]. apply map_ext_in. intros n Hin.
      rewrite (still_denied_nil g names Hsd n Hin). reflexivity.
    + specialize (Hm (c :: cn)).
      destruct (authorize m (c :: cn)) as [res lg] eqn:Ha. cbn [fst] in Hm. subst res.
      rewrite <- Hsd. rewrite merge_spec.
      rewrite (IH Hrest (fun n => if denied (g n) then sem m n else g n)).
      apply map_ext. intros n. cbn [map first_nondenied].
      destruct (denied (g n)) eqn:Hd.
      * destruct (denied (sem m n)); reflexivity.
      * rewrite Hd. reflexivity.
Qed.

Theorem authorize_spec : forall t, spec_ok t.
Proof.
  induction t as [id tbl|ps|ms HF] using atree_ind'; intros names.
  - reflexivity.
  - cbn [Auth.Auth.authorize fst Auth.sem]. apply map_ext. intros n. apply prefix_answer_spec.
  - destruct ms as [|m0 rest].
    + reflexivity.
    + inversion HF as [|m' r' Hm0 Hrest]; subst.
      cbn [Auth.authorize]. specialize (Hm0 names).
      destruct (authorize m0 names) as [errs0 log0]. cbn [fst] in Hm0. subst errs0.
      rewrite (loop_spec names rest Hrest (sem m0) log0).
      apply map_ext. intros n. cbn [Auth.sem map first_nondenied]. reflexivity.
Qed.

(** Consequences for the 'any' combinator. *)
Lemma first_nondenied_allowed vs :
  allowed (first_nondenied vs) = true ->
  exists pre v post, vs = pre ++ v :: post /\ allowed v = true /\ Forall (fun x => x = 7) pre.
Proof.
  induction vs as [|v vs IH]; cbn [first_nondenied]; intros H.
  - discriminate.
  - destruct (denied v) eqn:Hd.
    + destruct (IH H) as (pre & w & post & -> & Hw & Hpre).
      exists (v :: pre), w, post. repeat split; try assumption.
      constructor; [apply denied_eq; exact Hd | exact Hpre].
    + exists [], v, vs. repeat split; [assumption | constructor].
Qed.

Lemma first_nondenied_prefix pre v post :
  Forall (fun x => x = 7) pre -> denied v = false ->
  first_nondenied (pre ++ v :: post) = v.
Proof.
  induction pre as [|p pre IH]; intros HF Hv; cbn [app first_nondenied].
  - rewrite Hv. reflexivity.
  - inversion HF; subst. cbn. apply IH; assumption.
Qed.

Lemma first_nondenied_all_denied vs :
  Forall (fun x => x = 7) vs -> first_nondenied vs = 7.
Proof.
  induction 1 as [|v vs Hv _ IH]; cbn [first_nondenied]; [reflexivity|].
  subst v. cbn. exact IH.
Qed.

(** granted => some member granted (and all members before it denied) *)
Theorem any_granted_some_member ms n :
  allowed (sem (Any ms) n) = true ->
  exists pre m post, ms = pre ++ m :: post /\ allowed (sem m n) = true
                     /\ Forall (fun m' => sem m' n = 7) pre.
Proof.
  cbn [Auth.sem]. intros H. apply first_nondenied_allowed in H.
  destruct H as (pre & v & post & Heq & Hv & Hpre).
  apply map_eq_app in Heq. destruct Heq as (mpre & mrest & -> & Hp & Hr).
  destruct mrest as [|m mpost]; [discriminate|]. cbn [map] in Hr. inversion Hr; subst.
  exists mpre, m, mpost. repeat split; try assumption.
  clear - Hpre. induction mpre as [|a l IH]; [constructor|].
  cbn [map] in Hpre. inversion Hpre; subst. constructor; auto.
Qed.

(** some member grants and every member before it denies => granted *)
Theorem any_member_grants pre m post n :
  allowed (sem m n) = true -> Forall (fun m' => sem m' n = 7) pre ->
  sem (Any (pre ++ m :: post)) n = sem m n.
Proof.
  intros Hm Hpre. cbn [Auth.sem]. rewrite map_app. cbn [map].
  apply first_nondenied_prefix.
  - clear - Hpre. induction Hpre; cbn [map]; constructor; auto.
  - unfold allowed, denied in *. apply Z.eqb_eq in Hm. rewrite Hm. reflexivity.
Qed.

(** a non-denial failure of a consulted member is what is reported *)
Theorem any_failure_reported pre m post n :
  denied (sem m n) = false -> Forall (fun m' => sem m' n = 7) pre ->
  sem (Any (pre ++ m :: post)) n = sem m n.
Proof.
  intros Hm Hpre. cbn [Auth.sem]. rewrite map_app. cbn [map].
  apply first_nondenied_prefix; [|exact Hm].
  clear - Hpre. induction Hpre; cbn [map]; constructor; auto.
Qed.

(** some member grants and no member fails => granted *)
Theorem any_grants_if_no_failure ms n :
  (exists m, In m ms /\ allowed (sem m n) = true) ->
  (forall m, In m ms -> sem m n = 0 \/ sem m n = 7) ->
  sem (Any ms) n = 0.
Proof.
  intros (m & Hin & Hm) Hall. cbn [Auth.sem].
  induction ms as [|a ms IH]; [contradiction|].
  cbn [map first_nondenied].
  destruct (Hall a (or_introl eq_refl)) as [H0|H7].
  - rewrite H0. reflexivity.
  - rewrite H7. cbn. apply IH.
    + destruct Hin as [->|Hin]; [|exact Hin].
      unfold allowed in Hm. apply Z.eqb_eq in Hm. congruence.
    + intros m' Hm'. apply Hall. right; exact Hm'.
Qed.

Theorem any_all_deny ms n :
  (forall m, In m ms -> sem m n = 7) -> sem (Any ms) n = 7.
Proof.
  intros H. cbn [Auth.sem]. apply first_nondenied_all_denied.
  induction ms as [|a ms IH]; cbn [map]; constructor.
  - apply H; left; reflexivity.
  - apply IH. intros m Hm. apply H; right; exact Hm.
Qed.

(** The decorator. *)
Lemma first_nonallowed_none vs :
  first_nonallowed vs = None -> Forall (fun v => v = 0) vs.
Proof.
  induction vs as [|v vs IH]; cbn [first_nonallowed]; intros H; [constructor|].
  destruct (allowed v) eqn:Ha; [|discriminate].
  constructor; [apply Z.eqb_eq; exact Ha | apply IH; exact H].
Qed.

Lemma first_nonallowed_some vs v :
  first_nonallowed vs = Some v -> In v vs /\ allowed v = false.
Proof.
  induction vs as [|w vs IH]; cbn [first_nonallowed]; intros H; [discriminate|].
  destruct (allowed w) eqn:Ha.
  - destruct (IH H). split; [right|]; assumption.
  - inversion H; subst. split; [left; reflexivity | exact Ha].
Qed.

Theorem backend_only_if_all_allowed get put fm o :
  forwarded (authorizing get put fm o) = true ->
  forall n, In n (names_of o) -> sem (tree_of get put fm o) n = 0.
Proof.
  destruct o as [n|p c|n|ns]; cbn [Auth.authorizing names_of tree_of].
  - pose proof (authorize_spec get [n]) as Hs.
    destruct (authorize get [n]) as [vs lg]. cbn [fst] in Hs. subst vs.
    cbn. intros H m [<-|[]]. apply Z.eqb_eq. exact H.
  - pose proof (authorize_spec get [p]) as Hs.
    destruct (authorize get [p]) as [vs lg]. cbn [fst] in Hs. subst vs.
    cbn. intros H m [<-|[]]. apply Z.eqb_eq. exact H.
  - pose proof (authorize_spec put [n]) as Hs.
    destruct (authorize put [n]) as [vs lg]. cbn [fst] in Hs. subst vs.
    cbn. intros H m [<-|[]]. apply Z.eqb_eq. exact H.
  - pose proof (authorize_spec fm (dedup_sort ns)) as Hs.
    destruct (authorize fm (dedup_sort ns)) as [vs lg]. cbn [fst] in Hs. subst vs.
    destruct (first_nonallowed _) as [v|] eqn:Hf; cbn [forwarded]; [discriminate|].
    intros _ n Hin. apply first_nonallowed_none in Hf.
    rewrite Forall_forall in Hf. apply Hf. apply in_map. apply dedup_sort_in. exact Hin.
Qed.

(** When the backend is not contacted, the caller receives the verdict of
    one of the names involved, and that verdict is not a grant. *)
Theorem rejected_gets_authorizer_error get put fm o :
  forwarded (authorizing get put fm o) = false ->
  exists n, In n (names_of o) /\ code (authorizing get put fm o) = sem (tree_of get put fm o) n
            /\ allowed (sem (tree_of get put fm o) n) = false.
Proof.
  destruct o as [n|p c|n|ns]; cbn [Auth.authorizing names_of tree_of].
  - pose proof (authorize_spec get [n]) as Hs.
    destruct (authorize get [n]) as [vs lg]. cbn [fst] in Hs. subst vs.
    cbn. intros H. exists n. auto.
  - pose proof (authorize_spec get [p]) as Hs.
    destruct (authorize get [p]) as [vs lg]. cbn [fst] in Hs. subst vs.
    cbn. intros H. exists p. auto.
  - pose proof (authorize_spec put [n]) as Hs.
    destruct (authorize put [n]) as [vs lg]. cbn [fst] in Hs. subst vs.
    cbn. intros H. exists n. auto.
  - pose proof (authorize_spec fm (dedup_sort ns)) as Hs.
    destruct (authorize fm (dedup_sort ns)) as [vs lg]. cbn [fst] in Hs. subst vs.
    destruct (first_nonallowed _) as [v|] eqn:Hf; cbn [forwarded code]; [|discriminate].
    intros _. apply first_nonallowed_some in Hf. destruct Hf as [Hin Hna].
    apply in_map_iff in Hin. destruct Hin as (n & <- & Hin).
    exists n. split; [apply dedup_sort_in; exact Hin | auto].
Qed.

Theorem put_buffer_exactly_once get put fm n :
  let r := authorizing get put fm (OPut n) in
  (forwarded r = true -> buf r = BufPassedOn) /\
  (forwarded r = false -> buf r = BufDiscarded).
Proof.
  cbn [Auth.authorizing]. destruct (authorize put [n]) as [vs lg]. cbn.
  destruct (allowed (hd 7 vs)); split; intros H; try reflexivity; discriminate.
Qed.

(** Trees of prefix leaves only: the verdict is a grant iff the union of the
    allowed prefixes covers the name, else a denial (never another failure). *)
Theorem static_sem t :
  static_only t = true -> forall n, sem t n = prefix_sem (all_prefixes t) (nm n).
Proof.
  induction t as [id tbl|ps|ms HF] using atree_ind'; intros Hst n.
  - discriminate.
  - reflexivity.
  - cbn [Auth.sem all_prefixes static_only] in *.
    induction ms as [|a ms IH]; [reflexivity|].
    inversion HF as [|a' ms' Ha Hms]; subst.
    cbn [forallb] in Hst. apply andb_true_iff in Hst. destruct Hst as [Hsa Hsm].
    cbn [map first_nondenied flat_map]. rewrite (Ha Hsa n), (IH Hms Hsm).
    unfold prefix_sem, covered. rewrite existsb_app.
    destruct (existsb (fun p => is_prefix p (nm n)) (all_prefixes a)); reflexivity.
Qed.

Theorem static_backend_iff_covered get put fm o :
  static_only (tree_of get put fm o) = true ->
  forwarded (authorizing get put fm o) =
  forallb (fun n => covered (all_prefixes (tree_of get put fm o)) (nm n)) (names_of o).
Proof.
  intros Hst. apply eq_iff_eq_true. rewrite forallb_forall. split.
  - intros Hf n Hn. pose proof (backend_only_if_all_allowed get put fm o Hf n Hn) as H.
    rewrite (static_sem _ Hst) in H. unfold prefix_sem in H.
    destruct (covered _ _); [reflexivity|discriminate].
  - intros Hall. destruct (forwarded (authorizing get put fm o)) eqn:Hf; [reflexivity|].
    destruct (rejected_gets_authorizer_error get put fm o Hf) as (n & Hn & _ & Hna).
    rewrite (static_sem _ Hst) in Hna. unfold prefix_sem in Hna.
    rewrite (Hall n Hn) in Hna. discriminate.
Qed.

Theorem static_rejection_is_permission_denied get put fm o :
  static_only (tree_of get put fm o) = true ->
  forwarded (authorizing get put fm o) = false ->
  code (authorizing get put fm o) = 7.
Proof.
  intros Hst Hf.
  destruct (rejected_gets_authorizer_error get put fm o Hf) as (n & Hn & Hc & Hna).
  rewrite Hc. rewrite (static_sem _ Hst) in *. unfold prefix_sem in *.
  destruct (covered _ _); [discriminate|reflexivity].
Qed.

End WithNames.
