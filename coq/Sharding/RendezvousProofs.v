(** GetShard is an argmax over the *set* of (key hash, weight) pairs; the
    routing consequences (order independence, minimal disruption). *)
From Coq Require Import List Arith NArith Lia Permutation Sorted.
From BBS Require Import Common.ListX Generated.Consts Sharding.Rendezvous Sharding.RendezvousArith.
Import ListNotations.
Open Scope N_scope.

Definition proj (s : shard) : N * N := (s_hash s, s_weight s).

Section Argmax.
  Variable scp : N * N -> N.
  Definition sc (s : shard) : N := scp (proj s).

  Definition betterP (p q : N * N) : Prop :=
    scp q < scp p \/ (scp q = scp p /\ fst p <= fst q).
  Definition is_bestP (l : list (N * N)) (p : N * N) : Prop :=
    In p l /\ forall q, In q l -> betterP p q.

  (** element-returning version of the loop *)
  Definition score_of (c : option shard) : N := match c with None => 0 | Some s => sc s end.
  Definition idx_of (c : option shard) : nat := match c with None => 0%nat | Some s => s_index s end.
  Fixpoint get_elem (l : list shard) (cur : option shard) : option shard :=
    match l with
    | [] => cur
    | s :: t => if score_of cur <? sc s then get_elem t (Some s) else get_elem t cur
    end.

  Lemma get_loop_elem l cur :
    get_loop sc l (score_of cur) (idx_of cur) = idx_of (get_elem l cur).
  Proof.
    revert cur. induction l as [|s t IH]; intros cur; cbn [get_loop get_elem]; [reflexivity|].
    destruct (score_of cur <? sc s).
    - apply (IH (Some s)).
    - apply IH.
  Qed.

  Definition hash_lt (a b : shard) : Prop := s_hash a < s_hash b.

  Lemma get_elem_spec l :
    StronglySorted hash_lt l ->
    (forall s, In s l -> 0 < sc s) ->
    forall cur,
      (forall c, cur = Some c -> forall s, In s l -> s_hash c < s_hash s) ->
      match get_elem l cur with
      | Some r => (cur = Some r \/ In r l)
                  /\ (forall c, cur = Some c -> betterP (proj r) (proj c))
                  /\ (forall s, In s l -> betterP (proj r) (proj s))
      | None => cur = None /\ l = []
      end.
  Proof.
    induction l as [|s t IH]; intros Hs Hpos cur Hcur; cbn [get_elem].
    - destruct cur as [c|]; [|split; reflexivity].
      split; [left; reflexivity|]. split.
      + intros c' Hc'. inversion Hc'; subst. right. split; [reflexivity|]. cbn. lia.
      + intros s [].
    - inversion Hs as [|s' t' Hst Hall]; subst.
      rewrite Forall_forall in Hall.
      assert (Hpos_t : forall x, In x t -> 0 < sc x) by (intros x Hx; apply Hpos; right; exact Hx).
      destruct (score_of cur <? sc s) eqn:Hlt.
      + apply N.ltb_lt in Hlt.
        specialize (IH Hst Hpos_t (Some s)).
        assert (Hc : forall c, Some s = Some c -> forall x, In x t -> s_hash c < s_hash x).
        { intros c Hc x Hx. inversion Hc; subst. apply Hall. exact Hx. }
        specialize (IH Hc).
        destruct (get_elem t (Some s)) as [r|]; [|destruct IH as [IH _]; discriminate].
        destruct IH as (Hin & Hb1 & Hb2).
        assert (Hrs : betterP (proj r) (proj s)) by (apply Hb1; reflexivity).
        split; [|split].
        * right. destruct Hin as [Hin|Hin]; [inversion Hin; left; reflexivity|right; exact Hin].
        * intros c Hcc. subst cur. cbn [score_of] in Hlt. unfold sc in Hlt.
          unfold betterP in *. left. lia.
        * intros x [<-|Hx]; [exact Hrs|apply Hb2; exact Hx].
      + apply N.ltb_ge in Hlt.
        destruct cur as [c|].
        2:{ cbn [score_of] in Hlt. specialize (Hpos s (or_introl eq_refl)). lia. }
        specialize (IH Hst Hpos_t (Some c)).
        assert (Hc : forall c0, Some c = Some c0 -> forall x, In x t -> s_hash c0 < s_hash x).
        { intros c0 Hc0 x Hx. inversion Hc0; subst. apply (Hcur c0 eq_refl). right; exact Hx. }
        specialize (IH Hc).
        destruct (get_elem t (Some c)) as [r|]; [|destruct IH as [IH _]; discriminate].
        destruct IH as (Hin & Hb1 & Hb2).
        assert (Hrc : betterP (proj r) (proj c)) by (apply Hb1; reflexivity).
        assert (Hcs : s_hash c < s_hash s) by (apply (Hcur c eq_refl); left; reflexivity).
        split; [|split].
        * destruct Hin as [Hin|Hin]; [left; exact Hin|right; right; exact Hin].
        * intros c0 Hc0. inversion Hc0; subst. exact Hrc.
        * intros x [<-|Hx]; [|apply Hb2; exact Hx].
          cbn [score_of] in Hlt. unfold sc in Hlt. unfold betterP, proj in *. cbn [fst] in *. lia.
  Qed.

  (** insertion sort by hash *)
  Lemma insert_by_hash_in s x l : In x (insert_by_hash s l) <-> x = s \/ In x l.
  Proof.
    induction l as [|h t IH]; cbn [insert_by_hash]; [cbn; intuition|].
    destruct (s_hash s <? s_hash h); cbn; [intuition|]. rewrite IH. intuition.
  Qed.

  Lemma sort_by_hash_in x l : In x (sort_by_hash l) <-> In x l.
  Proof.
    induction l as [|h t IH]; cbn [sort_by_hash fold_right]; [reflexivity|].
    fold (sort_by_hash t). rewrite insert_by_hash_in, IH. cbn. intuition.
  Qed.

  Lemma insert_by_hash_sorted s l :
    StronglySorted hash_lt l -> (forall x, In x l -> s_hash x <> s_hash s) ->
    StronglySorted hash_lt (insert_by_hash s l).
  Proof.
    induction l as [|h t IH]; intros Hs Hne; cbn [insert_by_hash].
    - repeat constructor.
    - inversion Hs as [|h' t' Hst Hall]; subst.
      destruct (s_hash s <? s_hash h) eqn:Hlt.
      + apply N.ltb_lt in Hlt. constructor; [exact Hs|].
        constructor; [exact Hlt|]. rewrite Forall_forall in *. intros x Hx.
        unfold hash_lt in *. specialize (Hall x Hx). lia.
      + apply N.ltb_ge in Hlt. constructor.
        * apply IH; [exact Hst|]. intros x Hx. apply Hne. right; exact Hx.
        * rewrite Forall_forall in *. intros x Hx. rewrite insert_by_hash_in in Hx.
          destruct Hx as [->|Hx]; [|apply Hall; exact Hx].
          unfold hash_lt. specialize (Hne h (or_introl eq_refl)). lia.
  Qed.

  Lemma sort_by_hash_sorted l :
    NoDup (map s_hash l) -> StronglySorted hash_lt (sort_by_hash l).
  Proof.
    induction l as [|h t IH]; intros Hnd; cbn [sort_by_hash fold_right]; [constructor|].
    fold (sort_by_hash t). cbn [map] in Hnd. inversion Hnd as [|a b Hni Hnd']; subst.
    apply insert_by_hash_sorted; [apply IH; exact Hnd'|].
    intros x Hx Heq. rewrite sort_by_hash_in in Hx. apply Hni. rewrite <- Heq. apply in_map. exact Hx.
  Qed.

  Definition chosen (sel : list shard) : option shard := get_elem sel None.

  Lemma chosen_best l :
    l <> [] -> NoDup (map s_hash l) -> (forall s, In s l -> 0 < sc s) ->
    exists r, chosen (sort_by_hash l) = Some r /\ In r l /\ is_bestP (map proj l) (proj r).
  Proof.
    intros Hne Hnd Hpos.
    pose proof (get_elem_spec (sort_by_hash l) (sort_by_hash_sorted l Hnd)) as H.
    assert (Hpos' : forall s, In s (sort_by_hash l) -> 0 < sc s)
      by (intros s Hs; apply Hpos; apply sort_by_hash_in; exact Hs).
    specialize (H Hpos' None (fun c Hc => ltac:(discriminate))).
    unfold chosen. destruct (get_elem (sort_by_hash l) None) as [r|].
    - destruct H as (Hin & _ & Hb). destruct Hin as [Hin|Hin]; [discriminate|].
      rewrite sort_by_hash_in in Hin.
      exists r. split; [reflexivity|]. split; [exact Hin|]. split; [apply in_map; exact Hin|].
      intros q Hq. apply in_map_iff in Hq. destruct Hq as (s & <- & Hs).
      apply Hb. apply sort_by_hash_in. exact Hs.
    - destruct H as [_ H]. destruct l as [|a l']; [contradiction|].
      assert (Ha : In a (sort_by_hash (a :: l'))) by (apply sort_by_hash_in; left; reflexivity).
      rewrite H in Ha. destruct Ha.
  Qed.

  Lemma is_bestP_unique l p q :
    NoDup (map fst l) -> is_bestP l p -> is_bestP l q -> p = q.
  Proof.
    intros Hnd [Hp Hbp] [Hq Hbq].
    specialize (Hbp q Hq). specialize (Hbq p Hp). unfold betterP in *.
    assert (Hf : fst p = fst q) by lia.
    clear - Hnd Hp Hq Hf. induction l as [|a l IH]; [destruct Hp|].
    cbn [map] in Hnd. inversion Hnd as [|x y Hni Hnd']; subst.
    destruct Hp as [->|Hp]; destruct Hq as [->|Hq]; try reflexivity.
    - exfalso. apply Hni. rewrite Hf. apply in_map. exact Hq.
    - exfalso. apply Hni. rewrite <- Hf. apply in_map. exact Hp.
    - apply IH; assumption.
  Qed.
End Argmax.

(** ---- instantiation with the real score ---- *)
Definition scoreP (h : N) (p : N * N) : N := score (splitmix64 (N.lxor (fst p) h)) (snd p).

Definition valid (cfg : list (N * N)) : Prop :=
  cfg <> [] /\ NoDup (map fst cfg) /\ forall p, In p cfg -> fst p < 2 ^ 64 /\ 1 <= snd p.

Definition select (cfg : list (N * N)) (h : N) : option (N * N) :=
  match new_selector cfg with
  | Some sel => option_map proj (chosen (scoreP h) sel)
  | None => None
  end.

Definition index_from (k : nat) (l : list (N * N)) : list shard :=
  map (fun '(i, (h, w)) => {| s_hash := h; s_weight := w; s_index := i |})
      (combine (seq k (length l)) l).

Lemma index_from_proj k l : map proj (index_from k l) = l.
Proof.
  revert k. induction l as [|[h w] t IH]; intros k; [reflexivity|].
  unfold index_from in *. cbn [length seq combine map]. rewrite IH. reflexivity.
Qed.

Lemma index_from_nth k l s :
  In s (index_from k l) -> (k <= s_index s)%nat /\ nth_error l (s_index s - k) = Some (proj s).
Proof.
  revert k. induction l as [|[h w] t IH]; intros k Hin; [destruct Hin|].
  unfold index_from in *. cbn [length seq combine map] in Hin.
  destruct Hin as [<-|Hin].
  - cbn [s_index]. rewrite Nat.sub_diag. split; [lia|reflexivity].
  - destruct (IH (S k) Hin) as [Hle Hn]. split; [lia|].
    replace (s_index s - k)%nat with (S (s_index s - S k)) by lia. exact Hn.
Qed.

Lemma map_hash_proj l : map s_hash l = map fst (map proj l).
Proof. rewrite map_map. reflexivity. Qed.

Lemma has_dup_hash_false l : has_dup_hash l = false -> NoDup (map s_hash l).
Proof.
  induction l as [|s t IH]; cbn [has_dup_hash map]; intros H; [constructor|].
  apply Bool.orb_false_iff in H. destruct H as [H1 H2].
  constructor; [|apply IH; exact H2].
  intros Hin. apply in_map_iff in Hin. destruct Hin as (x & Hx & Hxin).
  assert (existsb (fun s' => s_hash s' =? s_hash s) t = true).
  { apply existsb_exists. exists x. split; [exact Hxin|]. apply N.eqb_eq. exact Hx. }
  congruence.
Qed.

Lemma has_dup_hash_nodup l : NoDup (map s_hash l) -> has_dup_hash l = false.
Proof.
  induction l as [|s t IH]; cbn [has_dup_hash map]; intros H; [reflexivity|].
  inversion H as [|a b Hni Hnd]; subst. rewrite (IH Hnd), Bool.orb_false_r.
  destruct (existsb _ t) eqn:He; [|reflexivity].
  apply existsb_exists in He. destruct He as (x & Hx & Heq). apply N.eqb_eq in Heq.
  exfalso. apply Hni. rewrite <- Heq. apply in_map. exact Hx.
Qed.

Lemma new_selector_valid cfg :
  valid cfg -> new_selector cfg = Some (sort_by_hash (index_from 0 cfg)).
Proof.
  intros (Hne & Hnd & _). unfold new_selector. destruct cfg as [|p t]; [contradiction|].
  fold (index_from 0 (p :: t)). change (index_shards (p :: t)) with (index_from 0 (p :: t)).
  rewrite has_dup_hash_nodup; [reflexivity|].
  rewrite map_hash_proj, index_from_proj. exact Hnd.
Qed.

Lemma scores_positive cfg h :
  valid cfg -> h < 2 ^ 64 -> forall s, In s (index_from 0 cfg) -> 0 < sc (scoreP h) s.
Proof.
  intros (_ & _ & Hv) Hh s Hs.
  assert (Hp : In (proj s) cfg) by (rewrite <- (index_from_proj 0 cfg); apply in_map; exact Hs).
  destruct (Hv _ Hp) as [H1 H2]. cbn [proj fst snd] in *.
  pose proof (shard_score_pos h s Hh H1 H2) as H. unfold shard_score in H.
  unfold sc, scoreP, proj. cbn [fst snd]. lia.
Qed.

Theorem select_best cfg h :
  valid cfg -> h < 2 ^ 64 ->
  exists p, select cfg h = Some p /\ is_bestP (scoreP h) cfg p.
Proof.
  intros Hv Hh. unfold select. rewrite (new_selector_valid cfg Hv).
  destruct Hv as (Hne & Hnd & Hw).
  assert (Hne' : index_from 0 cfg <> []).
  { intros H. apply Hne. rewrite <- (index_from_proj 0 cfg), H. reflexivity. }
  assert (Hnd' : NoDup (map s_hash (index_from 0 cfg))) by (rewrite map_hash_proj, index_from_proj; exact Hnd).
  destruct (chosen_best (scoreP h) (index_from 0 cfg) Hne' Hnd'
              (scores_positive cfg h (conj Hne (conj Hnd Hw)) Hh)) as (r & Hc & Hin & Hb).
  rewrite Hc. exists (proj r). split; [reflexivity|]. rewrite index_from_proj in Hb. exact Hb.
Qed.

Theorem get_shard_index cfg sel h :
  valid cfg -> h < 2 ^ 64 -> new_selector cfg = Some sel ->
  nth_error cfg (get_shard sel h) = select cfg h.
Proof.
  intros Hv Hh Hsel. unfold select. rewrite Hsel.
  rewrite (new_selector_valid cfg Hv) in Hsel. inversion Hsel; subst sel. clear Hsel.
  unfold get_shard.
  change (get_loop (shard_score h)) with (get_loop (sc (scoreP h))).
  change 0 with (score_of (scoreP h) None) at 1. change 0%nat with (idx_of None) at 1.
  rewrite get_loop_elem. fold (chosen (scoreP h) (sort_by_hash (index_from 0 cfg))).
  pose proof Hv as (Hne & Hnd & Hw).
  assert (Hne' : index_from 0 cfg <> []).
  { intros H. apply Hne. rewrite <- (index_from_proj 0 cfg), H. reflexivity. }
  assert (Hnd' : NoDup (map s_hash (index_from 0 cfg))) by (rewrite map_hash_proj, index_from_proj; exact Hnd).
  destruct (chosen_best (scoreP h) (index_from 0 cfg) Hne' Hnd' (scores_positive cfg h Hv Hh))
    as (r & Hc & Hin & Hb).
  unfold chosen in *.
  destruct (index_from_nth 0 cfg r Hin) as [_ Hn]. rewrite Nat.sub_0_r in Hn.
  transitivity (nth_error cfg (idx_of (Some r))).
  - f_equal. f_equal. exact Hc.
  - cbn [idx_of]. rewrite Hn. symmetry. change (Some (proj r)) with (option_map proj (Some r)).
    f_equal. exact Hc.
Qed.

Lemma valid_perm cfg1 cfg2 : Permutation cfg1 cfg2 -> valid cfg1 -> valid cfg2.
Proof.
  intros HP (Hne & Hnd & Hw). split; [|split].
  - intros ->. apply Permutation_sym, Permutation_nil in HP. contradiction.
  - eapply Permutation_NoDup; [apply Permutation_map; exact HP|exact Hnd].
  - intros p Hp. apply Hw. eapply Permutation_in; [apply Permutation_sym; exact HP|exact Hp].
Qed.

(** Order independence. *)
Theorem select_perm cfg1 cfg2 h :
  valid cfg1 -> h < 2 ^ 64 -> Permutation cfg1 cfg2 -> select cfg1 h = select cfg2 h.
Proof.
  intros Hv Hh HP.
  destruct (select_best cfg1 h Hv Hh) as (p & Hs1 & Hb1).
  destruct (select_best cfg2 h (valid_perm _ _ HP Hv) Hh) as (q & Hs2 & Hb2).
  rewrite Hs1, Hs2. f_equal.
  apply (is_bestP_unique (scoreP h) cfg2); [apply (valid_perm _ _ HP Hv)| |exact Hb2].
  destruct Hb1 as [Hin Hb]. split.
  - eapply Permutation_in; eassumption.
  - intros x Hx. apply Hb. eapply Permutation_in; [apply Permutation_sym; exact HP|exact Hx].
Qed.

Definition remove_key (k : N) (cfg : list (N * N)) : list (N * N) :=
  filter (fun q => negb (fst q =? k)) cfg.

Lemma NoDup_map_filter {T U} (f : T -> U) (g : T -> bool) l :
  NoDup (map f l) -> NoDup (map f (filter g l)).
Proof.
  induction l as [|a t IH]; cbn [map filter]; intros H; [constructor|].
  inversion H as [|x y Hni Hnd]; subst. destruct (g a); [|apply IH; exact Hnd].
  cbn [map]. constructor; [|apply IH; exact Hnd].
  intros Hin. apply Hni. apply in_map_iff in Hin. destruct Hin as (x & Hx & Hin).
  apply filter_In in Hin. rewrite <- Hx. apply in_map. apply Hin.
Qed.

(** Removing a shard re-routes only objects that were assigned to it. *)
Theorem select_remove cfg k h p :
  valid cfg -> h < 2 ^ 64 -> select cfg h = Some p -> fst p <> k ->
  select (remove_key k cfg) h = Some p.
Proof.
  intros Hv Hh Hs Hk.
  destruct (select_best cfg h Hv Hh) as (p' & Hs' & Hin & Hb). rewrite Hs in Hs'. inversion Hs'; subst p'.
  assert (Hinr : In p (remove_key k cfg)).
  { apply filter_In. split; [exact Hin|]. apply Bool.negb_true_iff. apply N.eqb_neq. exact Hk. }
  assert (Hv' : valid (remove_key k cfg)).
  { destruct Hv as (Hne & Hnd & Hw). split; [|split].
    - intros H. rewrite H in Hinr. destruct Hinr.
    - apply NoDup_map_filter. exact Hnd.
    - intros q Hq. apply Hw. apply filter_In in Hq. apply Hq. }
  destruct (select_best _ h Hv' Hh) as (q & Hsq & Hbq). rewrite Hsq. f_equal.
  apply (is_bestP_unique (scoreP h) (remove_key k cfg)); [apply Hv'|exact Hbq|].
  split; [exact Hinr|]. intros x Hx. apply Hb. apply filter_In in Hx. apply Hx.
Qed.

(** Adding a shard re-routes objects only to the new shard. *)
Theorem select_add cfg p h :
  valid cfg -> valid (p :: cfg) -> h < 2 ^ 64 ->
  select (p :: cfg) h = Some p \/ select (p :: cfg) h = select cfg h.
Proof.
  intros Hv Hv' Hh.
  destruct (select_best (p :: cfg) h Hv' Hh) as (q & Hsq & Hinq & Hbq).
  destruct (select_best cfg h Hv Hh) as (r & Hsr & Hbr).
  rewrite Hsq, Hsr. destruct Hinq as [<-|Hinq]; [left; reflexivity|right]. f_equal.
  apply (is_bestP_unique (scoreP h) cfg); [apply Hv| |exact Hbr].
  split; [exact Hinq|]. intros x Hx. apply Hbq. right. exact Hx.
Qed.

(** ---- FindMissing through the sharding composite ---- *)
Lemma combine_seq_in {T} (k : nat) (l : list T) i x :
  In (i, x) (combine (seq k (length l)) l) <-> (k <= i)%nat /\ nth_error l (i - k) = Some x.
Proof.
  revert k. induction l as [|a t IH]; intros k; cbn [length seq combine].
  - split; [intros []|]. intros [_ H]. destruct (i - k)%nat; discriminate.
  - cbn [In]. rewrite IH. split.
    + intros [H|[Hle Hn]].
      * inversion H; subst. rewrite Nat.sub_diag. split; [lia|reflexivity].
      * split; [lia|]. replace (i - k)%nat with (S (i - S k)) by lia. exact Hn.
    + intros [Hle Hn]. destruct (Nat.eq_dec i k) as [->|Hne].
      * left. rewrite Nat.sub_diag in Hn. inversion Hn. reflexivity.
      * right. split; [lia|]. replace (i - k)%nat with (S (i - S k)) in Hn by lia. exact Hn.
Qed.

Lemma nth_error_seq k n i : (i < n)%nat -> nth_error (seq k n) i = Some (k + i)%nat.
Proof.
  revert k i. induction n as [|n IH]; intros k i Hi; [lia|].
  destruct i as [|i]; cbn [seq nth_error]; [f_equal; lia|].
  rewrite IH by lia. f_equal. lia.
Qed.

Lemma fm_asked_spec sel nb oracle ds i p :
  In (i, p) (fst (find_missing sel nb oracle ds)) <->
  (i < nb)%nat /\ p = dedup_sort (map snd (filter (fun d => Nat.eqb (route sel d) i) ds)) /\ p <> [].
Proof.
  unfold find_missing. cbn [fst]. rewrite filter_In.
  assert (Hlen : length (fm_parts sel nb ds) = nb) by (unfold fm_parts; rewrite map_length, seq_length; reflexivity).
  rewrite <- Hlen at 1. rewrite combine_seq_in. rewrite Nat.sub_0_r.
  unfold fm_parts at 1. rewrite nth_error_map.
  split.
  - intros [[_ Hn] Hne]. destruct (nth_error (seq 0 nb) i) as [j|] eqn:Hj; [|discriminate].
    assert (Hi : (i < nb)%nat).
    { assert (nth_error (seq 0 nb) i <> None) by congruence.
      apply nth_error_Some in H. rewrite seq_length in H. exact H. }
    rewrite nth_error_seq in Hj by exact Hi. inversion Hj; subst j. cbn [option_map] in Hn.
    inversion Hn; subst p. split; [exact Hi|]. split; [reflexivity|].
    intros Hnil. rewrite Hnil in Hne. discriminate.
  - intros (Hi & -> & Hne). split.
    + split; [lia|]. rewrite nth_error_seq by exact Hi. reflexivity.
    + destruct (dedup_sort _); [contradiction|reflexivity].
Qed.

(** Each backend is asked only about digests routed to it, and every digest
    of the request is put to the backend it is routed to. *)
Theorem fm_asks_own_only sel nb oracle ds i p x :
  In (i, p) (fst (find_missing sel nb oracle ds)) -> In x p ->
  exists d, In d ds /\ snd d = x /\ route sel d = i.
Proof.
  intros Hin Hx. apply fm_asked_spec in Hin. destruct Hin as (_ & -> & _).
  rewrite dedup_sort_in in Hx. apply in_map_iff in Hx. destruct Hx as (d & Hd & Hf).
  apply filter_In in Hf. destruct Hf as [Hin He]. apply Nat.eqb_eq in He.
  exists d. auto.
Qed.

Theorem fm_every_digest_asked sel nb oracle ds d :
  In d ds -> (route sel d < nb)%nat ->
  exists p, In (route sel d, p) (fst (find_missing sel nb oracle ds)) /\ In (snd d) p.
Proof.
  intros Hd Hr.
  set (p := dedup_sort (map snd (filter (fun d0 => Nat.eqb (route sel d0) (route sel d)) ds))).
  assert (Hx : In (snd d) p).
  { apply dedup_sort_in. apply in_map. apply filter_In. split; [exact Hd|apply Nat.eqb_refl]. }
  exists p. split; [|exact Hx]. apply fm_asked_spec. split; [exact Hr|]. split; [reflexivity|].
  intros Hnil. rewrite Hnil in Hx. destruct Hx.
Qed.

(** The result is exactly the union of the answers; any failing backend
    makes the whole call fail. *)
Theorem fm_union sel nb oracle ds res :
  snd (find_missing sel nb oracle ds) = Some res ->
  strictly_sorted res /\
  forall x, In x res <->
            exists i p m, In (i, p) (fst (find_missing sel nb oracle ds))
                          /\ oracle i p = Some m /\ In x m.
Proof.
  unfold find_missing. cbn [fst snd].
  set (asked := filter _ _).
  destruct (forallb _ _) eqn:Hall; [|discriminate].
  intros H. inversion H; subst res. clear H. split; [apply dedup_sort_sorted|].
  intros x. rewrite dedup_sort_in, in_concat. split.
  - intros (l & Hl & Hx). apply in_map_iff in Hl. destruct Hl as (a & Ha & Hin).
    apply in_map_iff in Hin. destruct Hin as ([i p] & Ho & Hip).
    destruct a as [m|]; [|subst l; destruct Hx]. subst l.
    exists i, p, m. auto.
  - intros (i & p & m & Hip & Ho & Hx). exists m. split; [|exact Hx].
    apply in_map_iff. exists (Some m). split; [reflexivity|].
    apply in_map_iff. exists (i, p). split; [exact Ho|exact Hip].
Qed.

Theorem fm_failure_surfaces sel nb oracle ds i p :
  In (i, p) (fst (find_missing sel nb oracle ds)) -> oracle i p = None ->
  snd (find_missing sel nb oracle ds) = None.
Proof.
  unfold find_missing. cbn [fst snd]. set (asked := filter _ _). intros Hin Ho.
  destruct (forallb _ _) eqn:Hall; [|reflexivity].
  rewrite forallb_forall in Hall.
  assert (H : In None (map (fun '(i, p) => oracle i p) asked)).
  { apply in_map_iff. exists (i, p). split; [exact Ho|exact Hin]. }
  specialize (Hall None H). discriminate.
Qed.

(** Independence of irrelevant alternatives: the general statement behind
    permutation, removal and addition (used as the run-time monitor). *)
Theorem select_iia cfgS cfgT h p q :
  valid cfgS -> valid cfgT -> h < 2 ^ 64 ->
  select cfgS h = Some p -> select cfgT h = Some q -> In p cfgT -> In q cfgS -> p = q.
Proof.
  intros HvS HvT Hh Hp Hq HpT HqS.
  destruct (select_best cfgS h HvS Hh) as (p' & Hp' & HinP & HbP). rewrite Hp in Hp'. inversion Hp'; subst p'.
  destruct (select_best cfgT h HvT Hh) as (q' & Hq' & HinQ & HbQ). rewrite Hq in Hq'. inversion Hq'; subst q'.
  specialize (HbP q HqS). specialize (HbQ p HpT). unfold betterP in *.
  assert (Hf : fst p = fst q) by lia.
  destruct HvS as (_ & Hnd & _). clear - Hnd HinP HqS Hf.
  induction cfgS as [|a l IH]; [destruct HinP|].
  cbn [map] in Hnd. inversion Hnd as [|x y Hni Hnd']; subst.
  destruct HinP as [->|HinP]; destruct HqS as [->|HqS]; try reflexivity.
  - exfalso. apply Hni. rewrite Hf. apply in_map. exact HqS.
  - exfalso. apply Hni. rewrite <- Hf. apply in_map. exact HinP.
  - apply IH; assumption.
Qed.
