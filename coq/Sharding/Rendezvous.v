(** Model of pkg/blobstore/sharding/rendezvous_shard_selector.go (64-bit
    exact; wrap-around written explicitly) and sharding_blob_access.go.
    Constants come from Generated/Consts.v (regenerated from the source). *)
From Coq Require Import List NArith Lia.
From BBS Require Import Common.ListX Generated.Consts.
Import ListNotations.
Open Scope N_scope.

Definition w64 : N := 2 ^ 64.
Definition wrap (x : N) : N := x mod w64.
Definition shl (x n : N) : N := wrap (N.shiftl x n).     (* Go: shifts >= 64 give 0 *)
Definition shr (x n : N) : N := N.shiftr x n.

Definition splitmix64 (x : N) : N :=
  let x := N.lxor x (shr x sm_shift1) in
  let x := wrap (x * sm_mul1) in
  let x := N.lxor x (shr x sm_shift2) in
  let x := wrap (x * sm_mul2) in
  N.lxor x (shr x sm_shift3).

Definition lut_at (i : N) : N := nth (N.to_nat i) lut 0.

(** bits.Len64 = N.size (number of binary digits; 0 for 0). *)
Definition log2_fixed (x : N) : N :=
  let msb := N.size (shr x 1) in
  let bitfield := shl x (64 - msb) in
  let index := shr bitfield (64 - lut_entry_bits) in
  let interp := shr (shl bitfield lut_entry_bits) 16 in
  let base := lut_at index in
  let next := lut_at (index + 1) in
  let delta := (next + 2 ^ 16 - base) mod 2 ^ 16 in           (* uint16 subtraction *)
  let frac := wrap (N.shiftl base 48 + delta * interp) in
  N.lor (N.shiftl msb 16) (shr frac 48).

Definition score (x weight : N) : N :=
  let log_fixed := N.shiftl score_int_bits score_frac_bits - log2_fixed x in
  let weight_fixed := N.shiftl weight score_weight_shift in
  weight_fixed / log_fixed.

Record shard := { s_hash : N; s_weight : N; s_index : nat }.

Fixpoint insert_by_hash (s : shard) (l : list shard) : list shard :=
  match l with
  | [] => [s]
  | h :: t => if s_hash s <? s_hash h then s :: l else h :: insert_by_hash s t
  end.
Definition sort_by_hash (l : list shard) : list shard := fold_right insert_by_hash [] l.

Fixpoint has_dup_hash (l : list shard) : bool :=
  match l with
  | [] => false
  | s :: t => existsb (fun s' => s_hash s' =? s_hash s) t || has_dup_hash t
  end.

(** NewRendezvousShardSelector on (keyhash, weight) pairs in configuration
    order; [None] = constructor error (no shards / colliding key hashes). *)
Definition index_shards (l : list (N * N)) : list shard :=
  map (fun '(i, (h, w)) => {| s_hash := h; s_weight := w; s_index := i |})
      (combine (seq 0 (length l)) l).

Definition new_selector (l : list (N * N)) : option (list shard) :=
  match l with
  | [] => None
  | _ => let ss := index_shards l in
         if has_dup_hash ss then None else Some (sort_by_hash ss)
  end.

(** GetShard: [best := 0; bestIndex := 0; if current > best ...] over the
    sorted shards; generic in the score function for the proofs. *)
Section Get.
  Variable sc : shard -> N.
  Fixpoint get_loop (l : list shard) (best : N) (bi : nat) : nat :=
    match l with
    | [] => bi
    | s :: t => if best <? sc s then get_loop t (sc s) (s_index s) else get_loop t best bi
    end.
End Get.

Definition shard_score (h : N) (s : shard) : N := score (splitmix64 (N.lxor (s_hash s) h)) (s_weight s).
Definition get_shard (sel : list shard) (h : N) : nat := get_loop (shard_score h) sel 0 0%nat.

(** ---- shardingBlobAccess ---- *)
(* a digest is (first 8 hash bytes as big-endian number, identity) *)
Definition dg := (N * nat)%type.
Definition route (sel : list shard) (d : dg) : nat := get_shard sel (fst d).

(* backend answer to FindMissing: Some missing-subset | None = failure *)
Definition fm_answer := option (list nat).

Definition fm_parts (sel : list shard) (nb : nat) (ds : list dg) : list (list nat) :=
  map (fun i => dedup_sort (map snd (filter (fun d => Nat.eqb (route sel d) i) ds))) (seq 0 nb).

(** [oracle i part] = what backend i answers when asked about [part]. *)
Definition find_missing (sel : list shard) (nb : nat) (oracle : nat -> list nat -> fm_answer)
           (ds : list dg) : list (nat * list nat) * option (list nat) :=
  let parts := fm_parts sel nb ds in
  let asked := filter (fun '(i, p) => negb (match p with [] => true | _ => false end))
                      (combine (seq 0 nb) parts) in
  let answers := map (fun '(i, p) => oracle i p) asked in
  (asked,
   if forallb (fun a => match a with Some _ => true | None => false end) answers
   then Some (dedup_sort (concat (map (fun a => match a with Some m => m | None => [] end) answers)))
   else None).
