(** Arithmetic facts: Log2Fixed stays below 64<<16, scores are positive. *)
From Coq Require Import List NArith Lia.
From BBS Require Import Common.ListX Generated.Consts Sharding.Rendezvous.
Import ListNotations.
Open Scope N_scope.

Lemma wrap_lt x : wrap x < 2 ^ 64.
Proof. unfold wrap, w64. apply N.mod_lt. discriminate. Qed.

Lemma lt_pow2_log2 a n : 0 < n -> a < 2 ^ n -> a = 0 \/ N.log2 a < n.
Proof.
  intros Hn Ha. destruct (N.eq_dec a 0) as [->|Hz]; [left; reflexivity|right].
  apply N.log2_lt_pow2; lia.
Qed.

Lemma lor_lt_pow2 a b n : 0 < n -> a < 2 ^ n -> b < 2 ^ n -> N.lor a b < 2 ^ n.
Proof.
  intros Hn Ha Hb.
  destruct (N.eq_dec (N.lor a b) 0) as [->|Hz]; [apply N.neq_0_lt_0; apply N.pow_nonzero; discriminate|].
  apply N.log2_lt_pow2; [lia|]. rewrite N.log2_lor.
  destruct (lt_pow2_log2 a n Hn Ha) as [->|H1]; destruct (lt_pow2_log2 b n Hn Hb) as [->|H2];
    cbn [N.log2]; lia.
Qed.

Lemma lxor_lt_pow2 a b n : 0 < n -> a < 2 ^ n -> b < 2 ^ n -> N.lxor a b < 2 ^ n.
Proof.
  intros Hn Ha Hb.
  destruct (N.eq_dec (N.lxor a b) 0) as [->|Hz]; [apply N.neq_0_lt_0; apply N.pow_nonzero; discriminate|].
  apply N.log2_lt_pow2; [lia|].
  pose proof (N.log2_lxor a b) as Hl.
  destruct (lt_pow2_log2 a n Hn Ha) as [->|H1]; destruct (lt_pow2_log2 b n Hn Hb) as [->|H2];
    cbn [N.log2] in *; lia.
Qed.

Lemma shr_le x n : shr x n <= x.
Proof.
  unfold shr. rewrite N.shiftr_div_pow2.
  apply N.div_le_upper_bound; [apply N.pow_nonzero; discriminate|].
  pose proof (N.pow_nonzero 2 n ltac:(discriminate)). nia.
Qed.

Lemma splitmix64_lt x : x < 2 ^ 64 -> splitmix64 x < 2 ^ 64.
Proof.
  intros Hx. unfold splitmix64.
  apply lxor_lt_pow2; [reflexivity| |].
  - apply wrap_lt.
  - eapply N.le_lt_trans; [apply shr_le|apply wrap_lt].
Qed.

Lemma size_shr1_le x : x < 2 ^ 64 -> N.size (shr x 1) <= 63.
Proof.
  intros Hx. unfold shr. rewrite N.shiftr_div_pow2. change (2 ^ 1) with 2.
  assert (Hh : x / 2 < 2 ^ 63).
  { apply N.div_lt_upper_bound; [discriminate|]. change (2 * 2 ^ 63) with (2 ^ 64). exact Hx. }
  destruct (N.eq_dec (x / 2) 0) as [->|Hz]; [cbn; lia|].
  rewrite N.size_log2 by exact Hz.
  assert (N.log2 (x / 2) < 63) by (apply N.log2_lt_pow2; [apply N.neq_0_lt_0; exact Hz|exact Hh]). lia.
Qed.

Theorem log2_fixed_lt x : x < 2 ^ 64 -> log2_fixed x < N.shiftl 64 16.
Proof.
  intros Hx. unfold log2_fixed. change (N.shiftl 64 16) with (2 ^ 22).
  apply lor_lt_pow2; [reflexivity| |].
  - rewrite N.shiftl_mul_pow2. pose proof (size_shr1_le x Hx). change (2 ^ 22) with (64 * 2 ^ 16). nia.
  - unfold shr. rewrite N.shiftr_div_pow2.
    apply N.lt_trans with (2 ^ 16); [|reflexivity].
    apply N.div_lt_upper_bound; [apply N.pow_nonzero; discriminate|].
    change (2 ^ 48 * 2 ^ 16) with (2 ^ 64). apply wrap_lt.
Qed.

Theorem score_pos x w : x < 2 ^ 64 -> 1 <= w -> 1 <= score x w.
Proof.
  intros Hx Hw. unfold score.
  pose proof (log2_fixed_lt x Hx) as Hl.
  change score_int_bits with 64. change score_frac_bits with 16. change score_weight_shift with 32.
  set (lf := log2_fixed x) in *. change (N.shiftl 64 16) with 4194304 in *.
  rewrite N.shiftl_mul_pow2.
  assert (0 < w * 2 ^ 32 / (4194304 - lf)); [|lia].
  apply N.div_str_pos. split; [lia|].
  change (2 ^ 32) with 4294967296. lia.
Qed.

Theorem shard_score_pos h s : h < 2 ^ 64 -> s_hash s < 2 ^ 64 -> 1 <= s_weight s -> 1 <= shard_score h s.
Proof.
  intros Hh Hs Hw. unfold shard_score. apply score_pos; [|exact Hw].
  apply splitmix64_lt. apply lxor_lt_pow2; [reflexivity|exact Hs|exact Hh].
Qed.
