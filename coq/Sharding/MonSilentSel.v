(** C12 — facts about the selector model needed to show that the run-time
    monitors are silent on the model:  scores are positive for EVERY hash and
    key hash (splitmix64 wraps, so no 64-bit bound is needed), the index
    returned by GetShard is in range, and the choice is the best pair of the
    configuration whenever all weights are non-zero. *)
From Coq Require Import List Arith NArith Lia Permutation Sorted.
From BBS Require Import Common.ListX Generated.Consts
     Sharding.Rendezvous Sharding.RendezvousArith Sharding.RendezvousProofs.
Import ListNotations.
Open Scope N_scope.

Lemma splitmix64_bounded x : splitmix64 x < 2 ^ 64.
Proof.
  unfold splitmix64.
  apply lxor_lt_pow2; [reflexivity| |].
  - apply wrap_lt.
  - eapply N.le_lt_trans; [apply shr_le|apply wrap_lt].
Qed.

Lemma shard_score_pos_any h s : 1 <= s_weight s -> 1 <= shard_score h s.
Proof. intros Hw. unfold shard_score. apply score_pos; [apply splitmix64_bounded|exact Hw]. Qed.

(** ---- the index returned is always in range ---- *)
Lemma get_loop_cases (sc : shard -> N) l best bi :
  get_loop sc l best bi = bi \/ exists s, In s l /\ get_loop sc l best bi = s_index s.
Proof.
  revert best bi. induction l as [|s t IH]; intros best bi; cbn [get_loop]; [left; reflexivity|].
  destruct (best <? sc s).
  - destruct (IH (sc s) (s_index s)) as [H|(x & Hx & H)].
    + right. exists s. split; [left; reflexivity|exact H].
    + right. exists x. split; [right; exact Hx|exact H].
  - destruct (IH best bi) as [H|(x & Hx & H)].
    + left. exact H.
    + right. exists x. split; [right; exact Hx|exact H].
Qed.

Lemma new_selector_some cfg sel :
  new_selector cfg = Some sel ->
  cfg <> [] /\ NoDup (map fst cfg) /\ sel = sort_by_hash (index_from 0 cfg).
Proof.
  unfold new_selector. destruct cfg as [|p t]; [discriminate|].
  change (index_shards (p :: t)) with (index_from 0 (p :: t)).
  destruct (has_dup_hash _) eqn:Hd; [discriminate|]. intros H. inversion H; subst sel.
  split; [discriminate|]. split; [|reflexivity].
  apply has_dup_hash_false in Hd. rewrite map_hash_proj, index_from_proj in Hd. exact Hd.
Qed.

Lemma get_shard_in_range cfg sel h :
  new_selector cfg = Some sel -> (get_shard sel h < length cfg)%nat.
Proof.
  intros Hs. destruct (new_selector_some cfg sel Hs) as (Hne & _ & ->).
  unfold get_shard.
  destruct (get_loop_cases (shard_score h) (sort_by_hash (index_from 0 cfg)) 0 0%nat) as [H|(s & Hin & H)];
    rewrite H.
  - destruct cfg; [contradiction|cbn; lia].
  - rewrite (sort_by_hash_in (scoreP h)) in Hin. destruct (index_from_nth 0 cfg s Hin) as [_ Hn].
    rewrite Nat.sub_0_r in Hn.
    assert (Hsome : nth_error cfg (s_index s) <> None) by congruence.
    exact (proj1 (nth_error_Some cfg (s_index s)) Hsome).
Qed.

(** ---- the choice, for non-zero weights and arbitrary hashes ---- *)
Definition weights_pos (cfg : list (N * N)) : Prop := forall p, In p cfg -> 1 <= snd p.

Lemma get_shard_best cfg sel h :
  new_selector cfg = Some sel -> weights_pos cfg ->
  exists p, nth_error cfg (get_shard sel h) = Some p /\ is_bestP (scoreP h) cfg p.
Proof.
  intros Hs Hw. destruct (new_selector_some cfg sel Hs) as (Hne & Hnd & ->).
  assert (Hne' : index_from 0 cfg <> []).
  { intros H. apply Hne. rewrite <- (index_from_proj 0 cfg), H. reflexivity. }
  assert (Hnd' : NoDup (map s_hash (index_from 0 cfg))) by (rewrite map_hash_proj, index_from_proj; exact Hnd).
  assert (Hpos : forall s, In s (index_from 0 cfg) -> 0 < sc (scoreP h) s).
  { intros s Hin.
    assert (Hp : In (proj s) cfg) by (rewrite <- (index_from_proj 0 cfg); apply in_map; exact Hin).
    pose proof (shard_score_pos_any h s (Hw _ Hp)) as H. unfold shard_score in H.
    unfold sc, scoreP, proj. cbn [fst snd]. lia. }
  destruct (chosen_best (scoreP h) (index_from 0 cfg) Hne' Hnd' Hpos) as (r & Hc & Hin & Hb).
  exists (proj r). rewrite index_from_proj in Hb. split; [|exact Hb].
  unfold get_shard.
  rewrite (get_loop_elem (scoreP h) (sort_by_hash (index_from 0 cfg)) None
            : get_loop (shard_score h) (sort_by_hash (index_from 0 cfg)) 0 0%nat = _). unfold chosen in Hc. rewrite Hc. cbn [idx_of].
  destruct (index_from_nth 0 cfg r Hin) as [_ Hn]. rewrite Nat.sub_0_r in Hn. exact Hn.
Qed.

(** two best pairs (possibly of different configurations), each a member of
    the other configuration, have the same key hash *)
Lemma best_cross_same_hash h cfgS cfgT p q :
  is_bestP (scoreP h) cfgS p -> is_bestP (scoreP h) cfgT q -> In p cfgT -> In q cfgS -> fst p = fst q.
Proof.
  intros [_ HbP] [_ HbQ] HpT HqS.
  specialize (HbP q HqS). specialize (HbQ p HpT). unfold betterP in *. lia.
Qed.

Lemma NoDup_map_inj {T U} (f : T -> U) l a b :
  NoDup (map f l) -> In a l -> In b l -> f a = f b -> a = b.
Proof.
  induction l as [|x l IH]; intros Hnd Ha Hb Hf; [destruct Ha|].
  cbn [map] in Hnd. inversion Hnd as [|y m Hni Hnd']; subst.
  destruct Ha as [->|Ha]; destruct Hb as [->|Hb]; try reflexivity.
  - exfalso. apply Hni. rewrite Hf. apply in_map. exact Hb.
  - exfalso. apply Hni. rewrite <- Hf. apply in_map. exact Ha.
  - apply IH; assumption.
Qed.

(** two strictly sorted lists with the same elements are equal *)
Lemma strictly_sorted_head_min x l : strictly_sorted (x :: l) -> forall y, In y l -> (x < y)%nat.
Proof.
  revert x. induction l as [|a l IH]; intros x Hs y Hy; [destruct Hy|].
  inversion Hs as [| |x' y' l' Hxy Hs']; subst.
  destruct Hy as [<-|Hy]; [exact Hxy|].
  specialize (IH a Hs' y Hy). lia.
Qed.

Lemma strictly_sorted_tail x l : strictly_sorted (x :: l) -> strictly_sorted l.
Proof. intros H. inversion H; subst; [constructor|assumption]. Qed.

Lemma strictly_sorted_ext l1 l2 :
  strictly_sorted l1 -> strictly_sorted l2 -> (forall x, In x l1 <-> In x l2) -> l1 = l2.
Proof.
  revert l2. induction l1 as [|a l1 IH]; intros l2 H1 H2 He.
  - destruct l2 as [|b l2]; [reflexivity|]. exfalso. apply (He b). left; reflexivity.
  - destruct l2 as [|b l2]; [exfalso; apply (He a); left; reflexivity|].
    pose proof (strictly_sorted_head_min a l1 H1) as Ha.
    pose proof (strictly_sorted_head_min b l2 H2) as Hb.
    assert (Hab : a = b).
    { destruct (proj1 (He a) (or_introl eq_refl)) as [Hx|Hx]; [symmetry; exact Hx|].
      destruct (proj2 (He b) (or_introl eq_refl)) as [Hy|Hy]; [exact Hy|].
      specialize (Ha b Hy). specialize (Hb a Hx). lia. }
    subst b. f_equal. apply IH; [eapply strictly_sorted_tail; eassumption|eapply strictly_sorted_tail; eassumption|].
    intros x. split; intros Hx.
    + destruct (proj1 (He x) (or_intror Hx)) as [Hy|Hy]; [|exact Hy].
      subst x. specialize (Ha a Hx). lia.
    + destruct (proj2 (He x) (or_intror Hx)) as [Hy|Hy]; [|exact Hy].
      subst x. specialize (Hb a Hx). lia.
Qed.

Lemma dedup_sort_ext l1 l2 : (forall x, In x l1 <-> In x l2) -> dedup_sort l1 = dedup_sort l2.
Proof.
  intros H. apply strictly_sorted_ext; try apply dedup_sort_sorted.
  intros x. rewrite !dedup_sort_in. apply H.
Qed.
