(** Persist/LiveBound.v — upload_commit_bound: the interval timer that precedes
    the data sync covering an upload acknowledged at virtual time t expires no
    later than max(t, lastSynchronizationTime) + minimumEpochInterval, under
    the hypothesis that the put loop's internal steps take no virtual time
    ([urgent]: the clock does not advance while the put loop has an enabled
    step that needs neither an I/O completion nor a timer).  Everything else
    that separates the acknowledgement from the start of the covering sync is
    I/O of the cycle in flight (DataSyncer / WritePersistentState calls, retry
    sleeps, storeLock held by the release loop) and timer latency. *)
From Coq Require Import List NArith ZArith Bool Arith Lia.
From BBS Require Import Persist.PBL Persist.PBLProofs Persist.Syncer Persist.SyncerProofs
  Persist.LiveActs Persist.LiveCover Persist.LiveRelease Persist.LiveFair Persist.LivePut.
Import ListNotations.

(** the clock does not advance while the put loop can take an internal step *)
Fixpoint urgent (cfg : config) (s : sys) (tr : list event) : bool :=
  match tr with
  | [] => true
  | e :: tr' =>
      match step cfg s e with
      | Some (Ok s') =>
          (match e with ETick _ => negb (p_internal cfg s) | _ => true end) && urgent cfg s' tr'
      | _ => true
      end
  end.

(** ---- in every reachable state an armed interval timer expires at most one
    interval after max(now, lastSynchronizationTime) ---- *)
Definition tb (cfg : config) (s : sys) : Prop :=
  forall dl, s_p s = PTimer dl -> (dl <= N.max (s_now s) (s_last s) + c_interval cfg)%N.

(** how a step changes pc / clock / lastSynchronizationTime of the put loop *)
Lemma step_timer_facts cfg s e s' : inv1 s -> step cfg s e = Some (Ok s') ->
  (s_now s <= s_now s')%N
  /\ ((forall d, e <> ETick d) -> s_now s' = s_now s)
  /\ ((forall a, e <> EStep TP a) -> s_p s' = s_p s /\ s_last s' = s_last s)
  /\ (forall a, e = EStep TP a ->
        match s_p s with
        | PSelect ch => s_last s' = s_last s /\
            s_p s' = (if is_closed (heap (s_pbl s)) ch then PTimer (s_last s + c_interval cfg) else PIdle ch)
        | PIdle _ => s_last s' = s_last s /\
            (s_p s' = PNotify false \/ s_p s' = PTimer (s_now s + c_interval cfg))
        | PTimer _ => s_p s' = PNotify true \/ (s_p s' = PNotify false /\ s_last s' = s_last s)
        | _ => s_last s' = s_last s /\ (forall dl, s_p s' <> PTimer dl) /\ (forall ch, s_p s' <> PIdle ch)
        end).
Proof.
  intros II H.
  assert (forall a, e = EStep TP a -> s_now s' = s_now s /\
        match s_p s with
        | PSelect ch => s_last s' = s_last s /\
            s_p s' = (if is_closed (heap (s_pbl s)) ch then PTimer (s_last s + c_interval cfg) else PIdle ch)
        | PIdle _ => s_last s' = s_last s /\
            (s_p s' = PNotify false \/ s_p s' = PTimer (s_now s + c_interval cfg))
        | PTimer _ => s_p s' = PNotify true \/ (s_p s' = PNotify false /\ s_last s' = s_last s)
        | _ => s_last s' = s_last s /\ (forall dl, s_p s' <> PTimer dl) /\ (forall ch, s_p s' <> PIdle ch)
        end) as HTP.
  { intros a ->. cbn [step] in H. unfold pstep in H.
    destruct (s_p s) as [|ch|ch|dl|keep|keep final|keep final|keep final dl|keep w|] eqn:Ep.
    - inversion H; subst. cbn. splits; auto; intros; discriminate.
    - destruct (is_closed _ _) eqn:Ec; inversion H; subst; cbn; splits; auto.
    - destruct (s_cancel s && _); [|destruct (is_closed _ _); [|discriminate]]; inversion H; subst; cbn; auto.
    - destruct (s_cancel s && _); [|destruct (_ && _)%bool; [|discriminate]]; inversion H; subst; cbn; auto.
    - inversion H; subst. cbn. splits; auto; intros; discriminate.
    - destruct (a_ok a); inversion H; subst; cbn; splits; auto; intros; discriminate.
    - destruct (negb keep && negb final); inversion H; subst; cbn; splits; auto; intros; discriminate.
    - destruct (_ <=? _)%N; [|discriminate]. inversion H; subst. cbn. splits; auto; intros; discriminate.
    - destruct (wstep cfg TP w a s) as [o|] eqn:Ew; [|discriminate].
      destruct (wstep_inv1 _ _ _ _ _ _ II Ew) as [s1 [w' [-> [_ [_ [_ [_ [Hn [Hl _]]]]]]]]].
      destruct w'; inversion H; subst; cbn; rewrite Hn, Hl; splits; auto; intros; try discriminate;
        destruct keep; discriminate.
    - discriminate. }
  destruct (tp_or_not e) as [[a ->]|Hne].
  - destruct (HTP a eq_refl) as [Hn Hrest]. split; [lia|]. split; [intros _; exact Hn|].
    split; [intros Hx; exfalso; eapply Hx; reflexivity|]. intros a' Ha'. inversion Ha'; subst a'. exact Hrest.
  - split; [|split; [|split; [|intros a Ha; exfalso; eapply Hne; exact Ha]]].
    + destruct e as [alloc| |index size|k blk seed|d| |t a].
      1-6: (match type of H with step _ _ ?e = _ =>
              assert (forall t a, e <> EStep t a) as Hne' by (intros t1 a0 H0; discriminate H0) end;
            apply (env_frame_t cfg s _ s' Hne' H)).
      destruct t; [|exfalso; eapply Hne; reflexivity]. cbn [step] in H.
      destruct (rstep_frame_t _ _ _ _ II H) as [_ [_ ->]]. lia.
    + intros Hnt. destruct e as [alloc| |index size|k blk seed|d| |t a]; cbn [step] in H.
      * inversion H; reflexivity.
      * destruct (blocks _); [discriminate|]. destruct (pop_front _); [|discriminate]. inversion H; reflexivity.
      * destruct (_ || _); [|discriminate]. destruct (put_start _ _); [|discriminate]. inversion H; reflexivity.
      * destruct (nth_error _ _) as [[[tok sz]|]|]; try discriminate.
        destruct (put_finalize _ _ _ _ _) as [[p' fr]|]; [|discriminate]. inversion H; reflexivity.
      * exfalso. eapply Hnt. reflexivity.
      * inversion H; reflexivity.
      * destruct t; [|exfalso; eapply Hne; reflexivity].
        destruct (rstep_frame_t _ _ _ _ II H) as [_ [_ ->]]. reflexivity.
    + intros _. split; [eapply p_frame; eauto|].
      destruct e as [alloc| |index size|k blk seed|d| |t a].
      1-6: (match type of H with step _ _ ?e = _ =>
              assert (forall t a, e <> EStep t a) as Hne' by (intros t1 a0 H0; discriminate H0) end;
            apply (env_frame_t cfg s _ s' Hne' H)).
      destruct t; [|exfalso; eapply Hne; reflexivity]. cbn [step] in H.
      apply (rstep_frame_t _ _ _ _ II H).
Qed.

Lemma step_tb cfg s e s' : inv1 s -> tb cfg s -> step cfg s e = Some (Ok s') -> tb cfg s'.
Proof.
  intros II B H dl Hd. destruct (step_timer_facts _ _ _ _ II H) as [Hmono [_ [Hother Htp]]].
  destruct (tp_or_not e) as [[a ->]|Hne].
  - specialize (Htp a eq_refl).
    destruct (s_p s) as [|ch|ch|dl0|keep|keep final|keep final|keep final dl0|keep w|] eqn:Ep;
      try (destruct Htp as [_ [Hx _]]; exfalso; eapply Hx; exact Hd).
    + destruct Htp as [Hl Hp]. rewrite Hp in Hd. destruct (is_closed _ _); [|discriminate].
      inversion Hd; subst. rewrite Hl. lia.
    + destruct Htp as [Hl [Hp|Hp]]; rewrite Hp in Hd; [discriminate|]. inversion Hd; subst. lia.
    + destruct Htp as [Hp|[Hp _]]; rewrite Hp in Hd; discriminate.
  - destruct (Hother Hne) as [Hp Hl]. rewrite Hp in Hd. specialize (B dl Hd). rewrite Hl. lia.
Qed.

Lemma reachable_tb cfg alloc oldest init t0 s : reachable cfg alloc oldest init t0 s -> tb cfg s.
Proof.
  intros [tr H].
  assert (forall trq s s', inv1 s -> tb cfg s -> run cfg s trq = Some (Ok s') -> tb cfg s') as Hrun.
  { induction trq as [|e trq IH]; intros sa sb II B Hr; cbn in Hr; [inversion Hr; subst; exact B|].
    destruct (step cfg sa e) as [[s1|]|] eqn:Es; try discriminate.
    destruct (step_inv1 _ _ _ _ II Es) as [s2 [E [II' _]]]. inversion E; subst s2.
    eapply IH; [exact II'| |exact Hr]. exact (step_tb _ _ _ _ II B Es). }
  eapply Hrun; [apply init_inv1| |exact H]. intros dl Hd. discriminate.
Qed.

(** ---- during Ph0, under urgency, while the object's block is not released ---- *)
Definition kb (cfg : config) (M L : N) (s : sys) : Prop :=
  (forall dl, s_p s = PTimer dl -> (dl <= M + c_interval cfg)%N)
  /\ (forall ch, s_p s = PIdle ch -> (s_now s <= M)%N)
  /\ (s_p s <> PNotify true -> s_last s = L).

Lemma step_kb cfg M L s e s' : ainv s -> (L <= M)%N -> kb cfg M L s ->
  synchronizedEpochs (s_pbl s) < length (epochSeeds (s_pbl s)) ->
  (forall d, e = ETick d -> p_internal cfg s = false) ->
  sync_starts s e = false ->
  step cfg s e = Some (Ok s') -> kb cfg M L s'.
Proof.
  intros A HLM [K1 [K2 K3]] Hpend Hurg Hns H. pose proof A as [[II _] [[_ Hheld] _]].
  destruct (step_timer_facts _ _ _ _ II H) as [Hmono [Hnow [Hother Htp]]].
  assert (forall ch, s_p s = PSelect ch \/ s_p s = PIdle ch -> is_closed (heap (s_pbl s)) ch = true) as Hclosed.
  { intros ch Hc. destruct (Hheld ch Hc) as [->|Hc']; [|exact Hc']. apply (inv_wakeup_put _ (proj1 II) Hpend). }
  destruct (tp_or_not e) as [[a ->]|Hne].
  - specialize (Htp a eq_refl). specialize (Hnow ltac:(intros d0 H0; discriminate H0)).
    destruct (s_p s) as [|ch|ch|dl0|keep|keep final|keep final|keep final dl0|keep w|] eqn:Ep;
      try (destruct Htp as [Hl [Hx1 Hx2]]; split; [intros dl Hd; exfalso; eapply Hx1; exact Hd|];
           split; [intros ch Hc; exfalso; eapply Hx2; exact Hc|]; intros _; rewrite Hl; apply K3; discriminate).
    + (* PSelect *)
      destruct Htp as [Hl Hp]. rewrite (Hclosed ch (or_introl eq_refl)) in Hp.
      split; [intros dl Hd; rewrite Hp in Hd; inversion Hd; subst; rewrite (K3 ltac:(discriminate)); lia|].
      split; [intros c Hc; rewrite Hp in Hc; discriminate|]. intros _. rewrite Hl. apply K3. discriminate.
    + (* PIdle *)
      destruct Htp as [Hl Hp]. pose proof (K2 ch eq_refl) as Hn.
      split; [intros dl Hd; destruct Hp as [Hp|Hp]; rewrite Hp in Hd; [discriminate|]; inversion Hd; subst; lia|].
      split; [intros c Hc; destruct Hp as [Hp|Hp]; rewrite Hp in Hc; discriminate|].
      intros _. rewrite Hl. apply K3. discriminate.
    + (* PTimer *)
      destruct Htp as [Hp|[Hp Hl]].
      * split; [intros dl Hd; rewrite Hp in Hd; discriminate|].
        split; [intros c Hc; rewrite Hp in Hc; discriminate|]. intros Hx. contradiction.
      * split; [intros dl Hd; rewrite Hp in Hd; discriminate|].
        split; [intros c Hc; rewrite Hp in Hc; discriminate|]. intros _. rewrite Hl. apply K3. discriminate.
    + (* PNotify: a sync start, excluded *)
      unfold sync_starts in Hns. rewrite act_tp, Ep in Hns. discriminate.
  - destruct (Hother Hne) as [Hp Hl]. unfold kb. rewrite Hp, Hl.
    split; [exact K1|]. split; [|exact K3].
    intros ch Hc. destruct e as [alloc| |index size|k blk seed|d| |t a];
      try (rewrite (Hnow ltac:(intros d0 H0; discriminate H0)); apply (K2 ch Hc)).
    exfalso. specialize (Hurg d eq_refl). unfold p_internal, p_in_io, p_in_timer, enabled in Hurg.
    rewrite Hc in Hurg. cbn [step] in Hurg. unfold pstep in Hurg. rewrite Hc in Hurg.
    rewrite (Hclosed ch (or_intror Hc)) in Hurg. cbn in Hurg. destruct (s_cancel s && _); discriminate.
Qed.

(** upload_commit_bound *)
Theorem commit_bound cfg alloc oldest init t0 s1 k blk seed s1' abs size off p' : forall tr s,
  reachable cfg alloc oldest init t0 s1 ->
  step cfg s1 (EFinalize k blk seed) = Some (Ok s1') ->
  nth_error (s_uploads s1) k = Some (Some (PutAt abs, size)) ->
  put_finalize (PutAt abs) blk size seed (s_pbl s1) = Ok (p', FinOk off) ->
  run cfg s1' tr = Some (Ok s) -> urgent cfg s1' tr = true ->
  scan cfg Ph0 s1' tr = Ph0 ->
  abs < totalReleased (s_pbl s) \/
  ((forall dl, s_p s = PTimer dl -> (dl <= N.max (s_now s1) (s_last s1) + c_interval cfg)%N)
   /\ (s_p s <> PNotify true -> s_last s = s_last s1)).
Proof.
  intros tr s R Hs1 Hu Hf Hrun Hurg Hscan.
  set (o := obj_of (s_pbl s1) p' abs (off + size)).
  set (M := N.max (s_now s1) (s_last s1)). set (L := s_last s1).
  destruct (fin_step _ _ _ _ _ _ _ _ Hs1 Hu) as [fr Hf']. rewrite Hf in Hf'. inversion Hf'; subst p'. clear Hf'.
  pose proof (reachable_ainv _ _ _ _ _ _ R) as A1. pose proof (reachable_cinv _ _ _ _ _ _ R) as C1.
  pose proof (ainv_pbl _ A1) as I1.
  (* the invariant bundle of LivePut at s1' *)
  assert (uinv o Ph0 0 s1') as UI.
  { split; [eapply step_ainv; eauto|]. split; [eapply step_cinv; eauto; exact (proj1 (proj1 A1))|].
    destruct (fin_cases _ _ _ _ _ _ _ Hf) as [[_ Hn]|
      (abs0 & off0 & bumped & Ht & _ & _ & Hcl & _ & _ & _ & Fs & _ & Hnb & Ft & Fsy & _ & _ & _ & _ & Fc & _)];
      [exfalso; eapply Hn; reflexivity|].
    split; [cbn; rewrite Fc; exact Hcl|]. split; [exact (fin_tracked _ _ _ _ _ _ _ I1 Hf)|]. split; [|exact I].
    intros _. right. unfold o, obj_of. cbn [o_epoch]. rewrite Fsy, Fs, Nat.sub_0_r.
    pose proof (i_sync2 _ I1) as H2. pose proof (i_len _ I1) as Hl. destruct bumped.
    - rewrite app_length. cbn. lia.
    - destruct (Hnb eq_refl) as [Hne _]. lia. }
  assert (kb cfg M L s1') as K1.
  { destruct (step_timer_facts _ _ _ _ (proj1 (proj1 A1)) Hs1) as [_ [Hnow [Hother _]]].
    destruct (Hother ltac:(intros a0 H0; discriminate H0)) as [Hp Hl].
    specialize (Hnow ltac:(intros d0 H0; discriminate H0)).
    pose proof (reachable_tb _ _ _ _ _ _ R) as B. unfold kb. rewrite Hp, Hl, Hnow.
    split; [intros dl Hd; apply (B dl Hd)|]. split; [intros ch _; unfold M; lia|]. intros _. reflexivity. }
  (* induction along the schedule *)
  assert (forall trq sa d sb, uinv o Ph0 d sa -> kb cfg M L sa ->
            run cfg sa trq = Some (Ok sb) -> urgent cfg sa trq = true -> scan cfg Ph0 sa trq = Ph0 ->
            abs < totalReleased (s_pbl sb) \/ kb cfg M L sb) as Hind.
  { induction trq as [|e trq IH]; intros sa d sb UIa Ka Hr Hur Hsc; cbn [run urgent scan] in Hr, Hur, Hsc.
    - inversion Hr; subst. right. exact Ka.
    - destruct (step cfg sa e) as [[s2|]|] eqn:Es; try discriminate.
      apply andb_true_iff in Hur. destruct Hur as [Hu1 Hu2].
      assert (ph_next Ph0 sa e = Ph0) as Hph.
      { cbn [ph_next]. destruct (sync_starts sa e) eqn:Ess; [|reflexivity]. exfalso.
        cbn [ph_next] in Hsc. rewrite Ess in Hsc.
        assert (forall trm ph sx, ph <> Ph0 -> scan cfg ph sx trm <> Ph0) as Hmono.
        { induction trm as [|e1 trm IH1]; intros ph sx Hne; cbn; [exact Hne|].
          destruct (step cfg sx e1) as [[sy|]|]; try exact Hne. apply IH1.
          destruct ph as [| | |t|]; cbn [ph_next]; try congruence.
          - destruct (sync_completes sx e1); discriminate.
          - destruct (getstate_tid _); discriminate.
          - destruct (is_written _); [|destruct (is_wfail _ _ _)]; discriminate. }
        eapply Hmono; [|exact Hsc]. discriminate. }
      pose proof (step_uinv _ _ _ _ _ _ _ UIa Es) as UI2. rewrite Hph in UI2, Hsc.
      destruct (lt_dec abs (totalReleased (s_pbl sa))) as [Hrel|Hnr].
      + left. assert (forall trn sx sy, run cfg sx trn = Some (Ok sy) ->
                        totalReleased (s_pbl sx) <= totalReleased (s_pbl sy)) as Hm.
        { induction trn as [|e1 trn IH1]; intros sx sy Hx; cbn in Hx; [inversion Hx; subst; lia|].
          destruct (step cfg sx e1) as [[sz|]|] eqn:Ez; try discriminate.
          pose proof (step_released_mono _ _ _ _ Ez). specialize (IH1 _ _ Hx). lia. }
        pose proof (step_released_mono _ _ _ _ Es). specialize (Hm _ _ _ Hr). lia.
      + eapply IH; [exact UI2| |exact Hr|exact Hu2|exact Hsc].
        pose proof UIa as UIa0. destruct UIa as (Aa & _). eapply step_kb; [exact Aa|unfold M, L; lia|exact Ka| | | |exact Es].
        * eapply (uinv_pending o d); [exact UIa0|exact Hnr].
        * intros d0 ->. apply negb_true_iff in Hu1. exact Hu1.
        * cbn [ph_next] in Hph. destruct (sync_starts sa e); [discriminate|reflexivity]. }
  destruct (Hind _ _ _ _ UI K1 Hrun Hurg Hscan) as [Hrel|[K1' [_ K3']]]; [left; exact Hrel|right].
  split; [exact K1'|exact K3'].
Qed.
