(** Persist/ReleaseSafe.v — proofs of the C04P theorems (Props/C04P.v): an
    invariant over the executed history of the combined PersistentBlockList +
    PeriodicSyncer transition system, extended one step at a time.

    [hrun]: histories built by appending one executed step; [run_hrun]: the
    trace of a schedule is such a history.  [J h s]: the invariant relating
    the history [h] to the current state [s]:
      - [Jp]:   releasedLog ++ blocksToRelease are exactly the popped blocks,
                in PopFront order (absolute index = position);
      - [Jcov]: every Release()d block is covered by a completed state write
                that started after its PopFront and omits it;
      - [Jw]:   a loop inside WritePersistentState (in flight / returned nil)
                started that write at a known step [ig]; no other write started
                since; the blocks popped before [ig] are exactly those with
                absolute index < |releasedLog| + blocksReleasing;
      - [Jn]:   NotifyPersistentStateWritten of a write releases every block
                popped before the write started. *)
From Coq Require Import List NArith ZArith Bool Arith Lia.
From BBS Require Import Persist.PBL Persist.PBLProofs Persist.Syncer Persist.SyncerProofs
  Persist.LiveActs Persist.LiveCover Persist.LiveRelease Persist.LiveFair Persist.ReleaseSafeDefs.
Import ListNotations.
Local Open Scope nat_scope.

(** ---- list helpers ---- *)
Lemma nth_snoc_lt {A} (h : list A) x k : k < length h -> nth_error (h ++ [x]) k = nth_error h k.
Proof. intros H. apply nth_error_app1. exact H. Qed.

Lemma nth_snoc_eq {A} (h : list A) x : nth_error (h ++ [x]) (length h) = Some x.
Proof. rewrite nth_error_app2 by lia. rewrite Nat.sub_diag. reflexivity. Qed.

Lemma nth_snoc_inv {A} (h : list A) x k y : nth_error (h ++ [x]) k = Some y ->
  (k < length h /\ nth_error h k = Some y) \/ (k = length h /\ y = x).
Proof.
  intros H. destruct (Nat.lt_ge_cases k (length h)) as [Hlt|Hge].
  - left. split; [exact Hlt|]. rewrite nth_error_app1 in H by exact Hlt. exact H.
  - right. rewrite nth_error_app2 in H by exact Hge.
    destruct (k - length h) as [|d] eqn:Ed.
    + cbn in H. inversion H. split; [lia|reflexivity].
    + cbn in H. destruct d; discriminate.
Qed.

Lemma nth_bound {A} (h : list A) k y : nth_error h k = Some y -> k < length h.
Proof. intros H. apply nth_error_Some. congruence. Qed.

Lemma nth_app_firstn {A} (l1 l2 : list A) r i : i < length l1 + r ->
  nth_error (l1 ++ firstn r l2) i = nth_error (l1 ++ l2) i.
Proof.
  intros H. destruct (Nat.lt_ge_cases i (length l1)) as [Hlt|Hge].
  - rewrite !nth_error_app1 by exact Hlt. reflexivity.
  - rewrite !nth_error_app2 by exact Hge. apply nth_error_firstn_lt. lia.
Qed.

(** ---- histories, one step at a time ---- *)
Lemma run_snoc cfg tr : forall s0 e s, run cfg s0 (tr ++ [e]) = Some (Ok s) ->
  exists s1, run cfg s0 tr = Some (Ok s1) /\ step cfg s1 e = Some (Ok s).
Proof.
  induction tr as [|e0 tr IH]; intros s0 e s H.
  - cbn [app run] in H. destruct (step cfg s0 e) as [[s1|]|] eqn:Es; try discriminate.
    inversion H; subst. exists s0. split; [reflexivity|exact Es].
  - cbn [app run] in *. destruct (step cfg s0 e0) as [[s1|]|]; try discriminate. apply IH. exact H.
Qed.

Lemma trace_app cfg tr1 : forall s0 s1 tr2, run cfg s0 tr1 = Some (Ok s1) ->
  trace cfg s0 (tr1 ++ tr2) = trace cfg s0 tr1 ++ trace cfg s1 tr2.
Proof.
  induction tr1 as [|e tr1 IH]; intros s0 s1 tr2 H.
  - cbn in H. inversion H; subst. reflexivity.
  - cbn [app run trace] in *. destruct (step cfg s0 e) as [[s'|]|]; try discriminate.
    cbn [app]. f_equal. apply IH. exact H.
Qed.

Inductive hrun (cfg : config) (s0 : sys) : hist -> sys -> Prop :=
| hr_nil : hrun cfg s0 [] s0
| hr_snoc h s e s' : hrun cfg s0 h s -> step cfg s e = Some (Ok s') ->
    hrun cfg s0 (h ++ [(s, e, s')]) s'.

Lemma run_hrun cfg s0 tr : forall s, run cfg s0 tr = Some (Ok s) -> hrun cfg s0 (trace cfg s0 tr) s.
Proof.
  induction tr as [|e tr IH] using rev_ind; intros s H.
  - cbn in *. inversion H; subst. constructor.
  - destruct (run_snoc _ _ _ _ _ H) as [s1 [H1 H2]].
    rewrite (trace_app _ _ _ _ [e] H1). cbn [trace]. rewrite H2. apply hr_snoc; auto.
Qed.

(** ---- the vocabulary under extension of the history by one step ---- *)
Section Snoc.
Variables (h : hist) (x : sys * event * sys).

Lemma pop_at_mono ip i l : pop_at h ip i l -> pop_at (h ++ [x]) ip i l.
Proof.
  intros (a & b & fb & rest & H & R). exists a, b, fb, rest.
  split; [apply nth_error_app_some; exact H|exact R].
Qed.
Lemma pop_at_bound ip i l : pop_at h ip i l -> ip < length h.
Proof. intros (a & b & fb & rest & H & _). eapply nth_bound; eauto. Qed.
Lemma pop_at_lt ip i l : pop_at (h ++ [x]) ip i l -> ip < length h -> pop_at h ip i l.
Proof.
  intros (a & b & fb & rest & H & R) Hlt. rewrite nth_snoc_lt in H by exact Hlt.
  exists a, b, fb, rest. auto.
Qed.

Lemma ws_mono ig t st : write_starts_at h ig t st -> write_starts_at (h ++ [x]) ig t st.
Proof.
  intros (a & e & b & H & R). exists a, e, b. split; [apply nth_error_app_some; exact H|exact R].
Qed.
Lemma ws_bound ig t st : write_starts_at h ig t st -> ig < length h.
Proof. intros (a & e & b & H & _). eapply nth_bound; eauto. Qed.
Lemma ws_lt ig t st : write_starts_at (h ++ [x]) ig t st -> ig < length h -> write_starts_at h ig t st.
Proof.
  intros (a & e & b & H & R) Hlt. rewrite nth_snoc_lt in H by exact Hlt. exists a, e, b. auto.
Qed.

Lemma wc_mono iw t st : write_completes_at h iw t st -> write_completes_at (h ++ [x]) iw t st.
Proof.
  intros (a & e & b & H & R). exists a, e, b. split; [apply nth_error_app_some; exact H|exact R].
Qed.
Lemma wc_bound iw t st : write_completes_at h iw t st -> iw < length h.
Proof. intros (a & e & b & H & _). eapply nth_bound; eauto. Qed.

Lemma so_mono ig st i : state_omits h ig st i -> state_omits (h ++ [x]) ig st i.
Proof.
  intros (a & e & b & H & R). exists a, e, b. split; [apply nth_error_app_some; exact H|exact R].
Qed.

Lemma not_lt iz t : notified_at (h ++ [x]) iz t -> iz < length h -> notified_at h iz t.
Proof.
  intros (a & e & b & H & R) Hlt. rewrite nth_snoc_lt in H by exact Hlt. exists a, e, b. auto.
Qed.

Lemma nsb_mono lo hi : hi <= length h -> no_start_between h lo hi -> no_start_between (h ++ [x]) lo hi.
Proof.
  intros Hle H k a e b H1 H2 Hn. rewrite nth_snoc_lt in Hn by lia. eapply H; eauto.
Qed.
Lemma nsb_lt lo hi : no_start_between (h ++ [x]) lo hi -> no_start_between h lo hi.
Proof.
  intros H k a e b H1 H2 Hn. eapply H; eauto. apply nth_error_app_some. exact Hn.
Qed.

Lemma covered_mono i l : covered h i l -> covered (h ++ [x]) i l.
Proof.
  intros (ip & ig & iw & t & st & H1 & H2 & H3 & H4 & H5 & H6 & H7).
  exists ip, ig, iw, t, st. pose proof (wc_bound _ _ _ H7) as Hb.
  splits; auto using pop_at_mono, ws_mono, so_mono, wc_mono.
  apply nsb_mono; [lia|exact H6].
Qed.
End Snoc.

(** ---- program counters of the two loops and the call a step performs ---- *)
Lemma act_getstate_wpc s e t : act_of s e = AGetState t -> wpc_of t s = Some WGetState.
Proof.
  destruct e as [alloc| |index size|k blk seed|d| |t' a]; cbn [act_of]; try discriminate.
  - destruct (nth_error _ _) as [[[tok sz]|]|]; discriminate.
  - unfold wpc_of. destruct t'.
    + destruct (s_r s) as [| |w]; try discriminate. destruct w; cbn; try discriminate.
      intros H; inversion H; subst. reflexivity.
    + destruct (s_p s) as [| | | | | | | |k w|]; try discriminate. destruct w; cbn; try discriminate.
      intros H; inversion H; subst. reflexivity.
Qed.

Lemma act_written_wpc s e t : act_of s e = AWritten t ->
  wpc_of t s = Some WWritten /\ exists a, e = EStep t a.
Proof.
  destruct e as [alloc| |index size|k blk seed|d| |t' a]; cbn [act_of]; try discriminate.
  - destruct (nth_error _ _) as [[[tok sz]|]|]; discriminate.
  - unfold wpc_of. destruct t'.
    + destruct (s_r s) as [| |w]; try discriminate. destruct w; cbn; try discriminate.
      intros H; inversion H; subst. eauto.
    + destruct (s_p s) as [| | | | | | | |k w|]; try discriminate. destruct w; cbn; try discriminate.
      intros H; inversion H; subst. eauto.
Qed.

Lemma act_pop_event s e : act_of s e = APop -> e = EPopFront.
Proof.
  destruct e as [alloc| |index size|k blk seed|d| |t' a]; cbn [act_of]; try discriminate; auto.
  - destruct (nth_error _ _) as [[[tok sz]|]|]; discriminate.
  - destruct t'.
    + destruct (s_r s) as [| |w]; try discriminate. destruct w; cbn; discriminate.
    + destruct (s_p s) as [| | | | | | | |k w|]; try discriminate. destruct w; cbn; discriminate.
Qed.

Lemma act_own s t a w : wpc_of t s = Some w -> act_of s (EStep t a) = wact t w.
Proof.
  unfold wpc_of. destruct t; cbn [act_of].
  - destruct (s_r s) as [| |w0]; try discriminate. intros H; inversion H; reflexivity.
  - destruct (s_p s) as [| | | | | | | |k w0|]; try discriminate. intros H; inversion H; reflexivity.
Qed.

Lemma wpc_written_state s t st : wpc_of t s = Some (WWriting st) -> written_state s t = Some st.
Proof.
  unfold wpc_of, written_state. destruct t.
  - destruct (s_r s) as [| |w0]; try discriminate. intros H; inversion H; reflexivity.
  - destruct (s_p s) as [| | | | | | | |k w0|]; try discriminate. intros H; inversion H; reflexivity.
Qed.

(** storeLock has one holder *)
Lemma holder_unique s t t' w w' : inv3 s -> wpc_of t s = Some w -> holds w = true ->
  wpc_of t' s = Some w' -> holds w' = true -> t' = t.
Proof.
  intros [_ Hx] H1 H2 H3 H4. unfold r_holds, p_holds, wpc_of in *.
  destruct t, t'; auto;
    destruct (s_r s) as [| |wr]; try discriminate;
    destruct (s_p s) as [| | | | | | | |k wp|]; try discriminate;
    inversion H1; inversion H3; subst; rewrite H2, H4 in Hx; discriminate.
Qed.

(** steps of anybody else leave a loop's program counter alone *)
Lemma wpc_frame cfg s e s' t : inv1 s -> step cfg s e = Some (Ok s') -> (forall a, e <> EStep t a) ->
  wpc_of t s' = wpc_of t s.
Proof.
  intros II H Hne.
  assert (s_r s' = s_r s /\ s_p s' = s_p s -> wpc_of t s' = wpc_of t s) as Hfr.
  { intros [Er Ep]. unfold wpc_of. rewrite Er, Ep. reflexivity. }
  destruct e as [alloc| |index size|k blk seed|d| |t' a].
  1-6: apply Hfr; eapply env_frame; [|exact H]; intros t1 a1; discriminate.
  destruct t', t; cbn [step] in H.
  - exfalso. eapply Hne. reflexivity.
  - unfold wpc_of. rewrite (rstep_frame _ _ _ _ II H). reflexivity.
  - unfold wpc_of. rewrite (pstep_frame _ _ _ _ II H). reflexivity.
  - exfalso. eapply Hne. reflexivity.
Qed.

(** a loop's own step: inside writePersistentStateRetrying it is [wstep] *)
Lemma wpc_own cfg s a s' t : step cfg s (EStep t a) = Some (Ok s') ->
  match wpc_of t s with
  | None => wpc_of t s' = None \/ wpc_of t s' = Some WAcquire
  | Some w => exists s1, wstep cfg t w a s = Some (Ok (s1, wpc_of t s'))
  end.
Proof.
  destruct t; cbn [step]; unfold wpc_of.
  - unfold rstep. destruct (s_r s) as [|ch|w].
    + intros H; inversion H; subst. cbn. auto.
    + destruct (is_closed _ _); [|discriminate]. intros H; inversion H; subst. cbn. auto.
    + destruct (wstep cfg TR w a s) as [[[s1 w']|]|] eqn:Ew; try discriminate.
      destruct w'; intros H; inversion H; subst; cbn; exists s1; reflexivity.
  - unfold pstep.
    destruct (s_p s) as [|ch|ch|dl|keep|keep final|keep final|keep final dl|keep w|].
    + intros H; inversion H; subst. cbn. auto.
    + destruct (is_closed _ _); intros H; inversion H; subst; cbn; auto.
    + destruct (s_cancel s && _); [|destruct (is_closed _ _); [|discriminate]];
        intros H; inversion H; subst; cbn; auto.
    + destruct (s_cancel s && _); [|destruct (_ && _)%bool; [|discriminate]];
        intros H; inversion H; subst; cbn; auto.
    + intros H; inversion H; subst. cbn. auto.
    + destruct (a_ok a); intros H; inversion H; subst; cbn; auto.
    + destruct (negb keep && negb final); intros H; inversion H; subst; cbn; auto.
    + destruct (_ <=? _)%N; [|discriminate]. intros H; inversion H; subst. cbn. auto.
    + destruct (wstep cfg TP w a s) as [[[s1 w']|]|] eqn:Ew; try discriminate.
      destruct w'; intros H; inversion H; subst; cbn; [|destruct keep]; exists s1; reflexivity.
    + discriminate.
Qed.

(** how a loop gets to / stays at "write in flight" and "write returned nil" *)
Lemma step_wpc cfg s e s' t : inv1 s -> step cfg s e = Some (Ok s') ->
  match wpc_of t s' with
  | Some (WWriting st) => act_of s e = AGetState t \/ wpc_of t s = Some (WWriting st)
  | Some WWritten => (exists st, wpc_of t s = Some (WWriting st))
                     \/ (wpc_of t s = Some WWritten /\ act_of s e <> AWritten t)
  | _ => True
  end.
Proof.
  intros II H.
  assert ((forall a, e <> EStep t a) \/ exists a, e = EStep t a) as [Hne|[a ->]].
  { destruct e as [alloc| |index size|k blk seed|d| |t' a]; try (left; intros a0; discriminate).
    destruct t, t'; try (left; intros a0; discriminate); right; eauto. }
  - rewrite (wpc_frame _ _ _ _ _ II H Hne).
    destruct (wpc_of t s) as [[]|] eqn:Ew; auto.
    right. split; [reflexivity|]. intros Ha. destruct (act_written_wpc _ _ _ Ha) as [_ [a0 E]].
    eapply Hne. exact E.
  - pose proof (wpc_own _ _ _ _ _ H) as Ho.
    destruct (wpc_of t s) as [w|] eqn:Ew.
    + destruct Ho as [s1 Hs]. pose proof (wstep_next _ _ _ _ _ _ _ Hs) as Hn.
      destruct (wpc_of t s') as [[]|]; auto.
      * left. rewrite (act_own _ _ _ _ Ew), Hn. reflexivity.
      * left. destruct Hn as [st ->]. eauto.
    + destruct Ho as [-> | ->]; exact I.
Qed.

(** ---- the invariant ---- *)
(** loop [t]'s WritePersistentState(st) call started at step [ig]; nothing
    else started a state write since; [m] = totalBlocksReleased at that
    moment: exactly the blocks with absolute index < m were popped before *)
Definition flight (h : hist) (m : nat) (t : tid) (ig : nat) (st : pstate) : Prop :=
  write_starts_at h ig t st
  /\ (exists a e b, nth_error h ig = Some (a, e, b) /\ totalReleased (s_pbl a) = m
        /\ forall j x, nth_error (snd st) j = Some x ->
             exists bb, nth_error (blocks (s_pbl a)) j = Some bb /\ bs_loc x = b_loc bb)
  /\ (forall k a e b, ig < k -> nth_error h k = Some (a, e, b) -> is_getstate (act_of a e) = false)
  /\ (forall ip i l, pop_at h ip i l -> (ip < ig <-> i < m)).

Lemma flight_snoc h m t ig st s e s' : flight h m t ig st ->
  is_getstate (act_of s e) = false -> (e = EPopFront -> m <= totalReleased (s_pbl s)) ->
  flight (h ++ [(s, e, s')]) m t ig st.
Proof.
  intros (F1 & (a & e0 & b & F2 & F3) & F4 & F5) Hng Hpop.
  pose proof (nth_bound _ _ _ F2) as Hig.
  split; [apply ws_mono; exact F1|].
  split; [exists a, e0, b; split; [apply nth_error_app_some; exact F2|exact F3]|].
  split.
  - intros k a1 e1 b1 Hk Hn. destruct (nth_snoc_inv _ _ _ _ Hn) as [[Hlt Hn']|[-> Heq]].
    + eapply F4; eauto.
    + inversion Heq; subst. exact Hng.
  - intros ip i l Hp. destruct (Nat.lt_ge_cases ip (length h)) as [Hlt|Hge].
    + apply (F5 ip i l). eapply pop_at_lt; eauto.
    + destruct Hp as (a1 & b1 & fb & rest & Hn & Ht & _).
      destruct (nth_snoc_inv _ _ _ _ Hn) as [[Hlt _]|[-> Heq]]; [lia|].
      inversion Heq; subst. specialize (Hpop eq_refl). split; intros; lia.
Qed.

Definition Jp (h : hist) (p : pbl) : Prop :=
  totalReleased p = length (releasedLog p ++ toRelease p)
  /\ (forall i l, nth_error (releasedLog p ++ toRelease p) i = Some l -> exists ip, pop_at h ip i l)
  /\ (forall ip i l, pop_at h ip i l -> nth_error (releasedLog p ++ toRelease p) i = Some l).

Definition Jcov (h : hist) (p : pbl) : Prop :=
  forall i l, nth_error (releasedLog p) i = Some l -> covered h i l.

Definition mark (s : sys) : nat := length (releasedLog (s_pbl s)) + releasing (s_pbl s).

Definition Jw (h : hist) (s : sys) : Prop :=
  (forall t st, wpc_of t s = Some (WWriting st) -> exists ig, flight h (mark s) t ig st)
  /\ (forall t, wpc_of t s = Some WWritten ->
        exists ig iw st, ig < iw /\ write_completes_at h iw t st /\ flight h (mark s) t ig st).

Definition Jn (h : hist) (p : pbl) : Prop :=
  forall ip i l ig iz t t' st, pop_at h ip i l -> ip < ig -> write_starts_at h ig t st -> ig < iz ->
    no_start_between h ig iz -> notified_at h iz t' ->
    t' = t /\ nth_error (releasedLog p) i = Some l.

Definition J (h : hist) (s : sys) : Prop :=
  Jp h (s_pbl s) /\ Jcov h (s_pbl s) /\ Jw h s /\ Jn h (s_pbl s).

(** ---- preservation, piece by piece ---- *)
Lemma Jp_nonpop h p p' s e s' : Jp h p -> e <> EPopFront ->
  releasedLog p' ++ toRelease p' = releasedLog p ++ toRelease p -> totalReleased p' = totalReleased p ->
  Jp (h ++ [(s, e, s')]) p'.
Proof.
  intros (T & P1 & P2) Hne Happ Ht. unfold Jp. rewrite Happ, Ht. splits; auto.
  - intros i l Hn. destruct (P1 _ _ Hn) as [ip Hp]. exists ip. apply pop_at_mono. exact Hp.
  - intros ip i l Hp. apply (P2 ip).
    destruct (Nat.lt_ge_cases ip (length h)) as [Hlt|Hge]; [eapply pop_at_lt; eauto|].
    exfalso. destruct Hp as (a & b & fb & rest & Hn & _).
    destruct (nth_snoc_inv _ _ _ _ Hn) as [[Hlt _]|[_ Heq]]; [lia|]. congruence.
Qed.

Lemma Jp_pop cfg h s s' : Jp h (s_pbl s) -> step cfg s EPopFront = Some (Ok s') ->
  Jp (h ++ [(s, EPopFront, s')]) (s_pbl s').
Proof.
  intros (T & P1 & P2) H.
  pose proof (act_rel _ _ _ (step_act _ _ _ _ H)) as R. cbn [act_of] in R.
  destruct R as (fb & rest & Eb & R1 & _ & R3 & R4).
  unfold Jp. rewrite R1, R3, R4, app_assoc. splits.
  - rewrite app_length. cbn. lia.
  - intros i l Hn. destruct (nth_snoc_inv _ _ _ _ Hn) as [[Hlt Hn']|[Hi Hl]].
    + destruct (P1 _ _ Hn') as [ip Hp]. exists ip. apply pop_at_mono. exact Hp.
    + exists (length h), s, s', fb, rest. splits; auto; [apply nth_snoc_eq|congruence].
  - intros ip i l Hp. destruct (Nat.lt_ge_cases ip (length h)) as [Hlt|Hge].
    + apply nth_error_app_some. apply (P2 ip). eapply pop_at_lt; eauto.
    + destruct Hp as (a & b & fb0 & rest0 & Hn & Ht & Hb & Hl).
      destruct (nth_snoc_inv _ _ _ _ Hn) as [[Hlt _]|[_ Heq]]; [lia|].
      inversion Heq; subst a b. rewrite Eb in Hb. inversion Hb; subst fb0 rest0.
      rewrite <- Ht, <- Hl, T. apply nth_snoc_eq.
Qed.

Lemma Jcov_same h p p' x : Jcov h p -> releasedLog p' = releasedLog p -> Jcov (h ++ [x]) p'.
Proof. intros C Hr i l Hn. rewrite Hr in Hn. apply covered_mono. apply C. exact Hn. Qed.

Lemma Jn_lt h p p' s e s' : Jn h p -> (forall t, act_of s e <> AWritten t) ->
  (exists ext, releasedLog p' = releasedLog p ++ ext) -> Jn (h ++ [(s, e, s')]) p'.
Proof.
  intros N Hna [ext Hr] ip i l ig iz t t' st Hp Hlt Hw Hlt2 Hnsb Hz.
  assert (iz < length h) as Hiz.
  { destruct Hz as (a & e0 & b & Hn & Ha).
    destruct (nth_snoc_inv _ _ _ _ Hn) as [[Hl _]|[_ Heq]]; [exact Hl|].
    inversion Heq; subst. exfalso. eapply Hna. exact Ha. }
  destruct (N ip i l ig iz t t' st) as [E1 E2].
  - eapply pop_at_lt; eauto. lia.
  - exact Hlt.
  - eapply ws_lt; eauto. lia.
  - exact Hlt2.
  - eapply nsb_lt; eauto.
  - eapply not_lt; eauto.
  - split; [exact E1|]. rewrite Hr. apply nth_error_app_some. exact E2.
Qed.

Lemma Jw_quiet cfg h s e s' : Jw h s -> inv1 s -> step cfg s e = Some (Ok s') ->
  is_getstate (act_of s e) = false ->
  releasedLog (s_pbl s') = releasedLog (s_pbl s) -> releasing (s_pbl s') = releasing (s_pbl s) ->
  (e = EPopFront -> mark s <= totalReleased (s_pbl s)) ->
  Jw (h ++ [(s, e, s')]) s'.
Proof.
  intros [W1 W2] I1 H Hng Hr Hg Hpop.
  assert (mark s' = mark s) as Hm by (unfold mark; rewrite Hr, Hg; reflexivity).
  unfold Jw. rewrite Hm. split.
  - intros t st Hw. pose proof (step_wpc cfg s e s' t I1 H) as S. rewrite Hw in S.
    destruct S as [S|S]; [rewrite S in Hng; discriminate|].
    destruct (W1 _ _ S) as [ig F]. exists ig. apply flight_snoc; auto.
  - intros t Hw. pose proof (step_wpc cfg s e s' t I1 H) as S. rewrite Hw in S.
    destruct S as [[st S]|[S _]].
    + destruct (W1 _ _ S) as [ig F]. exists ig, (length h), st.
      split; [eapply ws_bound; exact (proj1 F)|].
      split; [|apply flight_snoc; auto].
      exists s, e, s'. split; [apply nth_snoc_eq|]. split; [apply wpc_written_state; exact S|exact Hw].
    + destruct (W2 _ S) as (ig & iw & st & Hlt & Hc & F). exists ig, iw, st.
      split; [exact Hlt|]. split; [apply wc_mono; exact Hc|apply flight_snoc; auto].
Qed.

Lemma Jw_getstate cfg h s e s' t0 : Jp h (s_pbl s) -> inv1 s -> inv3 s ->
  step cfg s e = Some (Ok s') -> act_of s e = AGetState t0 -> Jw (h ++ [(s, e, s')]) s'.
Proof.
  intros (T & P1 & P2) I1 I3 H Ha.
  pose proof (act_rel _ _ _ (step_act _ _ _ _ H)) as R. rewrite Ha in R.
  destruct R as (R1 & R2 & R3 & R4).
  pose proof (act_getstate_wpc _ _ _ Ha) as Hg0.
  assert (e <> EPopFront) as Hne by (intros ->; discriminate Ha).
  split.
  - intros t st Hw. pose proof (step_wpc cfg s e s' t I1 H) as S. rewrite Hw in S.
    destruct S as [S|S].
    + rewrite Ha in S. inversion S; subst t0. exists (length h).
      unfold mark. rewrite R3, R2.
      destruct (getstate_step _ _ _ _ _ H Ha) as [p1 [st1 [Hgs [Hws _]]]].
      rewrite (wpc_written_state _ _ _ Hw) in Hws. inversion Hws; subst st1.
      destruct (gps_fields _ _ _ Hgs) as [_ [_ [_ [_ [_ [_ [_ Hloop]]]]]]].
      split; [exists s, e, s'; split; [apply nth_snoc_eq|]; split; [exact Ha|apply wpc_written_state; exact Hw]|].
      split.
      { exists s, e, s'. split; [apply nth_snoc_eq|]. split; [rewrite T, app_length; reflexivity|].
        intros j x Hn. destruct (gps_prefix _ _ _ _ _ _ _ Hloop Hn) as [bb [Hb [Hl _]]]. exists bb. auto. }
      split.
      { intros k a e1 b Hk Hn. apply nth_bound in Hn. rewrite app_length in Hn. cbn in Hn. lia. }
      intros ip i l Hp.
      assert (ip < length h) as Hlt.
      { destruct (Nat.lt_ge_cases ip (length h)) as [Hlt|Hge]; [exact Hlt|exfalso].
        destruct Hp as (a & b & fb & rest & Hn & _).
        destruct (nth_snoc_inv _ _ _ _ Hn) as [[Hlt _]|[_ Heq]]; [lia|]. congruence. }
      pose proof (P2 _ _ _ (pop_at_lt _ _ _ _ _ Hp Hlt)) as Hn. apply nth_bound in Hn.
      rewrite app_length in Hn. split; intros; assumption.
    + exfalso. pose proof (holder_unique _ _ _ _ _ I3 Hg0 eq_refl S eq_refl) as E. subst t0.
      rewrite S in Hg0. discriminate.
  - intros t Hw. pose proof (step_wpc cfg s e s' t I1 H) as S. rewrite Hw in S. exfalso.
    destruct S as [[st S]|[S _]];
      pose proof (holder_unique _ _ _ _ _ I3 Hg0 eq_refl S eq_refl) as E; subst t0;
      rewrite S in Hg0; discriminate.
Qed.

Lemma Jw_written cfg h s e s' t0 : inv1 s -> inv3 s ->
  step cfg s e = Some (Ok s') -> act_of s e = AWritten t0 -> Jw (h ++ [(s, e, s')]) s'.
Proof.
  intros I1 I3 H Ha. destruct (act_written_wpc _ _ _ Ha) as [Hw0 _]. split.
  - intros t st Hw. pose proof (step_wpc cfg s e s' t I1 H) as S. rewrite Hw in S. exfalso.
    destruct S as [S|S]; [rewrite Ha in S; discriminate|].
    pose proof (holder_unique _ _ _ _ _ I3 Hw0 eq_refl S eq_refl) as E. subst t0.
    rewrite S in Hw0. discriminate.
  - intros t Hw. pose proof (step_wpc cfg s e s' t I1 H) as S. rewrite Hw in S. exfalso.
    destruct S as [[st S]|[S Hne]];
      pose proof (holder_unique _ _ _ _ _ I3 Hw0 eq_refl S eq_refl) as E; subst t0.
    + rewrite S in Hw0. discriminate.
    + apply Hne. exact Ha.
Qed.

Lemma Jcov_written cfg h s e s' t0 : Jp h (s_pbl s) -> Jcov h (s_pbl s) -> Jw h s ->
  step cfg s e = Some (Ok s') -> act_of s e = AWritten t0 -> Jcov (h ++ [(s, e, s')]) (s_pbl s').
Proof.
  intros (T & P1 & P2) C [_ W2] H Ha.
  pose proof (act_rel _ _ _ (step_act _ _ _ _ H)) as R. rewrite Ha in R.
  destruct R as (R1 & R2 & R3 & R4).
  destruct (act_written_wpc _ _ _ Ha) as [Hw0 _].
  intros i l Hn. rewrite R3 in Hn. apply covered_mono.
  destruct (Nat.lt_ge_cases i (length (releasedLog (s_pbl s)))) as [Hlt|Hge].
  - rewrite nth_error_app1 in Hn by exact Hlt. apply C. exact Hn.
  - destruct (W2 _ Hw0) as (ig & iw & st & Hlt & Hc & F1 & (a & e0 & b & F2 & F3 & F3') & F4 & F5).
    unfold mark in *.
    assert (i < length (releasedLog (s_pbl s)) + releasing (s_pbl s)) as Hi.
    { pose proof (nth_bound _ _ _ Hn) as Hb. rewrite app_length in Hb.
      pose proof (firstn_le_length (releasing (s_pbl s)) (toRelease (s_pbl s))). lia. }
    rewrite nth_app_firstn in Hn by exact Hi.
    destruct (P1 _ _ Hn) as [ip Hp].
    exists ip, ig, iw, t0, st. splits; auto.
    + apply (proj2 (F5 _ _ _ Hp)). lia.
    + exists a, e0, b. splits; auto. lia.
    + intros k a1 e1 b1 Hk _ Hk2. eapply F4; eauto.
Qed.

Lemma Jn_written cfg h s e s' t0 : Jp h (s_pbl s) -> Jw h s -> Jn h (s_pbl s) ->
  step cfg s e = Some (Ok s') -> act_of s e = AWritten t0 -> Jn (h ++ [(s, e, s')]) (s_pbl s').
Proof.
  intros (T & P1 & P2) [_ W2] N H Ha.
  pose proof (act_rel _ _ _ (step_act _ _ _ _ H)) as R. rewrite Ha in R.
  destruct R as (R1 & R2 & R3 & R4).
  destruct (act_written_wpc _ _ _ Ha) as [Hw0 _].
  intros ip i l ig iz t t' st Hp Hlt Hw Hlt2 Hnsb Hz.
  pose proof Hz as (a & e0 & b & Hn & Ha0).
  destruct (nth_snoc_inv _ _ _ _ Hn) as [[Hiz _]|[Hiz Heq]].
  - destruct (N ip i l ig iz t t' st) as [E1 E2].
    + eapply pop_at_lt; eauto. lia.
    + exact Hlt.
    + eapply ws_lt; eauto. lia.
    + exact Hlt2.
    + eapply nsb_lt; eauto.
    + eapply not_lt; eauto.
    + split; [exact E1|]. rewrite R3. apply nth_error_app_some. exact E2.
  - inversion Heq; subst a e0 b. rewrite Ha in Ha0. inversion Ha0; subst t'. subst iz.
    destruct (W2 _ Hw0) as (ig0 & iw0 & st0 & _ & _ & F1 & _ & F4 & F5).
    pose proof (ws_lt _ _ _ _ _ Hw Hlt2) as (a1 & e1 & b1 & Hn1 & Hg1 & _).
    pose proof F1 as (a2 & e2 & b2 & Hn2 & Hg2 & _).
    assert (ig = ig0) as ->.
    { destruct (Nat.lt_trichotomy ig ig0) as [Hc|[Hc|Hc]]; [exfalso|exact Hc|exfalso].
      - pose proof (Hnsb ig0 a2 e2 b2 Hc (nth_bound _ _ _ Hn2) (nth_error_app_some _ _ _ _ Hn2)) as Hf.
        rewrite Hg2 in Hf. discriminate.
      - pose proof (F4 ig a1 e1 b1 Hc Hn1) as Hf. rewrite Hg1 in Hf. discriminate. }
    rewrite Hn1 in Hn2. inversion Hn2; subst a2 e2 b2. rewrite Hg1 in Hg2. inversion Hg2; subst t.
    split; [reflexivity|].
    assert (ip < length h) as Hip by lia.
    pose proof (pop_at_lt _ _ _ _ _ Hp Hip) as Hp0.
    pose proof (proj1 (F5 _ _ _ Hp0) Hlt) as Hi. unfold mark in Hi.
    rewrite R3, nth_app_firstn by exact Hi. apply (P2 ip). exact Hp0.
Qed.

(** ---- one step ---- *)
Lemma J_quiet cfg h s e s' : ainv s -> J h s -> step cfg s e = Some (Ok s') ->
  rel_same (s_pbl s) (s_pbl s') -> is_getstate (act_of s e) = false ->
  (forall t, act_of s e <> AWritten t) -> act_of s e <> APop ->
  J (h ++ [(s, e, s')]) s'.
Proof.
  intros [[I1 _] [_ I3]] (P & C & W & N) H (R1 & R2 & R3 & R4) Hng Hna Hnp.
  assert (e <> EPopFront) as Hne by (intros ->; apply Hnp; reflexivity).
  split; [eapply Jp_nonpop; eauto; rewrite R1, R3; reflexivity|].
  split; [eapply Jcov_same; eauto|].
  split; [eapply Jw_quiet; eauto; intros E; contradiction|].
  eapply Jn_lt; eauto. exists []. rewrite app_nil_r. exact R3.
Qed.

Lemma J_step cfg h s e s' : ainv s -> J h s -> step cfg s e = Some (Ok s') ->
  J (h ++ [(s, e, s')]) s'.
Proof.
  intros A Jh H. pose proof A as [[I1 _] [_ I3]]. pose proof Jh as (P & C & W & N).
  pose proof (act_rel _ _ _ (step_act _ _ _ _ H)) as R.
  destruct (act_of s e) as [|al| |tok blk size seed| |b|t|t] eqn:Ea;
    try (apply (J_quiet cfg); auto; rewrite Ea; [reflexivity|discriminate|discriminate]).
  - (* PopFront *)
    pose proof (act_pop_event _ _ Ea) as ->.
    destruct R as (fb & rest & Eb & R1 & R2 & R3 & R4).
    split; [eapply Jp_pop; eauto|].
    split; [eapply Jcov_same; eauto|].
    split.
    + apply (Jw_quiet cfg h s EPopFront s' W I1 H); [reflexivity|exact R3|exact R2|]. intros _.
      destruct P as (T & _). unfold mark. rewrite T, app_length.
      pose proof (i_rel _ (proj1 I1)). lia.
    + eapply Jn_lt; eauto; [rewrite Ea; discriminate|]. exists []. rewrite app_nil_r. exact R3.
  - (* GetPersistentState *)
    destruct R as (R1 & R2 & R3 & R4).
    assert (e <> EPopFront) as Hne by (intros ->; discriminate Ea).
    split; [eapply Jp_nonpop; eauto; rewrite R1, R3; reflexivity|].
    split; [eapply Jcov_same; eauto|].
    split; [eapply Jw_getstate; eauto|].
    eapply Jn_lt; eauto; [rewrite Ea; discriminate|]. exists []. rewrite app_nil_r. exact R3.
  - (* NotifyPersistentStateWritten *)
    destruct R as (R1 & R2 & R3 & R4).
    assert (e <> EPopFront) as Hne by (intros ->; discriminate Ea).
    split; [eapply Jp_nonpop; eauto; rewrite R1, R3, <- app_assoc, firstn_skipn; reflexivity|].
    split; [eapply Jcov_written; eauto|].
    split; [eapply Jw_written; eauto|].
    eapply Jn_written; eauto.
Qed.

(** ---- the initial state ---- *)
Lemma pbl_new_rel alloc oldest init :
  toRelease (fst (pbl_new alloc oldest init)) = [] /\ releasedLog (fst (pbl_new alloc oldest init)) = []
  /\ totalReleased (fst (pbl_new alloc oldest init)) = 0.
Proof.
  unfold pbl_new. destruct (restore_blocks alloc init 0) as [[bl seeds] lasts]. cbn. auto.
Qed.

Lemma J_init alloc oldest init t0 : J [] (init_sys (fst (pbl_new alloc oldest init)) t0).
Proof.
  destruct (pbl_new_rel alloc oldest init) as (E1 & E2 & E3).
  assert (forall ip i l, ~ pop_at [] ip i l) as Hnp.
  { intros ip i l (a & b & fb & rest & Hn & _). destruct ip; discriminate. }
  unfold J. cbn [s_pbl init_sys]. splits.
  - unfold Jp. rewrite E1, E2, E3. splits; [reflexivity| |].
    + intros i l Hn. destruct i; discriminate.
    + intros ip i l Hp. exfalso. eapply Hnp; eauto.
  - intros i l Hn. rewrite E2 in Hn. destruct i; discriminate.
  - split; [intros t st Hw|intros t Hw]; destruct t; discriminate.
  - intros ip i l ig iz t t' st Hp. exfalso. eapply Hnp; eauto.
Qed.

Lemma hrun_J cfg s0 h s : ainv s0 -> J [] s0 -> hrun cfg s0 h s -> ainv s /\ J h s.
Proof.
  intros A0 J0 Hr. induction Hr as [|h s e s' Hr [A Jh] H]; [auto|].
  split; [eapply step_ainv; eauto|eapply J_step; eauto].
Qed.

Lemma reach_J cfg alloc oldest init t0 tr s :
  run cfg (init_sys (fst (pbl_new alloc oldest init)) t0) tr = Some (Ok s) ->
  ainv s /\ J (trace cfg (init_sys (fst (pbl_new alloc oldest init)) t0) tr) s.
Proof.
  intros H. apply (hrun_J cfg (init_sys (fst (pbl_new alloc oldest init)) t0)).
  - apply (reachable_ainv cfg alloc oldest init t0). apply reachable_init.
  - apply J_init.
  - apply run_hrun. exact H.
Qed.

(** ---- the theorems of Props/C04P.v ---- *)
Theorem released_in_pop_order_reach : forall cfg alloc oldest init t0 tr s,
  let s0 := init_sys (fst (pbl_new alloc oldest init)) t0 in
  run cfg s0 tr = Some (Ok s) ->
  totalReleased (s_pbl s) = length (releasedLog (s_pbl s) ++ toRelease (s_pbl s))
  /\ (forall i l, nth_error (releasedLog (s_pbl s) ++ toRelease (s_pbl s)) i = Some l ->
        exists ip, pop_at (trace cfg s0 tr) ip i l)
  /\ (forall ip i l, pop_at (trace cfg s0 tr) ip i l ->
        nth_error (releasedLog (s_pbl s) ++ toRelease (s_pbl s)) i = Some l).
Proof.
  intros cfg alloc oldest init t0 tr s s0 H.
  destruct (reach_J _ _ _ _ _ _ _ H) as [_ (P & _)]. exact P.
Qed.

Theorem no_reuse_before_state_rewritten_reach : forall cfg alloc oldest init t0 tr s i l,
  let s0 := init_sys (fst (pbl_new alloc oldest init)) t0 in
  run cfg s0 tr = Some (Ok s) ->
  nth_error (releasedLog (s_pbl s)) i = Some l ->
  covered (trace cfg s0 tr) i l.
Proof.
  intros cfg alloc oldest init t0 tr s i l s0 H Hn.
  destruct (reach_J _ _ _ _ _ _ _ H) as [_ (_ & C & _)]. apply C. exact Hn.
Qed.

Theorem released_blocks_become_allocatable_reach :
  forall cfg alloc oldest init t0 tr s i l ip ig iz t t' st,
  let s0 := init_sys (fst (pbl_new alloc oldest init)) t0 in
  let h := trace cfg s0 tr in
  run cfg s0 tr = Some (Ok s) ->
  pop_at h ip i l -> ip < ig -> write_starts_at h ig t st -> ig < iz ->
  no_start_between h ig iz -> notified_at h iz t' ->
  t' = t /\ nth_error (releasedLog (s_pbl s)) i = Some l.
Proof.
  intros cfg alloc oldest init t0 tr s i l ip ig iz t t' st s0 h H.
  destruct (reach_J _ _ _ _ _ _ _ H) as [_ (_ & _ & _ & N)]. apply N.
Qed.

Theorem popped_block_eventually_allocatable_reach : forall cfg alloc oldest init t0 tr s ip i l,
  let s0 := init_sys (fst (pbl_new alloc oldest init)) t0 in
  run cfg s0 tr = Some (Ok s) ->
  pop_at (trace cfg s0 tr) ip i l ->
  exists ext s', fair ext = true /\ length ext <= 10 /\ run cfg s ext = Some (Ok s')
    /\ nth_error (releasedLog (s_pbl s')) i = Some l.
Proof.
  intros cfg alloc oldest init t0 tr s ip i l s0 H Hp.
  destruct (reach_J _ _ _ _ _ _ _ H) as [A ((_ & _ & P2) & _)].
  pose proof (P2 _ _ _ Hp) as Hn.
  destruct (Nat.lt_ge_cases i (length (releasedLog (s_pbl s)))) as [Hlt|Hge].
  - exists [], s. rewrite nth_error_app1 in Hn by exact Hlt.
    split; [reflexivity|]. split; [cbn; lia|]. split; [reflexivity|exact Hn].
  - assert (toRelease (s_pbl s) <> []) as Hne.
    { intros E. rewrite E, app_nil_r in Hn. apply nth_bound in Hn. lia. }
    destruct (release_eventually cfg s A Hne) as (ext & s' & Hf & Hl & Hr & _ & Hlog).
    exists ext, s'. splits; auto. rewrite Hlog. exact Hn.
Qed.
