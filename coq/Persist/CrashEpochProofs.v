(** Persist/CrashEpochProofs.v — the durability half of crash safety for the
    FIRST life (base medium = [medium_empty]) of the instrumented transition
    system of Persist/CrashLts.v: a record that resolves after a crash at ANY
    log prefix, under ANY loss choice, designates an upload that was finalized
    successfully and whose data writes are all below the durable frontier of
    the prefix.  Proved by one state invariant ([cinv]) preserved by every
    [cstep].  Stdlib only; no axioms. *)
From Coq Require Import List NArith ZArith Bool Arith Lia.
From BBS Require Import Persist.PBL Persist.PBLProofs Persist.Syncer Persist.SyncerProofs
                        Persist.Crash Persist.CrashLts.
Import ListNotations.

Local Notation log := (list (io irec)).

(** ---- list facts ---- *)
Section ListFacts.
  Context {A : Type}.
  Implicit Types l : list A.

  Lemma nth_lt l pos x : nth_error l pos = Some x -> pos < length l.
  Proof. intros H. apply nth_error_Some. congruence. Qed.

  Lemma nth_snoc l e pos x : nth_error (l ++ [e]) pos = Some x ->
    (pos < length l /\ nth_error l pos = Some x) \/ (pos = length l /\ x = e).
  Proof.
    intros H. destruct (Nat.lt_ge_cases pos (length l)) as [Hl|Hl].
    - left. rewrite nth_error_app1 in H by exact Hl. auto.
    - right. rewrite nth_error_app2 in H by exact Hl.
      destruct (pos - length l) as [|d] eqn:E.
      + cbn in H. inversion H. split; [lia|reflexivity].
      + cbn in H. destruct d; discriminate.
  Qed.

  Lemma nth_snoc_old l e pos x : nth_error l pos = Some x -> nth_error (l ++ [e]) pos = Some x.
  Proof. intros H. rewrite nth_error_app1; [exact H|eapply nth_lt; eauto]. Qed.

  Lemma nth_snoc_new l e : nth_error (l ++ [e]) (length l) = Some e.
  Proof. rewrite nth_error_app2 by lia. rewrite Nat.sub_diag. reflexivity. Qed.

  Lemma nth_firstn l : forall n q x, nth_error (firstn n l) q = Some x -> q < n /\ nth_error l q = Some x.
  Proof.
    induction l as [|a l IH]; intros [|n] [|q] x H; cbn in *; try discriminate.
    - split; [lia|exact H].
    - apply IH in H. split; [lia|tauto].
  Qed.

  Lemma nth_firstn_lt l : forall n q, q < n -> nth_error (firstn n l) q = nth_error l q.
  Proof.
    induction l as [|a l IH]; intros [|n] [|q] H; cbn in *; try lia; try reflexivity.
    apply IH. lia.
  Qed.

  Lemma firstn_snoc l e q : q <= length l -> firstn q (l ++ [e]) = firstn q l.
  Proof.
    intros H. rewrite firstn_app. replace (q - length l) with 0 by lia. cbn. apply app_nil_r.
  Qed.

  Lemma firstn_prefix l q n : q <= n -> exists l', firstn n l = firstn q l ++ l'.
  Proof.
    intros H. exists (skipn q (firstn n l)).
    rewrite <- (firstn_skipn q (firstn n l)) at 1. f_equal.
    rewrite firstn_firstn. f_equal. lia.
  Qed.

  Lemma in_firstn_nth l n x : In x (firstn n l) -> exists j, j < n /\ nth_error l j = Some x.
  Proof. intros H. apply In_nth_error in H. destruct H as [j H]. exists j. eapply nth_firstn; eauto. Qed.

  Lemma nth_in_firstn l n j x : j < n -> nth_error l j = Some x -> In x (firstn n l).
  Proof. intros H1 H2. eapply nth_error_In. rewrite nth_firstn_lt; eauto. Qed.

  Lemma nodup_not_in_firstn l n i x : NoDup l -> nth_error l i = Some x -> n <= i -> ~ In x (firstn n l).
  Proof.
    intros Hn Hi Hle Hin. apply in_firstn_nth in Hin. destruct Hin as [j [Hj Hx]].
    assert (i = j); [|lia].
    eapply (proj1 (NoDup_nth_error l) Hn); [eapply nth_lt; eauto|congruence].
  Qed.

  Lemma in_firstn_mono l l' n n' x : In x (firstn n l) -> n <= n' -> In x (firstn n' (l ++ l')).
  Proof.
    intros H Hle. apply in_firstn_nth in H. destruct H as [j [Hj Hx]].
    eapply nth_in_firstn with (j := j); [lia|].
    rewrite nth_error_app1; [exact Hx|eapply nth_lt; eauto].
  Qed.

  Lemma in_firstn_le l n n' x : In x (firstn n l) -> n <= n' -> In x (firstn n' l).
  Proof. intros H Hle. rewrite <- (app_nil_r l). eapply in_firstn_mono; eauto. Qed.

  Lemma firstn_app_le l l' n : n <= length l -> firstn n (l ++ l') = firstn n l.
  Proof.
    intros H. rewrite firstn_app. replace (n - length l) with 0 by lia. cbn. apply app_nil_r.
  Qed.

  (** a slice below [b] is inside the first [b] elements *)
  Lemma in_slice_firstn x : forall a l b, In x (firstn (b - a) (skipn a l)) -> In x (firstn b l).
  Proof.
    induction a as [|a IH]; intros l b H.
    - rewrite Nat.sub_0_r in H. exact H.
    - destruct l as [|y l]; [destruct (b - S a); cbn in H; contradiction|].
      destruct b as [|b]; [cbn in H; contradiction|].
      cbn in H. cbn. right. apply IH. exact H.
  Qed.
End ListFacts.

(** ---- the durable frontier ---- *)
Definition dinv (st : nat * option nat * nat) : Prop :=
  snd st <= fst (fst st) /\ forall b, snd (fst st) = Some b -> snd st <= b /\ b < fst (fst st).

Lemma dur_step_inv st (e : io irec) : dinv st ->
  dinv (dur_step st e) /\ snd st <= snd (dur_step st e) /\ fst (fst (dur_step st e)) = S (fst (fst st)).
Proof.
  destruct st as [[pos beg] dur]. unfold dinv. cbn. intros [H1 H2].
  destruct e as [u l lo hi| |[|]|slot r| | |st| | |]; cbn.
  all: try (split; [split; [lia|intros b Hb; specialize (H2 b Hb); lia]|split; [lia|reflexivity]]).
  - split; [split; [lia|intros b Hb; inversion Hb; subst; lia]|split; [lia|reflexivity]].
  - destruct beg as [b|].
    + destruct (H2 b eq_refl). split; [split; [lia|intros b' Hb; discriminate]|split; [lia|reflexivity]].
    + split; [split; [lia|intros b' Hb; discriminate]|split; [lia|reflexivity]].
  - split; [split; [lia|intros b' Hb; discriminate]|split; [lia|reflexivity]].
Qed.

Lemma dur_fold (l : log) : forall st, dinv st ->
  dinv (fold_left dur_step l st) /\ snd st <= snd (fold_left dur_step l st)
  /\ fst (fst (fold_left dur_step l st)) = length l + fst (fst st).
Proof.
  induction l as [|e l IH]; intros st H; cbn [fold_left length].
  - split; [exact H|split; [lia|reflexivity]].
  - destruct (dur_step_inv st e H) as [H1 [H2 H3]].
    destruct (IH _ H1) as [H4 [H5 H6]]. split; [exact H4|split; [lia|]]. rewrite H6, H3. lia.
Qed.

Lemma dinv0 : dinv (0, None, 0).
Proof. unfold dinv. cbn. split; [lia|intros b H; discriminate]. Qed.

Lemma dur_scan_inv (L : log) : dinv (dur_scan L) /\ fst (fst (dur_scan L)) = length L.
Proof.
  destruct (dur_fold L _ dinv0) as [H1 [_ H3]]. split; [exact H1|]. unfold dur_scan. rewrite H3. cbn. lia.
Qed.

Lemma dur_scan_app (L L' : log) : dur_scan (L ++ L') = fold_left dur_step L' (dur_scan L).
Proof. unfold dur_scan. apply fold_left_app. Qed.

Lemma dur_scan_snoc (L : log) e : dur_scan (L ++ [e]) = dur_step (dur_scan L) e.
Proof. rewrite dur_scan_app. reflexivity. Qed.

Lemma durable_mono (L L' : log) : durable_upto L <= durable_upto (L ++ L').
Proof.
  unfold durable_upto. rewrite dur_scan_app.
  destruct (dur_fold L' _ (proj1 (dur_scan_inv L))) as [_ [H _]]. exact H.
Qed.

Lemma durable_le_length (L : log) : durable_upto L <= length L.
Proof. destruct (dur_scan_inv L) as [[H _] E]. unfold durable_upto. lia. Qed.

Definition nosync (e : io irec) : Prop :=
  match e with IoSyncBegin | IoSyncEnd _ => False | _ => True end.

Lemma nosync_scan (L : log) e : nosync e ->
  pending_begin (L ++ [e]) = pending_begin L /\ durable_upto (L ++ [e]) = durable_upto L.
Proof.
  intros H. unfold pending_begin, durable_upto. rewrite dur_scan_snoc.
  destruct (dur_scan L) as [[pos beg] dur]. destruct e; cbn in *; try tauto.
Qed.

Lemma sync_begin_scan (L : log) :
  pending_begin (L ++ [IoSyncBegin]) = Some (length L) /\ durable_upto (L ++ [IoSyncBegin]) = durable_upto L.
Proof.
  unfold pending_begin, durable_upto. rewrite dur_scan_snoc.
  pose proof (proj2 (dur_scan_inv L)) as E.
  destruct (dur_scan L) as [[pos beg] dur]. cbn in *. subst. auto.
Qed.

Lemma sync_end_scan (L : log) ok :
  pending_begin (L ++ [IoSyncEnd ok]) = None /\
  (ok = true -> forall b, pending_begin L = Some b -> durable_upto (L ++ [IoSyncEnd ok]) = b).
Proof.
  unfold pending_begin, durable_upto. rewrite dur_scan_snoc.
  destruct (dur_scan L) as [[pos beg] dur]. destruct ok; cbn; split; auto; try discriminate.
  intros _ b Hb. subst. reflexivity.
Qed.

(** ---- index writes / select / slot_get ---- *)
Lemma select_incl {T} (bs : list bool) : forall (xs : list T) x, In x (select bs xs) -> In x xs.
Proof.
  induction bs as [|b bs IH]; intros [|y xs] x H; cbn in H; try contradiction.
  destruct b; cbn in *; [destruct H as [H|H]; auto|auto].
Qed.

Lemma index_writes_in (l : log) s r : In (s, r) (index_writes l) -> In (IoIndex s r) l.
Proof.
  induction l as [|e l IH]; cbn; [auto|].
  destruct e; cbn; intros H; auto.
  destruct H as [H|H]; [inversion H; subst; auto|auto].
Qed.

Lemma slot_get_in (ws : list (nat * irec)) s : forall acc r,
  slot_get ws s acc = Some r -> acc = Some r \/ exists s', In (s', r) ws.
Proof.
  induction ws as [|[s' r'] ws IH]; intros acc r H; cbn in H; [auto|].
  apply IH in H. destruct H as [H|[s2 H]].
  - destruct (Nat.eqb s' s); [inversion H; subst; right; exists s'; cbn; auto|auto].
  - right. exists s2. cbn. auto.
Qed.

(** ---- the state directory: every file content comes from an [IoWriteNew] ---- *)
Definition file_ok (l : log) (c : option sfile) : Prop :=
  match c with None => True | Some s => In (IoWriteNew s) l end.

Lemma in_set_nth {T} (l : list T) : forall i y x, In x (set_nth l i y) -> x = y \/ In x l.
Proof.
  induction l as [|a l IH]; intros [|i] y x H; cbn in *; try contradiction.
  - destruct H; auto.
  - destruct H as [H|H]; auto. apply IH in H. tauto.
Qed.

Lemma dir_run_snoc d (l : log) e : dir_run d (l ++ [e]) = dir_step (dir_run d l) e.
Proof. unfold dir_run. rewrite fold_left_app. reflexivity. Qed.

Lemma dir_files_ok (l : log) : forall c b, In (c, b) (d_files (dir_run (dir_init None None) l)) -> file_ok l c.
Proof.
  induction l as [|e l IH] using rev_ind; intros c b H.
  - cbn in H. contradiction.
  - rewrite dir_run_snoc in H.
    assert (Hold : forall c b, In (c, b) (d_files (dir_run (dir_init None None) l)) -> file_ok (l ++ [e]) c).
    { intros c0 b0 H0. apply IH in H0. destruct c0; cbn in *; auto. apply in_app_iff. auto. }
    set (d := dir_run (dir_init None None) l) in *.
    destruct e; cbn in H; eauto.
    + apply in_app_iff in H. destruct H as [H|H]; [eauto|].
      cbn in H. destruct H as [H|[]]. inversion H; subst. exact I.
    + destruct (d_vnew d); [|eauto]. cbn in H. apply in_set_nth in H. destruct H as [H|H]; [|eauto].
      inversion H; subst. cbn. apply in_app_iff. right. cbn. auto.
    + destruct (d_vnew d) as [f|]; [|eauto]. cbn in H. apply in_set_nth in H. destruct H as [H|H]; [|eauto].
      inversion H; subst.
      destruct (nth_in_or_default f (d_files d) (None, false)) as [Hn|Hn].
      * destruct (nth f (d_files d) (None, false)) as [c0 b0] eqn:E. cbn. eauto.
      * rewrite Hn. exact I.
    + destruct (d_vnew d); eauto.
Qed.

Lemma file_content_cases d g f :
  file_content d g f = sfile_empty \/ exists b, In (Some (file_content d g f), b) (d_files d).
Proof.
  assert (W : forall c b, In (c, b) (d_files d) ->
            match c with Some s => s | None => sfile_empty end = sfile_empty \/
            exists b', In (Some (match c with Some s => s | None => sfile_empty end), b') (d_files d)).
  { intros [s|] b H; [right; eauto|left; reflexivity]. }
  unfold file_content. destruct (nth_error (d_files d) f) as [[c [|]]|] eqn:E; [| |auto].
  - apply nth_error_In in E. eapply W; eauto.
  - apply nth_error_In in E. destruct g as [|[|j]]; [eapply W; eauto|auto|].
    destruct (j <? f); [|eapply W; eauto].
    destruct (nth_error (d_files d) j) as [[c' b']|] eqn:E'; [|eapply W; eauto].
    apply nth_error_In in E'. eapply W; eauto.
Qed.

Lemma crash_medium_index (base : medium irec) (l : log) ch :
  m_index (crash_medium base l ch) = m_index base ++ select (c_index ch) (index_writes l).
Proof. unfold crash_medium. destruct (dir_crash _ _ _). reflexivity. Qed.

Lemma crash_medium_state (l : log) ch s :
  m_state (crash_medium medium_empty l ch) = Some s ->
  s = sfile_empty \/ In (IoWriteNew s) l.
Proof.
  unfold crash_medium. destruct (dir_crash _ _ _) as [st nw] eqn:E. cbn [m_state]. intros ->.
  unfold dir_crash in E. apply (f_equal fst) in E. cbn [fst] in E. rename E into E1.
  destruct (snd _) as [f|]; [|discriminate]. injection E1 as E1. subst s.
  destruct (file_content_cases (dir_run (dir_init None None) l) (c_garb ch) f) as [H|[b H]]; [auto|].
  right. apply dir_files_ok in H. exact H.
Qed.

(** ---- the restarted list: its seeds are seeds of the state file ---- *)
Definition st_seeds (st : pstate) : list N := concat (map bs_seeds (snd st)).

Lemma restore_seeds_incl alloc init : forall n bl seeds lasts,
  restore_blocks alloc init n = (bl, seeds, lasts) ->
  forall s, In s seeds -> In s (concat (map bs_seeds init)).
Proof.
  induction init as [|bs rest IH]; intros n bl seeds lasts H s Hs; cbn in H.
  - inversion H; subst. contradiction.
  - destruct (alloc _ _); [|inversion H; subst; contradiction].
    destruct (restore_blocks alloc rest (S n)) as [[bl' seeds'] lasts'] eqn:E.
    inversion H; subst. cbn. apply in_app_iff. apply in_app_iff in Hs.
    destruct Hs; [auto|right; eapply IH; eauto].
Qed.

Lemma pbl_new_seeds alloc oldest init s :
  In s (epochSeeds (fst (pbl_new alloc oldest init))) -> In s (concat (map bs_seeds init)).
Proof.
  unfold pbl_new. destruct (restore_blocks alloc init 0) as [[bl seeds] lasts] eqn:E. cbn.
  eapply restore_seeds_incl; eauto.
Qed.

Lemma resolve_ref_seed p cut e bfl rs i : resolve_ref p cut e bfl rs = Some i -> In rs (epochSeeds p).
Proof.
  unfold resolve_ref, ref_to_index.
  destruct (_ <=? _)%N; [discriminate|].
  destruct (nth_error (epochLast p) _); [|discriminate].
  destruct (nth_error (epochSeeds p) _) as [sd|] eqn:E; [|discriminate].
  destruct (_ <? _)%Z; [discriminate|]. destruct (_ <? cut); [discriminate|].
  destruct (N.eqb_spec sd rs); [|discriminate]. subst. intros _. eapply nth_error_In; eauto.
Qed.

Lemma restart_seeds geo st rs : In rs (epochSeeds (fst (restart geo st))) ->
  exists s, st = Some s /\ In rs (st_seeds (fst s)).
Proof.
  unfold restart. destruct st as [[[oldest bl] h]|].
  - intros H. apply pbl_new_seeds in H. eexists. split; [reflexivity|exact H].
  - intros H. apply pbl_new_seeds in H. cbn in H. contradiction.
Qed.

(** ---- GetPersistentState: only seeds of synchronized epochs ---- *)
Lemma gps_incl s : forall bs lastE synced seeds r, gps_loop bs lastE synced seeds = Ok r ->
  In s (concat (map bs_seeds r)) -> In s (firstn synced seeds).
Proof.
  induction bs as [|b bs IH]; intros lastE synced seeds r H Hs; cbn [gps_loop] in H.
  - destruct (lastE <? synced) eqn:E0 in H; [discriminate|]. inversion H; subst. contradiction.
  - destruct (lastE <? synced) eqn:E0 in H; [|inversion H; subst; contradiction].
    destruct (length seeds <? _) eqn:E1 in H; [discriminate|].
    destruct (gps_loop bs _ synced seeds) as [r'|] eqn:E; [|discriminate]. cbn in H.
    inversion H; subst. cbn in Hs. apply in_app_iff in Hs. destruct Hs as [Hs|Hs].
    + apply in_slice_firstn in Hs. eapply in_firstn_le; [exact Hs|]. apply Nat.le_min_r.
    + eapply IH; eauto.
Qed.

Lemma gps_seeds p p' st s : get_persistent_state p = Ok (p', st) -> In s (st_seeds st) ->
  In s (firstn (synchronizedEpochs p) (epochSeeds p)).
Proof.
  unfold get_persistent_state. destruct (gps_loop _ _ _ _) as [bl|] eqn:E; [|discriminate].
  cbn. intros H. inversion H; subst. unfold st_seeds. cbn. eapply gps_incl; eauto.
Qed.

(** ---- uploads ---- *)
Definition rec_ok (ups : list upinfo) (r : irec) : Prop :=
  exists up, nth_error ups (r_up r) = Some up /\ up_key up = r_key r /\ up_off up = r_off r /\
    up_size up = r_size r /\ up_state up = UpFin true /\ up_issued up = up_size up.

(** successfully finalized uploads are never touched again *)
Definition ups_ext (ups ups' : list upinfo) : Prop :=
  forall j u, nth_error ups j = Some u -> up_state u = UpFin true -> nth_error ups' j = Some u.

Definition UI (ups : list upinfo) : Prop :=
  forall k u, nth_error ups k = Some u -> up_state u = UpDone true -> up_issued u = up_size u.

Lemma rec_ok_ext ups ups' r : ups_ext ups ups' -> rec_ok ups r -> rec_ok ups' r.
Proof.
  intros E [up [H1 [H2 [H3 [H4 [H5 H6]]]]]]. exists up. split; [apply E; auto|auto].
Qed.

Lemma rec_ok_same ups r r0 : r_up r = r_up r0 -> r_key r = r_key r0 -> r_off r = r_off r0 ->
  r_size r = r_size r0 -> rec_ok ups r0 -> rec_ok ups r.
Proof.
  intros E1 E2 E3 E4 [up H]. exists up. rewrite E1, E2, E3, E4. exact H.
Qed.

Lemma nth_upd_same {T} (l : list T) f : forall k u, nth_error l k = Some u ->
  nth_error (upd_nth l k f) k = Some (f u).
Proof.
  induction l as [|a l IH]; intros [|k] u H; cbn in *; try discriminate.
  - inversion H; subst. reflexivity.
  - apply IH. exact H.
Qed.

Lemma nth_upd_other {T} (l : list T) f : forall k j, j <> k -> nth_error (upd_nth l k f) j = nth_error l j.
Proof.
  induction l as [|a l IH]; intros [|k] [|j] H; cbn in *; try reflexivity; try congruence.
  apply IH. congruence.
Qed.

Lemma ups_ext_refl ups : ups_ext ups ups.
Proof. intros j u H _. exact H. Qed.

Lemma ups_ext_app ups x : ups_ext ups (ups ++ [x]).
Proof. intros j u H _. apply nth_snoc_old. exact H. Qed.

Lemma ups_ext_upd ups k u f : nth_error ups k = Some u -> up_state u <> UpFin true ->
  ups_ext ups (upd_nth ups k f).
Proof.
  intros Hk Hs j v Hj Hv. destruct (Nat.eq_dec j k) as [->|Hne].
  - congruence.
  - rewrite nth_upd_other by exact Hne. exact Hj.
Qed.

Lemma UI_app ups x : UI ups -> up_state x <> UpDone true -> UI (ups ++ [x]).
Proof.
  intros H Hx k u Hk Hs. apply nth_snoc in Hk. destruct Hk as [[_ Hk]|[_ ->]]; [eauto|congruence].
Qed.

Lemma UI_upd ups k u f : UI ups -> nth_error ups k = Some u ->
  (up_state (f u) = UpDone true -> up_issued (f u) = up_size (f u)) -> UI (upd_nth ups k f).
Proof.
  intros H Hk Hf j v Hj Hs. destruct (Nat.eq_dec j k) as [->|Hne].
  - rewrite (nth_upd_same _ _ _ _ Hk) in Hj. inversion Hj; subst. auto.
  - rewrite nth_upd_other in Hj by exact Hne. eauto.
Qed.

(** ---- the log invariants ---- *)
Definition LR (ups : list upinfo) (L : log) : Prop :=
  forall pos slot r, nth_error L pos = Some (IoIndex slot r) ->
    rec_ok ups r /\ forall q l lo hi, nth_error L q = Some (IoData (r_up r) l lo hi) -> q < pos.
Definition LT (ups : list upinfo) (tbl : list (nat * irec)) : Prop :=
  forall slot r, In (slot, r) tbl -> rec_ok ups r.
Definition LC (seeds : list N) (nc ca : nat) (L : log) : Prop :=
  ca <= length L /\
  forall pos slot r, nth_error L pos = Some (IoIndex slot r) -> In (r_seed r) (firstn nc seeds) -> pos < ca.
Definition LY (seeds : list N) (ns : nat) (L : log) : Prop :=
  forall pos slot r, nth_error L pos = Some (IoIndex slot r) -> In (r_seed r) (firstn ns seeds) ->
    pos < durable_upto L.
Definition LW (seeds : list N) (ns : nat) (L : log) : Prop :=
  forall q st h s, nth_error L q = Some (IoWriteNew (st, h)) -> In s (st_seeds st) ->
    In s (firstn ns seeds) /\
    forall pos slot r, nth_error L pos = Some (IoIndex slot r) -> r_seed r = s -> pos < durable_upto (firstn q L).

Record LI (L : log) (ups : list upinfo) (tbl : list (nat * irec)) (seeds : list N) (nc ca ns : nat) : Prop :=
  mkLI {
    li_R : LR ups L;
    li_T : LT ups tbl;
    li_C : LC seeds nc ca L;
    li_Y : LY seeds ns L;
    li_W : LW seeds ns L
  }.

Lemma LI_ups L ups ups' tbl seeds nc ca ns : ups_ext ups ups' ->
  LI L ups tbl seeds nc ca ns -> LI L ups' tbl seeds nc ca ns.
Proof.
  intros E [HR HT HC HY HW]. constructor; auto.
  - intros pos slot r H. destruct (HR _ _ _ H) as [H1 H2]. split; [eapply rec_ok_ext; eauto|exact H2].
  - intros slot r H. eapply rec_ok_ext; eauto.
Qed.

Lemma LI_seeds L ups tbl seeds x nc ca ns : nc <= length seeds -> ns <= nc ->
  LI L ups tbl seeds nc ca ns -> LI L ups tbl (seeds ++ [x]) nc ca ns.
Proof.
  intros H1 H2 [HR HT HC HY HW]. constructor; auto.
  - unfold LC in *. rewrite firstn_app_le by lia. exact HC.
  - unfold LY in *. rewrite firstn_app_le by lia. exact HY.
  - unfold LW in *. rewrite firstn_app_le by lia. exact HW.
Qed.

Definition other_ok (ups : list upinfo) (e : io irec) : Prop :=
  match e with
  | IoData u _ _ _ => forall up, nth_error ups u = Some up -> up_state up <> UpFin true
  | IoIndex _ _ => False
  | IoWriteNew _ => False
  | _ => True
  end.

Lemma LR_app_noindex ups L e :
  (forall s r, e <> IoIndex s r) ->
  (forall u l lo hi, e = IoData u l lo hi -> forall up, nth_error ups u = Some up -> up_state up <> UpFin true) ->
  LR ups L -> LR ups (L ++ [e]).
Proof.
  intros Hni Hd HR pos slot r H. apply nth_snoc in H. destruct H as [[Hp H]|[_ H]]; [|symmetry in H; eapply Hni in H; contradiction].
  destruct (HR _ _ _ H) as [H1 H2]. split; [exact H1|].
  intros q l lo hi Hq. apply nth_snoc in Hq. destruct Hq as [[_ Hq]|[_ Hq]]; [eauto|].
  exfalso. destruct H1 as [up [Hu [_ [_ [_ [Hs _]]]]]]. symmetry in Hq. eapply Hd; eauto.
Qed.

Lemma LC_app_noindex seeds nc ca L e : (forall s r, e <> IoIndex s r) -> LC seeds nc ca L -> LC seeds nc ca (L ++ [e]).
Proof.
  intros Hni [H1 H2]. split; [rewrite app_length; lia|].
  intros pos slot r H Hin. apply nth_snoc in H. destruct H as [[_ H]|[_ H]]; [eauto|].
  symmetry in H. eapply Hni in H. contradiction.
Qed.

Lemma LY_app_noindex seeds ns L e : (forall s r, e <> IoIndex s r) -> LY seeds ns L -> LY seeds ns (L ++ [e]).
Proof.
  intros Hni HY pos slot r H Hin. apply nth_snoc in H. destruct H as [[_ H]|[_ H]].
  - pose proof (durable_mono L [e]). specialize (HY _ _ _ H Hin). lia.
  - symmetry in H. eapply Hni in H. contradiction.
Qed.

Lemma LW_app_other seeds ns L e : (forall s r, e <> IoIndex s r) -> (forall st, e <> IoWriteNew st) ->
  LW seeds ns L -> LW seeds ns (L ++ [e]).
Proof.
  intros Hni Hnw HW q st h s H Hs. apply nth_snoc in H. destruct H as [[Hq H]|[_ H]];
    [|symmetry in H; eapply Hnw in H; contradiction].
  destruct (HW _ _ _ _ H Hs) as [H1 H2]. split; [exact H1|].
  intros pos slot r Hp Hr. rewrite firstn_snoc by lia.
  apply nth_snoc in Hp. destruct Hp as [[_ Hp]|[_ Hp]]; [eauto|].
  symmetry in Hp. eapply Hni in Hp. contradiction.
Qed.

Lemma LI_app_other L ups tbl seeds nc ca ns e : other_ok ups e ->
  LI L ups tbl seeds nc ca ns -> LI (L ++ [e]) ups tbl seeds nc ca ns.
Proof.
  intros Ho [HR HT HC HY HW].
  assert (Hni : forall s r, e <> IoIndex s r) by (intros s r ->; exact Ho).
  assert (Hnw : forall st, e <> IoWriteNew st) by (intros st ->; exact Ho).
  constructor; auto.
  - apply LR_app_noindex; auto. intros u l lo hi ->. exact Ho.
  - apply LC_app_noindex; auto.
  - apply LY_app_noindex; auto.
  - apply LW_app_other; auto.
Qed.

Lemma LI_app_write L ups tbl seeds nc ca ns st h :
  (forall s, In s (st_seeds st) -> In s (firstn ns seeds)) ->
  LI L ups tbl seeds nc ca ns -> LI (L ++ [IoWriteNew (st, h)]) ups tbl seeds nc ca ns.
Proof.
  intros Hst [HR HT HC HY HW].
  assert (Hni : forall s r, IoWriteNew (st, h) <> @IoIndex irec s r) by (intros; discriminate).
  constructor; auto.
  - apply LR_app_noindex; auto. intros; discriminate.
  - apply LC_app_noindex; auto.
  - apply LY_app_noindex; auto.
  - intros q st' h' s H Hs. apply nth_snoc in H. destruct H as [[Hq H]|[Hq H]].
    + destruct (HW _ _ _ _ H Hs) as [H1 H2]. split; [exact H1|].
      intros pos slot r Hp Hr. rewrite firstn_snoc by lia.
      apply nth_snoc in Hp. destruct Hp as [[_ Hp]|[_ Hp]]; [eauto|discriminate].
    + inversion H; subst st' h'. split; [auto|].
      intros pos slot r Hp Hr. subst q. rewrite firstn_snoc by lia. rewrite firstn_all.
      apply nth_snoc in Hp. destruct Hp as [[_ Hp]|[_ Hp]]; [|discriminate].
      eapply HY; eauto. subst s. auto.
Qed.

Lemma LI_app_index L ups tbl seeds nc ca ns slot r :
  rec_ok ups r -> ~ In (r_seed r) (firstn nc seeds) -> ns <= nc ->
  LI L ups tbl seeds nc ca ns -> LI (L ++ [IoIndex slot r]) ups (tbl ++ [(slot, r)]) seeds nc ca ns.
Proof.
  intros Hok Hnin Hle [HR HT HC HY HW].
  assert (Hnin' : ~ In (r_seed r) (firstn ns seeds)) by (intros H; apply Hnin; eapply in_firstn_le; eauto).
  destruct (nosync_scan L (IoIndex slot r) I) as [_ Ed].
  constructor.
  - intros pos slot' r' H. apply nth_snoc in H. destruct H as [[Hp H]|[Hp H]].
    + destruct (HR _ _ _ H) as [H1 H2]. split; [exact H1|].
      intros q l lo hi Hq. apply nth_snoc in Hq. destruct Hq as [[_ Hq]|[_ Hq]]; [eauto|discriminate].
    + inversion H; subst slot' r'. split; [exact Hok|].
      intros q l lo hi Hq. apply nth_snoc in Hq. destruct Hq as [[Hq _]|[_ Hq]]; [lia|discriminate].
  - intros slot' r' H. apply in_app_iff in H. destruct H as [H|[H|[]]]; [eauto|].
    inversion H; subst. exact Hok.
  - destruct HC as [H1 H2]. split; [rewrite app_length; lia|].
    intros pos slot' r' H Hin. apply nth_snoc in H. destruct H as [[_ H]|[_ H]]; [eauto|].
    inversion H; subst. contradiction.
  - intros pos slot' r' H Hin. rewrite Ed. apply nth_snoc in H. destruct H as [[_ H]|[_ H]]; [eauto|].
    inversion H; subst. contradiction.
  - intros q st h s H Hs. apply nth_snoc in H. destruct H as [[Hq H]|[_ H]]; [|discriminate].
    destruct (HW _ _ _ _ H Hs) as [H1 H2]. split; [exact H1|].
    intros pos slot' r' Hp Hr. rewrite firstn_snoc by lia.
    apply nth_snoc in Hp. destruct Hp as [[_ Hp]|[_ Hp]]; [eauto|].
    inversion Hp; subst. contradiction.
Qed.

Lemma LI_notify L ups tbl seeds nc ca ns :
  LI L ups tbl seeds nc ca ns -> LI L ups tbl seeds (length seeds) (length L) ns.
Proof.
  intros [HR HT HC HY HW]. constructor; auto.
  split; [lia|]. intros pos slot r H _. eapply nth_lt; eauto.
Qed.

Lemma LI_complete L ups tbl seeds nc ca ns : ns <= nc -> ca <= durable_upto L ->
  LI L ups tbl seeds nc ca ns -> LI L ups tbl seeds nc ca nc.
Proof.
  intros Hle Hd [HR HT HC HY HW]. constructor; auto.
  - intros pos slot r H Hin. destruct HC as [_ HC]. specialize (HC _ _ _ H Hin). lia.
  - intros q st h s H Hs. destruct (HW _ _ _ _ H Hs) as [H1 H2]. split; [|exact H2].
    eapply in_firstn_le; eauto.
Qed.

(** ---- the system / ghost invariants ---- *)
Definition pclause (sp : ppc) (L : log) (ca : nat) : Prop :=
  match sp with
  | PSyncing _ _ => exists b, pending_begin L = Some b /\ ca <= b
  | PSyncRet _ _ => pending_begin L = None /\ ca <= durable_upto L
  | _ => pending_begin L = None
  end.

Definition in_flight (s : sys) (st : pstate) : Prop :=
  s_r s = RW (WWriting st) \/ exists k, s_p s = PW k (WWriting st).

Record SI (s : sys) (L : log) (seeds : list N) (nc ca ns : nat) : Prop := mkSI {
  si_inv1 : inv1 s;
  si_nodup : NoDup seeds;
  si_le1 : ns <= nc;
  si_le2 : nc <= length seeds;
  si_seeds : exists pre, seeds = pre ++ epochSeeds (s_pbl s) /\
      length pre + synchronizingEpochs (s_pbl s) <= Nat.max nc (length pre) /\
      length pre + synchronizedEpochs (s_pbl s) <= Nat.max ns (length pre);
  si_J : length seeds = nc -> synchronizingEpochs (s_pbl s) = length (epochSeeds (s_pbl s));
  si_P : pclause (s_p s) L ca;
  si_W : forall st, in_flight s st -> forall x, In x (st_seeds st) -> In x (firstn ns seeds)
}.

Definition core_eq (p p' : pbl) : Prop :=
  epochSeeds p' = epochSeeds p /\ synchronizingEpochs p' = synchronizingEpochs p /\
  synchronizedEpochs p' = synchronizedEpochs p.

Lemma core_eq_refl p : core_eq p p.
Proof. repeat split. Qed.

Lemma synced_in_seeds (pre es : list N) synced ns x :
  length pre + synced <= Nat.max ns (length pre) -> In x (firstn synced es) -> In x (firstn ns (pre ++ es)).
Proof.
  intros H Hin. apply in_firstn_nth in Hin. destruct Hin as [j [Hj Hx]].
  eapply nth_in_firstn with (j := length pre + j); [lia|].
  rewrite nth_error_app2 by lia. replace (length pre + j - length pre) with j by lia. exact Hx.
Qed.

Lemma SI_sys s s' L L' seeds nc ca ns : SI s L seeds nc ca ns -> inv1 s' ->
  core_eq (s_pbl s) (s_pbl s') -> pclause (s_p s') L' ca ->
  (forall st, in_flight s' st -> in_flight s st \/ exists p', get_persistent_state (s_pbl s) = Ok (p', st)) ->
  SI s' L' seeds nc ca ns.
Proof.
  intros [H1 H2 H3 H4 H5 H6 H7 H8] I' [E1 [E2 E3]] HP HW. constructor; auto.
  - rewrite E1, E2, E3. exact H5.
  - rewrite E1, E2. exact H6.
  - intros st Hf x Hx. destruct (HW st Hf) as [Hf'|[p' Hg]]; [eauto|].
    destruct H5 as [pre [Hs [_ Hc]]]. rewrite Hs. eapply synced_in_seeds; [exact Hc|].
    eapply gps_seeds; eauto.
Qed.

Lemma SI_log s L L' seeds nc ca ns : pending_begin L' = pending_begin L -> durable_upto L' = durable_upto L ->
  SI s L seeds nc ca ns -> SI s L' seeds nc ca ns.
Proof.
  intros E1 E2 [H1 H2 H3 H4 H5 H6 H7 H8]. constructor; auto.
  unfold pclause in *. rewrite E1, E2. exact H7.
Qed.

Lemma SI_pop s s' L seeds nc ca ns ec : SI s L seeds nc ca ns -> inv1 s' ->
  s_r s' = s_r s -> s_p s' = s_p s ->
  ec <= length (epochSeeds (s_pbl s)) ->
  epochSeeds (s_pbl s') = skipn ec (epochSeeds (s_pbl s)) ->
  synchronizingEpochs (s_pbl s') = (if synchronizingEpochs (s_pbl s) <=? ec then 0 else synchronizingEpochs (s_pbl s) - ec) ->
  synchronizedEpochs (s_pbl s') = (if synchronizedEpochs (s_pbl s) <=? ec then 0 else synchronizedEpochs (s_pbl s) - ec) ->
  SI s' L seeds nc ca ns.
Proof.
  intros [H1 H2 H3 H4 H5 H6 H7 H8] I' Er Ep Hec E1 E2 E3. constructor; auto.
  - destruct H5 as [pre [Hs [Ha Hb]]]. exists (pre ++ firstn ec (epochSeeds (s_pbl s))).
    rewrite E1, E2, E3, app_length, firstn_length, Nat.min_l by exact Hec.
    split; [rewrite <- app_assoc, firstn_skipn; exact Hs|].
    destruct (Nat.leb_spec (synchronizingEpochs (s_pbl s)) ec);
      destruct (Nat.leb_spec (synchronizedEpochs (s_pbl s)) ec); lia.
  - intros Hn. specialize (H6 Hn). rewrite E1, E2, skipn_length.
    destruct (Nat.leb_spec (synchronizingEpochs (s_pbl s)) ec); lia.
  - rewrite Ep. exact H7.
  - intros st Hf. apply H8. unfold in_flight in *. rewrite Er, Ep in Hf. exact Hf.
Qed.

Lemma NoDup_snoc {A} (l : list A) x : NoDup l -> ~ In x l -> NoDup (l ++ [x]).
Proof.
  intros H Hx. induction H as [|y l Hy H IH]; cbn.
  - constructor; [apply in_nil|constructor].
  - constructor.
    + intros Hin. apply in_app_iff in Hin. destruct Hin as [Hin|[Hin|[]]]; [auto|]. subst. apply Hx. cbn. auto.
    + apply IH. intros Hin. apply Hx. cbn. auto.
Qed.

Lemma SI_finalize s s' L seeds seeds' nc ca ns seed : SI s L seeds nc ca ns -> inv1 s' ->
  s_r s' = s_r s -> s_p s' = s_p s ->
  synchronizingEpochs (s_pbl s') = synchronizingEpochs (s_pbl s) ->
  synchronizedEpochs (s_pbl s') = synchronizedEpochs (s_pbl s) ->
  (epochSeeds (s_pbl s') = epochSeeds (s_pbl s) /\ seeds' = seeds) \/
  (epochSeeds (s_pbl s') = epochSeeds (s_pbl s) ++ [seed] /\ seeds' = seeds ++ [seed] /\ ~ In seed seeds) ->
  SI s' L seeds' nc ca ns.
Proof.
  intros [H1 H2 H3 H4 H5 H6 H7 H8] I' Er Ep E2 E3 [[E1 ->]|[E1 [-> Hf]]].
  - constructor; auto.
    + rewrite E1, E2, E3. exact H5.
    + rewrite E1, E2. exact H6.
    + rewrite Ep. exact H7.
    + intros st Hfl. apply H8. unfold in_flight in *. rewrite Er, Ep in Hfl. exact Hfl.
  - constructor; auto.
    + apply NoDup_snoc; auto.
    + rewrite app_length. cbn. lia.
    + destruct H5 as [pre [Hs [Ha Hb]]]. exists pre. rewrite E1, E2, E3. split; [|lia].
      rewrite Hs, app_assoc. reflexivity.
    + rewrite app_length. cbn. lia.
    + rewrite Ep. exact H7.
    + intros st Hfl x Hx. eapply in_firstn_mono; [|apply Nat.le_refl].
      eapply H8; eauto. unfold in_flight in *. rewrite Er, Ep in Hfl. exact Hfl.
Qed.

(** ---- what the block-list operations do to seeds and sync counters ---- *)
Lemma gps_core p p' st : get_persistent_state p = Ok (p', st) -> core_eq p p'.
Proof.
  unfold get_persistent_state. destruct (gps_loop _ _ _ _); [|discriminate].
  cbn. intros H; inversion H; subst. repeat split.
Qed.

Lemma nsw_core p p' : notify_state_written p = Ok p' -> core_eq p p'.
Proof.
  unfold notify_state_written. destruct (_ <? _); [discriminate|].
  destruct (skipn _ _); [destruct (nc_block _ _)|]; intros H; inversion H; subst; repeat split.
Qed.

Lemma push_core alloc p : core_eq p (fst (push_back alloc p)).
Proof.
  unfold push_back. destruct (closedForWriting p); [apply core_eq_refl|].
  destruct alloc; [|apply core_eq_refl]. repeat split.
Qed.

Lemma pop_core p p' : pop_front p = Ok p' ->
  exists ec, ec <= length (epochSeeds p) /\ epochSeeds p' = skipn ec (epochSeeds p) /\
    synchronizingEpochs p' = (if synchronizingEpochs p <=? ec then 0 else synchronizingEpochs p - ec) /\
    synchronizedEpochs p' = (if synchronizedEpochs p <=? ec then 0 else synchronizedEpochs p - ec).
Proof.
  unfold pop_front. destruct (blocks p) as [|b rest]; [discriminate|].
  destruct (nc_unblock _ _) as [[rw h1]|]; [|discriminate]. cbn [obind].
  destruct (Nat.ltb_spec (length (epochSeeds p)) (b_epochs b)); [discriminate|]. cbn [orb].
  destruct (_ <? _); [discriminate|].
  destruct (_ =? _); [destruct (nc_block _ _)|]; intros Hx; inversion Hx; subst; cbn;
    exists (b_epochs b); repeat split; auto.
Qed.

Lemma put_finalize_core tok blk size seed p p' fr : pbl_inv p ->
  put_finalize tok blk size seed p = Ok (p', fr) ->
  synchronizingEpochs p' = synchronizingEpochs p /\ synchronizedEpochs p' = synchronizedEpochs p /\
  ((epochSeeds p' = epochSeeds p /\ forall o, fr = FinOk o -> length (epochSeeds p) <> synchronizingEpochs p) \/
   epochSeeds p' = epochSeeds p ++ [seed]) /\
  (forall o, fr = FinOk o -> blk <> None).
Proof.
  intros I. unfold put_finalize.
  assert (T : forall q, (q, fr) = (p', fr) -> q = p') by (intros q Hq; inversion Hq; auto).
  destruct tok as [|abs].
  { intros H; inversion H; subst. repeat split; auto; try (left; split; auto); intros; discriminate. }
  destruct blk as [off|].
  2:{ intros H; inversion H; subst. repeat split; auto; try (left; split; auto); intros; discriminate. }
  destruct (closedForWriting p).
  { intros H; inversion H; subst. repeat split; auto; try (left; split; auto); intros; discriminate. }
  destruct (abs <? totalReleased p).
  { intros H; inversion H; subst. repeat split; auto; try (left; split; auto); intros; discriminate. }
  destruct (_ <=? _); [discriminate|].
  rewrite (i_len _ I).
  destruct (Nat.eqb_spec (length (epochSeeds p)) (synchronizingEpochs p)) as [He|Hne].
  - cbn [obind]. destruct (nc_unblock _ _) as [[pw h1]|]; [|discriminate]. cbn [obind].
    intros H; inversion H; subst. cbn. repeat split; auto; discriminate.
  - destruct (length (epochSeeds p)) as [|n'] eqn:El; [discriminate|].
    destruct (nth_error _ _) as [lastAbs|]; [|discriminate]. cbn [obind].
    destruct (lastAbs <? abs).
    + destruct (nc_unblock _ _) as [[pw h1]|]; [|discriminate]. cbn [obind].
      intros H; inversion H; subst. cbn. repeat split; auto; discriminate.
    + intros H; inversion H; subst. cbn. repeat split; auto; try discriminate.
Qed.

Lemma wstep_facts cfg me w a s s1 w' : wstep cfg me w a s = Some (Ok (s1, w')) ->
  core_eq (s_pbl s) (s_pbl s1) /\ s_r s1 = s_r s /\ s_p s1 = s_p s /\
  forall st, w' = Some (WWriting st) -> exists p', get_persistent_state (s_pbl s) = Ok (p', st).
Proof.
  unfold wstep. destruct w as [| |st0| |dl].
  - destruct (s_store s); [discriminate|]. intros H; inversion H; subst. cbn.
    repeat split; auto. intros; discriminate.
  - destruct (get_persistent_state (s_pbl s)) as [[p' st]|] eqn:E; [|discriminate].
    intros H; inversion H; subst. cbn. split; [eapply gps_core; eauto|]. repeat split; auto.
    intros st0 H0. inversion H0; subst. eauto.
  - destruct (a_ok a); intros H; inversion H; subst; cbn; repeat split; auto; intros; discriminate.
  - destruct (notify_state_written (s_pbl s)) as [p'|] eqn:E; [|discriminate].
    intros H; inversion H; subst. cbn. split; [eapply nsw_core; eauto|]. repeat split; auto.
    intros; discriminate.
  - destruct (_ <=? _)%N; [|discriminate]. intros H; inversion H; subst.
    repeat split; auto. intros; discriminate.
Qed.

Lemma rstep_facts cfg a s s' : rstep cfg a s = Some (Ok s') ->
  core_eq (s_pbl s) (s_pbl s') /\ s_p s' = s_p s /\
  forall st, s_r s' = RW (WWriting st) -> exists p', get_persistent_state (s_pbl s) = Ok (p', st).
Proof.
  unfold rstep. destruct (s_r s) as [|ch|w].
  - intros H; inversion H; subst. cbn. repeat split; auto. intros; discriminate.
  - destruct (is_closed _ _); [|discriminate]. intros H; inversion H; subst. cbn.
    repeat split; auto. intros; discriminate.
  - destruct (wstep cfg TR w a s) as [[[s1 [w'|]]|]|] eqn:E; try discriminate.
    + destruct (wstep_facts _ _ _ _ _ _ _ E) as [H1 [H2 [H3 H4]]].
      intros H; inversion H; subst. cbn. repeat split; auto; try apply H1.
      intros st Hst. inversion Hst; subst. eauto.
    + destruct (wstep_facts _ _ _ _ _ _ _ E) as [H1 [H2 [H3 H4]]].
      intros H; inversion H; subst. cbn. repeat split; auto; try apply H1. intros; discriminate.
Qed.

Lemma nsc_fields p : epochSeeds (notify_sync_completed p) = epochSeeds p /\
  synchronizingEpochs (notify_sync_completed p) = synchronizingEpochs p /\
  synchronizedEpochs (notify_sync_completed p) = synchronizingEpochs p.
Proof.
  unfold notify_sync_completed. destruct (_ =? _); [destruct (nc_block _ _)|]; cbn; auto.
Qed.

(** ---- one step of the put loop ---- *)
Ltac sproj := cbn [s_pbl s_p s_r with_p with_pbl with_fire notify_sync_starting epochSeeds
                   synchronizingEpochs synchronizedEpochs pclause].
Ltac tp_simple HS HL Ep :=
  split; [eapply SI_sys;
          [exact HS|assumption|apply core_eq_refl
          |let HP := fresh "HP" in pose proof (si_P _ _ _ _ _ _ HS) as HP; rewrite Ep in HP; exact HP
          |let st := fresh "st" in let Hf := fresh "Hf" in let k := fresh "k" in
           intros st [Hf|[k Hf]]; [left; left; exact Hf|discriminate Hf]]
         |exact HL].

Lemma tp_step_inv cfg a s s' L ups tbl seeds nc ca ns :
  pstep cfg a s = Some (Ok s') -> inv1 s' -> SI s L seeds nc ca ns -> LI L ups tbl seeds nc ca ns ->
  SI s' (if p_syncing s then L ++ [IoSyncEnd (a_ok a)] else if p_syncing s' then L ++ [IoSyncBegin] else L)
        seeds (if p_notifies s then length seeds else nc) (if p_notifies s then length L else ca)
        (if p_completes s then nc else ns) /\
  LI (if p_syncing s then L ++ [IoSyncEnd (a_ok a)] else if p_syncing s' then L ++ [IoSyncBegin] else L)
     ups tbl seeds (if p_notifies s then length seeds else nc) (if p_notifies s then length L else ca)
     (if p_completes s then nc else ns).
Proof.
  intros Hs I' HS HL. unfold pstep in Hs. unfold p_notifies, p_completes.
  change (p_syncing s) with (match s_p s with PSyncing _ _ => true | _ => false end).
  destruct (s_p s) as [|ch|ch|dl|keep|keep final|keep final|keep final dl|keep w|] eqn:Ep.
  - (* PStart *) inversion Hs; subst s'. cbn. tp_simple HS HL Ep.
  - (* PSelect *) destruct (is_closed _ _); inversion Hs; subst s'; cbn; tp_simple HS HL Ep.
  - (* PIdle *)
    destruct (s_cancel s && _); [|destruct (is_closed _ _); [|discriminate]];
      inversion Hs; subst s'; cbn; tp_simple HS HL Ep.
  - (* PTimer *)
    destruct (s_cancel s && _); [|destruct (_ && _)%bool; [|discriminate]];
      inversion Hs; subst s'; cbn; tp_simple HS HL Ep.
  - (* PNotify *)
    inversion Hs; subst s'. cbn.
    destruct (sync_begin_scan L) as [Eb Ed].
    split.
    + destruct HS as [H1 H2 H3 H4 H5 H6 H7 H8]. constructor; cbn; auto; try lia.
      * destruct H5 as [pre [Hx [Ha Hb]]]. exists pre. split; [exact Hx|].
        pose proof (f_equal (@length _) Hx) as Hlen. rewrite app_length in Hlen.
        split; [|exact Hb]. lia.
      * exists (length L). split; [exact Eb|lia].
      * intros st [Hf|[k Hf]]; [|discriminate Hf]. apply H8. left. exact Hf.
    + apply LI_app_other; [exact I|]. eapply LI_notify; eauto.
  - (* PSyncing *)
    pose proof (si_P _ _ _ _ _ _ HS) as HP. rewrite Ep in HP. destruct HP as [b [Hb Hc]].
    destruct (sync_end_scan L (a_ok a)) as [En Ed].
    split; [|apply LI_app_other; [exact I|exact HL]].
    destruct (a_ok a) eqn:Ea; inversion Hs; subst s'.
    + eapply SI_sys; [exact HS|assumption|apply core_eq_refl| |].
      * cbn. split; [exact En|]. rewrite (Ed eq_refl _ Hb). exact Hc.
      * intros st [Hf|[k Hf]]; [left; left; exact Hf|discriminate Hf].
    + eapply SI_sys; [exact HS|assumption|apply core_eq_refl| |].
      * cbn. exact En.
      * intros st [Hf|[k Hf]]; [left; left; exact Hf|discriminate Hf].
  - (* PSyncRet *)
    pose proof (si_P _ _ _ _ _ _ HS) as HP. rewrite Ep in HP. destruct HP as [Hn Hc].
    destruct (nsc_fields (s_pbl s)) as [F1 [F2 F3]].
    destruct (sync_begin_scan L) as [Eb Ed].
    pose proof (si_le1 _ _ _ _ _ _ HS) as Hle.
    destruct (negb keep && negb final) eqn:Ek; inversion Hs; subst s'; cbn [p_syncing s_p with_p with_pbl].
    + split.
      * destruct HS as [H1 H2 H3 H4 H5 H6 H7 H8]. constructor; sproj; auto; try lia.
        -- destruct H5 as [pre [Hx [Ha Hb]]]. exists pre. rewrite F1, F3. split; [exact Hx|].
           pose proof (f_equal (@length _) Hx) as Hlen. rewrite app_length in Hlen.
           split; [|exact Ha]. lia.
        -- exists (length L). split; [exact Eb|lia].
        -- intros st [Hf|[k Hf]]; [|discriminate Hf]. intros x Hx.
           eapply in_firstn_le; [|exact H3]. eapply H8; [left; exact Hf|exact Hx].
      * apply LI_app_other; [exact I|]. eapply LI_notify. eapply LI_complete; eauto.
    + split; [|eapply LI_complete; eauto].
      destruct HS as [H1 H2 H3 H4 H5 H6 H7 H8]. constructor; sproj; auto; try lia.
      * destruct H5 as [pre [Hx [Ha Hb]]]. exists pre. rewrite F1, F2, F3. split; [exact Hx|]. lia.
      * rewrite F1, F2. exact H6.
      * intros st [Hf|[k Hf]]; [|discriminate Hf]. intros x Hx.
        eapply in_firstn_le; [|exact H3]. eapply H8; [left; exact Hf|exact Hx].
  - (* PSyncSleep *)
    destruct (_ <=? _)%N; [|discriminate]. inversion Hs; subst s'. cbn.
    destruct (sync_begin_scan L) as [Eb Ed].
    split; [|apply LI_app_other; [exact I|exact HL]].
    eapply SI_sys; [exact HS|assumption|apply core_eq_refl| |].
    + cbn. exists (length L). split; [exact Eb|]. apply (proj1 (li_C _ _ _ _ _ _ _ HL)).
    + intros st [Hf|[k Hf]]; [left; left; exact Hf|discriminate Hf].
  - (* PW *)
    pose proof (si_P _ _ _ _ _ _ HS) as HP. rewrite Ep in HP. cbn in HP.
    destruct (wstep cfg TP w a s) as [[[s1 [w'|]]|]|] eqn:E; try discriminate;
      destruct (wstep_facts _ _ _ _ _ _ _ E) as [C1 [C2 [C3 C4]]]; inversion Hs; subst s'.
    + cbn. split; [|exact HL].
      eapply SI_sys; [exact HS|assumption|exact C1|exact HP|].
      intros st [Hf|[k Hf]].
      * left. left. cbn in Hf. rewrite C2 in Hf. exact Hf.
      * right. cbn in Hf. inversion Hf; subst. eapply C4; eauto.
    + assert (Eq : p_syncing (with_p s1 (if keep then PStart else PExit)) = false) by (destruct keep; reflexivity).
      rewrite Eq. split; [|exact HL].
      eapply SI_sys; [exact HS|assumption|exact C1| |].
      * destruct keep; exact HP.
      * intros st [Hf|[k Hf]].
        -- left. left. cbn in Hf. rewrite C2 in Hf. exact Hf.
        -- cbn in Hf. destruct keep; discriminate Hf.
  - discriminate.
Qed.

(** ---- record writes of a finalizer section ---- *)
Definition last_seed (p : pbl) : option N := nth_error (epochSeeds p) (length (epochSeeds p) - 1).

Lemma index_to_ref_seed i p ref sd : index_to_ref i p = Ok (ref, sd) -> last_seed p = Some sd.
Proof.
  unfold index_to_ref, last_seed. destruct (length (epochSeeds p)) as [|n] eqn:E; [discriminate|].
  destruct (nth_error (epochLast p) n); [|discriminate].
  destruct (nth_error (epochSeeds p) n) eqn:E2; [|discriminate].
  intros H; inversion H; subst. replace (S n - 1) with n by lia. exact E2.
Qed.

Lemma mk_rec_facts p i key off size up r : mk_rec p i key off size up = Some r ->
  r_key r = key /\ r_off r = off /\ r_size r = size /\ r_up r = up /\ last_seed p = Some (r_seed r).
Proof.
  unfold mk_rec. destruct (index_to_ref i p) as [[[e bfl] sd]|] eqn:E; [|discriminate].
  intros H; inversion H; subst. cbn. repeat split; auto. eapply index_to_ref_seed; eauto.
Qed.

Lemma do_writes_inv p k u ups seeds nc ca ns :
  (forall sd, last_seed p = Some sd -> ~ In sd (firstn nc seeds)) ->
  (forall r, r_up r = k -> r_key r = up_key u -> r_off r = up_off u -> r_size r = up_size u -> rec_ok ups r) ->
  ns <= nc ->
  forall ws L tbl L' tbl', do_writes p k u ws L tbl = Some (L', tbl') ->
  LI L ups tbl seeds nc ca ns ->
  LI L' ups tbl' seeds nc ca ns /\ pending_begin L' = pending_begin L /\ durable_upto L' = durable_upto L.
Proof.
  intros Hsd Hnew Hle. induction ws as [|w ws IH]; intros L tbl L' tbl' H HL; cbn [do_writes] in H.
  - inversion H; subst. auto.
  - destruct w as [slot|from to].
    + destruct (_ <? _); [discriminate|].
      destruct (mk_rec _ _ _ _ _ _) as [r|] eqn:Er; [|discriminate].
      destruct (mk_rec_facts _ _ _ _ _ _ _ Er) as [F1 [F2 [F3 [F4 F5]]]].
      destruct (nosync_scan L (IoIndex slot r) I) as [E1 E2].
      destruct (IH _ _ _ _ H) as [G1 [G2 G3]].
      * apply LI_app_index; auto.
      * split; [exact G1|]. split; congruence.
    + destruct (slot_get tbl from None) as [r0|] eqn:Eg; [|discriminate].
      destruct (live_index p r0); [|discriminate].
      destruct (mk_rec _ _ _ _ _ _) as [r|] eqn:Er; [|discriminate].
      destruct (mk_rec_facts _ _ _ _ _ _ _ Er) as [F1 [F2 [F3 [F4 F5]]]].
      destruct (nosync_scan L (IoIndex to r) I) as [E1 E2].
      destruct (IH _ _ _ _ H) as [G1 [G2 G3]].
      * apply LI_app_index; auto.
        apply slot_get_in in Eg. destruct Eg as [Eg|[s' Eg]]; [discriminate|].
        eapply rec_ok_same; eauto. eapply (li_T _ _ _ _ _ _ _ HL); eauto.
      * split; [exact G1|]. split; congruence.
Qed.

(** ---- the invariant ---- *)
Definition CI (s : sys) (L : log) (ups : list upinfo) (tbl : list (nat * irec)) (seeds : list N)
              (nc ca ns : nat) : Prop :=
  SI s L seeds nc ca ns /\ UI ups /\ LI L ups tbl seeds nc ca ns.

Definition cinv (c : cst) : Prop :=
  CI (cs_sys c) (cs_log c) (cs_ups c) (cs_tbl c) (cs_seeds c) (cs_nclosed c) (cs_closed_at c) (cs_nsynced c).

Definition fin_up (b : bool) (u : upinfo) : upinfo :=
  mkUp (up_key u) (up_abs u) (up_off u) (up_size u) (up_issued u) (UpFin b).

Lemma finalize_core s s' L ups tbl seeds nc ca ns k u seed fr ok :
  CI s L ups tbl seeds nc ca ns ->
  inv1 s' -> s_r s' = s_r s -> s_p s' = s_p s ->
  synchronizingEpochs (s_pbl s') = synchronizingEpochs (s_pbl s) ->
  synchronizedEpochs (s_pbl s') = synchronizedEpochs (s_pbl s) ->
  ((epochSeeds (s_pbl s') = epochSeeds (s_pbl s) /\
    forall o, fr = FinOk o -> length (epochSeeds (s_pbl s)) <> synchronizingEpochs (s_pbl s)) \/
   epochSeeds (s_pbl s') = epochSeeds (s_pbl s) ++ [seed]) ->
  ~ In seed seeds ->
  nth_error ups k = Some u -> up_state u = UpDone ok -> (forall o, fr = FinOk o -> ok = true) ->
  forall seeds',
  seeds' = (if length (epochSeeds (s_pbl s)) <? length (epochSeeds (s_pbl s')) then seeds ++ [seed] else seeds) ->
  (forall o ws L' tbl', fr = FinOk o -> do_writes (s_pbl s') k u ws L tbl = Some (L', tbl') ->
     CI s' L' (upd_nth ups k (fin_up true)) tbl' seeds' nc ca ns) /\
  (forall b, CI s' L (upd_nth ups k (fin_up b)) tbl seeds' nc ca ns).
Proof.
  intros [HS [HU HL]] I' Er Ep E2 E3 Hd Hfresh Hk Hst Hok seeds' Hseeds'.
  assert (HS' : SI s' L seeds' nc ca ns).
  { eapply SI_finalize with (seed := seed); eauto. destruct Hd as [[E1 _]|E1]; rewrite E1 in Hseeds'.
    - rewrite Nat.ltb_irrefl in Hseeds'. left. auto.
    - rewrite app_length in Hseeds'. cbn [length] in Hseeds'.
      replace (_ <? _) with true in Hseeds' by (symmetry; apply Nat.ltb_lt; lia). right. auto. }
  assert (Hext : forall b, ups_ext ups (upd_nth ups k (fin_up b))).
  { intros b. eapply ups_ext_upd; [exact Hk|]. rewrite Hst. discriminate. }
  assert (HL' : forall b, LI L (upd_nth ups k (fin_up b)) tbl seeds' nc ca ns).
  { intros b. eapply LI_ups; [apply Hext|]. subst seeds'.
    destruct (_ <? _); [|exact HL]. apply LI_seeds; [apply (si_le2 _ _ _ _ _ _ HS)|apply (si_le1 _ _ _ _ _ _ HS)|exact HL]. }
  assert (HU' : forall b, UI (upd_nth ups k (fin_up b))).
  { intros b. eapply UI_upd; [exact HU|exact Hk|]. cbn. discriminate. }
  split; [|intros b; split; [exact HS'|split; [apply HU'|apply HL']]].
  intros o ws L' tbl' -> Hw.
  specialize (Hok o eq_refl). subst ok.
  destruct (do_writes_inv (s_pbl s') k u (upd_nth ups k (fin_up true)) seeds' nc ca ns) with (4 := Hw) as [G1 [G2 G3]].
  - (* the seed of new records is not closed *)
    intros sd Hsd. unfold last_seed in Hsd.
    destruct (si_seeds _ _ _ _ _ _ HS') as [pre [Hx _]].
    assert (Hpos : length (epochSeeds (s_pbl s')) > 0) by (apply nth_lt in Hsd; lia).
    pose proof (f_equal (@length _) Hx) as Hlen. rewrite app_length in Hlen.
    apply nodup_not_in_firstn with (i := length seeds' - 1).
    + apply (si_nodup _ _ _ _ _ _ HS').
    + rewrite Hx at 1. rewrite nth_error_app2 by lia.
      replace (length seeds' - 1 - length pre) with (length (epochSeeds (s_pbl s')) - 1) by lia. exact Hsd.
    + pose proof (si_le2 _ _ _ _ _ _ HS) as Hle2.
      destruct Hd as [[E1 Hne]|E1]; rewrite E1 in Hseeds'.
      * rewrite Nat.ltb_irrefl in Hseeds'. subst seeds'.
        specialize (Hne o eq_refl). pose proof (si_J _ _ _ _ _ _ HS) as HJ.
        assert (length seeds <> nc) by (intros Hc; apply Hne; symmetry; apply HJ; exact Hc). lia.
      * rewrite app_length in Hseeds'. cbn [length] in Hseeds'.
        replace (_ <? _) with true in Hseeds' by (symmetry; apply Nat.ltb_lt; lia).
        subst seeds'. rewrite app_length. cbn. lia.
  - intros r R1 R2 R3 R4. exists (fin_up true u). rewrite R1.
    split; [apply nth_upd_same; exact Hk|]. cbn. repeat split; auto.
    apply (HU _ _ Hk Hst).
  - apply (si_le1 _ _ _ _ _ _ HS).
  - apply HL'.
  - split; [eapply SI_log; eauto|]. split; [apply HU'|exact G1].
Qed.

(** ---- every step preserves the invariant ---- *)
Lemma sys_step_inv cfg c e c1 : sys_step cfg c e = Some c1 ->
  exists s', step cfg (cs_sys c) e = Some (Ok s') /\ c1 = with_sys c s'.
Proof.
  unfold sys_step. destruct (step cfg (cs_sys c) e) as [[s'|]|]; try discriminate.
  intros H; inversion H; subst. eauto.
Qed.

Lemma step_env_core cfg s e s' : step cfg s e = Some (Ok s') ->
  match e with
  | EPushBack _ | EPutStart _ _ | ETick _ | ECancel => core_eq (s_pbl s) (s_pbl s')
  | _ => True
  end.
Proof.
  destruct e as [alloc| |index size|k blk seed|d| |t a]; cbn [step]; auto.
  - intros H; inversion H; subst. cbn. apply push_core.
  - destruct (_ || _); [|discriminate]. destruct (put_start _ _); [|discriminate].
    intros H; inversion H; subst. apply core_eq_refl.
  - intros H; inversion H; subst. apply core_eq_refl.
  - intros H; inversion H; subst. apply core_eq_refl.
Qed.

Lemma in_flight_frame s s' st : s_r s' = s_r s -> s_p s' = s_p s -> in_flight s' st -> in_flight s st.
Proof. unfold in_flight. intros -> ->. auto. Qed.

Lemma env_core_SI cfg s e s' L seeds nc ca ns : SI s L seeds nc ca ns ->
  step cfg s e = Some (Ok s') -> (forall t a, e <> EStep t a) -> core_eq (s_pbl s) (s_pbl s') ->
  SI s' L seeds nc ca ns.
Proof.
  intros HS Hs Hne Hc.
  destruct (step_inv1 _ _ _ _ (si_inv1 _ _ _ _ _ _ HS) Hs) as [s1 [E [I' _]]]. inversion E; subst s1.
  destruct (env_frame _ _ _ _ Hne Hs) as [Er Ep].
  eapply SI_sys; [exact HS|exact I'|exact Hc| |].
  - rewrite Ep. apply (si_P _ _ _ _ _ _ HS).
  - intros st Hf. left. eapply in_flight_frame; eauto.
Qed.

Lemma fresh_not_in c seed : fresh c seed = true -> ~ In seed (cs_seeds c).
Proof.
  unfold fresh. intros H Hin. apply andb_prop in H. destruct H as [H _].
  apply negb_true_iff in H. assert (existsb (N.eqb seed) (cs_seeds c) = true); [|congruence].
  apply existsb_exists. exists seed. split; [exact Hin|apply N.eqb_refl].
Qed.

Lemma writing_in_flight s st : writing s = Some st -> in_flight s st.
Proof.
  unfold writing, in_flight.
  destruct (s_r s) as [| |[| |st'| |]]; try (intros H; inversion H; subst; left; reflexivity);
    (destruct (s_p s) as [| | | | | | | |k [| |st'| |]|]; try discriminate;
     intros H; inversion H; subst; right; eexists; reflexivity).
Qed.

Ltac cproj := unfold cinv;
  cbn [cs_sys cs_log cs_ups cs_tbl cs_seeds cs_nclosed cs_closed_at cs_nsynced
       with_sys with_log with_ups with_alloc with_dirpc with_index with_seeds with_sync_ghost].

Lemma env_core_cinv cfg c e s' : cinv c -> step cfg (cs_sys c) e = Some (Ok s') ->
  (forall t a, e <> EStep t a) -> core_eq (s_pbl (cs_sys c)) (s_pbl s') ->
  CI s' (cs_log c) (cs_ups c) (cs_tbl c) (cs_seeds c) (cs_nclosed c) (cs_closed_at c) (cs_nsynced c).
Proof.
  intros [HS [HU HL]] Hs Hne Hc. split; [|split; assumption]. eapply env_core_SI; eauto.
Qed.

Lemma cpush_inv g cfg c c' : cinv c -> cstep g cfg c CPush = Some c' -> cinv c'.
Proof.
  intros Hc H. cbn [cstep] in H.
  assert (G : forall alloc c1, sys_step cfg c (EPushBack alloc) = Some c1 ->
            CI (cs_sys c1) (cs_log c) (cs_ups c) (cs_tbl c) (cs_seeds c) (cs_nclosed c) (cs_closed_at c) (cs_nsynced c)).
  { intros alloc c1 H1. apply sys_step_inv in H1. destruct H1 as [s' [Hs ->]]. cbn [cs_sys with_sys].
    eapply env_core_cinv; eauto; [intros; discriminate|]. exact (step_env_core _ _ _ _ Hs). }
  assert (G' : forall alloc c1, sys_step cfg c (EPushBack alloc) = Some c1 -> cinv c1).
  { intros alloc c1 H1. pose proof (G _ _ H1) as H2. apply sys_step_inv in H1. destruct H1 as [s' [Hs ->]]. exact H2. }
  destruct (closedForWriting _); [eauto|]. destruct (cs_free c) as [|l fr]; [eauto|].
  destruct (sys_step cfg c (EPushBack (Some l))) as [c1|] eqn:E; [|discriminate].
  inversion H; subst c'. pose proof (G _ _ E) as H2. apply sys_step_inv in E. destruct E as [s' [Hs ->]]. exact H2.
Qed.

Lemma cpop_inv g cfg c c' : cinv c -> cstep g cfg c CPop = Some c' -> cinv c'.
Proof.
  intros [HS [HU HL]] H. cbn [cstep] in H. apply sys_step_inv in H. destruct H as [s' [Hs ->]].
  cproj. split; [|split; assumption].
  destruct (step_inv1 _ _ _ _ (si_inv1 _ _ _ _ _ _ HS) Hs) as [s1 [E [I' _]]]. inversion E; subst s1.
  assert (Hne : forall t a, EPopFront <> EStep t a) by (intros; discriminate).
  destruct (env_frame _ _ _ _ Hne Hs) as [Er Ep].
  cbn [step] in Hs. destruct (blocks _); [discriminate|].
  destruct (pop_front (s_pbl (cs_sys c))) as [p'|] eqn:Epop; [|discriminate].
  inversion Hs; subst s'. destruct (pop_core _ _ Epop) as [ec [P1 [P2 [P3 P4]]]].
  eapply SI_pop; eauto.
Qed.

Lemma cputstart_inv g cfg c index key size c' : cinv c -> cstep g cfg c (CPutStart index key size) = Some c' -> cinv c'.
Proof.
  intros Hc H. cbn [cstep] in H. destruct (size <? 0)%Z; [discriminate|].
  destruct (sys_step cfg c (EPutStart index size)) as [c1|] eqn:E; [|discriminate].
  apply sys_step_inv in E. destruct E as [s' [Hs ->]].
  assert (G : forall x, up_state x <> UpDone true -> up_state x <> UpFin true ->
            CI s' (cs_log c) (cs_ups c ++ [x]) (cs_tbl c) (cs_seeds c) (cs_nclosed c) (cs_closed_at c) (cs_nsynced c)).
  { intros x X1 X2. destruct (env_core_cinv cfg c _ s' Hc Hs) as [HS [HU HL]]; [intros; discriminate|exact (step_env_core _ _ _ _ Hs)|].
    split; [exact HS|]. split; [apply UI_app; assumption|]. eapply LI_ups; [apply ups_ext_app|exact HL]. }
  destruct (closedForWriting _).
  - inversion H; subst c'. cproj. apply G; cbn; discriminate.
  - destruct (nth_error (cs_cur c) _); [|discriminate]. destruct (nth_error (cs_locs c) _); [|discriminate].
    destruct (_ <=? _)%Z; [|discriminate]. inversion H; subst c'. cproj. apply G; cbn; discriminate.
Qed.

Lemma cdata_inv g cfg c k n c' : cinv c -> cstep g cfg c (CData k n) = Some c' -> cinv c'.
Proof.
  intros [HS [HU HL]] H. cbn [cstep] in H.
  destruct (nth_error (cs_ups c) k) as [u|] eqn:Eu; [|discriminate].
  destruct (up_state u) eqn:Est; try discriminate.
  destruct (up_loc (cs_locs c) u) as [l|]; [|discriminate].
  destruct (_ && _)%bool; [|discriminate]. inversion H; subst c'. cproj.
  match goal with |- CI _ (_ ++ [?e]) _ _ _ _ _ _ => destruct (nosync_scan (cs_log c) e I) as [E1 E2] end.
  split; [eapply SI_log; eauto|]. split.
  - eapply UI_upd; eauto. cbn. rewrite Est. discriminate.
  - eapply LI_ups; [eapply ups_ext_upd; [exact Eu|rewrite Est; discriminate]|].
    apply LI_app_other; [|exact HL]. cbn. intros up Hup. rewrite Eu in Hup. inversion Hup; subst. rewrite Est. discriminate.
Qed.

Lemma cwriterdone_inv g cfg c k ok c' : cinv c -> cstep g cfg c (CWriterDone k ok) = Some c' -> cinv c'.
Proof.
  intros [HS [HU HL]] H. cbn [cstep] in H.
  destruct (nth_error (cs_ups c) k) as [u|] eqn:Eu; [|discriminate].
  destruct (up_state u) eqn:Est; try discriminate.
  destruct (ok && negb (up_issued u =? up_size u)%Z) eqn:Eok; [discriminate|].
  match type of H with context [upd_nth (cs_ups c) k ?f] => set (ff := f) in * end.
  assert (G : CI (cs_sys c) (cs_log c) (upd_nth (cs_ups c) k ff) (cs_tbl c) (cs_seeds c) (cs_nclosed c)
                 (cs_closed_at c) (cs_nsynced c)).
  { split; [exact HS|]. split.
    - eapply UI_upd; eauto. subst ff. cbn. intros Hx. inversion Hx; subst ok. cbn in Eok.
      apply negb_false_iff in Eok. apply Z.eqb_eq in Eok. exact Eok.
    - eapply LI_ups; [eapply ups_ext_upd; [exact Eu|rewrite Est; discriminate]|exact HL]. }
  destruct (up_loc (cs_locs c) u) as [l|]; [|injection H as H; rewrite <- H; exact G].
  destruct (existsb _ _ && _)%bool; injection H as H; rewrite <- H; exact G.
Qed.

Lemma cfinalize_inv g cfg c k seed ws c' : cinv c -> cstep g cfg c (CFinalize k seed ws) = Some c' -> cinv c'.
Proof.
  intros Hc H. cbn [cstep] in H.
  destruct (nth_error (cs_ups c) k) as [u|] eqn:Eu; [|discriminate].
  destruct (nth_error (s_uploads (cs_sys c)) k) as [[[tok size]|]|] eqn:Ek; try discriminate.
  destruct (up_state u) as [|ok|] eqn:Est; try discriminate.
  destruct (negb (fresh c seed)) eqn:Ef; [discriminate|]. apply negb_false_iff in Ef.
  destruct (put_finalize tok _ size seed _) as [[p' fr]|] eqn:Epf; [|discriminate].
  destruct (sys_step cfg c _) as [c1|] eqn:Ess; [|discriminate].
  apply sys_step_inv in Ess. destruct Ess as [s' [Hs ->]].
  pose proof Hc as [HS _].
  destruct (step_inv1 _ _ _ _ (si_inv1 _ _ _ _ _ _ HS) Hs) as [s1 [E [I' _]]]. inversion E; subst s1.
  assert (Hne : forall t a, EFinalize k (if ok then Some (up_off u) else None) seed <> EStep t a) by (intros; discriminate).
  destruct (env_frame _ _ _ _ Hne Hs) as [Er Ep].
  assert (Epbl : s_pbl s' = p').
  { cbn [step] in Hs. rewrite Ek, Epf in Hs. inversion Hs; subst s'. reflexivity. }
  destruct (put_finalize_core _ _ _ _ _ _ _ (proj1 (si_inv1 _ _ _ _ _ _ HS)) Epf) as [P1 [P2 [P3 P4]]].
  rewrite <- Epbl in P1, P2, P3, H.
  set (seeds' := if length (epochSeeds (s_pbl (cs_sys c))) <? length (epochSeeds (s_pbl s'))
                 then cs_seeds c ++ [seed] else cs_seeds c).
  destruct (finalize_core _ s' _ _ _ _ _ _ _ k u seed fr ok Hc I' Er Ep P1 P2 P3 (fresh_not_in _ _ Ef) Eu Est)
    with (seeds' := seeds') as [G1 G2]; [|reflexivity|].
  { intros o Ho. destruct ok; [reflexivity|]. exfalso. eapply P4; eauto. }
  fold (fin_up true) in H. fold (fin_up false) in H.
  destruct fr as [o| | |].
  1:{ destruct (do_writes _ _ _ _ _ _) as [[log' tbl']|] eqn:Ew; [|discriminate].
      inversion H; subst c'. specialize (G1 o ws log' tbl' eq_refl Ew).
      subst seeds'. destruct (_ <? _); exact G1. }
  all: destruct ws; [|discriminate]; inversion H; subst c'; specialize (G2 false);
       subst seeds'; destruct (_ <? _); exact G2.
Qed.

Lemma ctick_inv g cfg c d c' : cinv c -> cstep g cfg c (CTick d) = Some c' -> cinv c'.
Proof.
  intros Hc H. cbn [cstep] in H. apply sys_step_inv in H. destruct H as [s' [Hs ->]]. cproj.
  eapply env_core_cinv; eauto; [intros; discriminate|exact (step_env_core _ _ _ _ Hs)].
Qed.

Lemma ccancel_inv g cfg c c' : cinv c -> cstep g cfg c CCancel = Some c' -> cinv c'.
Proof.
  intros Hc H. cbn [cstep] in H. apply sys_step_inv in H. destruct H as [s' [Hs ->]]. cproj.
  eapply env_core_cinv; eauto; [intros; discriminate|exact (step_env_core _ _ _ _ Hs)].
Qed.

Lemma cstep_tr_inv g cfg c a c' : cinv c -> cstep g cfg c (CStep TR a) = Some c' -> cinv c'.
Proof.
  intros [HS [HU HL]] H. cbn [cstep] in H. destruct (_ && _)%bool; [discriminate|].
  destruct (sys_step cfg c (EStep TR a)) as [c1|] eqn:E; [|discriminate].
  apply sys_step_inv in E. destruct E as [s' [Hs ->]].
  destruct (release_regions _ _ _ _ _) as [fr hd].
  assert (G : CI s' (cs_log c) (cs_ups c) (cs_tbl c) (cs_seeds c) (cs_nclosed c) (cs_closed_at c) (cs_nsynced c)).
  { split; [|split; assumption].
    destruct (step_inv1 _ _ _ _ (si_inv1 _ _ _ _ _ _ HS) Hs) as [s1 [E [I' _]]]. inversion E; subst s1.
    cbn [step] in Hs. destruct (rstep_facts _ _ _ _ Hs) as [C1 [C2 C3]].
    eapply SI_sys; [exact HS|exact I'|exact C1| |].
    - rewrite C2. apply (si_P _ _ _ _ _ _ HS).
    - intros st [Hf|[k Hf]]; [right; eauto|]. left. right. exists k. rewrite <- C2. exact Hf. }
  match type of H with context [if ?b then with_dirpc _ _ else _] => destruct b end;
    inversion H; subst c'; exact G.
Qed.

Lemma cstep_tp_inv g cfg c a c' : cinv c -> cstep g cfg c (CStep TP a) = Some c' -> cinv c'.
Proof.
  intros [HS [HU HL]] H. cbn [cstep] in H. destruct (_ && _)%bool; [discriminate|].
  destruct (sys_step cfg c (EStep TP a)) as [c1|] eqn:E; [|discriminate].
  apply sys_step_inv in E. destruct E as [s' [Hs ->]].
  destruct (release_regions _ _ _ _ _) as [fr hd].
  destruct (step_inv1 _ _ _ _ (si_inv1 _ _ _ _ _ _ HS) Hs) as [s1 [E [I' _]]]. inversion E; subst s1.
  cbn [step] in Hs. destruct (tp_step_inv _ _ _ _ _ _ _ _ _ _ _ Hs I' HS HL) as [G1 G2].
  destruct (thread_at_getstate (cs_sys c) TP); destruct (p_notifies (cs_sys c)); inversion H; subst c';
    (split; [exact G1|split; [exact HU|exact G2]]).
Qed.

Lemma cdir_inv g cfg c c' : cinv c -> cstep g cfg c CDir = Some c' -> cinv c'.
Proof.
  intros [HS [HU HL]] H. cbn [cstep] in H.
  destruct (writing (cs_sys c)) as [st|] eqn:Ew; [|discriminate].
  destruct (_ <? _); [|discriminate]. inversion H; subst c'. cproj.
  apply writing_in_flight in Ew.
  assert (Hn : nosync (dir_op (cs_dirpc c) (st, g_hinit g))).
  { unfold dir_op. destruct (cs_dirpc c) as [|[|[|[|[|n]]]]]; exact I. }
  destruct (nosync_scan (cs_log c) _ Hn) as [E1 E2].
  split; [eapply SI_log; eauto|]. split; [exact HU|].
  unfold dir_op. destruct (cs_dirpc c) as [|[|[|[|[|n]]]]]; try (apply LI_app_other; [exact I|exact HL]).
  apply LI_app_write; [|exact HL]. apply (si_W _ _ _ _ _ _ HS). exact Ew.
Qed.

Theorem cstep_inv g cfg c e c' : cinv c -> cstep g cfg c e = Some c' -> cinv c'.
Proof.
  intros Hc H. destruct e as [| |index key size|k n|k ok|k seed ws|d| |[|] a|].
  - eapply cpush_inv; eauto.
  - eapply cpop_inv; eauto.
  - eapply cputstart_inv; eauto.
  - eapply cdata_inv; eauto.
  - eapply cwriterdone_inv; eauto.
  - eapply cfinalize_inv; eauto.
  - eapply ctick_inv; eauto.
  - eapply ccancel_inv; eauto.
  - eapply cstep_tr_inv; eauto.
  - eapply cstep_tp_inv; eauto.
  - eapply cdir_inv; eauto.
Qed.

(** ---- reachable states of the first life ---- *)
Lemma cinit_inv g t0 : cinv (cinit g medium_empty t0).
Proof.
  unfold cinv, cinit.
  cbn [cs_sys cs_log cs_ups cs_tbl cs_seeds cs_nclosed cs_closed_at cs_nsynced m_state m_index medium_empty].
  set (p := fst (restart (geom g) None)).
  assert (E1 : epochSeeds p = []) by reflexivity.
  assert (E2 : synchronizingEpochs p = 0) by reflexivity.
  assert (E3 : synchronizedEpochs p = 0) by reflexivity.
  rewrite E1. cbn [length].
  assert (Hnil : forall {A} k (x : A), nth_error (@nil A) k = Some x -> False) by (intros A [|k] x Hx; discriminate).
  split; [|split].
  - constructor.
    + apply (init_inv1 (fun l _ => geom g l) 1%N [] t0).
    + constructor.
    + lia.
    + cbn. lia.
    + exists []. cbn [s_pbl init_sys]. rewrite E1, E2, E3. cbn. repeat split; lia.
    + intros _. cbn [s_pbl init_sys]. rewrite E1, E2. reflexivity.
    + reflexivity.
    + intros st [Hf|[k Hf]]; discriminate Hf.
  - intros k u Hk. exfalso. eapply Hnil; eauto.
  - constructor.
    + intros pos slot r H. exfalso. eapply Hnil; eauto.
    + intros slot r [].
    + split; [cbn; lia|]. intros pos slot r H. exfalso. eapply Hnil; eauto.
    + intros pos slot r H. exfalso. eapply Hnil; eauto.
    + intros q st h s H. exfalso. eapply Hnil; eauto.
Qed.

Lemma crun_inv g cfg tr : forall c c', cinv c -> crun g cfg c tr = Some c' -> cinv c'.
Proof.
  induction tr as [|e tr IH]; intros c c' Hc H; cbn [crun] in H.
  - inversion H; subst. exact Hc.
  - destruct (cstep g cfg c e) as [c1|] eqn:E; [|discriminate].
    eapply IH; [|exact H]. eapply cstep_inv; eauto.
Qed.

Lemma creach_inv g cfg t0 c : creach g cfg medium_empty t0 c -> cinv c.
Proof. intros [tr H]. eapply crun_inv; [apply cinit_inv|exact H]. Qed.

(** ---- the two key lemmas ---- *)
Theorem record_after_data_before_close g cfg t0 c : creach g cfg medium_empty t0 c ->
  forall p slot r, nth_error (cs_log c) p = Some (IoIndex slot r) ->
    (forall q l lo hi, nth_error (cs_log c) q = Some (IoData (r_up r) l lo hi) -> q < p) /\
    (forall j, j < cs_nclosed c -> nth_error (cs_seeds c) j = Some (r_seed r) -> p < cs_closed_at c).
Proof.
  intros R p slot r H. destruct (creach_inv _ _ _ _ R) as [_ [_ HL]].
  split.
  - apply (li_R _ _ _ _ _ _ _ HL _ _ _ H).
  - intros j Hj Hn. apply (proj2 (li_C _ _ _ _ _ _ _ HL) _ _ _ H). eapply nth_in_firstn; eauto.
Qed.

Theorem seed_durable_after_sync g cfg t0 c : creach g cfg medium_empty t0 c ->
  forall q st h s, nth_error (cs_log c) q = Some (IoWriteNew (st, h)) ->
    In s (concat (map bs_seeds (snd st))) ->
    forall p slot r, nth_error (cs_log c) p = Some (IoIndex slot r) -> r_seed r = s ->
      p < durable_upto (firstn q (cs_log c)).
Proof.
  intros R q st h s H Hs. destruct (creach_inv _ _ _ _ R) as [_ [_ HL]].
  apply (li_W _ _ _ _ _ _ _ HL _ _ _ _ H Hs).
Qed.

(** ---- the durability half of crash safety, first life ---- *)
Theorem crash_safe_durable : forall g cfg t0 c, creach g cfg medium_empty t0 c ->
  forall n ch slot r i, resolves g (crash_of medium_empty c n ch) slot r i ->
  exists up, nth_error (cs_ups c) (r_up r) = Some up /\ up_key up = r_key r /\ up_off up = r_off r /\
    up_size up = r_size r /\ up_state up = UpFin true /\ up_issued up = up_size up /\
    (forall q l lo hi, nth_error (cs_log c) q = Some (IoData (r_up r) l lo hi) ->
       q < durable_upto (firstn n (cs_log c))).
Proof.
  intros g cfg t0 c R n ch slot r i [H1 H2]. unfold crash_of in *.
  destruct (creach_inv _ _ _ _ R) as [_ [_ HL]].
  (* the record is a record write of the prefix *)
  rewrite crash_medium_index in H1. cbn [m_index medium_empty app] in H1.
  apply slot_get_in in H1. destruct H1 as [H1|[slot' H1]]; [discriminate|].
  apply select_incl in H1. apply index_writes_in in H1. apply In_nth_error in H1. destruct H1 as [pos Hpos].
  apply nth_firstn in Hpos. destruct Hpos as [Hpn Hpos].
  (* its seed is a seed of the surviving state file, which is the payload of a state write of the prefix *)
  apply resolve_ref_seed in H2. apply restart_seeds in H2. destruct H2 as [[st h] [Hst Hin]].
  apply crash_medium_state in Hst. destruct Hst as [Hst|Hst]; [inversion Hst; subst; contradiction|].
  apply In_nth_error in Hst. destruct Hst as [q Hq]. apply nth_firstn in Hq. destruct Hq as [Hqn Hq].
  cbn [fst] in Hin.
  destruct (li_W _ _ _ _ _ _ _ HL _ _ _ _ Hq Hin) as [_ HW]. specialize (HW _ _ _ Hpos eq_refl).
  destruct (firstn_prefix (cs_log c) q n) as [l' El]; [lia|].
  pose proof (durable_mono (firstn q (cs_log c)) l') as Hm. rewrite <- El in Hm.
  destruct (li_R _ _ _ _ _ _ _ HL _ _ _ Hpos) as [[up [U1 [U2 [U3 [U4 [U5 U6]]]]]] HD].
  exists up. repeat split; auto. intros q' l lo hi Hq'. specialize (HD _ _ _ _ Hq'). lia.
Qed.

Print Assumptions record_after_data_before_close.
Print Assumptions seed_durable_after_sync.
Print Assumptions crash_safe_durable.
