(** Persist/CrashRepeatSim.v — a life on ANY base medium is simulated, step by
    step, by a run in which every Robin-Hood displacement [IwMove from to] of a
    finalizer section is replaced by a second write [IwNew to] of the
    finalizer's OWN record ("shadow run").  The two runs agree on everything
    but the CONTENT of index records (and the volatile table): system state,
    uploads, allocator, ghost seed tables, and the I/O log entry by entry
    (same positions, same data / sync / directory entries, index entries with
    the same slot and seed).

    The shadow run never reads the table, so it never touches a record of an
    earlier life: all first-life invariants (CrashAllocProofs.cinv,
    CrashReuseProofs.rinv / kinv, …) hold for it from a restart on any medium
    whose state file restores duplicate-free seeds and regions.  Every
    record-independent consequence transfers to the real run — in particular
    [region_reuse_any_base]: a region is handed out again only after a state
    file without the block is durable, for a life that starts on non-empty
    media (the case left open by the first-life development).
    Stdlib only; no axioms. *)
From Coq Require Import List NArith ZArith Bool Arith Lia Permutation.
From BBS Require Import Persist.PBL Persist.PBLProofs Persist.Syncer Persist.SyncerProofs
                        Persist.Crash Persist.CrashLts.
From BBS Require Import Persist.CrashReuseProofs.
Import ListNotations.

Local Notation log := (list (io irec)).

(** ------------------------------------------------------------------ *)
(** * the shadow events and the relation *)

Definition tiw (w : iw) : iw := match w with IwNew s => IwNew s | IwMove _ to => IwNew to end.
Definition tev (e : cev) : cev :=
  match e with CFinalize k seed ws => CFinalize k seed (map tiw ws) | _ => e end.

Definition erel (e e' : io irec) : Prop :=
  match e, e' with
  | IoIndex s r, IoIndex s' r' => s = s' /\ r_seed r = r_seed r'
  | IoIndex _ _, _ => False
  | _, IoIndex _ _ => False
  | _, _ => e = e'
  end.

Lemma erel_refl e : erel e e.
Proof. destruct e; cbn; auto. Qed.

(** [c'] is [c] with another log and table; the logs agree entry by entry *)
Definition sim (c c' : cst) : Prop :=
  c' = with_index c (cs_log c') (cs_tbl c') /\ Forall2 erel (cs_log c) (cs_log c').

Lemma F2_app_refl (l l' extra : log) : Forall2 erel l l' -> Forall2 erel (l ++ extra) (l' ++ extra).
Proof.
  intros H. apply Forall2_app; [exact H|]. induction extra; constructor; auto using erel_refl.
Qed.

Lemma F2_len {X Y} (R : X -> Y -> Prop) l l' : Forall2 R l l' -> length l = length l'.
Proof. induction 1; cbn; auto. Qed.

Lemma F2_nth {X Y} (R : X -> Y -> Prop) l l' : Forall2 R l l' ->
  forall q x, nth_error l q = Some x -> exists y, nth_error l' q = Some y /\ R x y.
Proof.
  induction 1 as [|a b l l' Hab F IH]; intros [|q] x Hq; cbn in *; try discriminate.
  - inv Hq. eauto.
  - eauto.
Qed.

Lemma F2_nth_l {X Y} (R : X -> Y -> Prop) l l' : Forall2 R l l' ->
  forall q y, nth_error l' q = Some y -> exists x, nth_error l q = Some x /\ R x y.
Proof.
  induction 1 as [|a b l l' Hab F IH]; intros [|q] y Hq; cbn in *; try discriminate.
  - inv Hq. eauto.
  - eauto.
Qed.

(** ------------------------------------------------------------------ *)
(** * steps that do not write records *)

Lemma sys_step_frame cfg c l t e c1 : sys_step cfg c e = Some c1 ->
  sys_step cfg (with_index c l t) e = Some (with_index c1 l t) /\ cs_log c1 = cs_log c.
Proof.
  unfold sys_step. cbn [cs_sys with_index]. destruct (step cfg (cs_sys c) e) as [[s'|]|]; try discriminate.
  intros H; inv H. split; reflexivity.
Qed.

Lemma cstep_frame g cfg c l t e c1 :
  (forall k s ws, e <> CFinalize k s ws) -> length l = length (cs_log c) ->
  cstep g cfg c e = Some c1 ->
  exists extra, cs_log c1 = cs_log c ++ extra /\
    cstep g cfg (with_index c l t) e = Some (with_index c1 (l ++ extra) t).
Proof.
  intros Hne Hlen H. destruct e; cbn [cstep] in H |- *; cbn [cs_sys cs_free cs_locs cs_cur cs_held cs_ups cs_log cs_dirpc
     cs_seeds cs_nclosed cs_closed_at cs_nsynced with_index].
  - (* push *)
    destruct (closedForWriting (s_pbl (cs_sys c))) eqn:Ec.
    { destruct (sys_step_frame _ _ l t _ _ H) as [F E]. exists []. rewrite !app_nil_r. auto. }
    destruct (cs_free c) as [|l0 fr] eqn:Ef.
    { destruct (sys_step_frame _ _ l t _ _ H) as [F E]. exists []. rewrite !app_nil_r. auto. }
    destruct (sys_step cfg c (EPushBack (Some l0))) as [c0|] eqn:Ess; [|discriminate]. inv H.
    destruct (sys_step_frame _ _ l t _ _ Ess) as [F E]. rewrite F. exists []. rewrite !app_nil_r.
    split; [exact E|]. reflexivity.
  - (* pop *)
    destruct (sys_step_frame _ _ l t _ _ H) as [F E]. exists []. rewrite !app_nil_r. auto.
  - (* putstart *)
    destruct (size <? 0)%Z; [discriminate|].
    destruct (sys_step cfg c (EPutStart index size)) as [c0|] eqn:Ess; [|discriminate].
    destruct (sys_step_frame _ _ l t _ _ Ess) as [F E]. rewrite F.
    destruct (closedForWriting (s_pbl (cs_sys c))).
    + inv H. exists []. rewrite !app_nil_r. split; [exact E|]. reflexivity.
    + destruct (nth_error (cs_cur c) _) as [off|]; [|discriminate].
      destruct (nth_error (cs_locs c) _) as [l1|]; [|discriminate].
      destruct (_ <=? _)%Z; [|discriminate]. inv H. exists []. rewrite !app_nil_r.
      split; [exact E|]. reflexivity.
  - (* data *)
    destruct (nth_error (cs_ups c) k) as [u|]; [|discriminate].
    destruct (up_state u); try discriminate.
    destruct (up_loc (cs_locs c) u) as [l1|]; [|discriminate].
    destruct (_ && _)%bool; [|discriminate]. inv H. eexists. split; reflexivity.
  - (* writer done *)
    destruct (nth_error (cs_ups c) k) as [u|]; [|discriminate].
    destruct (up_state u); try discriminate.
    destruct (ok && _)%bool; [discriminate|].
    destruct (up_loc (cs_locs c) u) as [l1|]; [|inv H; exists []; rewrite !app_nil_r; split; reflexivity].
    destruct (_ && _)%bool; inv H; exists []; rewrite !app_nil_r; split; reflexivity.
  - (* finalize *)
    exfalso. eapply Hne. reflexivity.
  - (* tick *)
    destruct (sys_step_frame _ _ l t _ _ H) as [F E]. exists []. rewrite !app_nil_r. auto.
  - (* cancel *)
    destruct (sys_step_frame _ _ l t _ _ H) as [F E]. exists []. rewrite !app_nil_r. auto.
  - (* thread *)
    unfold thread_at_getstate in *.
    destruct (_ && _ && _)%bool; [discriminate|].
    destruct (sys_step cfg c (EStep t0 a)) as [c0|] eqn:Ess; [|discriminate].
    destruct (sys_step_frame _ _ l t _ _ Ess) as [F E]. rewrite F.
    apply A.sys_step_inv in Ess. destruct Ess as [s' [Hs ->]].
    cbn [cs_sys with_sys with_index cs_locs cs_ups cs_free cs_held cs_cur cs_log cs_seeds] in H |- *. cbv zeta in H |- *.
    destruct (release_regions _ _ _ _ _) as [fr hd].
    destruct t0.
    + inv H. exists []. rewrite !app_nil_r.
      match goal with |- context [if ?b then with_dirpc _ 0 else _] => destruct b end; split; reflexivity.
    + destruct (p_notifies (cs_sys c)); inv H; rewrite ?Hlen;
        (exists (if p_syncing (cs_sys c) then [IoSyncEnd (a_ok a)] else if p_syncing s' then [IoSyncBegin] else []));
        match goal with |- context [if ?b then with_dirpc _ 0 else _] => destruct b end;
        destruct (p_syncing (cs_sys c)); try destruct (p_syncing s');
        rewrite ?app_nil_r; split; reflexivity.
  - (* dir *)
    destruct (writing (cs_sys c)) as [st|]; [|discriminate].
    destruct (_ <? _); [|discriminate]. inv H. eexists. split; reflexivity.
Qed.

(** ------------------------------------------------------------------ *)
(** * the finalizer section *)

Lemma mk_rec_any p i key off size up r i' key' off' size' up' :
  mk_rec p i key off size up = Some r ->
  exists r', mk_rec p i' key' off' size' up' = Some r' /\ r_seed r' = r_seed r.
Proof.
  unfold mk_rec, index_to_ref. destruct (length (epochSeeds p)) as [|le]; [discriminate|].
  destruct (nth_error (epochLast p) le); [|discriminate].
  destruct (nth_error (epochSeeds p) le); [|discriminate].
  intros H; inv H. eexists. split; reflexivity.
Qed.

Lemma do_writes_sim p k u ws : up_abs u <? totalReleased p = false ->
  forall lg tbl lg' tbl' l t, do_writes p k u ws lg tbl = Some (lg', tbl') -> Forall2 erel lg l ->
  exists l' t', do_writes p k u (map tiw ws) l t = Some (l', t') /\ Forall2 erel lg' l'.
Proof.
  intros Hab. induction ws as [|w ws IH]; intros lg tbl lg' tbl' l t H F; cbn [do_writes map] in *.
  - inv H. eauto.
  - destruct w as [slot|from to]; cbn [tiw].
    + rewrite Hab in *.
      destruct (mk_rec p (up_abs u - totalReleased p) (up_key u) (up_off u) (up_size u) k) as [r|]; [|discriminate].
      eapply IH; [exact H|]. apply Forall2_app; [exact F|]. constructor; [cbn; auto|constructor].
    + rewrite Hab.
      destruct (slot_get tbl from None) as [r0|]; [|discriminate].
      destruct (live_index p r0) as [i|]; [|discriminate].
      destruct (mk_rec p i (r_key r0) (r_off r0) (r_size r0) (r_up r0)) as [r|] eqn:Er; [|discriminate].
      destruct (mk_rec_any _ _ _ _ _ _ _ (up_abs u - totalReleased p) (up_key u) (up_off u) (up_size u) k Er)
        as [r' [Er' Es]].
      rewrite Er'. eapply IH; [exact H|]. apply Forall2_app; [exact F|]. constructor; [cbn; auto|constructor].
Qed.

Lemma cstep_fin_sim g cfg c ch k seed ws c1 :
  Forall2 A.tok_rel (A.abss c) (s_uploads (cs_sys c)) ->
  sim c ch -> cstep g cfg c (CFinalize k seed ws) = Some c1 ->
  exists ch1, cstep g cfg ch (CFinalize k seed (map tiw ws)) = Some ch1 /\ sim c1 ch1.
Proof.
  intros Htok [Ec F] H. rewrite Ec. set (l := cs_log ch) in *. set (t := cs_tbl ch) in *. clearbody l t.
  cbn [cstep] in H |- *.
  cbn [cs_sys cs_ups cs_log cs_tbl cs_seeds cs_elast with_index] in *.
  destruct (nth_error (cs_ups c) k) as [u|] eqn:Eu; [|discriminate].
  destruct (nth_error (s_uploads (cs_sys c)) k) as [[[tok size]|]|] eqn:Et; try discriminate.
  destruct (up_state u) as [|ok|] eqn:Eus; try discriminate.
  change (fresh (with_index c l t) seed) with (fresh c seed).
  destruct (negb (fresh c seed)); [discriminate|].
  destruct (put_finalize tok (if ok then Some (up_off u) else None) size seed (s_pbl (cs_sys c)))
    as [[p' fr]|] eqn:Epf; [|discriminate].
  destruct (sys_step cfg c (EFinalize k (if ok then Some (up_off u) else None) seed)) as [c0|] eqn:Ess;
    [|discriminate].
  destruct (sys_step_frame _ _ l t _ _ Ess) as [Fs Es]. rewrite Fs.
  apply A.sys_step_inv in Ess. destruct Ess as [s1 [Hs ->]].
  destruct fr as [off| | |].
  2-4: destruct ws; [|discriminate]; inv H; cbn [map];
    (eexists; split; [reflexivity|]);
    destruct (length (epochSeeds (s_pbl (cs_sys c))) <? length (epochSeeds p')); (split; [reflexivity|exact F]).
  destruct (do_writes p' k u ws (cs_log c) (cs_tbl c)) as [[lg' tbl']|] eqn:Edw; [|discriminate]. inv H.
  assert (Hab : up_abs u <? totalReleased p' = false).
  { destruct (A.put_finalize_spec _ _ _ _ _ _ _ Epf) as [_ Hn|abs off0 Htk _ Hle _ T1 _ _ _ _ _]; [exfalso; eapply Hn; eauto|].
    subst tok. eapply (A.Forall2_nth _ _ _ k (up_abs u)) in Htok; [| |exact Et].
    - cbn in Htok. subst abs. apply Nat.ltb_ge. lia.
    - unfold A.abss. apply map_nth_error. exact Eu. }
  destruct (do_writes_sim _ _ _ _ Hab _ _ _ _ l t Edw F) as (l' & t' & Edw' & F').
  cbn [cs_log cs_tbl with_sys with_index] in *. rewrite Edw'.
  eexists. split; [reflexivity|].
  destruct (length (epochSeeds (s_pbl (cs_sys c))) <? length (epochSeeds p')); (split; [reflexivity|exact F']).
Qed.

Lemma with_index_len c c' : sim c c' -> length (cs_log c') = length (cs_log c).
Proof. intros [_ F]. symmetry. eapply F2_len; eauto. Qed.

Theorem sim_step g cfg c ch e c1 :
  Forall2 A.tok_rel (A.abss c) (s_uploads (cs_sys c)) ->
  sim c ch -> cstep g cfg c e = Some c1 ->
  exists ch1, cstep g cfg ch (tev e) = Some ch1 /\ sim c1 ch1.
Proof.
  intros Htok S H.
  assert (Hother : (forall k s ws, e <> CFinalize k s ws) -> exists ch1, cstep g cfg ch e = Some ch1 /\ sim c1 ch1).
  { intros Hne. pose proof (with_index_len _ _ S) as Hlen. destruct S as [Ec F].
    destruct (cstep_frame g cfg c (cs_log ch) (cs_tbl ch) e c1 Hne Hlen H) as (extra & E1 & E2).
    rewrite <- Ec in E2. eexists. split; [exact E2|]. split.
    - reflexivity.
    - cbn [cs_log with_index]. rewrite E1. apply F2_app_refl. exact F. }
  destruct e; try (apply Hother; intros; discriminate).
  cbn [tev]. eapply cstep_fin_sim; eauto.
Qed.

(** ---- runs ---- *)
Lemma sim_fields c ch : sim c ch ->
  cs_sys ch = cs_sys c /\ cs_ups ch = cs_ups c /\ cs_locs ch = cs_locs c /\ cs_cur ch = cs_cur c /\
  cs_free ch = cs_free c /\ cs_held ch = cs_held c /\ cs_dirpc ch = cs_dirpc c /\
  cs_seeds ch = cs_seeds c /\ cs_elast ch = cs_elast c /\ cs_old ch = cs_old c.
Proof. intros [-> _]. cbn. repeat split. Qed.

(** the data / state-write / directory entries of the two logs coincide *)
Lemma sim_nth_noindex c ch q e : sim c ch -> (forall s r, e <> IoIndex s r) ->
  (nth_error (cs_log c) q = Some e <-> nth_error (cs_log ch) q = Some e).
Proof.
  intros [_ F] Hni. split; intros H.
  - destruct (F2_nth _ _ _ F _ _ H) as (y & Hy & R). destruct e, y; cbn in R; try contradiction; try (inv R; exact Hy);
      try (exfalso; eapply Hni; reflexivity); try discriminate.
  - destruct (F2_nth_l _ _ _ F _ _ H) as (x & Hx & R). destruct x, e; cbn in R; try contradiction; try (inv R; exact Hx);
      try (exfalso; eapply Hni; reflexivity); try discriminate.
Qed.

Lemma sim_firstn c ch n : sim c ch -> Forall2 erel (firstn n (cs_log c)) (firstn n (cs_log ch)).
Proof.
  intros [_ F]. revert n. induction F as [|a b l l' Hab F IH]; intros [|n]; cbn; constructor; auto.
Qed.

Lemma erel_dstep st e e' : erel e e' -> dstep st e = dstep st e'.
Proof. destruct st as [[[pos pc] wc] lw]. destruct e, e'; cbn; intros H; try contradiction; try (inv H; reflexivity); reflexivity. Qed.

Lemma erel_dscan (l l' : log) : Forall2 erel l l' -> dscan l = dscan l'.
Proof.
  intros F0. unfold dscan. generalize (0, 0, 0, @None nat). induction F0 as [|a b l l' Hab F IH]; intros st; cbn; [reflexivity|].
  rewrite (erel_dstep st _ _ Hab). apply IH.
Qed.

Lemma erel_shaped (l l' : log) : Forall2 erel l l' -> shaped l' -> shaped l.
Proof.
  intros F S q e Hq. destruct (F2_nth _ _ _ F _ _ Hq) as (y & Hy & R).
  assert (Ef : Forall2 erel (firstn q l) (firstn q l')).
  { clear - F. revert q. induction F; intros [|q]; cbn; constructor; auto. }
  unfold dpc. rewrite (erel_dscan _ _ Ef). specialize (S _ _ Hy). unfold dpc in S.
  destruct e, y; cbn in R; try contradiction; try (inv R; exact S); exact Logic.I.
Qed.
