(** Persist/CrashRepeatEpoch.v — the epoch / durability invariant of
    Persist/CrashEpochProofs.v generalised from the FIRST life (a store that
    started on empty media) to a life that starts on ANY medium [base] whose
    index records are described by an abstract predicate [Back]:

      [Back r]   "record [r] designates (key, offset, size of) a completed upload
                  of an EARLIER life all of whose data was durable when that
                  life crashed" — the file only uses that [Back] depends on the
                  key / offset / size of a record alone ([Back_same]);
      [old]      the seeds that occur in the base index (= [cs_old]);
      [sd0]      the seeds restored from the base state file at the restart.

    The upload tags [r_up] / [IoData u] of CrashLts.v are indices into the
    upload table of ONE life, so a record that the new life re-writes with
    [IwMove] from a base record carries a stale tag.  The invariant therefore
    says of every record write of the life: it is NATIVE (designates a
    completed upload of this life, written after all its data) OR [Back]; of
    every table entry whose seed is a seed of the life: native or [Back]
    (entries with a dead seed can never be read successfully: [TS] + the
    [fresh] guard).  New ingredients w.r.t. the first-life invariant:
      [LN]  no record written in this life carries a restored seed;
      [WN]/[FN] the seeds of every state file written / in flight are duplicate free;
      [P0]  the restored seeds stay the first seeds of the life; a seed of the
            life that also occurs in the base index is a restored one.
    Everything about the system state ([SI], [UI]) is reused unchanged.
    Stdlib only; no axioms. *)
From Coq Require Import List NArith ZArith Bool Arith Lia.
From BBS Require Import Persist.PBL Persist.PBLProofs Persist.Syncer Persist.SyncerProofs
                        Persist.Crash Persist.CrashLts Persist.CrashEpochProofs.
Import ListNotations.

Local Notation log := (list (io irec)).

(** ---- GetPersistentState lists a prefix of the epoch seeds, each once ---- *)
Lemma firstn_plus {A} (a b : nat) : forall (l : list A), firstn a l ++ firstn b (skipn a l) = firstn (a + b) l.
Proof.
  induction a as [|a IH]; intros l; [reflexivity|].
  destruct l as [|x l]; cbn.
  - destruct b; reflexivity.
  - rewrite IH. reflexivity.
Qed.

Lemma skipn_plus {A} (a b : nat) : forall (l : list A), skipn b (skipn a l) = skipn (a + b) l.
Proof.
  induction a as [|a IH]; intros l; [reflexivity|].
  destruct l as [|x l]; cbn; [destruct b; reflexivity|apply IH].
Qed.

Lemma gps_loop_concat bs : forall lastE synced seeds r, gps_loop bs lastE synced seeds = Ok r ->
  concat (map bs_seeds r) = firstn (synced - lastE) (skipn lastE seeds).
Proof.
  induction bs as [|b bs IH]; intros lastE synced seeds r H; cbn [gps_loop] in H.
  - destruct (Nat.ltb_spec lastE synced) as [Hlt|Hge]; [discriminate|]. inversion H; subst.
    replace (synced - lastE) with 0 by lia. reflexivity.
  - destruct (Nat.ltb_spec lastE synced) as [Hlt|Hge].
    2:{ inversion H; subst. replace (synced - lastE) with 0 by lia. reflexivity. }
    set (last := Nat.min (lastE + b_epochs b) synced) in *.
    destruct (Nat.ltb_spec (length seeds) last) as [Hl|Hl]; [discriminate|].
    destruct (gps_loop bs last synced seeds) as [r'|] eqn:Er; [|discriminate].
    cbn [obind] in H. inversion H; subst r. cbn [map concat bs_seeds].
    rewrite (IH _ _ _ _ Er).
    assert (Hle : lastE <= last) by (unfold last; lia).
    assert (Hle2 : last <= synced) by (unfold last; lia).
    replace (skipn last seeds) with (skipn (last - lastE) (skipn lastE seeds)).
    2:{ rewrite skipn_plus. f_equal. lia. }
    rewrite firstn_plus. f_equal. lia.
Qed.

Lemma gps_seeds_eq p p' st : get_persistent_state p = Ok (p', st) ->
  st_seeds st = firstn (synchronizedEpochs p) (epochSeeds p).
Proof.
  unfold get_persistent_state. destruct (gps_loop _ _ _ _) as [bl|] eqn:E; [|discriminate].
  cbn. intros H. inversion H; subst. unfold st_seeds. cbn [snd].
  rewrite (gps_loop_concat _ _ _ _ _ E). rewrite Nat.sub_0_r. reflexivity.
Qed.

Lemma NoDup_firstn {A} n : forall (l : list A), NoDup l -> NoDup (firstn n l).
Proof.
  induction n as [|n IH]; intros l H; [constructor|].
  destruct l as [|x l]; [constructor|]. cbn. inversion H; subst. constructor; [|auto].
  intros Hin. apply H2. clear - Hin. revert n Hin. induction l as [|y l IHl]; intros [|n] Hin; cbn in *; try contradiction.
  destruct Hin; [auto|right; eauto].
Qed.

Lemma NoDup_app_l {A} (l1 l2 : list A) : NoDup (l1 ++ l2) -> NoDup l1.
Proof.
  induction l1 as [|x l1 IH]; cbn; intros H; [constructor|].
  inversion H; subst. constructor; [|auto]. intros Hin. apply H2. apply in_app_iff. auto.
Qed.

Lemma NoDup_app_r {A} (l1 l2 : list A) : NoDup (l1 ++ l2) -> NoDup l2.
Proof. induction l1 as [|x l1 IH]; cbn; intros H; [exact H|]. inversion H; auto. Qed.

Lemma gps_nodup p p' st : get_persistent_state p = Ok (p', st) -> NoDup (epochSeeds p) -> NoDup (st_seeds st).
Proof. intros H Hn. rewrite (gps_seeds_eq _ _ _ H). apply NoDup_firstn. exact Hn. Qed.

(** the restored seeds are a prefix of the seeds of the state file *)
Lemma restore_seeds_prefix alloc init : forall n bl seeds lasts,
  restore_blocks alloc init n = (bl, seeds, lasts) -> exists rest, concat (map bs_seeds init) = seeds ++ rest.
Proof.
  induction init as [|bs rest IH]; intros n bl seeds lasts H; cbn in H.
  - inversion H; subst. exists []. reflexivity.
  - destruct (alloc _ _).
    + destruct (restore_blocks alloc rest (S n)) as [[bl' seeds'] lasts'] eqn:E.
      inversion H; subst. destruct (IH _ _ _ _ E) as [rr Hr]. exists rr. cbn. rewrite Hr, app_assoc. reflexivity.
    + inversion H; subst. eexists. reflexivity.
Qed.

Lemma restart_seeds_prefix geo st :
  match st with
  | Some s => exists rest, st_seeds (fst s) = epochSeeds (fst (restart geo st)) ++ rest
  | None => epochSeeds (fst (restart geo st)) = []
  end.
Proof.
  unfold restart. destruct st as [[[oldest bl] h]|]; [|reflexivity].
  unfold pbl_new. destruct (restore_blocks _ bl 0) as [[bl' seeds] lasts] eqn:E. cbn.
  unfold st_seeds. cbn. eapply restore_seeds_prefix; eauto.
Qed.

Lemma restart_sync_fields geo st :
  synchronizingEpochs (fst (restart geo st)) = length (epochSeeds (fst (restart geo st))) /\
  synchronizedEpochs (fst (restart geo st)) = length (epochSeeds (fst (restart geo st))).
Proof.
  unfold restart. destruct st as [[[oldest bl] h]|]; unfold pbl_new.
  - destruct (restore_blocks _ bl 0) as [[bl' seeds] lasts]. cbn. auto.
  - cbn. auto.
Qed.

Lemma restart_inv1 geo st t0 : inv1 (init_sys (fst (restart geo st)) t0).
Proof. unfold restart. destruct st as [[[oldest bl] h]|]; apply init_inv1. Qed.

Section Gen.
  Variable Back : irec -> Prop.
  Hypothesis Back_same : forall r r0, r_key r = r_key r0 -> r_off r = r_off r0 -> r_size r = r_size r0 ->
    Back r0 -> Back r.
  Variable old : list N.
  Variable sd0 : list N.

  (** ---- the log invariants ---- *)
  Definition native (ups : list upinfo) (L : log) (pos : nat) (r : irec) : Prop :=
    rec_ok ups r /\ forall q l lo hi, nth_error L q = Some (IoData (r_up r) l lo hi) -> q < pos.
  Definition LR' (ups : list upinfo) (L : log) : Prop :=
    forall pos slot r, nth_error L pos = Some (IoIndex slot r) -> native ups L pos r \/ Back r.
  Definition LT' (ups : list upinfo) (tbl : list (nat * irec)) (seeds : list N) : Prop :=
    forall slot r, In (slot, r) tbl -> In (r_seed r) seeds -> rec_ok ups r \/ Back r.
  Definition TS (tbl : list (nat * irec)) (seeds : list N) : Prop :=
    forall slot r, In (slot, r) tbl -> In (r_seed r) old \/ In (r_seed r) seeds.
  Definition LN (L : log) : Prop :=
    forall pos slot r, nth_error L pos = Some (IoIndex slot r) -> ~ In (r_seed r) sd0.
  Definition WN (L : log) : Prop :=
    forall q st h, nth_error L q = Some (IoWriteNew (st, h)) -> NoDup (st_seeds st).

  Record LI' (L : log) (ups : list upinfo) (tbl : list (nat * irec)) (seeds : list N) (nc ca ns : nat) : Prop :=
    mkLI' {
      li_R' : LR' ups L;
      li_T' : LT' ups tbl seeds;
      li_S' : TS tbl seeds;
      li_C' : LC seeds nc ca L;
      li_Y' : LY seeds ns L;
      li_W' : LW seeds ns L;
      li_N' : LN L;
      li_D' : WN L
    }.

  Lemma LI'_ups L ups ups' tbl seeds nc ca ns : ups_ext ups ups' ->
    LI' L ups tbl seeds nc ca ns -> LI' L ups' tbl seeds nc ca ns.
  Proof.
    intros X [HR HT HS HC HY HW HN HD]. constructor; auto.
    - intros pos slot r H. destruct (HR _ _ _ H) as [[H1 H2]|H1]; [left|right; exact H1].
      split; [eapply rec_ok_ext; eauto|exact H2].
    - intros slot r H Hs. destruct (HT _ _ H Hs) as [H1|H1]; [left; eapply rec_ok_ext; eauto|right; exact H1].
  Qed.

  Lemma LI'_seeds L ups tbl seeds x nc ca ns : nc <= length seeds -> ns <= nc ->
    ~ In x seeds -> ~ In x old ->
    LI' L ups tbl seeds nc ca ns -> LI' L ups tbl (seeds ++ [x]) nc ca ns.
  Proof.
    intros H1 H2 Hx1 Hx2 [HR HT HS HC HY HW HN HD]. constructor; auto.
    - intros slot r H Hs. apply in_app_iff in Hs. destruct Hs as [Hs|[Hs|[]]]; [eauto|].
      exfalso. destruct (HS _ _ H) as [Ho|Ho]; rewrite <- Hs in Ho; contradiction.
    - intros slot r H. destruct (HS _ _ H) as [Ho|Ho]; [left; exact Ho|right; apply in_app_iff; left; exact Ho].
    - unfold LC in *. rewrite firstn_app_le by lia. exact HC.
    - unfold LY in *. rewrite firstn_app_le by lia. exact HY.
    - unfold LW in *. rewrite firstn_app_le by lia. exact HW.
  Qed.

  Lemma LR'_app_noindex ups L e :
    (forall s r, e <> IoIndex s r) ->
    (forall u l lo hi, e = IoData u l lo hi -> forall up, nth_error ups u = Some up -> up_state up <> UpFin true) ->
    LR' ups L -> LR' ups (L ++ [e]).
  Proof.
    intros Hni Hd HR pos slot r H. apply nth_snoc in H.
    destruct H as [[Hp H]|[_ H]]; [|symmetry in H; eapply Hni in H; contradiction].
    destruct (HR _ _ _ H) as [[H1 H2]|H1]; [left|right; exact H1]. split; [exact H1|].
    intros q l lo hi Hq. apply nth_snoc in Hq. destruct Hq as [[_ Hq]|[_ Hq]]; [eauto|].
    exfalso. destruct H1 as [up [Hu [_ [_ [_ [Hs _]]]]]]. symmetry in Hq. eapply Hd; eauto.
  Qed.

  Lemma LN_app_noindex L e : (forall s r, e <> IoIndex s r) -> LN L -> LN (L ++ [e]).
  Proof.
    intros Hni HN pos slot r H. apply nth_snoc in H. destruct H as [[_ H]|[_ H]]; [eauto|].
    symmetry in H. eapply Hni in H. contradiction.
  Qed.

  Lemma WN_app_nowrite L e : (forall st, e <> IoWriteNew st) -> WN L -> WN (L ++ [e]).
  Proof.
    intros Hnw HD q st h H. apply nth_snoc in H. destruct H as [[_ H]|[_ H]]; [eauto|].
    symmetry in H. eapply Hnw in H. contradiction.
  Qed.

  Lemma LI'_app_other L ups tbl seeds nc ca ns e : other_ok ups e ->
    LI' L ups tbl seeds nc ca ns -> LI' (L ++ [e]) ups tbl seeds nc ca ns.
  Proof.
    intros Ho [HR HT HS HC HY HW HN HD].
    assert (Hni : forall s r, e <> IoIndex s r) by (intros s r ->; exact Ho).
    assert (Hnw : forall st, e <> IoWriteNew st) by (intros st ->; exact Ho).
    constructor; auto.
    - apply LR'_app_noindex; auto. intros u l lo hi ->. exact Ho.
    - apply LC_app_noindex; auto.
    - apply LY_app_noindex; auto.
    - apply LW_app_other; auto.
    - apply LN_app_noindex; auto.
    - apply WN_app_nowrite; auto.
  Qed.

  Lemma LI'_app_write L ups tbl seeds nc ca ns st h :
    (forall s, In s (st_seeds st) -> In s (firstn ns seeds)) -> NoDup (st_seeds st) ->
    LI' L ups tbl seeds nc ca ns -> LI' (L ++ [IoWriteNew (st, h)]) ups tbl seeds nc ca ns.
  Proof.
    intros Hst Hnd [HR HT HS HC HY HW HN HD].
    assert (Hni : forall s r, IoWriteNew (st, h) <> @IoIndex irec s r) by (intros; discriminate).
    constructor; auto.
    - apply LR'_app_noindex; auto. intros; discriminate.
    - apply LC_app_noindex; auto.
    - apply LY_app_noindex; auto.
    - intros q st' h' s H Hs. apply nth_snoc in H. destruct H as [[Hq H]|[Hq H]].
      + destruct (HW _ _ _ _ H Hs) as [H1 H2]. split; [exact H1|].
        intros pos slot r Hp Hr. rewrite firstn_snoc by lia.
        apply nth_snoc in Hp. destruct Hp as [[_ Hp]|[_ Hp]]; [eauto|discriminate].
      + inversion H; subst st' h'. split; [auto|].
        intros pos slot r Hp Hr. subst q. rewrite firstn_snoc by lia. rewrite firstn_all.
        apply nth_snoc in Hp. destruct Hp as [[_ Hp]|[_ Hp]]; [|discriminate].
        eapply HY; eauto. subst s. auto.
    - apply LN_app_noindex; auto.
    - intros q st' h' H. apply nth_snoc in H. destruct H as [[_ H]|[_ H]]; [eauto|].
      inversion H; subst. exact Hnd.
  Qed.

  Lemma LI'_app_index L ups tbl seeds nc ca ns slot r :
    rec_ok ups r \/ Back r -> ~ In (r_seed r) (firstn nc seeds) -> ns <= nc ->
    ~ In (r_seed r) sd0 -> In (r_seed r) seeds ->
    LI' L ups tbl seeds nc ca ns -> LI' (L ++ [IoIndex slot r]) ups (tbl ++ [(slot, r)]) seeds nc ca ns.
  Proof.
    intros Hok Hnin Hle Hn0 Hin [HR HT HS HC HY HW HN HD].
    assert (Hnin' : ~ In (r_seed r) (firstn ns seeds)) by (intros H; apply Hnin; eapply in_firstn_le; eauto).
    destruct (nosync_scan L (IoIndex slot r) I) as [_ Ed].
    constructor.
    - intros pos slot' r' H. apply nth_snoc in H. destruct H as [[Hp H]|[Hp H]].
      + destruct (HR _ _ _ H) as [[H1 H2]|H1]; [left|right; exact H1]. split; [exact H1|].
        intros q l lo hi Hq. apply nth_snoc in Hq. destruct Hq as [[_ Hq]|[_ Hq]]; [eauto|discriminate].
      + inversion H; subst slot' r'. destruct Hok as [Hok|Hok]; [left|right; exact Hok]. split; [exact Hok|].
        intros q l lo hi Hq. apply nth_snoc in Hq. destruct Hq as [[Hq _]|[_ Hq]]; [lia|discriminate].
    - intros slot' r' H Hs. apply in_app_iff in H. destruct H as [H|[H|[]]]; [eauto|].
      inversion H; subst. exact Hok.
    - intros slot' r' H. apply in_app_iff in H. destruct H as [H|[H|[]]]; [eauto|].
      inversion H; subst. right. exact Hin.
    - destruct HC as [H1 H2]. split; [rewrite app_length; lia|].
      intros pos slot' r' H Hi. apply nth_snoc in H. destruct H as [[_ H]|[_ H]]; [eauto|].
      inversion H; subst. contradiction.
    - intros pos slot' r' H Hi. rewrite Ed. apply nth_snoc in H. destruct H as [[_ H]|[_ H]]; [eauto|].
      inversion H; subst. contradiction.
    - intros q st h s H Hs. apply nth_snoc in H. destruct H as [[Hq H]|[_ H]]; [|discriminate].
      destruct (HW _ _ _ _ H Hs) as [H1 H2]. split; [exact H1|].
      intros pos slot' r' Hp Hr. rewrite firstn_snoc by lia.
      apply nth_snoc in Hp. destruct Hp as [[_ Hp]|[_ Hp]]; [eauto|].
      inversion Hp; subst. contradiction.
    - intros pos slot' r' H. apply nth_snoc in H. destruct H as [[_ H]|[_ H]]; [eauto|].
      inversion H; subst. exact Hn0.
    - apply WN_app_nowrite; [intros; discriminate|exact HD].
  Qed.

  Lemma LI'_notify L ups tbl seeds nc ca ns :
    LI' L ups tbl seeds nc ca ns -> LI' L ups tbl seeds (length seeds) (length L) ns.
  Proof.
    intros [HR HT HS HC HY HW HN HD]. constructor; auto.
    split; [lia|]. intros pos slot r H _. eapply nth_lt; eauto.
  Qed.

  Lemma LI'_complete L ups tbl seeds nc ca ns : ns <= nc -> ca <= durable_upto L ->
    LI' L ups tbl seeds nc ca ns -> LI' L ups tbl seeds nc ca nc.
  Proof.
    intros Hle Hd [HR HT HS HC HY HW HN HD]. constructor; auto.
    - intros pos slot r H Hin. destruct HC as [_ HC]. specialize (HC _ _ _ H Hin). lia.
    - intros q st h s H Hs. destruct (HW _ _ _ _ H Hs) as [H1 H2]. split; [|exact H2].
      eapply in_firstn_le; eauto.
  Qed.

  (** ---- state files in flight: duplicate-free seeds ---- *)
  Definition FN (s : sys) : Prop := forall st, in_flight s st -> NoDup (st_seeds st).

  Lemma SI_nodup_pbl s L seeds nc ca ns : SI s L seeds nc ca ns -> NoDup (epochSeeds (s_pbl s)).
  Proof.
    intros HS. destruct (si_seeds _ _ _ _ _ _ HS) as [pre [Hx _]].
    pose proof (si_nodup _ _ _ _ _ _ HS) as Hn. rewrite Hx in Hn. eapply NoDup_app_r; eauto.
  Qed.

  Lemma FN_sys s s' L seeds nc ca ns : SI s L seeds nc ca ns -> FN s ->
    (forall st, in_flight s' st -> in_flight s st \/ exists p', get_persistent_state (s_pbl s) = Ok (p', st)) ->
    FN s'.
  Proof.
    intros HS HF HW st Hf. destruct (HW st Hf) as [H|[p' H]]; [auto|].
    eapply gps_nodup; eauto. eapply SI_nodup_pbl; eauto.
  Qed.

  Lemma FN_frame s s' : s_r s' = s_r s -> s_p s' = s_p s -> FN s -> FN s'.
  Proof. intros Er Ep HF st Hf. apply HF. eapply in_flight_frame; eauto. Qed.

  (** ---- the restored seeds ---- *)
  Definition P0 (seeds : list N) (nc : nat) : Prop :=
    firstn (length sd0) seeds = sd0 /\ length sd0 <= nc /\
    forall x, In x seeds -> In x old -> In x sd0.

  Lemma P0_len seeds nc : P0 seeds nc -> length sd0 <= length seeds.
  Proof.
    intros [H _]. pose proof (f_equal (@length _) H) as Hl. rewrite firstn_length in Hl. lia.
  Qed.

  Lemma P0_snoc seeds nc x : P0 seeds nc -> ~ In x old -> P0 (seeds ++ [x]) nc.
  Proof.
    intros H Hx. pose proof (P0_len _ _ H) as Hl. destruct H as [H1 [H2 H3]]. split; [|split; [exact H2|]].
    - rewrite firstn_app_le by exact Hl. exact H1.
    - intros y Hy Ho. apply in_app_iff in Hy. destruct Hy as [Hy|[Hy|[]]]; [auto|]. subst. contradiction.
  Qed.

  Lemma P0_nc seeds nc nc' : P0 seeds nc -> length sd0 <= nc' -> P0 seeds nc'.
  Proof. intros [H1 [H2 H3]] H. split; [exact H1|split; [exact H|exact H3]]. Qed.

  Lemma P0_not_in seeds nc x : P0 seeds nc -> ~ In x (firstn nc seeds) -> ~ In x sd0.
  Proof.
    intros [H1 [H2 _]] Hn Hin. apply Hn. rewrite <- H1 in Hin. eapply in_firstn_le; eauto.
  Qed.

  (** ---- one step of the put loop (as [tp_step_inv], for [LI']) ---- *)
  Ltac tp_simple' HS HL HF Ep :=
    split; [eapply SI_sys;
            [exact HS|assumption|apply core_eq_refl
            |let HP := fresh "HP" in pose proof (si_P _ _ _ _ _ _ HS) as HP; rewrite Ep in HP; exact HP
            |let st := fresh "st" in let Hf := fresh "Hf" in let k := fresh "k" in
             intros st [Hf|[k Hf]]; [left; left; exact Hf|discriminate Hf]]
           |split; [exact HL|
              let st := fresh "st" in let Hf := fresh "Hf" in let k := fresh "k" in
              intros st [Hf|[k Hf]]; [apply HF; left; exact Hf|discriminate Hf]]].

  Lemma tp_step_inv' cfg a s s' L ups tbl seeds nc ca ns :
    pstep cfg a s = Some (Ok s') -> inv1 s' -> SI s L seeds nc ca ns -> LI' L ups tbl seeds nc ca ns -> FN s ->
    SI s' (if p_syncing s then L ++ [IoSyncEnd (a_ok a)] else if p_syncing s' then L ++ [IoSyncBegin] else L)
          seeds (if p_notifies s then length seeds else nc) (if p_notifies s then length L else ca)
          (if p_completes s then nc else ns) /\
    LI' (if p_syncing s then L ++ [IoSyncEnd (a_ok a)] else if p_syncing s' then L ++ [IoSyncBegin] else L)
       ups tbl seeds (if p_notifies s then length seeds else nc) (if p_notifies s then length L else ca)
       (if p_completes s then nc else ns) /\
    FN s'.
  Proof.
    intros Hs I' HS HL HF. unfold pstep in Hs. unfold p_notifies, p_completes.
    change (p_syncing s) with (match s_p s with PSyncing _ _ => true | _ => false end).
    assert (HFl : forall s1, s_r s1 = s_r s -> (forall k st, s_p s1 <> PW k (WWriting st)) -> FN s1).
    { intros s1 Er Hp st [Hf|[k Hf]]; [apply HF; left; rewrite <- Er; exact Hf|exfalso; eapply Hp; eauto]. }
    destruct (s_p s) as [|ch|ch|dl|keep|keep final|keep final|keep final dl|keep w|] eqn:Ep.
    - (* PStart *) inversion Hs; subst s'. cbn. tp_simple' HS HL HF Ep.
    - (* PSelect *) destruct (is_closed _ _); inversion Hs; subst s'; cbn; tp_simple' HS HL HF Ep.
    - (* PIdle *)
      destruct (s_cancel s && _); [|destruct (is_closed _ _); [|discriminate]];
        inversion Hs; subst s'; cbn; tp_simple' HS HL HF Ep.
    - (* PTimer *)
      destruct (s_cancel s && _); [|destruct (_ && _)%bool; [|discriminate]];
        inversion Hs; subst s'; cbn; tp_simple' HS HL HF Ep.
    - (* PNotify *)
      inversion Hs; subst s'. cbn.
      destruct (sync_begin_scan L) as [Eb Ed].
      split; [|split].
      + destruct HS as [H1 H2 H3 H4 H5 H6 H7 H8]. constructor; cbn; auto; try lia.
        * destruct H5 as [pre [Hx [Ha Hb]]]. exists pre. split; [exact Hx|].
          pose proof (f_equal (@length _) Hx) as Hlen. rewrite app_length in Hlen.
          split; [|exact Hb]. lia.
        * exists (length L). split; [exact Eb|lia].
        * intros st [Hf|[k Hf]]; [|discriminate Hf]. apply H8. left. exact Hf.
      + apply LI'_app_other; [exact I|]. eapply LI'_notify; eauto.
      + apply HFl; [reflexivity|intros; discriminate].
    - (* PSyncing *)
      pose proof (si_P _ _ _ _ _ _ HS) as HP. rewrite Ep in HP. destruct HP as [b [Hb Hc]].
      destruct (sync_end_scan L (a_ok a)) as [En Ed].
      split; [|split; [apply LI'_app_other; [exact I|exact HL]|]].
      + destruct (a_ok a) eqn:Ea; inversion Hs; subst s'.
        * eapply SI_sys; [exact HS|assumption|apply core_eq_refl| |].
          -- cbn. split; [exact En|]. rewrite (Ed eq_refl _ Hb). exact Hc.
          -- intros st [Hf|[k Hf]]; [left; left; exact Hf|discriminate Hf].
        * eapply SI_sys; [exact HS|assumption|apply core_eq_refl| |].
          -- cbn. exact En.
          -- intros st [Hf|[k Hf]]; [left; left; exact Hf|discriminate Hf].
      + destruct (a_ok a); inversion Hs; subst s'; (apply HFl; [reflexivity|intros; discriminate]).
    - (* PSyncRet *)
      pose proof (si_P _ _ _ _ _ _ HS) as HP. rewrite Ep in HP. destruct HP as [Hn Hc].
      destruct (nsc_fields (s_pbl s)) as [F1 [F2 F3]].
      destruct (sync_begin_scan L) as [Eb Ed].
      pose proof (si_le1 _ _ _ _ _ _ HS) as Hle.
      destruct (negb keep && negb final) eqn:Ek; inversion Hs; subst s'; cbn [p_syncing s_p with_p with_pbl].
      + split; [|split].
        * destruct HS as [H1 H2 H3 H4 H5 H6 H7 H8]. constructor; sproj; auto; try lia.
          -- destruct H5 as [pre [Hx [Ha Hb]]]. exists pre. rewrite F1, F3. split; [exact Hx|].
             pose proof (f_equal (@length _) Hx) as Hlen. rewrite app_length in Hlen.
             split; [|exact Ha]. lia.
          -- exists (length L). split; [exact Eb|lia].
          -- intros st [Hf|[k Hf]]; [|discriminate Hf]. intros x Hx.
             eapply in_firstn_le; [|exact H3]. eapply H8; [left; exact Hf|exact Hx].
        * apply LI'_app_other; [exact I|]. eapply LI'_notify. eapply LI'_complete; eauto.
        * apply HFl; [reflexivity|intros; discriminate].
      + split; [|split; [eapply LI'_complete; eauto|]].
        * destruct HS as [H1 H2 H3 H4 H5 H6 H7 H8]. constructor; sproj; auto; try lia.
          -- destruct H5 as [pre [Hx [Ha Hb]]]. exists pre. rewrite F1, F2, F3. split; [exact Hx|]. lia.
          -- rewrite F1, F2. exact H6.
          -- intros st [Hf|[k Hf]]; [|discriminate Hf]. intros x Hx.
             eapply in_firstn_le; [|exact H3]. eapply H8; [left; exact Hf|exact Hx].
        * apply HFl; [reflexivity|]. intros k st. destruct keep, final; cbn; discriminate.
    - (* PSyncSleep *)
      destruct (_ <=? _)%N; [|discriminate]. inversion Hs; subst s'. cbn.
      destruct (sync_begin_scan L) as [Eb Ed].
      split; [|split; [apply LI'_app_other; [exact I|exact HL]|]].
      + eapply SI_sys; [exact HS|assumption|apply core_eq_refl| |].
        * cbn. exists (length L). split; [exact Eb|]. apply (proj1 (li_C' _ _ _ _ _ _ _ HL)).
        * intros st [Hf|[k Hf]]; [left; left; exact Hf|discriminate Hf].
      + apply HFl; [reflexivity|intros; discriminate].
    - (* PW *)
      pose proof (si_P _ _ _ _ _ _ HS) as HP. rewrite Ep in HP. cbn in HP.
      destruct (wstep cfg TP w a s) as [[[s1 [w'|]]|]|] eqn:E; try discriminate;
        destruct (wstep_facts _ _ _ _ _ _ _ E) as [C1 [C2 [C3 C4]]]; inversion Hs; subst s'.
      + cbn.
        assert (HW : forall st, in_flight (with_p s1 (PW keep w')) st ->
                  in_flight s st \/ exists p', get_persistent_state (s_pbl s) = Ok (p', st)).
        { intros st [Hf|[k Hf]].
          - left. left. cbn in Hf. rewrite C2 in Hf. exact Hf.
          - right. cbn in Hf. inversion Hf; subst. eapply C4; eauto. }
        split; [|split; [exact HL|eapply FN_sys; eauto]].
        eapply SI_sys; [exact HS|assumption|exact C1|exact HP|exact HW].
      + assert (Eq : p_syncing (with_p s1 (if keep then PStart else PExit)) = false) by (destruct keep; reflexivity).
        rewrite Eq.
        assert (HW : forall st, in_flight (with_p s1 (if keep then PStart else PExit)) st ->
                  in_flight s st \/ exists p', get_persistent_state (s_pbl s) = Ok (p', st)).
        { intros st [Hf|[k Hf]].
          - left. left. cbn in Hf. rewrite C2 in Hf. exact Hf.
          - cbn in Hf. destruct keep; discriminate Hf. }
        split; [|split; [exact HL|eapply FN_sys; eauto]].
        eapply SI_sys; [exact HS|assumption|exact C1| |exact HW].
        destruct keep; exact HP.
    - discriminate.
  Qed.

  (** ---- record writes of a finalizer section ---- *)
  Lemma do_writes_inv' p k u ups seeds nc ca ns :
    (forall sd, last_seed p = Some sd -> ~ In sd (firstn nc seeds) /\ ~ In sd sd0 /\ In sd seeds) ->
    (forall r0 i, live_index p r0 = Some i -> In (r_seed r0) seeds) ->
    (forall r, r_up r = k -> r_key r = up_key u -> r_off r = up_off u -> r_size r = up_size u -> rec_ok ups r) ->
    ns <= nc ->
    forall ws L tbl L' tbl', do_writes p k u ws L tbl = Some (L', tbl') ->
    LI' L ups tbl seeds nc ca ns ->
    LI' L' ups tbl' seeds nc ca ns /\ pending_begin L' = pending_begin L /\ durable_upto L' = durable_upto L.
  Proof.
    intros Hsd Hlive Hnew Hle. induction ws as [|w ws IH]; intros L tbl L' tbl' H HL; cbn [do_writes] in H.
    - inversion H; subst. auto.
    - destruct w as [slot|from to].
      + destruct (_ <? _); [discriminate|].
        destruct (mk_rec _ _ _ _ _ _) as [r|] eqn:Er; [|discriminate].
        destruct (mk_rec_facts _ _ _ _ _ _ _ Er) as [F1 [F2 [F3 [F4 F5]]]].
        destruct (Hsd _ F5) as [S1 [S2 S3]].
        destruct (nosync_scan L (IoIndex slot r) I) as [E1 E2].
        destruct (IH _ _ _ _ H) as [G1 [G2 G3]].
        * apply LI'_app_index; auto.
        * split; [exact G1|]. split; congruence.
      + destruct (slot_get tbl from None) as [r0|] eqn:Eg; [|discriminate].
        destruct (live_index p r0) as [i0|] eqn:El; [|discriminate].
        destruct (mk_rec _ _ _ _ _ _) as [r|] eqn:Er; [|discriminate].
        destruct (mk_rec_facts _ _ _ _ _ _ _ Er) as [F1 [F2 [F3 [F4 F5]]]].
        destruct (Hsd _ F5) as [S1 [S2 S3]].
        destruct (nosync_scan L (IoIndex to r) I) as [E1 E2].
        destruct (IH _ _ _ _ H) as [G1 [G2 G3]].
        * apply LI'_app_index; auto.
          apply slot_get_in in Eg. destruct Eg as [Eg|[s' Eg]]; [discriminate|].
          destruct (li_T' _ _ _ _ _ _ _ HL _ _ Eg (Hlive _ _ El)) as [Hr|Hr].
          -- left. eapply rec_ok_same; eauto.
          -- right. eapply Back_same; eauto.
        * split; [exact G1|]. split; congruence.
  Qed.

  (** ---- the invariant ---- *)
  Definition CI' (s : sys) (L : log) (ups : list upinfo) (tbl : list (nat * irec)) (seeds : list N)
                (nc ca ns : nat) : Prop :=
    SI s L seeds nc ca ns /\ UI ups /\ LI' L ups tbl seeds nc ca ns /\ P0 seeds nc /\ FN s.

  Definition rcinv (c : cst) : Prop :=
    CI' (cs_sys c) (cs_log c) (cs_ups c) (cs_tbl c) (cs_seeds c) (cs_nclosed c) (cs_closed_at c) (cs_nsynced c)
    /\ cs_old c = old.

  Lemma finalize_core' s s' L ups tbl seeds nc ca ns k u seed fr ok :
    CI' s L ups tbl seeds nc ca ns ->
    inv1 s' -> s_r s' = s_r s -> s_p s' = s_p s ->
    synchronizingEpochs (s_pbl s') = synchronizingEpochs (s_pbl s) ->
    synchronizedEpochs (s_pbl s') = synchronizedEpochs (s_pbl s) ->
    ((epochSeeds (s_pbl s') = epochSeeds (s_pbl s) /\
      forall o, fr = FinOk o -> length (epochSeeds (s_pbl s)) <> synchronizingEpochs (s_pbl s)) \/
     epochSeeds (s_pbl s') = epochSeeds (s_pbl s) ++ [seed]) ->
    ~ In seed seeds -> ~ In seed old ->
    nth_error ups k = Some u -> up_state u = UpDone ok -> (forall o, fr = FinOk o -> ok = true) ->
    forall seeds',
    seeds' = (if length (epochSeeds (s_pbl s)) <? length (epochSeeds (s_pbl s')) then seeds ++ [seed] else seeds) ->
    (forall o ws L' tbl', fr = FinOk o -> do_writes (s_pbl s') k u ws L tbl = Some (L', tbl') ->
       CI' s' L' (upd_nth ups k (fin_up true)) tbl' seeds' nc ca ns) /\
    (forall b, CI' s' L (upd_nth ups k (fin_up b)) tbl seeds' nc ca ns).
  Proof.
    intros [HS [HU [HL [HP HF]]]] I' Er Ep E2 E3 Hd Hfresh Hfresh2 Hk Hst Hok seeds' Hseeds'.
    assert (HS' : SI s' L seeds' nc ca ns).
    { eapply SI_finalize with (seed := seed); eauto. destruct Hd as [[E1 _]|E1]; rewrite E1 in Hseeds'.
      - rewrite Nat.ltb_irrefl in Hseeds'. left. auto.
      - rewrite app_length in Hseeds'. cbn [length] in Hseeds'.
        replace (_ <? _) with true in Hseeds' by (symmetry; apply Nat.ltb_lt; lia). right. auto. }
    assert (HF' : FN s') by (eapply FN_frame; eauto).
    assert (HP' : P0 seeds' nc).
    { subst seeds'. destruct (_ <? _); [apply P0_snoc; assumption|exact HP]. }
    assert (Hext : forall b, ups_ext ups (upd_nth ups k (fin_up b))).
    { intros b. eapply ups_ext_upd; [exact Hk|]. rewrite Hst. discriminate. }
    assert (HL' : forall b, LI' L (upd_nth ups k (fin_up b)) tbl seeds' nc ca ns).
    { intros b. eapply LI'_ups; [apply Hext|]. subst seeds'.
      destruct (_ <? _); [|exact HL].
      apply LI'_seeds; [apply (si_le2 _ _ _ _ _ _ HS)|apply (si_le1 _ _ _ _ _ _ HS)|exact Hfresh|exact Hfresh2|exact HL]. }
    assert (HU' : forall b, UI (upd_nth ups k (fin_up b))).
    { intros b. eapply UI_upd; [exact HU|exact Hk|]. cbn. discriminate. }
    split; [|intros b; split; [exact HS'|split; [apply HU'|split; [apply HL'|split; [exact HP'|exact HF']]]]].
    intros o ws L' tbl' -> Hw.
    specialize (Hok o eq_refl). subst ok.
    destruct (si_seeds _ _ _ _ _ _ HS') as [pre [Hx _]].
    destruct (do_writes_inv' (s_pbl s') k u (upd_nth ups k (fin_up true)) seeds' nc ca ns) with (5 := Hw) as [G1 [G2 G3]].
    - (* the seed of new records is not closed *)
      intros sd Hsd. unfold last_seed in Hsd.
      assert (Hpos : length (epochSeeds (s_pbl s')) > 0) by (apply nth_lt in Hsd; lia).
      pose proof (f_equal (@length _) Hx) as Hlen. rewrite app_length in Hlen.
      assert (Hnc : ~ In sd (firstn nc seeds')).
      { apply nodup_not_in_firstn with (i := length seeds' - 1).
        + apply (si_nodup _ _ _ _ _ _ HS').
        + rewrite Hx at 1. rewrite nth_error_app2 by lia.
          replace (length seeds' - 1 - length pre) with (length (epochSeeds (s_pbl s')) - 1) by lia. exact Hsd.
        + pose proof (si_le2 _ _ _ _ _ _ HS) as Hle2.
          destruct Hd as [[E1 Hne]|E1]; rewrite E1 in Hseeds'.
          * rewrite Nat.ltb_irrefl in Hseeds'. subst seeds'.
            specialize (Hne o eq_refl). pose proof (si_J _ _ _ _ _ _ HS) as HJ.
            assert (length seeds <> nc) by (intros Hc; apply Hne; symmetry; apply HJ; exact Hc). lia.
          * rewrite app_length in Hseeds'. cbn [length] in Hseeds'.
            replace (_ <? _) with true in Hseeds' by (symmetry; apply Nat.ltb_lt; lia).
            subst seeds'. rewrite app_length. cbn. lia. }
      split; [exact Hnc|]. split; [eapply P0_not_in; eauto|].
      rewrite Hx. apply in_app_iff. right. eapply nth_error_In; eauto.
    - intros r0 i Hl. unfold live_index in Hl. apply resolve_ref_seed in Hl.
      rewrite Hx. apply in_app_iff. right. exact Hl.
    - intros r R1 R2 R3 R4. exists (fin_up true u). rewrite R1.
      split; [apply nth_upd_same; exact Hk|]. cbn. repeat split; auto.
      apply (HU _ _ Hk Hst).
    - apply (si_le1 _ _ _ _ _ _ HS).
    - apply HL'.
    - split; [eapply SI_log; eauto|]. split; [apply HU'|]. split; [exact G1|]. split; [exact HP'|exact HF'].
  Qed.

  (** ---- every step preserves the invariant ---- *)
  Ltac cproj' := unfold rcinv;
    cbn [cs_sys cs_log cs_ups cs_tbl cs_seeds cs_nclosed cs_closed_at cs_nsynced cs_old
         with_sys with_log with_ups with_alloc with_dirpc with_index with_seeds with_sync_ghost].

  Lemma env_core_cinv' cfg c e s' : rcinv c -> step cfg (cs_sys c) e = Some (Ok s') ->
    (forall t a, e <> EStep t a) -> core_eq (s_pbl (cs_sys c)) (s_pbl s') ->
    CI' s' (cs_log c) (cs_ups c) (cs_tbl c) (cs_seeds c) (cs_nclosed c) (cs_closed_at c) (cs_nsynced c).
  Proof.
    intros [[HS [HU [HL [HP HF]]]] _] Hs Hne Hc. split; [eapply env_core_SI; eauto|].
    split; [exact HU|]. split; [exact HL|]. split; [exact HP|].
    destruct (env_frame _ _ _ _ Hne Hs) as [Er Ep]. eapply FN_frame; eauto.
  Qed.

  Lemma cpush_inv' g cfg c c' : rcinv c -> cstep g cfg c CPush = Some c' -> rcinv c'.
  Proof.
    intros Hc H. cbn [cstep] in H. pose proof (proj2 Hc) as Ho.
    assert (G : forall alloc c1, sys_step cfg c (EPushBack alloc) = Some c1 ->
              CI' (cs_sys c1) (cs_log c) (cs_ups c) (cs_tbl c) (cs_seeds c) (cs_nclosed c) (cs_closed_at c) (cs_nsynced c)
              /\ cs_old c1 = old).
    { intros alloc c1 H1. apply sys_step_inv in H1. destruct H1 as [s' [Hs ->]]. cbn [cs_sys with_sys cs_old].
      split; [|exact Ho].
      eapply env_core_cinv'; eauto; [intros; discriminate|]. exact (step_env_core _ _ _ _ Hs). }
    assert (G' : forall alloc c1, sys_step cfg c (EPushBack alloc) = Some c1 -> rcinv c1).
    { intros alloc c1 H1. pose proof (G _ _ H1) as H2. apply sys_step_inv in H1. destruct H1 as [s' [Hs ->]]. exact H2. }
    destruct (closedForWriting _); [eauto|]. destruct (cs_free c) as [|l fr]; [eauto|].
    destruct (sys_step cfg c (EPushBack (Some l))) as [c1|] eqn:E; [|discriminate].
    inversion H; subst c'. pose proof (G _ _ E) as H2. apply sys_step_inv in E. destruct E as [s' [Hs ->]]. exact H2.
  Qed.

  Lemma cpop_inv' g cfg c c' : rcinv c -> cstep g cfg c CPop = Some c' -> rcinv c'.
  Proof.
    intros [[HS [HU [HL [HP HF]]]] Ho] H. cbn [cstep] in H. apply sys_step_inv in H. destruct H as [s' [Hs ->]].
    cproj'. split; [|exact Ho].
    destruct (step_inv1 _ _ _ _ (si_inv1 _ _ _ _ _ _ HS) Hs) as [s1 [E [I' _]]]. inversion E; subst s1.
    assert (Hne : forall t a, EPopFront <> EStep t a) by (intros; discriminate).
    destruct (env_frame _ _ _ _ Hne Hs) as [Er Ep].
    split; [|split; [exact HU|split; [exact HL|split; [exact HP|eapply FN_frame; eauto]]]].
    cbn [step] in Hs. destruct (blocks _); [discriminate|].
    destruct (pop_front (s_pbl (cs_sys c))) as [p'|] eqn:Epop; [|discriminate].
    inversion Hs; subst s'. destruct (pop_core _ _ Epop) as [ec [P1 [P2 [P3 P4]]]].
    eapply SI_pop; eauto.
  Qed.

  Lemma cputstart_inv' g cfg c index key size c' : rcinv c -> cstep g cfg c (CPutStart index key size) = Some c' -> rcinv c'.
  Proof.
    intros Hc H. cbn [cstep] in H. destruct (size <? 0)%Z; [discriminate|]. pose proof (proj2 Hc) as Ho.
    destruct (sys_step cfg c (EPutStart index size)) as [c1|] eqn:E; [|discriminate].
    apply sys_step_inv in E. destruct E as [s' [Hs ->]].
    assert (G : forall x, up_state x <> UpDone true -> up_state x <> UpFin true ->
              CI' s' (cs_log c) (cs_ups c ++ [x]) (cs_tbl c) (cs_seeds c) (cs_nclosed c) (cs_closed_at c) (cs_nsynced c)).
    { intros x X1 X2. destruct (env_core_cinv' cfg c _ s' Hc Hs) as [HS [HU [HL HR]]]; [intros; discriminate|exact (step_env_core _ _ _ _ Hs)|].
      split; [exact HS|]. split; [apply UI_app; assumption|]. split; [|exact HR].
      eapply LI'_ups; [apply ups_ext_app|exact HL]. }
    destruct (closedForWriting _).
    - inversion H; subst c'. cproj'. split; [|exact Ho]. apply G; cbn; discriminate.
    - destruct (nth_error (cs_cur c) _); [|discriminate]. destruct (nth_error (cs_locs c) _); [|discriminate].
      destruct (_ <=? _)%Z; [|discriminate]. inversion H; subst c'. cproj'. split; [|exact Ho]. apply G; cbn; discriminate.
  Qed.

  Lemma cdata_inv' g cfg c k n c' : rcinv c -> cstep g cfg c (CData k n) = Some c' -> rcinv c'.
  Proof.
    intros [[HS [HU [HL [HP HF]]]] Ho] H. cbn [cstep] in H.
    destruct (nth_error (cs_ups c) k) as [u|] eqn:Eu; [|discriminate].
    destruct (up_state u) eqn:Est; try discriminate.
    destruct (up_loc (cs_locs c) u) as [l|]; [|discriminate].
    destruct (_ && _)%bool; [|discriminate]. inversion H; subst c'. cproj'. split; [|exact Ho].
    match goal with |- CI' _ (_ ++ [?e]) _ _ _ _ _ _ => destruct (nosync_scan (cs_log c) e I) as [E1 E2] end.
    split; [eapply SI_log; eauto|]. split; [|split; [|split; [exact HP|exact HF]]].
    - eapply UI_upd; eauto. cbn. rewrite Est. discriminate.
    - eapply LI'_ups; [eapply ups_ext_upd; [exact Eu|rewrite Est; discriminate]|].
      apply LI'_app_other; [|exact HL]. cbn. intros up Hup. rewrite Eu in Hup. inversion Hup; subst. rewrite Est. discriminate.
  Qed.

  Lemma cwriterdone_inv' g cfg c k ok c' : rcinv c -> cstep g cfg c (CWriterDone k ok) = Some c' -> rcinv c'.
  Proof.
    intros [[HS [HU [HL [HP HF]]]] Ho] H. cbn [cstep] in H.
    destruct (nth_error (cs_ups c) k) as [u|] eqn:Eu; [|discriminate].
    destruct (up_state u) eqn:Est; try discriminate.
    destruct (ok && negb (up_issued u =? up_size u)%Z) eqn:Eok; [discriminate|].
    match type of H with context [upd_nth (cs_ups c) k ?f] => set (ff := f) in * end.
    assert (G : CI' (cs_sys c) (cs_log c) (upd_nth (cs_ups c) k ff) (cs_tbl c) (cs_seeds c) (cs_nclosed c)
                   (cs_closed_at c) (cs_nsynced c)).
    { split; [exact HS|]. split; [|split; [|split; [exact HP|exact HF]]].
      - eapply UI_upd; eauto. subst ff. cbn. intros Hx. inversion Hx; subst ok. cbn in Eok.
        apply negb_false_iff in Eok. apply Z.eqb_eq in Eok. exact Eok.
      - eapply LI'_ups; [eapply ups_ext_upd; [exact Eu|rewrite Est; discriminate]|exact HL]. }
    destruct (up_loc (cs_locs c) u) as [l|]; [|injection H as H; rewrite <- H; split; [exact G|exact Ho]].
    destruct (existsb _ _ && _)%bool; injection H as H; rewrite <- H; (split; [exact G|exact Ho]).
  Qed.

  Lemma fresh_not_old c seed : fresh c seed = true -> ~ In seed (cs_old c).
  Proof.
    unfold fresh. intros H Hin. apply andb_prop in H. destruct H as [_ H].
    apply negb_true_iff in H. assert (existsb (N.eqb seed) (cs_old c) = true); [|congruence].
    apply existsb_exists. exists seed. split; [exact Hin|apply N.eqb_refl].
  Qed.

  Lemma cfinalize_inv' g cfg c k seed ws c' : rcinv c -> cstep g cfg c (CFinalize k seed ws) = Some c' -> rcinv c'.
  Proof.
    intros [Hc Ho] H. cbn [cstep] in H.
    destruct (nth_error (cs_ups c) k) as [u|] eqn:Eu; [|discriminate].
    destruct (nth_error (s_uploads (cs_sys c)) k) as [[[tok size]|]|] eqn:Ek; try discriminate.
    destruct (up_state u) as [|ok|] eqn:Est; try discriminate.
    destruct (negb (fresh c seed)) eqn:Ef; [discriminate|]. apply negb_false_iff in Ef.
    destruct (put_finalize tok _ size seed _) as [[p' fr]|] eqn:Epf; [|discriminate].
    destruct (sys_step cfg c _) as [c1|] eqn:Ess; [|discriminate].
    apply sys_step_inv in Ess. destruct Ess as [s' [Hs ->]].
    pose proof Hc as [HS _].
    destruct (step_inv1 _ _ _ _ (si_inv1 _ _ _ _ _ _ HS) Hs) as [s1 [E [I' _]]]. inversion E; subst s1.
    assert (Hne : forall t a, EFinalize k (if ok then Some (up_off u) else None) seed <> EStep t a) by (intros; discriminate).
    destruct (env_frame _ _ _ _ Hne Hs) as [Er Ep].
    assert (Epbl : s_pbl s' = p').
    { cbn [step] in Hs. rewrite Ek, Epf in Hs. inversion Hs; subst s'. reflexivity. }
    destruct (put_finalize_core _ _ _ _ _ _ _ (proj1 (si_inv1 _ _ _ _ _ _ HS)) Epf) as [P1 [P2 [P3 P4]]].
    rewrite <- Epbl in P1, P2, P3, H.
    set (seeds' := if length (epochSeeds (s_pbl (cs_sys c))) <? length (epochSeeds (s_pbl s'))
                   then cs_seeds c ++ [seed] else cs_seeds c).
    assert (Hno : ~ In seed old) by (rewrite <- Ho; apply fresh_not_old; exact Ef).
    destruct (finalize_core' _ s' _ _ _ _ _ _ _ k u seed fr ok Hc I' Er Ep P1 P2 P3 (fresh_not_in _ _ Ef) Hno Eu Est)
      with (seeds' := seeds') as [G1 G2]; [|reflexivity|].
    { intros o Ho'. destruct ok; [reflexivity|]. exfalso. eapply P4; eauto. }
    fold (fin_up true) in H. fold (fin_up false) in H.
    destruct fr as [o| | |].
    1:{ destruct (do_writes _ _ _ _ _ _) as [[log' tbl']|] eqn:Ew; [|discriminate].
        inversion H; subst c'. specialize (G1 o ws log' tbl' eq_refl Ew).
        subst seeds'. destruct (_ <? _); (split; [exact G1|exact Ho]). }
    all: destruct ws; [|discriminate]; inversion H; subst c'; specialize (G2 false);
         subst seeds'; destruct (_ <? _); (split; [exact G2|exact Ho]).
  Qed.

  Lemma ctick_inv' g cfg c d c' : rcinv c -> cstep g cfg c (CTick d) = Some c' -> rcinv c'.
  Proof.
    intros Hc H. cbn [cstep] in H. apply sys_step_inv in H. destruct H as [s' [Hs ->]]. cproj'.
    split; [|exact (proj2 Hc)].
    eapply env_core_cinv'; eauto; [intros; discriminate|exact (step_env_core _ _ _ _ Hs)].
  Qed.

  Lemma ccancel_inv' g cfg c c' : rcinv c -> cstep g cfg c CCancel = Some c' -> rcinv c'.
  Proof.
    intros Hc H. cbn [cstep] in H. apply sys_step_inv in H. destruct H as [s' [Hs ->]]. cproj'.
    split; [|exact (proj2 Hc)].
    eapply env_core_cinv'; eauto; [intros; discriminate|exact (step_env_core _ _ _ _ Hs)].
  Qed.

  Lemma cstep_tr_inv' g cfg c a c' : rcinv c -> cstep g cfg c (CStep TR a) = Some c' -> rcinv c'.
  Proof.
    intros [[HS [HU [HL [HP HF]]]] Ho] H. cbn [cstep] in H. destruct (_ && _)%bool; [discriminate|].
    destruct (sys_step cfg c (EStep TR a)) as [c1|] eqn:E; [|discriminate].
    apply sys_step_inv in E. destruct E as [s' [Hs ->]].
    destruct (release_regions _ _ _ _ _) as [fr hd].
    assert (G : CI' s' (cs_log c) (cs_ups c) (cs_tbl c) (cs_seeds c) (cs_nclosed c) (cs_closed_at c) (cs_nsynced c)).
    { destruct (step_inv1 _ _ _ _ (si_inv1 _ _ _ _ _ _ HS) Hs) as [s1 [E [I' _]]]. inversion E; subst s1.
      cbn [step] in Hs. destruct (rstep_facts _ _ _ _ Hs) as [C1 [C2 C3]].
      assert (HW : forall st, in_flight s' st ->
                in_flight (cs_sys c) st \/ exists p', get_persistent_state (s_pbl (cs_sys c)) = Ok (p', st)).
      { intros st [Hf|[k Hf]]; [right; eauto|]. left. right. exists k. rewrite <- C2. exact Hf. }
      split; [|split; [exact HU|split; [exact HL|split; [exact HP|eapply FN_sys; eauto]]]].
      eapply SI_sys; [exact HS|exact I'|exact C1| |exact HW].
      rewrite C2. apply (si_P _ _ _ _ _ _ HS). }
    match type of H with context [if ?b then with_dirpc _ _ else _] => destruct b end;
      inversion H; subst c'; (split; [exact G|exact Ho]).
  Qed.

  Lemma cstep_tp_inv' g cfg c a c' : rcinv c -> cstep g cfg c (CStep TP a) = Some c' -> rcinv c'.
  Proof.
    intros [[HS [HU [HL [HP HF]]]] Ho] H. cbn [cstep] in H. destruct (_ && _)%bool; [discriminate|].
    destruct (sys_step cfg c (EStep TP a)) as [c1|] eqn:E; [|discriminate].
    apply sys_step_inv in E. destruct E as [s' [Hs ->]].
    destruct (release_regions _ _ _ _ _) as [fr hd].
    destruct (step_inv1 _ _ _ _ (si_inv1 _ _ _ _ _ _ HS) Hs) as [s1 [E [I' _]]]. inversion E; subst s1.
    cbn [step] in Hs. destruct (tp_step_inv' _ _ _ _ _ _ _ _ _ _ _ Hs I' HS HL HF) as [G1 [G2 G3]].
    pose proof (P0_len _ _ HP) as Hlen.
    assert (HP' : P0 (cs_seeds c) (if p_notifies (cs_sys c) then length (cs_seeds c) else cs_nclosed c)).
    { destruct (p_notifies (cs_sys c)); [eapply P0_nc; eauto|exact HP]. }
    destruct (thread_at_getstate (cs_sys c) TP); destruct (p_notifies (cs_sys c)); inversion H; subst c';
      (split; [split; [exact G1|split; [exact HU|split; [exact G2|split; [exact HP'|exact G3]]]]|exact Ho]).
  Qed.

  Lemma cdir_inv' g cfg c c' : rcinv c -> cstep g cfg c CDir = Some c' -> rcinv c'.
  Proof.
    intros [[HS [HU [HL [HP HF]]]] Ho] H. cbn [cstep] in H.
    destruct (writing (cs_sys c)) as [st|] eqn:Ew; [|discriminate].
    destruct (_ <? _); [|discriminate]. inversion H; subst c'. cproj'. split; [|exact Ho].
    apply writing_in_flight in Ew.
    assert (Hn : nosync (dir_op (cs_dirpc c) (st, g_hinit g))).
    { unfold dir_op. destruct (cs_dirpc c) as [|[|[|[|[|n]]]]]; exact I. }
    destruct (nosync_scan (cs_log c) _ Hn) as [E1 E2].
    split; [eapply SI_log; eauto|]. split; [exact HU|]. split; [|split; [exact HP|exact HF]].
    unfold dir_op. destruct (cs_dirpc c) as [|[|[|[|[|n]]]]]; try (apply LI'_app_other; [exact I|exact HL]).
    apply LI'_app_write; [|apply HF; exact Ew|exact HL]. apply (si_W _ _ _ _ _ _ HS). exact Ew.
  Qed.

  Theorem cstep_rcinv g cfg c e c' : rcinv c -> cstep g cfg c e = Some c' -> rcinv c'.
  Proof.
    intros Hc H. destruct e as [| |index key size|k n|k ok|k seed ws|d| |[|] a|].
    - eapply cpush_inv'; eauto.
    - eapply cpop_inv'; eauto.
    - eapply cputstart_inv'; eauto.
    - eapply cdata_inv'; eauto.
    - eapply cwriterdone_inv'; eauto.
    - eapply cfinalize_inv'; eauto.
    - eapply ctick_inv'; eauto.
    - eapply ccancel_inv'; eauto.
    - eapply cstep_tr_inv'; eauto.
    - eapply cstep_tp_inv'; eauto.
    - eapply cdir_inv'; eauto.
  Qed.

  Lemma crun_rcinv g cfg tr : forall c c', rcinv c -> crun g cfg c tr = Some c' -> rcinv c'.
  Proof.
    induction tr as [|e tr IH]; intros c c' Hc H; cbn [crun] in H.
    - inversion H; subst. exact Hc.
    - destruct (cstep g cfg c e) as [c1|] eqn:E; [|discriminate].
      eapply IH; [|exact H]. eapply cstep_rcinv; eauto.
  Qed.

  (** ---- the start of a life on [base] ---- *)
  Lemma cinit_rcinv g base t0 :
    sd0 = epochSeeds (fst (restart (geom g) (m_state base))) ->
    old = map (fun e => r_seed (snd e)) (m_index base) ->
    NoDup sd0 ->
    (forall slot r, In (slot, r) (m_index base) -> In (r_seed r) sd0 -> Back r) ->
    rcinv (cinit g base t0).
  Proof.
    intros Esd Eold Hnd Hback. unfold rcinv, cinit.
    cbn [cs_sys cs_log cs_ups cs_tbl cs_seeds cs_nclosed cs_closed_at cs_nsynced cs_old].
    set (p := fst (restart (geom g) (m_state base))) in *.
    destruct (restart_sync_fields (geom g) (m_state base)) as [E2 E3]. fold p in E2, E3.
    rewrite <- Esd.
    assert (Hnil : forall {A} k (x : A), nth_error (@nil A) k = Some x -> False) by (intros A [|k] x Hx; discriminate).
    split; [|symmetry; exact Eold].
    split; [|split; [|split; [|split]]].
    - constructor.
      + apply restart_inv1.
      + exact Hnd.
      + lia.
      + lia.
      + exists []. cbn [s_pbl init_sys app length]. rewrite E2, E3, <- Esd. split; [reflexivity|split; lia].
      + intros _. cbn [s_pbl init_sys]. exact E2.
      + reflexivity.
      + intros st [Hf|[k Hf]]; discriminate Hf.
    - intros k u Hk. exfalso. eapply Hnil; eauto.
    - constructor.
      + intros pos slot r H. exfalso. eapply Hnil; eauto.
      + intros slot r H Hs. right. eauto.
      + intros slot r H. left. rewrite Eold. apply in_map_iff. exists (slot, r). auto.
      + split; [cbn; lia|]. intros pos slot r H. exfalso. eapply Hnil; eauto.
      + intros pos slot r H. exfalso. eapply Hnil; eauto.
      + intros q st h s H. exfalso. eapply Hnil; eauto.
      + intros pos slot r H. exfalso. eapply Hnil; eauto.
      + intros q st h H. exfalso. eapply Hnil; eauto.
    - split; [apply firstn_all|]. split; [lia|]. auto.
    - intros st [Hf|[k Hf]]; discriminate Hf.
  Qed.
End Gen.
