(** Persist/PBL.v — the persistent block list of
    pkg/blobstore/local/persistent_block_list.go as a pure state machine.

    Definitions only.  Every method of [PersistentBlockList] is one total
    function on the record [pbl]; a Go run-time panic (index / slice bounds
    out of range, close of a closed channel) is the explicit outcome [Panic].
    What the code obtains from collaborators enters as arguments:
      - [BlockAllocator.NewBlock] / [NewBlockAtLocation]: success/failure and
        the location are supplied by the caller (oracle);
      - a [Block]'s own [Put] finalizer result (offset or error);
      - [random.CryptoThreadSafeGenerator.Uint64()]: the hash seed of a new
        epoch is an opaque number supplied by the environment.
    [Block.Release()] calls are recorded in [releasedLog].

    Go [chan struct{}] values handed out by GetBlock{Release,Put}Wakeup are
    modelled by an identity ([nat]) in a channel heap [chans] that records
    which identities have been closed; [notificationChannel] is the pair
    (identity, isBlocking) exactly as in the code.

    Numeric types: list lengths, indices and counters of blocks/epochs are
    [nat] (Go [int], never negative in the code paths modelled; where the code
    subtracts, the subtraction is done in [Z]); byte offsets are [Z] (int64);
    seeds are [N] (uint64); epoch IDs are [N] modulo 2^32 (uint32). *)
From Coq Require Import List NArith ZArith Bool Arith Lia.
Import ListNotations.

Inductive outcome (A : Type) : Type :=
| Ok (a : A)
| Panic.
Arguments Ok {A} a.
Arguments Panic {A}.

Definition obind {A B} (o : outcome A) (f : A -> outcome B) : outcome B :=
  match o with Ok a => f a | Panic => Panic end.

(** pb.BlockLocation: (offset_bytes, size_bytes). *)
Definition loc : Type := (Z * Z)%type.
Definition loc_eqb (a b : loc) : bool := Z.eqb (fst a) (fst b) && Z.eqb (snd a) (snd b).

(** ---- channels ---- *)
Record chans := mkChans {
  ch_next : nat;            (* identities below this have been made *)
  ch_closed : list nat      (* identities on which close() was called, newest first *)
}.

Definition is_closed (h : chans) (c : nat) : bool := existsb (Nat.eqb c) (ch_closed h).

(** notificationChannel *)
Record nchan := mkNchan {
  nc_chan : nat;
  nc_blocking : bool
}.

(** newNotificationChannel: make(chan struct{}, 1), isBlocking = true *)
Definition new_nc (h : chans) : nchan * chans :=
  (mkNchan (ch_next h) true, mkChans (S (ch_next h)) (ch_closed h)).

(** block(): if !isBlocking { *nc = newNotificationChannel() } *)
Definition nc_block (nc : nchan) (h : chans) : nchan * chans :=
  if nc_blocking nc then (nc, h) else new_nc h.

(** unblock(): if isBlocking { close(channel); isBlocking = false }.
    close of a closed channel panics. *)
Definition nc_unblock (nc : nchan) (h : chans) : outcome (nchan * chans) :=
  if nc_blocking nc then
    if is_closed h (nc_chan nc) then Panic
    else Ok (mkNchan (nc_chan nc) false, mkChans (ch_next h) (nc_chan nc :: ch_closed h))
  else Ok (nc, h).

(** ---- blocks, persistent state ---- *)
(** persistentBlockInfo (the [Block] object itself is identified by its location) *)
Record binfo := mkBinfo {
  b_loc : loc;
  b_written : Z;        (* writtenOffsetBytes *)
  b_syncing : Z;        (* synchronizingOffsetBytes *)
  b_synced : Z;         (* synchronizedOffsetBytes *)
  b_epochs : nat        (* epochCount *)
}.

(** pb.BlockState *)
Record bstate := mkBstate {
  bs_loc : loc;
  bs_off : Z;           (* write_offset_bytes *)
  bs_seeds : list N     (* epoch_hash_seeds *)
}.

(** what GetPersistentState returns: (oldest_epoch_id, blocks) *)
Definition pstate : Type := (N * list bstate)%type.

Record pbl := mkPbl {
  closedForWriting : bool;
  blocks : list binfo;
  epochSeeds : list N;                 (* epochHashSeeds *)
  epochLast : list nat;                (* epochLastAbsoluteBlockIndex *)
  totalReleased : nat;                 (* totalBlocksReleased *)
  oldestEpochID : N;                   (* uint32 *)
  synchronizingEpochs : nat;
  synchronizedEpochs : nat;
  putWakeup : nchan;                   (* blockPutWakeup *)
  toRelease : list loc;                (* blocksToRelease *)
  releasing : nat;                     (* blocksReleasing *)
  releaseWakeup : nchan;               (* blockReleaseWakeup *)
  heap : chans;
  releasedLog : list loc               (* Block.Release() calls so far, oldest first *)
}.

Definition u32 (n : N) : N := N.modulo n (2 ^ 32).
Definition u16z (z : Z) : N := Z.to_N (Z.modulo z (2 ^ 16)).

(** Record update helpers (one per field that methods assign). *)
Definition set_blocks (s : pbl) (v : list binfo) : pbl :=
  mkPbl (closedForWriting s) v (epochSeeds s) (epochLast s) (totalReleased s) (oldestEpochID s)
        (synchronizingEpochs s) (synchronizedEpochs s) (putWakeup s) (toRelease s) (releasing s)
        (releaseWakeup s) (heap s) (releasedLog s).

(** ---- NewPersistentBlockList ---- *)
(** The restoration loop: stops at the first block the allocator cannot
    re-attach; [n] = len(bl.blocks) so far. *)
Fixpoint restore_blocks (alloc_at : loc -> Z -> bool) (init : list bstate) (n : nat)
  : list binfo * list N * list nat :=
  match init with
  | [] => ([], [], [])
  | bs :: rest =>
      if alloc_at (bs_loc bs) (bs_off bs) then
        let '(bl, seeds, lasts) := restore_blocks alloc_at rest (S n) in
        (mkBinfo (bs_loc bs) (bs_off bs) (bs_off bs) (bs_off bs) (length (bs_seeds bs)) :: bl,
         bs_seeds bs ++ seeds,
         repeat n (length (bs_seeds bs)) ++ lasts)
      else ([], [], [])
  end.

Definition pbl_new (alloc_at : loc -> Z -> bool) (initialOldestEpochID : N) (init : list bstate)
  : pbl * nat :=
  let '(bl, seeds, lasts) := restore_blocks alloc_at init 0 in
  let h0 := mkChans 0 [] in
  let '(pw, h1) := new_nc h0 in
  let '(rw, h2) := new_nc h1 in
  (mkPbl false bl seeds lasts 0 (u32 initialOldestEpochID) (length seeds) (length seeds)
         pw [] 0 rw h2 [],
   length bl).

(** ---- BlockReferenceToBlockIndex ---- *)
(** Returns (block index, hash seed) or not-found.  [Panic] only if the two
    epoch lists differ in length (index out of range on epochLast). *)
Definition ref_to_index (epochID : N) (blocksFromLast : N) (s : pbl) : outcome (option (nat * N)) :=
  let epochIndexN := u32 (epochID + 2 ^ 32 - oldestEpochID s) in
  if (N.of_nat (length (epochSeeds s)) <=? epochIndexN)%N then Ok None
  else
    let epochIndex := N.to_nat epochIndexN in
    match nth_error (epochLast s) epochIndex, nth_error (epochSeeds s) epochIndex with
    | Some lastAbs, Some seed =>
        let lastBlockIndex := (Z.of_nat lastAbs - Z.of_nat (totalReleased s))%Z in
        if (lastBlockIndex <? Z.of_N blocksFromLast)%Z then Ok None
        else Ok (Some (Z.to_nat (lastBlockIndex - Z.of_N blocksFromLast), seed))
    | _, _ => Panic
    end.

(** ---- BlockIndexToBlockReference ---- *)
(** ((EpochID, BlocksFromLast), seed); panics when there is no epoch. *)
Definition index_to_ref (blockIndex : nat) (s : pbl) : outcome ((N * N) * N) :=
  match length (epochSeeds s) with
  | O => Panic
  | S lastEpochIndex =>
      match nth_error (epochLast s) lastEpochIndex, nth_error (epochSeeds s) lastEpochIndex with
      | Some lastAbs, Some seed =>
          Ok ((u32 (oldestEpochID s + N.of_nat lastEpochIndex),
               u16z (Z.of_nat lastAbs - Z.of_nat (totalReleased s) - Z.of_nat blockIndex)),
              seed)
      | _, _ => Panic
      end
  end.

(** ---- PopFront ---- *)
Definition pop_front (s : pbl) : outcome pbl :=
  match blocks s with
  | [] => Panic                                         (* bl.blocks[0] *)
  | firstBlock :: rest =>
      obind (nc_unblock (releaseWakeup s) (heap s)) (fun '(rw, h1) =>
      let ec := b_epochs firstBlock in
      if (length (epochSeeds s) <? ec) || (length (epochLast s) <? ec) then Panic  (* [ec:] *)
      else
        let seeds' := skipn ec (epochSeeds s) in
        let lasts' := skipn ec (epochLast s) in
        let syncing' := if synchronizingEpochs s <=? ec then 0 else synchronizingEpochs s - ec in
        let synced' := if synchronizedEpochs s <=? ec then 0 else synchronizedEpochs s - ec in
        let '(pw, h2) := if synced' =? length seeds' then nc_block (putWakeup s) h1
                         else (putWakeup s, h1) in
        Ok (mkPbl (closedForWriting s) rest seeds' lasts' (S (totalReleased s))
                  (u32 (oldestEpochID s + N.of_nat ec)) syncing' synced' pw
                  (toRelease s ++ [b_loc firstBlock]) (releasing s) rw h2 (releasedLog s)))
  end.

(** ---- PushBack ---- *)
Inductive push_result := PushOk | PushClosed | PushAllocFailed.

(** [alloc] is what blockAllocator.NewBlock() answers (consulted only when
    the list is open for writing). *)
Definition push_back (alloc : option loc) (s : pbl) : pbl * push_result :=
  if closedForWriting s then (s, PushClosed)
  else match alloc with
       | None => (s, PushAllocFailed)
       | Some l => (set_blocks s (blocks s ++ [mkBinfo l 0 0 0 0]), PushOk)
       end.

(** ---- Get / HasSpace: forwarded to the block; panic on a bad index ---- *)
Definition block_at (index : nat) (s : pbl) : outcome loc :=
  match nth_error (blocks s) index with Some b => Ok (b_loc b) | None => Panic end.

(** ---- Put ---- *)
(** First phase (under the write lock): either the list is closed — then the
    writer discards the buffer and the finalizer fails — or space is
    allocated in block [index] and the absolute block index is captured. *)
Inductive put_token := PutClosed | PutAt (absoluteBlockIndex : nat).

Definition put_start (index : nat) (s : pbl) : outcome put_token :=
  if closedForWriting s then Ok PutClosed
  else if index <? length (blocks s) then Ok (PutAt (totalReleased s + index))
  else Panic.

Inductive fin_result :=
| FinOk (offsetBytes : Z)
| FinBlockError        (* the block's own finalizer failed *)
| FinClosed            (* errClosedForWriting, codes.Unavailable *)
| FinReleased.         (* codes.Internal: block already released *)

Fixpoint bump_last_epoch_count (bs : list binfo) : list binfo :=
  match bs with
  | [] => []
  | [b] => [mkBinfo (b_loc b) (b_written b) (b_syncing b) (b_synced b) (S (b_epochs b))]
  | b :: rest => b :: bump_last_epoch_count rest
  end.

Fixpoint set_written (bs : list binfo) (i : nat) (w : Z) : list binfo :=
  match bs, i with
  | [], _ => []
  | b :: rest, O =>
      (if (b_written b <? w)%Z then mkBinfo (b_loc b) w (b_syncing b) (b_synced b) (b_epochs b) else b)
      :: rest
  | b :: rest, S i' => b :: set_written rest i' w
  end.

(** The finalizer (under the write lock).  [blk]: result of the block's
    finalizer (Some offset / None = error); [seed]: the random number the
    code would draw if it creates an epoch. *)
Definition put_finalize (tok : put_token) (blk : option Z) (sizeBytes : Z) (seed : N) (s : pbl)
  : outcome (pbl * fin_result) :=
  match tok with
  | PutClosed => Ok (s, FinClosed)
  | PutAt abs =>
      match blk with
      | None => Ok (s, FinBlockError)
      | Some offsetBytes =>
          if closedForWriting s then Ok (s, FinClosed)
          else if abs <? totalReleased s then Ok (s, FinReleased)
          else
            let i := abs - totalReleased s in
            if length (blocks s) <=? i then Panic                  (* bl.blocks[...] *)
            else
              let bl1 := set_written (blocks s) i (offsetBytes + sizeBytes)%Z in
              let n := length (epochLast s) in
              let bump : outcome bool :=
                if n =? synchronizingEpochs s then Ok true
                else match n with
                     | O => Panic                                   (* epochLast[-1] *)
                     | S n' => match nth_error (epochLast s) n' with
                               | Some lastAbs => Ok (lastAbs <? abs)
                               | None => Panic
                               end
                     end in
              obind bump (fun b =>
              if b then
                obind (nc_unblock (putWakeup s) (heap s)) (fun '(pw, h1) =>
                Ok (mkPbl (closedForWriting s) (bump_last_epoch_count bl1)
                          (epochSeeds s ++ [seed])
                          (epochLast s ++ [totalReleased s + length bl1 - 1])
                          (totalReleased s) (oldestEpochID s)
                          (synchronizingEpochs s) (synchronizedEpochs s) pw
                          (toRelease s) (releasing s) (releaseWakeup s) h1 (releasedLog s),
                    FinOk offsetBytes))
              else Ok (set_blocks s bl1, FinOk offsetBytes))
      end
  end.

(** ---- wake-up channels ---- *)
Definition get_release_wakeup (s : pbl) : nat := nc_chan (releaseWakeup s).
Definition get_put_wakeup (s : pbl) : nat := nc_chan (putWakeup s).

(** ---- NotifySyncStarting / NotifySyncCompleted ---- *)
Definition notify_sync_starting (isFinalSync : bool) (s : pbl) : pbl :=
  mkPbl (if isFinalSync then true else closedForWriting s)
        (map (fun b => mkBinfo (b_loc b) (b_written b) (b_written b) (b_synced b) (b_epochs b)) (blocks s))
        (epochSeeds s) (epochLast s) (totalReleased s) (oldestEpochID s)
        (length (epochSeeds s)) (synchronizedEpochs s) (putWakeup s)
        (toRelease s) (releasing s) (releaseWakeup s) (heap s) (releasedLog s).

Definition notify_sync_completed (s : pbl) : pbl :=
  let synced' := synchronizingEpochs s in
  let '(pw, h1) := if synced' =? length (epochSeeds s) then nc_block (putWakeup s) (heap s)
                   else (putWakeup s, heap s) in
  mkPbl (closedForWriting s)
        (map (fun b => mkBinfo (b_loc b) (b_written b) (b_syncing b) (b_syncing b) (b_epochs b)) (blocks s))
        (epochSeeds s) (epochLast s) (totalReleased s) (oldestEpochID s)
        (synchronizingEpochs s) synced' pw
        (toRelease s) (releasing s) (releaseWakeup s) h1 (releasedLog s).

(** ---- GetPersistentState ---- *)
(** The partitioning loop; [lastE] = lastEpochIndex.  Out-of-range block
    index or seed slice = [Panic]. *)
Fixpoint gps_loop (bs : list binfo) (lastE synced : nat) (seeds : list N) : outcome (list bstate) :=
  if lastE <? synced then
    match bs with
    | [] => Panic
    | b :: bs' =>
        let first := lastE in
        let last := Nat.min (lastE + b_epochs b) synced in
        if length seeds <? last then Panic
        else obind (gps_loop bs' last synced seeds) (fun r =>
             Ok (mkBstate (b_loc b) (b_synced b) (firstn (last - first) (skipn first seeds)) :: r))
    end
  else Ok [].

Definition get_persistent_state (s : pbl) : outcome (pbl * pstate) :=
  obind (gps_loop (blocks s) 0 (synchronizedEpochs s) (epochSeeds s)) (fun bl =>
  Ok (mkPbl (closedForWriting s) (blocks s) (epochSeeds s) (epochLast s) (totalReleased s)
            (oldestEpochID s) (synchronizingEpochs s) (synchronizedEpochs s) (putWakeup s)
            (toRelease s) (length (toRelease s)) (releaseWakeup s) (heap s) (releasedLog s),
      (oldestEpochID s, bl))).

(** ---- NotifyPersistentStateWritten ---- *)
Definition notify_state_written (s : pbl) : outcome pbl :=
  if length (toRelease s) <? releasing s then Panic      (* blocksToRelease[i] *)
  else
    let rel := firstn (releasing s) (toRelease s) in
    let rest := skipn (releasing s) (toRelease s) in
    let '(rw, h1) := match rest with
                     | [] => nc_block (releaseWakeup s) (heap s)
                     | _ => (releaseWakeup s, heap s)
                     end in
    Ok (mkPbl (closedForWriting s) (blocks s) (epochSeeds s) (epochLast s) (totalReleased s)
              (oldestEpochID s) (synchronizingEpochs s) (synchronizedEpochs s) (putWakeup s)
              rest 0 rw h1 (releasedLog s ++ rel)).

(** ---- read-only views used by theorems and by the correspondence ---- *)
Definition put_chan_closed (s : pbl) : bool := is_closed (heap s) (get_put_wakeup s).
Definition release_chan_closed (s : pbl) : bool := is_closed (heap s) (get_release_wakeup s).
Definition total_epoch_count (bs : list binfo) : nat := fold_right (fun b a => b_epochs b + a) 0 bs.
