(** Persist/Shutdown.v — definitions for property C03 on top of PBL.v and
    Syncer.v: a ghost history that runs alongside the transition system of
    Syncer.v (it never influences a step), the notion "a written persistent
    state covers an acknowledged upload" stated on the block list that
    NewPersistentBlockList rebuilds from that state, and the layout computed by
    NewOldCurrentNewLocationBlobMap for the restored blocks.

    Definitions only. *)
From Coq Require Import List NArith ZArith Bool Arith Lia.
From BBS Require Import Persist.PBL Persist.Syncer.
Import ListNotations.

(** ---- acknowledged uploads (ghost) ---- *)
(** One record per finalizer that returned FinOk, i.e. per upload / refresh
    whose Put will be acknowledged: the absolute index of its block, the end
    offset of the object in that block, the absolute number of the epoch under
    which its index record is written (number of epochs ever removed by
    PopFront + position), that epoch's last block and seed, and the
    BlockReference (EpochID, BlocksFromLast) that BlockIndexToBlockReference
    hands to the record array at that moment. *)
Record ack := mkAck {
  a_abs : nat;
  a_end : Z;
  a_ep : nat;
  a_last : nat;
  a_seed : N;
  a_ref : N * N
}.

Record gp := mkGp {
  g_pe : nat;                 (* epochs removed by PopFront so far *)
  g_acks : list ack;          (* newest first *)
  g_syncing : list ack;       (* the acks that existed when the latest NotifySyncStarting ran *)
  g_synced : list ack         (* ... of the latest sync for which NotifySyncCompleted ran *)
}.

(** A GetPersistentState snapshot: who took it, what it returned, the
    absolute index of block 0 / number of epoch 0 at that moment, and the
    acks the protocol promises it covers (those of the latest completed sync). *)
Record gwrite := mkGw {
  gw_by : tid;
  gw_state : pstate;
  gw_base_abs : nat;
  gw_base_ep : nat;
  gw_cohort : list ack
}.

Record gsys := mkGs {
  gs_g : gp;
  gs_pend_r : option gwrite;  (* snapshot taken by the release loop, WritePersistentState not yet returned *)
  gs_pend_p : option gwrite;
  gs_writes : list gwrite     (* snapshots whose WritePersistentState returned nil, newest first *)
}.

Definition g0 : gsys := mkGs (mkGp 0 [] [] []) None None [].

(** the ack created by a FinOk finalizer; [p'] is the list after it *)
Definition mk_ack (g : gp) (p' : pbl) (abs : nat) (endOff : Z) : option ack :=
  match length (epochSeeds p') with
  | O => None
  | S lastEpochIndex =>
      match nth_error (epochLast p') lastEpochIndex, index_to_ref (abs - totalReleased p') p' with
      | Some lastAbs, Ok (ref, seed) => Some (mkAck abs endOff (g_pe g + lastEpochIndex) lastAbs seed ref)
      | _, _ => None
      end
  end.

Definition g_with_acks (g : gp) (l : list ack) : gp := mkGp (g_pe g) l (g_syncing g) (g_synced g).
Definition g_start (g : gp) : gp := mkGp (g_pe g) (g_acks g) (g_acks g) (g_synced g).
Definition g_done (g : gp) : gp := mkGp (g_pe g) (g_acks g) (g_syncing g) (g_syncing g).
Definition g_pop (g : gp) (ec : nat) : gp := mkGp (g_pe g + ec) (g_acks g) (g_syncing g) (g_synced g).

Definition gs_with_g (x : gsys) (g : gp) : gsys := mkGs g (gs_pend_r x) (gs_pend_p x) (gs_writes x).

Definition set_pend (x : gsys) (t : tid) (o : option gwrite) : gsys :=
  match t with
  | TR => mkGs (gs_g x) o (gs_pend_p x) (gs_writes x)
  | TP => mkGs (gs_g x) (gs_pend_r x) o (gs_writes x)
  end.
Definition get_pend (x : gsys) (t : tid) : option gwrite :=
  match t with TR => gs_pend_r x | TP => gs_pend_p x end.

(** ghost effect of one step of writePersistentStateRetrying by loop [t];
    [s] is the state before the step, [s'] after *)
Definition gw_step (t : tid) (w : wpc) (a : ans) (s s' : sys) (x : gsys) : gsys :=
  match w with
  | WGetState =>
      let st := match t with
                | TR => match s_r s' with RW (WWriting st) => st | _ => (0%N, []) end
                | TP => match s_p s' with PW _ (WWriting st) => st | _ => (0%N, []) end
                end in
      set_pend x t (Some (mkGw t st (totalReleased (s_pbl s)) (g_pe (gs_g x)) (g_synced (gs_g x))))
  | WWriting _ =>
      if a_ok a then
        match get_pend x t with
        | Some w => let x' := set_pend x t None in mkGs (gs_g x') (gs_pend_r x') (gs_pend_p x') (w :: gs_writes x')
        | None => x
        end
      else set_pend x t None
  | _ => x
  end.

(** ghost effect of one event; defined from the states before and after, so
    that it cannot influence the step *)
Definition gstep (s : sys) (e : event) (s' : sys) (x : gsys) : gsys :=
  let g := gs_g x in
  match e with
  | EPopFront =>
      match blocks (s_pbl s) with
      | b :: _ => gs_with_g x (g_pop g (b_epochs b))
      | [] => x
      end
  | EFinalize k blk seed =>
      match nth_error (s_uploads s) k with
      | Some (Some (PutAt abs, size)) =>
          match put_finalize (PutAt abs) blk size seed (s_pbl s) with
          | Ok (p', FinOk off) =>
              match mk_ack g p' abs (off + size)%Z with
              | Some a => gs_with_g x (g_with_acks g (a :: g_acks g))
              | None => x
              end
          | _ => x
          end
      | _ => x
      end
  | EStep TP a =>
      match s_p s with
      | PNotify _ => gs_with_g x (g_start g)
      | PSyncRet keep final =>
          if negb keep && negb final then gs_with_g x (g_start (g_done g)) else gs_with_g x (g_done g)
      | PW _ w => gw_step TP w a s s' x
      | _ => x
      end
  | EStep TR a =>
      match s_r s with
      | RW w => gw_step TR w a s s' x
      | _ => x
      end
  | _ => x
  end.

Fixpoint grun (cfg : config) (s : sys) (x : gsys) (tr : list event) : option (outcome (sys * gsys)) :=
  match tr with
  | [] => Some (Ok (s, x))
  | e :: tr' =>
      match step cfg s e with
      | None => None
      | Some Panic => Some Panic
      | Some (Ok s') => grun cfg s' (gstep s e s' x) tr'
      end
  end.

(** ---- what "covered by a written state" means ---- *)
(** NewPersistentBlockList on the written state, every block re-attached
    (same configuration, same device). *)
Definition restart_of (st : pstate) : pbl := fst (pbl_new (fun _ _ => true) (fst st) (snd st)).

(** Either the ack's block had already been removed by PopFront when the
    snapshot was taken (rotation evicted it), or the restarted list holds the
    ack's epoch seed at the ack's epoch, that epoch's last block is where it
    was (relative to the new block 0), the ack's block is listed and its
    write cursor is at or above the object's end. *)
Definition covers (w : gwrite) (a : ack) : Prop :=
  a_abs a < gw_base_abs w \/
  (gw_base_abs w <= a_abs a /\ gw_base_ep w <= a_ep a /\
   let p' := restart_of (gw_state w) in
   nth_error (epochSeeds p') (a_ep a - gw_base_ep w) = Some (a_seed a) /\
   nth_error (epochLast p') (a_ep a - gw_base_ep w) = Some (a_last a - gw_base_abs w) /\
   a_abs a <= a_last a /\
   exists b, nth_error (blocks p') (a_abs a - gw_base_abs w) = Some b /\ (a_end a <= b_written b)%Z).

(** ---- the layout NewOldCurrentNewLocationBlobMap computes for restored blocks ---- *)
Inductive policy := Immutable (desiredCurrentAndNew : nat) | Mutable (desiredCurrent : nat).

Definition should_grow_new (pol : policy) (currentBlocks newBlocks : nat) : bool :=
  match pol with
  | Immutable d => currentBlocks + newBlocks <? d
  | Mutable _ => newBlocks <? 1
  end.
Definition should_grow_current (pol : policy) (currentBlocks : nat) : bool :=
  match pol with
  | Immutable _ => false
  | Mutable d => currentBlocks <? d
  end.

(** for initialOldBlocksCount > 0 && ShouldGrowNewBlocks(0, newBlocks) { initialOldBlocksCount--; newBlocks++ } *)
Fixpoint promote_new (pol : policy) (fuel initialOld newBlocks : nat) : nat * nat :=
  match fuel with
  | O => (initialOld, newBlocks)
  | S f => match initialOld with
           | O => (initialOld, newBlocks)
           | S i => if should_grow_new pol 0 newBlocks then promote_new pol f i (S newBlocks)
                    else (initialOld, newBlocks)
           end
  end.
Fixpoint promote_current (pol : policy) (fuel initialOld currentBlocks : nat) : nat * nat :=
  match fuel with
  | O => (initialOld, currentBlocks)
  | S f => match initialOld with
           | O => (initialOld, currentBlocks)
           | S i => if should_grow_current pol currentBlocks then promote_current pol f i (S currentBlocks)
                    else (initialOld, currentBlocks)
           end
  end.

Record layout := mkLayout { l_old : nat; l_current : nat; l_new : nat; l_to_be_released : nat }.

(** [initial] iterations suffice for either loop (each consumes one block). *)
Definition ocn_new (pol : policy) (desiredOld initial : nat) : layout :=
  let '(i1, nb) := promote_new pol initial initial 0 in
  let '(i2, cb) := promote_current pol i1 i1 0 in
  mkLayout i2 cb nb (if desiredOld <? i2 then i2 - desiredOld else 0).

(** the policies new_blob_access.go builds from (current_blocks, new_blocks) *)
Definition cas_policy (cur new : nat) : policy := Immutable (cur + new).
Definition ac_policy (cur : nat) : policy := Mutable cur.
