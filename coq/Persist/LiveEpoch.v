(** Persist/LiveEpoch.v — the epoch ID: the oldest epoch ID stored in a written
    state plus the position of the object's epoch among the state's seeds is
    the EpochID that BlockIndexToBlockReference handed out for the object when
    its finalizer returned (uint32 arithmetic). *)
From Coq Require Import List NArith ZArith Bool Arith Lia.
From BBS Require Import Persist.PBL Persist.PBLProofs Persist.Syncer Persist.SyncerProofs
  Persist.LiveActs Persist.LiveCover.
Import ListNotations.

Lemma u32_add_l a b : u32 (u32 a + b) = u32 (a + b).
Proof. unfold u32. apply N.add_mod_idemp_l. discriminate. Qed.

Lemma u32_idem a : u32 (u32 a) = u32 a.
Proof. unfold u32. apply N.mod_mod. discriminate. Qed.

(** oldestEpochID (mod 2^32) after [d] epochs were removed since it was [oid0] *)
Definition eid_inv (oid0 : N) (d : nat) (p : pbl) : Prop :=
  u32 (oldestEpochID p) = u32 (oid0 + N.of_nat d).

Lemma act_oldest a p p' : apply_act a p = Ok p' ->
  oldestEpochID p' = match a with APop => u32 (oldestEpochID p + N.of_nat (popc a p)) | _ => oldestEpochID p end.
Proof.
  destruct a as [|al| |tok blk size seed| |b|t|t]; cbn [apply_act popc].
  - intros H; inversion H; subst. reflexivity.
  - intros H; inversion H; subst. unfold push_back. destruct (closedForWriting p); [reflexivity|].
    destruct al; reflexivity.
  - intros H. destruct (blocks p) as [|fb rest] eqn:Eb; [unfold pop_front in H; rewrite Eb in H; discriminate|].
    destruct (pop_fields _ _ _ _ Eb H) as (_ & _ & _ & _ & _ & _ & _ & _ & _ & _ & Fo). exact Fo.
  - destruct (put_finalize _ _ _ _ _) as [[p1 fr]|] eqn:Ef; [|discriminate]. cbn. intros H; inversion H; subst.
    destruct (fin_cases _ _ _ _ _ _ _ Ef) as [[-> _]|
      (abs & off & bumped & _ & _ & _ & _ & _ & _ & _ & _ & _ & _ & _ & _ & _ & _ & _ & _ & _ & Fo)]; auto.
  - intros H; inversion H; subst. reflexivity.
  - intros H; inversion H; subst.
    destruct (nsc_fields p) as (_ & _ & _ & _ & _ & _ & _ & _ & _ & _ & Fo). destruct b; cbn; auto.
  - destruct (get_persistent_state p) as [[p1 st]|] eqn:Eg; [|discriminate]. cbn. intros H; inversion H; subst.
    destruct (gps_fields _ _ _ Eg) as (_ & _ & _ & _ & _ & Fo & _). exact Fo.
  - intros H. destruct (nsw_fields _ _ H) as (_ & _ & _ & _ & _ & Fo). exact Fo.
Qed.

Lemma act_eid oid0 d a p p' : apply_act a p = Ok p' -> eid_inv oid0 d p -> eid_inv oid0 (d + popc a p) p'.
Proof.
  intros Ha E. unfold eid_inv in *. rewrite (act_oldest _ _ _ Ha).
  destruct a; try (cbn [popc]; rewrite Nat.add_0_r; exact E).
  rewrite u32_idem, <- u32_add_l, E, u32_add_l, Nat2N.inj_add, N.add_assoc. reflexivity.
Qed.

Lemma run_eid cfg oid0 tr : forall s d s', eid_inv oid0 d (s_pbl s) -> run cfg s tr = Some (Ok s') ->
  eid_inv oid0 (d + popsum cfg s tr) (s_pbl s').
Proof.
  induction tr as [|e tr IH]; intros s d s' E H; cbn in *.
  - inversion H; subst. rewrite Nat.add_0_r. exact E.
  - destruct (step cfg s e) as [[s1|]|] eqn:Es; try discriminate.
    rewrite Nat.add_assoc. eapply IH; [|exact H]. eapply act_eid; [eapply step_act; eauto|exact E].
Qed.

Lemma step_eid cfg oid0 d s e s' : eid_inv oid0 d (s_pbl s) -> step cfg s e = Some (Ok s') ->
  eid_inv oid0 (d + popc (act_of s e) (s_pbl s)) (s_pbl s').
Proof. intros E H. eapply act_eid; [eapply step_act; eauto|exact E]. Qed.

(** Same schedule shape as [upload_covered_seg].  [index_to_ref] on the block
    list right after the finalizer gives the reference (EpochID, _) and hash
    seed handed to the caller; that EpochID is the written state's oldest epoch
    ID plus the position (epoch index - d) at which [covers] finds the seed. *)
Theorem upload_covered_epoch_id cfg s1 k blk seed s1' abs size off p' trA s2 e2 s2' trB s3 e3 s3' trC s4 e4 s4' t :
  linv s1 ->
  step cfg s1 (EFinalize k blk seed) = Some (Ok s1') ->
  nth_error (s_uploads s1) k = Some (Some (PutAt abs, size)) ->
  put_finalize (PutAt abs) blk size seed (s_pbl s1) = Ok (p', FinOk off) ->
  run cfg s1' trA = Some (Ok s2) -> step cfg s2 e2 = Some (Ok s2') -> sync_starts s2 e2 = true ->
  run cfg s2' trB = Some (Ok s3) -> step cfg s3 e3 = Some (Ok s3') -> sync_completes s3 e3 = true ->
  run cfg s3' trC = Some (Ok s4) -> step cfg s4 e4 = Some (Ok s4') -> act_of s4 e4 = AGetState t ->
  let o := obj_of (s_pbl s1) p' abs (off + size) in
  let d := popsum cfg s1' trA + popsum cfg s2' trB + popsum cfg s3' trC in
  abs < totalReleased (s_pbl s4) \/
  exists st ref, written_state s4' t = Some st
    /\ index_to_ref (abs - totalReleased p') p' = Ok (ref, o_seed o)
    /\ d <= o_epoch o
    /\ fst ref = u32 (fst st + N.of_nat (o_epoch o - d)).
Proof.
  intros I1 Hs1 Hu Hf HA H2 Hst HB H3 Hco HC H4 Hg o d.
  destruct (upload_covered_seg cfg s1 k blk seed s1' abs size off p' trA s2 e2 s2' trB s3 e3 s3' trC s4 e4 s4' t
              I1 Hs1 Hu Hf HA H2 Hst HB H3 Hco HC H4 Hg) as [Hr|[st [Hw Hc]]]; [left; exact Hr|].
  destruct (fin_step _ _ _ _ _ _ _ _ Hs1 Hu) as [fr Hf']. rewrite Hf in Hf'. inversion Hf'; subst p'. clear Hf'.
  pose proof (step_linv _ _ _ _ I1 Hs1) as I1'. pose proof (proj1 (proj1 I1')) as Ip'.
  assert (popc (act_of s2 e2) (s_pbl s2) = 0 /\ popc (act_of s3 e3) (s_pbl s3) = 0) as (Hp2 & Hp3).
  { unfold sync_starts in Hst. unfold sync_completes in Hco.
    destruct (act_of s2 e2); try discriminate; destruct (act_of s3 e3); try discriminate; auto. }
  (* d <= epoch index, from the tracked invariant *)
  pose proof (fin_tracked _ _ _ _ _ _ _ (proj1 (proj1 I1)) Hf) as T0. fold o in T0.
  pose proof (run_tracked _ _ 0 _ ltac:(lia) _ _ _ I1' T0 HA) as TA. pose proof (run_linv _ _ _ _ I1' HA) as I2.
  pose proof (step_tracked _ _ _ _ _ _ _ I2 TA H2) as T2. pose proof (step_linv _ _ _ _ I2 H2) as I2'.
  rewrite Hp2, Nat.add_0_r in T2. apply (tracked_weaken _ _ 0) in T2; [|apply lv_next_ge; lia].
  pose proof (run_tracked _ _ 0 _ ltac:(lia) _ _ _ I2' T2 HB) as TB. pose proof (run_linv _ _ _ _ I2' HB) as I3.
  pose proof (step_tracked _ _ _ _ _ _ _ I3 TB H3) as T3. pose proof (step_linv _ _ _ _ I3 H3) as I3'.
  rewrite Hp3, Nat.add_0_r in T3. apply (tracked_weaken _ _ 0) in T3; [|apply lv_next_ge; lia].
  pose proof (run_tracked _ _ 0 _ ltac:(lia) _ _ _ I3' T3 HC) as TC. cbn [Nat.add] in TC. fold d in TC.
  destruct (lt_dec abs (totalReleased (s_pbl s4))) as [Hrel|Hnr]; [left; exact Hrel|right].
  assert (d <= o_epoch o) as Hde.
  { destruct TC as [TC|(_ & Hd & _)]; [exfalso; apply Hnr; exact TC|exact Hd]. }
  (* oldest epoch id *)
  assert (eid_inv (oldestEpochID (s_pbl s1')) 0 (s_pbl s1')) as E0 by (unfold eid_inv; rewrite N.add_0_r; reflexivity).
  pose proof (run_eid _ _ _ _ _ _ E0 HA) as EA. pose proof (step_eid _ _ _ _ _ _ EA H2) as E2. rewrite Hp2, Nat.add_0_r in E2.
  pose proof (run_eid _ _ _ _ _ _ E2 HB) as EB. pose proof (step_eid _ _ _ _ _ _ EB H3) as E3. rewrite Hp3, Nat.add_0_r in E3.
  pose proof (run_eid _ _ _ _ _ _ E3 HC) as EC. cbn [Nat.add] in EC. fold d in EC.
  destruct (getstate_step _ _ _ _ _ H4 Hg) as [p4 [st' [Hgs [Hw' _]]]]. rewrite Hw in Hw'. inversion Hw'; subst st'.
  destruct (gps_fields _ _ _ Hgs) as (_ & _ & _ & _ & _ & _ & Hfst & _).
  (* the reference handed out at acknowledgement time *)
  destruct T0 as [T0|(_ & _ & b & la & _ & _ & _ & Hsd & Hla & _)];
    [exfalso; destruct (fin_cases _ _ _ _ _ _ _ Hf) as [[_ Hn]|(a0 & o0 & bu & Ht & _ & _ & _ & Hge & _ & _ & _ & _ & _ & Ft & _)];
       [eapply Hn; reflexivity|inversion Ht; subst a0; rewrite Ft in T0; cbn in T0; lia]|].
  rewrite Nat.sub_0_r in Hsd, Hla. unfold o, obj_of in Hsd, Hla. cbn [o_epoch o_seed] in Hsd, Hla.
  assert (0 < length (epochSeeds (s_pbl s1'))) as Hpos.
  { assert (length (epochSeeds (s_pbl s1')) - 1 < length (epochSeeds (s_pbl s1'))); [apply nth_error_Some; congruence|lia]. }
  exists st. unfold index_to_ref.
  destruct (length (epochSeeds (s_pbl s1'))) as [|n] eqn:El; [lia|].
  replace (S n - 1) with n in * by lia. rewrite Hla, Hsd.
  assert (o_seed o = nth n (epochSeeds (s_pbl s1')) 0%N) as Hos.
  { unfold o, obj_of. cbn [o_seed]. rewrite El. replace (S n - 1) with n by lia. reflexivity. }
  rewrite Hos.
  eexists. split; [exact Hw|]. split; [reflexivity|]. split; [exact Hde|].
  cbn [fst]. unfold o, obj_of. cbn [o_epoch]. rewrite El. replace (S n - 1) with n by lia.
  rewrite Hfst, <- (u32_add_l (oldestEpochID (s_pbl s4))). unfold eid_inv in EC.
  rewrite EC, u32_add_l, <- N.add_assoc, <- Nat2N.inj_add.
  replace (d + (n - d)) with n; [reflexivity|]. unfold o, obj_of in Hde. cbn [o_epoch] in Hde. rewrite El in Hde. lia.
Qed.
