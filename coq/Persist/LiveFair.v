(** Persist/LiveFair.v — liveness in the bounded "enabledness + rank" form:
    fair extensions (only steps of the two syncer loops with successful I/O
    answers, and clock advances that let timers fire), and the release loop:
    from every reachable state with a block awaiting release there is a fair
    extension of at most 10 events after which every such block has been
    Release()d. *)
From Coq Require Import List NArith ZArith Bool Arith Lia.
From BBS Require Import Persist.PBL Persist.PBLProofs Persist.Syncer Persist.SyncerProofs
  Persist.LiveActs Persist.LiveCover Persist.LiveRelease.
Import ListNotations.

(** events of a fair extension: a loop step whose I/O call (if any) succeeds /
    whose timer (if any) fires, or the clock advancing *)
Definition fair_event (e : event) : bool :=
  match e with
  | EStep _ a => a_ok a
  | ETick _ => true
  | _ => false
  end.
Definition fair (tr : list event) : bool := forallb fair_event tr.

Lemma fair_app a b : fair a = true -> fair b = true -> fair (a ++ b) = true.
Proof. unfold fair. rewrite forallb_app. intros -> ->. reflexivity. Qed.

Definition ok0 : ans := mkAns true 0.

(** all run-invariants together *)
Definition ainv (s : sys) : Prop := linv s /\ inv2 s /\ inv3 s.

Lemma step_ainv cfg s e s' : ainv s -> step cfg s e = Some (Ok s') -> ainv s'.
Proof.
  intros [L [I2 I3]] H. split; [eapply step_linv; eauto|]. split.
  - eapply step_inv2; eauto. exact (proj1 L).
  - eapply step_inv3; eauto.
Qed.

Lemma run_ainv cfg tr : forall s s', ainv s -> run cfg s tr = Some (Ok s') -> ainv s'.
Proof.
  induction tr as [|e tr IH]; intros s s' I H; cbn in H.
  - inversion H; subst. exact I.
  - destruct (step cfg s e) as [[s1|]|] eqn:Es; try discriminate.
    eapply IH; [|exact H]. eapply step_ainv; eauto.
Qed.

Lemma reachable_ainv cfg alloc oldest init t0 s : reachable cfg alloc oldest init t0 s -> ainv s.
Proof.
  intros R. destruct (reachable_inv_all _ _ _ _ _ _ R) as [_ [I2 [I3 _]]].
  split; [eapply reachable_linv; eauto|]. auto.
Qed.

Lemma ainv_pbl s : ainv s -> pbl_inv (s_pbl s).
Proof. intros [[[I _] _] _]. exact I. Qed.

(** ---- the holder of storeLock finishes its write in at most 3 own steps ---- *)
Definition rel_after (p p' : pbl) : Prop :=
  toRelease p' = skipn (releasing p) (toRelease p)
  /\ releasedLog p' = releasedLog p ++ firstn (releasing p) (toRelease p).

Lemma finish_write_r cfg s : ainv s -> r_holds s = true ->
  exists ext s', fair ext = true /\ length ext <= 3 /\ run cfg s ext = Some (Ok s')
    /\ s_r s' = RStart /\ s_p s' = s_p s /\ s_store s' = None /\ s_now s' = s_now s
    /\ (match s_r s with RW WGetState => toRelease (s_pbl s') = [] /\
                          releasedLog (s_pbl s') = releasedLog (s_pbl s) ++ toRelease (s_pbl s)
        | _ => rel_after (s_pbl s) (s_pbl s') end).
Proof.
  intros A Hh. pose proof (ainv_pbl _ A) as I. unfold r_holds in Hh.
  destruct (s_r s) as [| |w] eqn:Er; try discriminate.
  assert (forall s1, s_r s1 = RW WWritten -> pbl_inv (s_pbl s1) ->
            exists s', run cfg s1 [EStep TR ok0] = Some (Ok s') /\ s_r s' = RStart /\ s_p s' = s_p s1
              /\ s_store s' = None /\ s_now s' = s_now s1 /\ rel_after (s_pbl s1) (s_pbl s')) as Hwritten.
  { intros s1 E1 I1. destruct (notify_state_written_inv _ I1) as [p' [Hn [_ [Hl [Ht _]]]]].
    eexists. cbn [run step]. unfold rstep. rewrite E1. cbn [wstep]. rewrite Hn. split; [reflexivity|].
    cbn. unfold rel_after. splits; auto. }
  assert (forall s1 st, s_r s1 = RW (WWriting st) -> pbl_inv (s_pbl s1) ->
            exists s', run cfg s1 [EStep TR ok0; EStep TR ok0] = Some (Ok s') /\ s_r s' = RStart /\ s_p s' = s_p s1
              /\ s_store s' = None /\ s_now s' = s_now s1 /\ rel_after (s_pbl s1) (s_pbl s')) as Hwriting.
  { intros s1 st E1 I1.
    destruct (Hwritten (with_r (with_write s1 (mkWrec TR st (length (releasedLog (s_pbl s1)) + releasing (s_pbl s1))))
                               (RW WWritten)) eq_refl I1) as [s' [Hr Hrest]].
    exists s'. split; [|exact Hrest]. cbn [run step]. unfold rstep at 1. rewrite E1. cbn [wstep ok0 a_ok].
    exact Hr. }
  destruct w; try discriminate.
  - destruct (get_persistent_state_inv _ I) as [p1 [st [Hg [I1 [Hrl [_ [Htr [Hlog _]]]]]]]].
    destruct (Hwriting (with_r (with_pbl s p1) (RW (WWriting st))) st eq_refl I1) as [s' [Hr [E1 [E2 [E3 [E4 [R1 R2]]]]]]].
    exists [EStep TR ok0; EStep TR ok0; EStep TR ok0], s'. split; [reflexivity|]. split; [cbn; lia|].
    split; [|splits; auto].
    + cbn [run step]. unfold rstep at 1. rewrite Er. cbn [wstep]. rewrite Hg. exact Hr.
    + cbn in R1. rewrite R1, Hrl, Htr. apply skipn_all.
    + cbn in R2. rewrite R2, Hrl, Htr, Hlog, firstn_all. reflexivity.
  - destruct (Hwriting s st Er I) as [s' [Hr Hrest]].
    exists [EStep TR ok0; EStep TR ok0], s'. split; [reflexivity|]. split; [cbn; lia|]. split; [exact Hr|exact Hrest].
  - destruct (Hwritten s Er I) as [s' [Hr Hrest]].
    exists [EStep TR ok0], s'. split; [reflexivity|]. split; [cbn; lia|]. split; [exact Hr|exact Hrest].
Qed.

Lemma finish_write_p cfg s : ainv s -> p_holds s = true ->
  exists ext s', fair ext = true /\ length ext <= 3 /\ run cfg s ext = Some (Ok s')
    /\ s_r s' = s_r s /\ s_store s' = None /\ s_now s' = s_now s
    /\ (match s_p s with PW _ WGetState => toRelease (s_pbl s') = [] /\
                          releasedLog (s_pbl s') = releasedLog (s_pbl s) ++ toRelease (s_pbl s)
        | _ => rel_after (s_pbl s) (s_pbl s') end).
Proof.
  intros A Hh. pose proof (ainv_pbl _ A) as I. unfold p_holds in Hh.
  destruct (s_p s) as [| | | | | | | |k w|] eqn:Ep; try discriminate.
  assert (forall s1, s_p s1 = PW k WWritten -> pbl_inv (s_pbl s1) ->
            exists s', run cfg s1 [EStep TP ok0] = Some (Ok s') /\ s_r s' = s_r s1
              /\ s_store s' = None /\ s_now s' = s_now s1 /\ rel_after (s_pbl s1) (s_pbl s')) as Hwritten.
  { intros s1 E1 I1. destruct (notify_state_written_inv _ I1) as [p' [Hn [_ [Hl [Ht _]]]]].
    eexists. cbn [run step]. unfold pstep. rewrite E1. cbn [wstep]. rewrite Hn. split; [reflexivity|].
    cbn. unfold rel_after. splits; auto. }
  assert (forall s1 st, s_p s1 = PW k (WWriting st) -> pbl_inv (s_pbl s1) ->
            exists s', run cfg s1 [EStep TP ok0; EStep TP ok0] = Some (Ok s') /\ s_r s' = s_r s1
              /\ s_store s' = None /\ s_now s' = s_now s1 /\ rel_after (s_pbl s1) (s_pbl s')) as Hwriting.
  { intros s1 st E1 I1.
    destruct (Hwritten (with_p (with_write s1 (mkWrec TP st (length (releasedLog (s_pbl s1)) + releasing (s_pbl s1))))
                               (PW k WWritten)) eq_refl I1) as [s' [Hr Hrest]].
    exists s'. split; [|exact Hrest]. cbn [run step]. unfold pstep at 1. rewrite E1. cbn [wstep ok0 a_ok].
    exact Hr. }
  destruct w; try discriminate.
  - destruct (get_persistent_state_inv _ I) as [p1 [st [Hg [I1 [Hrl [_ [Htr [Hlog _]]]]]]]].
    destruct (Hwriting (with_p (with_pbl s p1) (PW k (WWriting st))) st eq_refl I1) as [s' [Hr [E1 [E3 [E4 [R1 R2]]]]]].
    exists [EStep TP ok0; EStep TP ok0; EStep TP ok0], s'. split; [reflexivity|]. split; [cbn; lia|].
    split; [|splits; auto].
    + cbn [run step]. unfold pstep at 1. rewrite Ep. cbn [wstep]. rewrite Hg. exact Hr.
    + cbn in R1. rewrite R1, Hrl, Htr. apply skipn_all.
    + cbn in R2. rewrite R2, Hrl, Htr, Hlog, firstn_all. reflexivity.
  - destruct (Hwriting s st Ep I) as [s' [Hr Hrest]].
    exists [EStep TP ok0; EStep TP ok0], s'. split; [reflexivity|]. split; [cbn; lia|]. split; [exact Hr|exact Hrest].
  - destruct (Hwritten s Ep I) as [s' [Hr Hrest]].
    exists [EStep TP ok0], s'. split; [reflexivity|]. split; [cbn; lia|]. split; [exact Hr|exact Hrest].
Qed.

(** ---- a full cycle of the release loop when storeLock is free ---- *)
Lemma release_cycle cfg s : ainv s -> s_store s = None -> toRelease (s_pbl s) <> [] ->
  exists ext s', fair ext = true /\ length ext <= 7 /\ run cfg s ext = Some (Ok s')
    /\ toRelease (s_pbl s') = [] /\ releasedLog (s_pbl s') = releasedLog (s_pbl s) ++ toRelease (s_pbl s).
Proof.
  intros A Hst Hne. pose proof (ainv_pbl _ A) as I.
  (* from WAcquire *)
  assert (forall s1, s_r s1 = RW WAcquire -> s_store s1 = None -> pbl_inv (s_pbl s1) ->
            exists ext s', fair ext = true /\ length ext = 4 /\ run cfg s1 ext = Some (Ok s')
              /\ toRelease (s_pbl s') = [] /\ releasedLog (s_pbl s') = releasedLog (s_pbl s1) ++ toRelease (s_pbl s1))
    as Hacq.
  { intros s1 E1 S1 I1.
    destruct (get_persistent_state_inv _ I1) as [p1 [st [Hg [I1' [Hrl [_ [Htr [Hlog _]]]]]]]].
    destruct (notify_state_written_inv _ I1') as [p2 [Hn [_ [Hl [Ht _]]]]].
    exists [EStep TR ok0; EStep TR ok0; EStep TR ok0; EStep TR ok0]. eexists.
    split; [reflexivity|]. split; [reflexivity|]. split.
    - cbn [run step]. unfold rstep at 1. rewrite E1. cbn [wstep]. rewrite S1.
      unfold rstep at 1. cbn [s_r with_r with_store wstep s_pbl]. rewrite Hg.
      unfold rstep at 1. cbn [s_r with_r with_pbl wstep ok0 a_ok].
      unfold rstep at 1. cbn [s_r with_r with_write with_pbl wstep s_pbl]. rewrite Hn. reflexivity.
    - cbn. rewrite Ht, Hl, Hrl, Htr, Hlog, firstn_all. split; [apply skipn_all|reflexivity]. }
  destruct A as [L [[Hheld _] [I3a I3b]]].
  destruct (s_r s) as [|c|w] eqn:Er.
  - (* RStart *)
    destruct (Hacq (with_r (with_r s (RWait (get_release_wakeup (s_pbl s)))) (RW WAcquire)) eq_refl Hst I)
      as [ext [s' [Hf [Hlen [Hr Hrest]]]]].
    exists (EStep TR ok0 :: EStep TR ok0 :: ext), s'. split; [cbn; exact Hf|]. split; [cbn; lia|].
    split; [|exact Hrest].
    cbn [run step]. unfold rstep at 1. rewrite Er.
    unfold rstep at 1. cbn [s_r with_r s_pbl].
    pose proof (inv_wakeup_release _ I Hne) as Hc. unfold release_chan_closed in Hc. rewrite Hc. exact Hr.
  - (* RWait c *)
    assert (is_closed (heap (s_pbl s)) c = true) as Hc.
    { destruct (Hheld c Er) as [->|Hc]; [|exact Hc]. apply (inv_wakeup_release _ I Hne). }
    destruct (Hacq (with_r s (RW WAcquire)) eq_refl Hst I) as [ext [s' [Hf [Hlen [Hr Hrest]]]]].
    exists (EStep TR ok0 :: ext), s'. split; [cbn; exact Hf|]. split; [cbn; lia|]. split; [|exact Hrest].
    cbn [run step]. unfold rstep at 1. rewrite Er, Hc. exact Hr.
  - destruct w.
    + destruct (Hacq s Er Hst I) as [ext [s' [Hf [Hlen [Hr Hrest]]]]].
      exists ext, s'. split; [exact Hf|]. split; [lia|]. split; [exact Hr|exact Hrest].
    + exfalso. unfold r_holds in I3a. rewrite Er in I3a. cbn in I3a. congruence.
    + exfalso. unfold r_holds in I3a. rewrite Er in I3a. cbn in I3a. congruence.
    + exfalso. unfold r_holds in I3a. rewrite Er in I3a. cbn in I3a. congruence.
    + (* WSleep *)
      destruct (Hacq (with_r (with_now s (s_now s + deadline)) (RW WAcquire)) eq_refl Hst I)
        as [ext [s' [Hf [Hlen [Hr Hrest]]]]].
      exists (ETick deadline :: EStep TR ok0 :: ext), s'. split; [cbn; exact Hf|]. split; [cbn; lia|].
      split; [|exact Hrest].
      cbn [run step]. unfold rstep at 1. cbn [s_r with_now]. rewrite Er. cbn [wstep s_now with_now].
      destruct (N.leb_spec deadline (s_now s + deadline)) as [_|Hlt]; [exact Hr|lia].
Qed.

(** every_release_eventually_committed *)
Theorem release_eventually cfg s : ainv s -> toRelease (s_pbl s) <> [] ->
  exists ext s', fair ext = true /\ length ext <= 10 /\ run cfg s ext = Some (Ok s')
    /\ toRelease (s_pbl s') = [] /\ releasedLog (s_pbl s') = releasedLog (s_pbl s) ++ toRelease (s_pbl s).
Proof.
  intros A Hne.
  (* phase A: whoever holds storeLock finishes its write *)
  assert (exists extA sA, fair extA = true /\ length extA <= 3 /\ run cfg s extA = Some (Ok sA)
            /\ s_store sA = None
            /\ ((toRelease (s_pbl sA) = [] /\
                 releasedLog (s_pbl sA) = releasedLog (s_pbl s) ++ toRelease (s_pbl s))
                \/ rel_after (s_pbl s) (s_pbl sA) \/ s_pbl sA = s_pbl s)) as [extA [sA [HfA [HlA [HrA [HsA HeffA]]]]]].
  { destruct (r_holds s) eqn:Hr.
    - destruct (finish_write_r cfg s A Hr)
        as [ext [s' [Hf [Hl [Hrun [_ [_ [Hst [_ Heff]]]]]]]]].
      exists ext, s'. splits; auto. destruct (s_r s) as [| |[]]; auto.
    - destruct (p_holds s) eqn:Hp.
      + destruct (finish_write_p cfg s A Hp)
          as [ext [s' [Hf [Hl [Hrun [_ [Hst [_ Heff]]]]]]]].
        exists ext, s'. splits; auto. destruct (s_p s) as [| | | | | | | |? []|]; auto.
      + exists [], s. split; [reflexivity|]. split; [cbn; lia|]. split; [reflexivity|]. split; [|auto].
        destruct A as [_ [_ [I3a _]]]. rewrite Hr, Hp in I3a. exact I3a. }
  pose proof (run_ainv _ _ _ _ A HrA) as AA.
  destruct (toRelease (s_pbl sA)) as [|x r] eqn:EtA.
  - exists extA, sA. split; [exact HfA|]. split; [lia|]. split; [exact HrA|]. split; [exact EtA|].
    destruct HeffA as [[_ Hl]|[[Ht Hl]|Hp]]; [exact Hl| |exfalso; rewrite Hp in EtA; congruence].
    rewrite Hl. f_equal. rewrite EtA in Ht.
    rewrite <- (firstn_skipn (releasing (s_pbl s)) (toRelease (s_pbl s))) at 2. rewrite <- Ht, app_nil_r. reflexivity.
  - destruct (release_cycle cfg sA AA HsA ltac:(rewrite EtA; discriminate)) as [extB [s' [HfB [HlB [HrB [Ht' Hl']]]]]].
    exists (extA ++ extB), s'. split; [apply fair_app; assumption|]. split; [rewrite app_length; lia|].
    split; [rewrite (run_app _ _ _ _ _ HrA); exact HrB|]. split; [exact Ht'|].
    rewrite Hl'. destruct HeffA as [[Hc _]|[[Ht Hl]|Hp]]; [congruence| |rewrite Hp; reflexivity].
    rewrite Hl, Ht, <- app_assoc, firstn_skipn. reflexivity.
Qed.
