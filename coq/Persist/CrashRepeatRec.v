(** Persist/CrashRepeatRec.v — what the index records of a life on ANY base
    medium designate (the REAL run; the structural facts come from the shadow
    run of Persist/CrashRepeatShadow.v, the seed / durability facts from
    Persist/CrashRepeatEpoch.v).

    Upload tags are per life, so a record is described tag-free by the
    absolute block index [a] it designates ([DES]: seed table arithmetic) and
    by the offsets of that block ([O.rcov] with the one-entry allocation table
    [fab r a]); it is then either NATIVE (its tag is a completed upload of this
    life allocated in block [a] with the record's key / offset / size, and —
    for a log entry — all data of that upload precedes it) or INHERITED
    ([a] is a block restored at the start of the life and [Back r a] holds: an
    abstract statement about the base medium that depends only on key / offset
    / size).  One disjunction per record, shared by all conclusions.
    State files in flight / written cover every record of the log and every
    record of the base index ([SCOV]).  Stdlib only; no axioms. *)
From Coq Require Import List NArith ZArith Bool Arith Lia Permutation.
From BBS Require Import Persist.PBL Persist.PBLProofs Persist.Syncer Persist.SyncerProofs
                        Persist.Crash Persist.CrashLts.
From BBS Require Import Persist.CrashReuseProofs.
From BBS Require Persist.CrashOffsetsProofs.
From BBS Require Import Persist.CrashRepeatEpoch Persist.CrashRepeatSim Persist.CrashRepeatShadow.
Import ListNotations.

Module O := BBS.Persist.CrashOffsetsProofs.

Local Notation log := (list (io irec)).

(** ------------------------------------------------------------------ *)
(** * designation *)

Definition fab (r : irec) (a : nat) : list nat := repeat a (S (r_up r)).

Lemma fab_nth r a : nth_error (fab r a) (r_up r) = Some a.
Proof. unfold fab. apply nth_error_repeat. lia. Qed.

Lemma fab_up r r0 a : r_up r = r_up r0 -> fab r a = fab r0 a.
Proof. unfold fab. intros ->. reflexivity. Qed.

Definition DES (sd : list N) (el : list nat) (r : irec) (a : nat) : Prop := A.rec_ok sd el (fab r a) r.

Lemma DES_iff sd el r a : DES sd el r a <->
  exists j e, nth_error sd j = Some (r_seed r) /\ nth_error el j = Some e /\
    (Z.of_nat e - Z.of_N (r_bfl r) = Z.of_nat a)%Z.
Proof.
  split.
  - intros (j & e & a' & H1 & H2 & H3 & H4). rewrite fab_nth in H3. inv H3. eauto.
  - intros (j & e & H1 & H2 & H3). exists j, e, a. rewrite fab_nth. auto.
Qed.

Lemma DES_fun sd el r a a' : NoDup sd -> DES sd el r a -> DES sd el r a' -> a = a'.
Proof.
  intros Hnd H1 H2. apply DES_iff in H1, H2.
  destruct H1 as (j & e & A1 & A2 & A3). destruct H2 as (j' & e' & B1 & B2 & B3).
  assert (j = j') by (eapply A.NoDup_nth_eq; eauto). subst j'. rewrite A2 in B2. inv B2. lia.
Qed.

Lemma DES_mono sd el sd' el' r a : DES sd el r a -> DES (sd ++ sd') (el ++ el') r a.
Proof.
  intros H. pose proof (A.rec_ok_mono sd el (fab r a) sd' el' [] r H) as H'. rewrite app_nil_r in H'. exact H'.
Qed.

Lemma DES_seed sd el r a : DES sd el r a -> In (r_seed r) sd.
Proof. intros H. apply DES_iff in H. destruct H as (j & e & H1 & _). eapply nth_error_In; eauto. Qed.

(** seed resolution on a restarted list (what BlockReferenceToBlockIndex + the seed check accept
    is a special case: [resolve_sres]) *)
Definition sres (p : pbl) (r : irec) (i : nat) : Prop :=
  exists j e, nth_error (epochSeeds p) j = Some (r_seed r) /\ nth_error (epochLast p) j = Some e /\
    (Z.of_nat e - Z.of_N (r_bfl r) = Z.of_nat i)%Z.

Lemma resolve_sres p r i : totalReleased p = 0 ->
  resolve_ref p 0 (r_epoch r) (r_bfl r) (r_seed r) = Some i -> sres p r i.
Proof.
  intros Htr H. unfold resolve_ref in H.
  destruct (ref_to_index (r_epoch r) (r_bfl r) p) as [[[i' seed]|]|] eqn:Er; try discriminate.
  cbn in H. destruct (N.eqb_spec seed (r_seed r)) as [Es|]; [|discriminate]. inv H.
  apply A.ref_to_index_spec in Er. destruct Er as (e & la & E1 & E2 & E3 & E4).
  exists e, la. rewrite Htr in *. splits; auto. lia.
Qed.

(** a seed-resolving record, seen through a state file that lists a window of the block list *)
Lemma sres_state sd el lc r oldest bl alloc i kst :
  st_at sd el lc kst (oldest, bl) -> sres (fst (pbl_new alloc oldest bl)) r i ->
  DES sd el r (kst + i) /\
  exists q bq bi x, nth_error bl q = Some bq /\ In (r_seed r) (bs_seeds bq) /\
    nth_error bl i = Some bi /\ nth_error (blocks (fst (pbl_new alloc oldest bl))) i = Some x /\
    b_loc x = bs_loc bi /\ b_written x = bs_off bi /\ nth_error lc (kst + i) = Some (bs_loc bi).
Proof.
  intros Hst (j' & e' & S1 & S2 & S3).
  destruct (A.pbl_new_fields alloc oldest bl) as [Htr Hf].
  destruct (restore_blocks alloc bl 0) as [[bl' seeds'] lasts'] eqn:Er.
  destruct (Hf _ _ _ eq_refl) as (F1 & F2 & F3). clear Hf.
  rewrite F2 in S1. rewrite F3 in S2.
  destruct (A.restore_spec _ _ _ _ _ _ Er _ _ S1) as (q & b & Q1 & Q2 & Q3 & Q4).
  rewrite S2 in Q1. injection Q1 as Q1. cbn [plus] in Q1. subst e'.
  destruct (Hst q b Q2) as [L1 L2]. destruct (L2 _ Q3) as (j & J1 & J2). cbn [snd] in *.
  split.
  - apply DES_iff. exists j, (kst + q). splits; auto. lia.
  - assert (Hi : i <= q) by lia.
    destruct (nth_error bl' q) as [xq|] eqn:Eq; [|discriminate].
    assert (i < length bl') by (assert (q < length bl') by (apply nth_error_Some; congruence); lia).
    destruct (nth_error bl' i) as [xi|] eqn:Exi; [|apply nth_error_None in Exi; lia].
    destruct (A.restore_blocks_written _ _ _ _ _ _ Er _ _ Exi) as (bi & B1 & B2 & B3).
    destruct (Hst i bi B1) as [L3 _]. cbn [snd] in *.
    exists q, b, bi, xi. rewrite F1. splits; auto.
Qed.

(** ------------------------------------------------------------------ *)
(** * sizes: the size a finalizer passes is the size of its upload *)

Definition usz (c : cst) : Prop :=
  length (s_uploads (cs_sys c)) = length (cs_ups c) /\
  forall k u tok size, nth_error (cs_ups c) k = Some u ->
    nth_error (s_uploads (cs_sys c)) k = Some (Some (tok, size)) -> size = up_size u.

Lemma usz_upd c c' k f :
  usz c -> (forall u, up_size (f u) = up_size u) -> cs_ups c' = upd_nth (cs_ups c) k f ->
  (s_uploads (cs_sys c') = s_uploads (cs_sys c) \/
   exists k', s_uploads (cs_sys c') = clear_nth (s_uploads (cs_sys c)) k') -> usz c'.
Proof.
  intros [U1 U2] Hf Eu Es. split.
  - rewrite Eu, A.upd_nth_length. destruct Es as [->|[k' ->]]; [|rewrite O.clear_nth_length]; exact U1.
  - intros j y tok size Hy Hs. rewrite Eu in Hy. apply A.upd_nth_inv in Hy. destruct Hy as (x & Hx & Hy).
    assert (Hs' : nth_error (s_uploads (cs_sys c)) j = Some (Some (tok, size))).
    { destruct Es as [Es|[k' Es]]; rewrite Es in Hs; [exact Hs|eapply O.clear_nth_some; eauto]. }
    rewrite (U2 _ _ _ _ Hx Hs'). destruct Hy as [->|[_ ->]]; auto.
Qed.

Lemma usz_keep c c' : usz c -> cs_ups c' = cs_ups c -> s_uploads (cs_sys c') = s_uploads (cs_sys c) -> usz c'.
Proof.
  intros U E1 E2. eapply (usz_upd c c' 0 (fun u => u)); eauto. rewrite A.upd_nth_id. exact E1.
Qed.

Lemma usz_step g cfg c e c' : usz c -> cstep g cfg c e = Some c' -> usz c'.
Proof.
  intros U H. destruct e; cbn [cstep] in H.
  - assert (Hany : forall alloc c0, sys_step cfg c (EPushBack alloc) = Some c0 ->
              usz c0 /\ forall locs cur fr hd, usz (with_alloc c0 locs cur fr hd)).
    { intros alloc c0 H0. apply A.sys_step_inv in H0. destruct H0 as [s' [Hs ->]].
      apply O.step_uploads in Hs. split; [|intros locs cur fr hd]; eapply usz_keep; eauto. }
    destruct (closedForWriting (s_pbl (cs_sys c))); [apply (Hany _ _ H)|].
    destruct (cs_free c) as [|l fr]; [apply (Hany _ _ H)|].
    destruct (sys_step cfg c (EPushBack (Some l))) as [c1|] eqn:Ess; [|discriminate]. inv H.
    apply (Hany _ _ Ess).
  - apply A.sys_step_inv in H. destruct H as [s' [Hs ->]]. apply O.step_uploads in Hs.
    eapply usz_keep; eauto.
  - destruct (Z.ltb_spec size 0) as [|Hsz]; [discriminate|].
    destruct (sys_step cfg c (EPutStart index size)) as [c1|] eqn:Ess; [|discriminate].
    apply A.sys_step_inv in Ess. destruct Ess as [s' [Hs ->]]. apply O.step_uploads in Hs.
    destruct Hs as [tok Hs]. destruct U as [U1 U2].
    assert (Hsize : forall x, up_size x = size -> forall k u tok0 size0,
              nth_error (cs_ups c ++ [x]) k = Some u ->
              nth_error (s_uploads s') k = Some (Some (tok0, size0)) -> size0 = up_size u).
    { intros x Hx k u tok0 size0 Hu Ht. rewrite Hs in Ht.
      apply A.nth_error_snoc_inv in Hu. apply A.nth_error_snoc_inv in Ht.
      destruct Hu as [Hu|[Hk ->]], Ht as [Ht|[Hk' Ht]]; eauto.
      - apply E.nth_lt in Hu. lia.
      - apply E.nth_lt in Ht. lia.
      - inv Ht. auto. }
    destruct (closedForWriting (s_pbl (cs_sys c))).
    + inv H. split; cbn.
      * rewrite Hs, !app_length. cbn. lia.
      * apply Hsize. reflexivity.
    + destruct (nth_error (cs_cur c) _) as [off|] eqn:Eo; [|discriminate].
      destruct (nth_error (cs_locs c) _); [|discriminate].
      destruct (_ <=? _)%Z; [|discriminate]. inv H. split; cbn.
      * rewrite Hs, !app_length. cbn. lia.
      * apply Hsize. reflexivity.
  - destruct (nth_error (cs_ups c) k) as [u|]; [|discriminate].
    destruct (up_state u); try discriminate.
    destruct (up_loc (cs_locs c) u) as [l|]; [|discriminate].
    destruct (_ && _)%bool; [|discriminate]. inv H.
    eapply usz_upd; eauto; [|reflexivity]. intros u0. reflexivity.
  - destruct (nth_error (cs_ups c) k) as [u|]; [|discriminate].
    destruct (up_state u); try discriminate.
    destruct (ok && _)%bool; [discriminate|].
    assert (Hf : forall c0, cs_sys c0 = cs_sys c ->
                  cs_ups c0 = upd_nth (cs_ups c) k (fun u => mkUp (up_key u) (up_abs u) (up_off u) (up_size u)
                                                               (up_issued u) (UpDone ok)) -> usz c0).
    { intros c0 E1 E3. eapply usz_upd; eauto; [|rewrite E1; auto]. intros u0. reflexivity. }
    destruct (up_loc (cs_locs c) u) as [l|]; [|inv H; apply Hf; reflexivity].
    destruct (_ && _)%bool; inv H; apply Hf; reflexivity.
  - destruct (nth_error (cs_ups c) k) as [u|] eqn:Eu; [|discriminate].
    destruct (nth_error (s_uploads (cs_sys c)) k) as [[[tok size]|]|] eqn:Et; try discriminate.
    destruct (up_state u) as [|ok|] eqn:Eus; try discriminate.
    destruct (negb (fresh c seed)); [discriminate|].
    destruct (put_finalize tok _ size seed (s_pbl (cs_sys c))) as [[p' fr]|] eqn:Epf; [|discriminate].
    destruct (sys_step cfg c _) as [c1|] eqn:Ess; [|discriminate].
    apply A.sys_step_inv in Ess. destruct Ess as [s1 [Hs ->]]. apply O.step_uploads in Hs.
    assert (Hf : forall b c0, cs_ups c0 = A.fin_ups c k b ->
                  s_uploads (cs_sys c0) = s_uploads s1 -> usz c0).
    { intros b c0 E1 E3. eapply usz_upd; eauto; [intros u0; reflexivity|]. right. exists k. congruence. }
    fold (A.fin_ups c k true) in H. fold (A.fin_ups c k false) in H.
    destruct fr as [off| | |].
    2-4: destruct ws; [|discriminate]; inv H; apply (Hf false); destruct (_ <? _); reflexivity.
    destruct (do_writes p' k u ws (cs_log c) (cs_tbl c)) as [[log' tbl']|]; [|discriminate]. inv H.
    apply (Hf true); destruct (_ <? _); reflexivity.
  - apply A.sys_step_inv in H. destruct H as [s' [Hs ->]]. apply O.step_uploads in Hs.
    eapply usz_keep; eauto.
  - apply A.sys_step_inv in H. destruct H as [s' [Hs ->]]. apply O.step_uploads in Hs.
    eapply usz_keep; eauto.
  - destruct (_ && _ && _)%bool; [discriminate|].
    destruct (sys_step cfg c (EStep t a)) as [c1|] eqn:Ess; [|discriminate].
    apply A.sys_step_inv in Ess. destruct Ess as [s' [Hs ->]]. apply O.step_uploads in Hs.
    cbv zeta in H. destruct (release_regions _ _ _ _ _) as [fr hd].
    destruct t.
    + destruct (thread_at_getstate _ _); inv H; eapply usz_keep; eauto.
    + destruct (if p_notifies (cs_sys c) then _ else _) as [ncl cat].
      destruct (thread_at_getstate _ _); inv H; eapply usz_keep; eauto.
  - destruct (writing _); [|discriminate]. destruct (_ <? _); [|discriminate]. inv H.
    eapply usz_keep; eauto.
Qed.

Lemma usz_init g base t0 : usz (cinit g base t0).
Proof. split; [reflexivity|]. intros k u tok size H. destruct k; discriminate. Qed.

Lemma crun_usz g cfg tr : forall c c', usz c -> crun g cfg c tr = Some c' -> usz c'.
Proof.
  induction tr as [|e tr IH]; intros c c' U H; cbn in H; [inv H; exact U|].
  destruct (cstep g cfg c e) as [c1|] eqn:Es; [|discriminate]. eapply IH; [|exact H]. eapply usz_step; eauto.
Qed.

(** ------------------------------------------------------------------ *)
(** * GetPersistentState covers what the list covers *)

Lemma gps_cover p sd el p1 st :
  A.ginv p sd el -> get_persistent_state p = Ok (p1, st) ->
  O.stk sd el st (totalReleased p) /\
  forall ab r, O.rcov p ab r -> O.cover ab st (totalReleased p) r.
Proof.
  intros [G1 [k [Gk [G2 G3]]] G4 G5] Hg. split.
  - intros q b s0 Hq Hs. destruct (A.gps_spec _ _ _ Hg q b Hq) as [_ H2].
    destruct (H2 s0 Hs) as [e [E1 E2]]. exists (k + e). split.
    + rewrite <- A.nth_error_skipn', <- G2. exact E1.
    + rewrite <- A.nth_error_skipn', <- G3, G1. exact E2.
  - intros ab r (a & A1 & A2 & A3) qq bq Hqq Hs.
    exists a. split; [exact A1|]. intros Hle bi Hbi.
    destruct (O.gps_off _ _ _ Hg _ _ Hbi) as (b0 & B1 & B2). rewrite B2.
    destruct (A3 b0 Hle B1) as [W ES].
    pose proof (O.in_st_seeds _ _ _ _ Hqq Hs) as Hin'.
    apply (E.gps_seeds _ _ _ _ Hg) in Hin'. apply E.in_firstn_nth in Hin'.
    destruct Hin' as (j & J1 & J2). apply (ES j J2). exact J1.
Qed.

Lemma DES_anti sd el sd' el' r a : length el = length sd -> (forall x, In x sd' -> r_seed r <> x) ->
  DES (sd ++ sd') (el ++ el') r a -> DES sd el r a.
Proof.
  intros Hlen Hn H. apply DES_iff in H. destruct H as (j & e & H1 & H2 & H3). apply DES_iff.
  destruct (Nat.lt_ge_cases j (length sd)) as [Hlt|Hge].
  - rewrite nth_error_app1 in H1 by exact Hlt. rewrite nth_error_app1 in H2 by lia. eauto.
  - rewrite nth_error_app2 in H1 by exact Hge. apply nth_error_In in H1. exfalso. eapply Hn; eauto.
Qed.

Lemma NoDup_pointwise {X} (l l' : list X) : NoDup l ->
  (forall i x, nth_error l' i = Some x -> nth_error l i = Some x) -> NoDup l'.
Proof.
  intros Hn H. apply NoDup_nth_error. intros i j Hi Hij.
  destruct (nth_error l' i) as [x|] eqn:Ei; [|apply nth_error_None in Ei; lia].
  symmetry in Hij. pose proof (H _ _ Ei) as A1. pose proof (H _ _ Hij) as A2.
  eapply (proj1 (NoDup_nth_error l) Hn); [apply nth_error_Some; congruence|congruence].
Qed.

Lemma cstep_tbl g cfg c e c' : (forall k s ws, e <> CFinalize k s ws) ->
  cstep g cfg c e = Some c' -> cs_tbl c' = cs_tbl c.
Proof.
  intros Hne H. destruct (cstep_frame g cfg c (cs_log c) (cs_tbl c) e c' Hne eq_refl H) as (extra & E1 & E2).
  assert (Ec : with_index c (cs_log c) (cs_tbl c) = c) by (destruct c; reflexivity).
  rewrite Ec, H in E2. inv E2. rewrite H1 at 1. reflexivity.
Qed.

(** ------------------------------------------------------------------ *)
(** * the record invariant *)

Section Rec.
  Variable nb : nat.
  Variable Back : irec -> nat -> Prop.
  Hypothesis Back_same : forall r r0 a, r_key r = r_key r0 -> r_off r = r_off r0 -> r_size r = r_size r0 ->
    Back r0 a -> Back r a.
  Variable tb0 : list (nat * irec).

  Definition NATU (ups : list upinfo) (r : irec) (a : nat) : Prop :=
    exists up, nth_error ups (r_up r) = Some up /\ up_abs up = a /\ up_key up = r_key r /\ up_off up = r_off r /\
      up_size up = r_size r /\ up_state up = UpFin true /\ up_issued up = up_size up.

  Lemma NATU_ext ups ups' r a : E.ups_ext ups ups' -> NATU ups r a -> NATU ups' r a.
  Proof. intros X (up & H1 & H2 & H3 & H4 & H5 & H6 & H7). exists up. splits; auto. Qed.

  Definition dbefore (L : log) (pos : nat) (r : irec) : Prop :=
    forall q l lo hi, nth_error L q = Some (IoData (r_up r) l lo hi) -> q < pos.

  Definition ENT (p : pbl) sd el ups (r : irec) : Prop :=
    exists a, DES sd el r a /\ O.rcov p (fab r a) r /\ (NATU ups r a \/ (a < nb /\ Back r a)).
  Definition LENT (p : pbl) sd el ups (L : log) (pos : nat) (r : irec) : Prop :=
    exists a, DES sd el r a /\ O.rcov p (fab r a) r /\ ((NATU ups r a /\ dbefore L pos r) \/ (a < nb /\ Back r a)).
  Definition liveable (sd : list N) (el : list nat) (r : irec) : Prop :=
    exists j e, nth_error sd j = Some (r_seed r) /\ nth_error el j = Some e /\ (Z.of_N (r_bfl r) <= Z.of_nat e)%Z.

  (** state [st] covers the records of the log below position [q] and the base records *)
  Definition SCOV sd el (L : log) (q : nat) (st : pstate) : Prop :=
    NoDup (map bs_loc (snd st)) /\
    exists kst, O.stk sd el st kst /\
      (forall pos slot r a, pos < q -> nth_error L pos = Some (IoIndex slot r) -> DES sd el r a ->
         O.cover (fab r a) st kst r) /\
      (forall slot r a, In (slot, r) tb0 -> DES sd el r a -> O.cover (fab r a) st kst r).

  Record mrinv (c : cst) : Prop := mkMR {
    mr_log : forall pos slot r, nth_error (cs_log c) pos = Some (IoIndex slot r) ->
       LENT (s_pbl (cs_sys c)) (cs_seeds c) (cs_elast c) (cs_ups c) (cs_log c) pos r;
    mr_tbl : forall slot r, In (slot, r) (cs_tbl c) -> liveable (cs_seeds c) (cs_elast c) r ->
       ENT (s_pbl (cs_sys c)) (cs_seeds c) (cs_elast c) (cs_ups c) r;
    mr_tb0 : incl tb0 (cs_tbl c);
    mr_fl : forall st, E.in_flight (cs_sys c) st -> SCOV (cs_seeds c) (cs_elast c) (cs_log c) (length (cs_log c)) st;
    mr_wr : forall q st h, nth_error (cs_log c) q = Some (IoWriteNew (st, h)) ->
       SCOV (cs_seeds c) (cs_elast c) (cs_log c) q st
  }.

  Lemma liveable_anti sd el sd' el' r : length el = length sd -> (forall x, In x sd' -> r_seed r <> x) ->
    liveable (sd ++ sd') (el ++ el') r -> liveable sd el r.
  Proof.
    intros Hlen Hn (j & e & H1 & H2 & H3).
    destruct (Nat.lt_ge_cases j (length sd)) as [Hlt|Hge].
    - rewrite nth_error_app1 in H1 by exact Hlt. rewrite nth_error_app1 in H2 by lia. exists j, e. auto.
    - rewrite nth_error_app2 in H1 by exact Hge. apply nth_error_In in H1. exfalso. eapply Hn; eauto.
  Qed.

  Lemma MR_frame c c' X Y sd' el' :
    mrinv c ->
    NoDup (cs_seeds c ++ sd') -> length (cs_elast c) = length (cs_seeds c) ->
    cs_log c' = cs_log c ++ X -> cs_seeds c' = cs_seeds c ++ sd' -> cs_elast c' = cs_elast c ++ el' ->
    cs_tbl c' = cs_tbl c ++ Y -> E.ups_ext (cs_ups c) (cs_ups c') ->
    (forall ab r, O.rcov (s_pbl (cs_sys c)) ab r -> O.rcov (s_pbl (cs_sys c')) ab r) ->
    (forall slot r, In (slot, r) (cs_tbl c) -> forall x, In x sd' -> r_seed r <> x) ->
    (forall pos slot r, nth_error (cs_log c) pos = Some (IoIndex slot r) -> forall x, In x sd' -> r_seed r <> x) ->
    (forall u l lo hi, In (IoData u l lo hi) X -> forall up, nth_error (cs_ups c') u = Some up -> up_state up <> UpFin true) ->
    (forall i slot r, nth_error X i = Some (IoIndex slot r) ->
       LENT (s_pbl (cs_sys c')) (cs_seeds c') (cs_elast c') (cs_ups c') (cs_log c') (length (cs_log c) + i) r /\
       (forall st, E.in_flight (cs_sys c') st -> ~ In (r_seed r) (E.st_seeds st)) /\
       (forall q st h, nth_error (cs_log c) q = Some (IoWriteNew (st, h)) -> ~ In (r_seed r) (E.st_seeds st))) ->
    (forall slot r, In (slot, r) Y -> ENT (s_pbl (cs_sys c')) (cs_seeds c') (cs_elast c') (cs_ups c') r) ->
    (forall st h, In (IoWriteNew (st, h)) X -> (forall slot r, ~ In (IoIndex slot r) X) /\
       SCOV (cs_seeds c) (cs_elast c) (cs_log c) (length (cs_log c)) st) ->
    (forall st, E.in_flight (cs_sys c') st -> E.in_flight (cs_sys c) st \/
       SCOV (cs_seeds c) (cs_elast c) (cs_log c) (length (cs_log c)) st) ->
    mrinv c'.
  Proof.
    intros [M1 M2 M3 M4 M5] Hnd Hlen EL ES EE ET EU HP HTS HLS HD HX HY HW HF.
    assert (Hnd0 : NoDup (cs_seeds c)) by (eapply NoDup_app_l; eauto).
    (* lifting a state cover *)
    assert (Lift : forall q st, q <= length (cs_log c) ->
              SCOV (cs_seeds c) (cs_elast c) (cs_log c) q st ->
              forall q', (forall pos slot r, q <= pos -> pos < q' -> nth_error (cs_log c') pos = Some (IoIndex slot r) ->
                            ~ In (r_seed r) (E.st_seeds st)) ->
              SCOV (cs_seeds c') (cs_elast c') (cs_log c') q' st).
    { intros q st Hq [Hn (kst & K1 & K2 & K3)] q' Hnew. split; [exact Hn|].
      exists kst. rewrite ES, EE. split; [apply O.stk_mono; exact K1|]. split.
      - intros pos slot r a Hpq Hpos Hd. destruct (Nat.lt_ge_cases pos q) as [Hlt|Hge].
        + rewrite EL, nth_error_app1 in Hpos by lia.
          eapply K2; eauto. eapply DES_anti; eauto.
        + apply O.cover_vacuous. rewrite <- ES, <- EE in Hd. eapply Hnew; eauto.
      - intros slot r a Hin Hd. eapply K3; eauto. eapply DES_anti; eauto. }
    constructor.
    - (* log *)
      intros pos slot r Hpos. rewrite EL in Hpos.
      destruct (Nat.lt_ge_cases pos (length (cs_log c))) as [Hlt|Hge].
      + rewrite nth_error_app1 in Hpos by exact Hlt.
        destruct (M1 _ _ _ Hpos) as (a & D & Cv & Cl). exists a. rewrite ES, EE.
        split; [apply DES_mono; exact D|]. split; [apply HP; exact Cv|].
        destruct Cl as [[Hn Hb]|Hi]; [left|right; exact Hi].
        pose proof (NATU_ext _ _ _ _ EU Hn) as Hn'. split; [exact Hn'|].
        intros q l lo hi Hq. rewrite EL in Hq.
        destruct (Nat.lt_ge_cases q (length (cs_log c))) as [Hl|Hg].
        * rewrite nth_error_app1 in Hq by exact Hl. eapply Hb; eauto.
        * rewrite nth_error_app2 in Hq by exact Hg. apply nth_error_In in Hq. exfalso.
          destruct Hn' as (up & U1 & _ & _ & _ & _ & U6 & _). eapply HD; eauto.
      + rewrite nth_error_app2 in Hpos by exact Hge.
        destruct (HX _ _ _ Hpos) as [H1 _].
        replace (length (cs_log c) + (pos - length (cs_log c))) with pos in H1 by lia. exact H1.
    - (* table *)
      intros slot r Hin Hlv. rewrite ET in Hin. apply in_app_iff in Hin. destruct Hin as [Hin|Hin]; [|eauto].
      rewrite ES, EE in Hlv. apply liveable_anti in Hlv; [|exact Hlen|eauto].
      destruct (M2 _ _ Hin Hlv) as (a & D & Cv & Cl). exists a. rewrite ES, EE.
      split; [apply DES_mono; exact D|]. split; [apply HP; exact Cv|].
      destruct Cl as [Hn|Hi]; [left; eapply NATU_ext; eauto|right; exact Hi].
    - intros x Hx. rewrite ET. apply in_app_iff. left. apply M3. exact Hx.
    - (* in flight *)
      intros st Hf.
      assert (Hs : SCOV (cs_seeds c) (cs_elast c) (cs_log c) (length (cs_log c)) st).
      { destruct (HF st Hf) as [H|H]; [auto|exact H]. }
      eapply Lift; [apply Nat.le_refl|exact Hs|].
      intros pos slot r Hge Hlt Hpos. rewrite EL in Hpos. rewrite nth_error_app2 in Hpos by exact Hge.
      destruct (HX _ _ _ Hpos) as [_ [H2 _]]. apply H2. exact Hf.
    - (* written *)
      intros q st h Hq. rewrite EL in Hq.
      destruct (Nat.lt_ge_cases q (length (cs_log c))) as [Hlt|Hge].
      + rewrite nth_error_app1 in Hq by exact Hlt.
        eapply Lift; [apply Nat.lt_le_incl; exact Hlt|eapply M5; eauto|]. intros pos slot r Hge Hlt' _. lia.
      + rewrite nth_error_app2 in Hq by exact Hge.
        destruct (HW _ _ (nth_error_In _ _ Hq)) as [Hni Hs].
        eapply Lift; [apply Nat.le_refl|exact Hs|].
        intros pos slot r Hge' Hlt' Hpos. rewrite EL in Hpos. rewrite nth_error_app2 in Hpos by exact Hge'.
        exfalso. eapply Hni. eapply nth_error_In; eauto.
  Qed.
End Rec.

(** ------------------------------------------------------------------ *)
(** * every step of the real run preserves the record invariant *)

Lemma issync_noindex (extra : log) i slot r : Forall issync extra -> nth_error extra i = Some (IoIndex slot r) -> False.
Proof. intros F H. apply nth_error_In in H. rewrite Forall_forall in F. apply (F _ H). Qed.

Lemma issync_nowrite (extra : log) st : Forall issync extra -> In (IoWriteNew st) extra -> False.
Proof. intros F H. rewrite Forall_forall in F. apply (F _ H). Qed.

Lemma issync_nodata' (extra : log) u l lo hi : Forall issync extra -> In (IoData u l lo hi) extra -> False.
Proof. intros F H. rewrite Forall_forall in F. apply (F _ H). Qed.

Section RecStep.
  Variable nb : nat.
  Variable Back : irec -> nat -> Prop.
  Hypothesis Back_same : forall r r0 a, r_key r = r_key r0 -> r_off r = r_off r0 -> r_size r = r_size r0 ->
    Back r0 a -> Back r a.
  Variable tb0 : list (nat * irec).
  Variable BackE : irec -> Prop.
  Variable old sd0 : list N.

  Local Notation MR := (mrinv nb Back tb0).
  Local Notation RC := (rcinv BackE old sd0).

  Lemma DES_liveable sd el r a : DES sd el r a -> liveable sd el r.
  Proof. intros H. apply DES_iff in H. destruct H as (j & e & H1 & H2 & H3). exists j, e. splits; auto. lia. Qed.

  (** a state obtained by GetPersistentState covers the log and the base records *)
  Lemma SCOV_gps c p1 st : MR c -> A.ginv (s_pbl (cs_sys c)) (cs_seeds c) (cs_elast c) ->
    NoDup (map b_loc (blocks (s_pbl (cs_sys c)))) ->
    get_persistent_state (s_pbl (cs_sys c)) = Ok (p1, st) ->
    SCOV tb0 (cs_seeds c) (cs_elast c) (cs_log c) (length (cs_log c)) st.
  Proof.
    intros [M1 M2 M3 M4 M5] G Hnl Hg. destruct (gps_cover _ _ _ _ _ G Hg) as [K1 K2].
    pose proof (A.gi_nodup _ _ _ G) as Hnd.
    split.
    { eapply (NoDup_pointwise _ _ Hnl). intros i x Hi. rewrite nth_error_map in Hi.
      destruct (nth_error (snd st) i) as [b|] eqn:Eb; [|discriminate]. cbn in Hi. inv Hi.
      apply (proj1 (A.gps_spec _ _ _ Hg i b Eb)). }
    exists (totalReleased (s_pbl (cs_sys c))). split; [exact K1|]. split.
    - intros pos slot r a _ Hpos Hd. destruct (M1 _ _ _ Hpos) as (a0 & D0 & Cv & _).
      assert (a = a0) by (eapply DES_fun; eauto). subst a0. apply K2. exact Cv.
    - intros slot r a Hin Hd. destruct (M2 _ _ (M3 _ Hin) (DES_liveable _ _ _ _ Hd)) as (a0 & D0 & Cv & _).
      assert (a = a0) by (eapply DES_fun; eauto). subst a0. apply K2. exact Cv.
  Qed.

  (** the seed of a record appended by a step is not synchronized: it occurs in no state file *)
  Lemma new_seed_open c c' X i slot r : RC c -> RC c' ->
    cs_log c' = cs_log c ++ X -> cs_closed_at c' = cs_closed_at c ->
    nth_error X i = Some (IoIndex slot r) ->
    (forall st, E.in_flight (cs_sys c') st -> ~ In (r_seed r) (E.st_seeds st)) /\
    (forall q st h, nth_error (cs_log c') q = Some (IoWriteNew (st, h)) -> ~ In (r_seed r) (E.st_seeds st)).
  Proof.
    intros [[_ [_ [HL _]]] _] [[HS' [_ [HL' _]]] _] EL EC Hi.
    assert (Hn : ~ In (r_seed r) (firstn (cs_nsynced c') (cs_seeds c'))).
    { intros Hin. pose proof (E.si_le1 _ _ _ _ _ _ HS') as Hle.
      apply (E.in_firstn_le _ _ _ _ Hin) in Hle.
      destruct (li_C' _ _ _ _ _ _ _ _ _ _ HL') as [_ C'].
      destruct (li_C' _ _ _ _ _ _ _ _ _ _ HL) as [C _].
      assert (Hp : nth_error (cs_log c') (length (cs_log c) + i) = Some (IoIndex slot r)).
      { rewrite EL, nth_error_app2 by lia. replace (_ + i - _) with i by lia. exact Hi. }
      specialize (C' _ _ _ Hp Hle). rewrite EC in C'. lia. }
    split.
    - intros st Hf Hs. apply Hn. eapply (E.si_W _ _ _ _ _ _ HS'); eauto.
    - intros q st h Hq Hs. apply Hn. eapply (li_W' _ _ _ _ _ _ _ _ _ _ HL'); eauto.
  Qed.

  (** the record writes of a finalizer section *)
  Lemma do_writes_MR p k u uf ws sd el ups :
    A.ginv p sd el -> (Z.of_nat (length (blocks p)) < 65536)%Z ->
    NoDup (epochSeeds p) -> synchronizedEpochs p <= synchronizingEpochs p ->
    synchronizingEpochs p < length (epochSeeds p) ->
    nth_error ups k = Some uf -> up_abs uf = up_abs u -> up_key uf = up_key u -> up_off uf = up_off u ->
    up_size uf = up_size u -> up_state uf = UpFin true -> up_issued uf = up_size uf ->
    (forall n' la, length (epochLast p) = S n' -> nth_error (epochLast p) n' = Some la -> up_abs u <= la) ->
    up_abs u < totalReleased p + length (blocks p) ->
    (forall b, totalReleased p <= up_abs u -> nth_error (blocks p) (up_abs u - totalReleased p) = Some b ->
       (up_off u + up_size u <= b_written b)%Z) ->
    forall L tbl L' tbl', do_writes p k u ws L tbl = Some (L', tbl') ->
      (forall slot r0, In (slot, r0) tbl -> liveable sd el r0 -> ENT nb Back p sd el ups r0) ->
      exists Y, L' = L ++ map (fun e => IoIndex (fst e) (snd e)) Y /\ tbl' = tbl ++ Y /\
        forall slot r, In (slot, r) Y -> ENT nb Back p sd el ups r.
  Proof.
    intros G Hsmall Hnd H1 H2 Hk U1 U2 U3 U4 U5 U6 Hlast Hlt Hw.
    induction ws as [|w ws IH]; intros L tbl L' tbl' H Htbl; cbn [do_writes] in H.
    - inv H. exists []. cbn. rewrite !app_nil_r. splits; auto. intros ? ? [].
    - destruct w as [slot|from to].
      + destruct (Nat.ltb_spec (up_abs u) (totalReleased p)); [discriminate|].
        destruct (mk_rec p (up_abs u - totalReleased p) (up_key u) (up_off u) (up_size u) k) as [r|] eqn:Em;
          [|discriminate].
        destruct (E.mk_rec_facts _ _ _ _ _ _ _ Em) as (F1 & F2 & F3 & F4 & F5).
        assert (Hr : ENT nb Back p sd el ups r).
        { exists (up_abs u). split; [|split].
          - apply (A.mk_rec_ok p sd el (fab r (up_abs u)) (up_abs u - totalReleased p) (up_key u) (up_off u) (up_size u) k r
                     (up_abs u) G Hsmall Em); [rewrite <- F4; apply fab_nth|lia|exact Hlast].
          - eapply (O.rcov_new p (fab r (up_abs u)) r (up_abs u)); eauto; [apply fab_nth|]. rewrite F2, F3. exact Hw.
          - left. exists uf. rewrite F4. splits; auto; congruence. }
        destruct (IH _ _ _ _ H) as (Y & Y1 & Y2 & Y3).
        { intros s0 r0 Hin Hlv. apply in_app_iff in Hin. destruct Hin as [Hin|[Hin|[]]]; [eauto|]. inv Hin. exact Hr. }
        exists ((slot, r) :: Y). cbn. rewrite Y1, Y2, <- !app_assoc. splits; auto.
        intros s0 r0 [Hin|Hin]; [inv Hin; exact Hr|eauto].
      + destruct (slot_get tbl from None) as [r0|] eqn:Es; [|discriminate].
        destruct (live_index p r0) as [i|] eqn:El; [|discriminate].
        destruct (mk_rec p i (r_key r0) (r_off r0) (r_size r0) (r_up r0)) as [r|] eqn:Em; [|discriminate].
        destruct (E.mk_rec_facts _ _ _ _ _ _ _ Em) as (F1 & F2 & F3 & F4 & F5).
        assert (Hlv : liveable sd el r0).
        { unfold live_index, resolve_ref in El.
          destruct (ref_to_index (r_epoch r0) (r_bfl r0) p) as [[[i' seed]|]|] eqn:Er; try discriminate.
          cbn in El. destruct (N.eqb_spec seed (r_seed r0)) as [Ese|]; [|discriminate].
          apply A.ref_to_index_spec in Er. destruct Er as (e & la & E1 & E2 & E3 & E4).
          destruct G as [G1 [k0 [Gk [G2 G3]]] G4 G5].
          exists (k0 + e), la. rewrite <- !A.nth_error_skipn', <- G2, <- G3, <- Ese. splits; auto. lia. }
        assert (Hr0 : ENT nb Back p sd el ups r0).
        { apply E.slot_get_in in Es. destruct Es as [Es|[s' Hin]]; [discriminate|]. eauto. }
        assert (Hr : ENT nb Back p sd el ups r).
        { destruct Hr0 as (a0 & D0 & Cv0 & Cl0).
          destruct (A.live_index_abs _ _ _ _ _ _ G D0 El) as (a' & A1 & A2 & A3).
          rewrite fab_nth in A1. inv A1.
          exists (totalReleased p + i). split; [|split].
          - apply (A.mk_rec_ok p sd el (fab r (totalReleased p + i)) i (r_key r0) (r_off r0) (r_size r0) (r_up r0) r
                     (totalReleased p + i) G Hsmall Em); [rewrite <- F4; apply fab_nth|reflexivity|exact A3].
          - destruct Cv0 as (a0 & C1 & C2 & C3). rewrite fab_nth in C1. inv C1.
            eapply (O.rcov_new p (fab r (totalReleased p + i)) r (totalReleased p + i)); eauto; [apply fab_nth|].
            rewrite F2, F3. intros b Hle Hb. apply (C3 b Hle Hb).
          - destruct Cl0 as [(up & N1 & N2 & N3 & N4 & N5 & N6 & N7)|[I1 I2]].
            + left. exists up. rewrite F1, F2, F3, F4. splits; auto.
            + right. split; [exact I1|]. eapply Back_same; eauto. }
        destruct (IH _ _ _ _ H) as (Y & Y1 & Y2 & Y3).
        { intros s0 r1 Hin Hlv1. apply in_app_iff in Hin. destruct Hin as [Hin|[Hin|[]]]; [eauto|]. inv Hin. exact Hr. }
        exists ((to, r) :: Y). cbn. rewrite Y1, Y2, <- !app_assoc. splits; auto.
        intros s0 r1 [Hin|Hin]; [inv Hin; exact Hr|eauto].
  Qed.
End RecStep.

Section RecRun.
  Variable nb : nat.
  Variable Back : irec -> nat -> Prop.
  Hypothesis Back_same : forall r r0 a, r_key r = r_key r0 -> r_off r = r_off r0 -> r_size r = r_size r0 ->
    Back r0 a -> Back r a.
  Variable tb0 : list (nat * irec).
  Variable BackE : irec -> Prop.
  Variable old sd0 : list N.
  Variable g : geo.
  Hypothesis Hg65 : length (g_locs g) < 65536.
  Hypothesis Hndg : NoDup (g_locs g).

  Local Notation MR := (mrinv nb Back tb0).
  Local Notation RC := (rcinv BackE old sd0).

  (** a step that creates no seed and writes no record *)
  Lemma MR_frame0 c c' X : MR c ->
    NoDup (cs_seeds c) -> length (cs_elast c) = length (cs_seeds c) ->
    cs_log c' = cs_log c ++ X -> cs_seeds c' = cs_seeds c -> cs_elast c' = cs_elast c ->
    cs_tbl c' = cs_tbl c -> E.ups_ext (cs_ups c) (cs_ups c') ->
    (forall ab r, O.rcov (s_pbl (cs_sys c)) ab r -> O.rcov (s_pbl (cs_sys c')) ab r) ->
    (forall u l lo hi, In (IoData u l lo hi) X -> forall up, nth_error (cs_ups c') u = Some up -> up_state up <> UpFin true) ->
    (forall i slot r, nth_error X i = Some (IoIndex slot r) -> False) ->
    (forall st h, In (IoWriteNew (st, h)) X ->
       SCOV tb0 (cs_seeds c) (cs_elast c) (cs_log c) (length (cs_log c)) st) ->
    (forall st, E.in_flight (cs_sys c') st -> E.in_flight (cs_sys c) st \/
       SCOV tb0 (cs_seeds c) (cs_elast c) (cs_log c) (length (cs_log c)) st) ->
    MR c'.
  Proof.
    intros M Hnd Hlen EL ES EE ET EU HP HD HX HW HF.
    assert (Hnd' : NoDup (cs_seeds c ++ [])) by (rewrite app_nil_r; exact Hnd).
    assert (ES' : cs_seeds c' = cs_seeds c ++ []) by (rewrite app_nil_r; exact ES).
    assert (EE' : cs_elast c' = cs_elast c ++ []) by (rewrite app_nil_r; exact EE).
    assert (ET' : cs_tbl c' = cs_tbl c ++ []) by (rewrite app_nil_r; exact ET).
    apply (MR_frame nb Back tb0 c c' X [] [] [] M Hnd' Hlen EL ES' EE' ET' EU HP).
    - intros slot r _ x [].
    - intros pos slot r _ x [].
    - exact HD.
    - intros i slot r Hi. exfalso. eapply HX; eauto.
    - intros slot r [].
    - intros st h Hin. split; [|eauto]. intros slot r Hin'. apply In_nth_error in Hin'. destruct Hin' as [i Hi]. eapply HX; eauto.
    - exact HF.
  Qed.

  Lemma MR_step_other cfg cur0 c ch c' e :
    (forall k s ws, e <> CFinalize k s ws) ->
    sim c ch -> SH g cur0 ch -> usz c -> MR c -> cstep g cfg c e = Some c' -> MR c'.
  Proof.
    intros Hne S HSH U M H.
    destruct (sim_fields _ _ S) as (F1 & F2 & F3 & F4 & F5 & F6 & F7 & F8 & F9 & F10).
    assert (G : A.ginv (s_pbl (cs_sys c)) (cs_seeds c) (cs_elast c)).
    { pose proof (A.ci_g _ _ (sh_a _ _ _ HSH)) as G. rewrite F1, F8, F9 in G. exact G. }
    pose proof (A.gi_nodup _ _ _ G) as Hnd. pose proof (A.gi_len _ _ _ G) as Hlen.
    pose proof (cstep_tbl _ _ _ _ _ Hne H) as Et.
    assert (Hnl : NoDup (map b_loc (blocks (s_pbl (cs_sys c))))).
    { pose proof (proj1 (rinv_window _ _ Hndg (sh_r _ _ _ HSH) (sh_a _ _ _ HSH))) as HN.
      unfold regions in HN. apply nodup_app_l in HN. rewrite F1 in HN. exact HN. }
    assert (HFsame : s_r (cs_sys c') = s_r (cs_sys c) -> s_p (cs_sys c') = s_p (cs_sys c) ->
              forall st, E.in_flight (cs_sys c') st -> E.in_flight (cs_sys c) st \/
                SCOV tb0 (cs_seeds c) (cs_elast c) (cs_log c) (length (cs_log c)) st).
    { intros Er Ep st Hf. left. eapply E.in_flight_frame; eauto. }
    apply cstep_eff in H. eff_cases H.
    - (* trivial *)
      apply obs_fields in Hobs. destruct Hobs as (E1 & E2 & E3 & E4 & E5 & E6 & E7 & E8 & E9 & E10 & E11).
      apply (MR_frame0 c c' [] M Hnd Hlen).
      + rewrite app_nil_r. exact E4.
      + exact E10.
      + exact E11.
      + exact Et.
      + rewrite E5. apply E.ups_ext_refl.
      + rewrite E1. auto.
      + intros u l lo hi [].
      + intros i slot r Hi. destruct i; discriminate.
      + intros st h [].
      + apply HFsame; assumption.
    - (* push *)
      destruct Hpc as [P1 P2]. destruct Hgh as [Q1 Q2].
      apply (MR_frame0 c c' [] M Hnd Hlen).
      + rewrite app_nil_r. exact Hlg.
      + exact Q1.
      + exact Q2.
      + exact Et.
      + rewrite Hu. apply E.ups_ext_refl.
      + rewrite Hp. intros ab r. apply O.rcov_push.
      + intros u l0 lo hi [].
      + intros i slot r Hi. destruct i; discriminate.
      + intros st h [].
      + apply HFsame; assumption.
    - (* pop *)
      destruct Hpc as [P1 P2]. destruct Hgh as [Q1 Q2].
      apply (MR_frame0 c c' [] M Hnd Hlen).
      + rewrite app_nil_r. exact Hlg.
      + exact Q1.
      + exact Q2.
      + exact Et.
      + rewrite Hu. apply E.ups_ext_refl.
      + rewrite Hp. intros ab r. eapply O.rcov_pop; eauto.
      + intros u l0 lo hi [].
      + intros i slot r Hi. destruct i; discriminate.
      + intros st h [].
      + apply HFsame; assumption.
    - (* putstart *)
      destruct Hpc as [P1 P2]. destruct Hgh as [Q1 Q2].
      apply (MR_frame0 c c' [] M Hnd Hlen).
      + rewrite app_nil_r. exact Hlg.
      + exact Q1.
      + exact Q2.
      + exact Et.
      + rewrite Hu. apply E.ups_ext_app.
      + rewrite Hp. auto.
      + intros u0 l0 lo hi [].
      + intros i slot r Hi. destruct i; discriminate.
      + intros st h [].
      + apply HFsame; assumption.
    - (* data *)
      destruct Hgh as [Q1 Q2].
      apply (MR_frame0 c c' [IoData k l (up_off u + up_issued u) (up_off u + up_issued u + n)%Z] M Hnd Hlen).
      + exact Hlg.
      + exact Q1.
      + exact Q2.
      + exact Et.
      + rewrite Hu. eapply E.ups_ext_upd; [exact Hk|rewrite Hst; discriminate].
      + rewrite Hsys. auto.
      + intros u0 l0 lo hi [Hin|[]]. inv Hin. intros up Hup. rewrite Hu in Hup.
        rewrite (E.nth_upd_same _ _ _ _ Hk) in Hup. inv Hup. cbn. rewrite Hst. discriminate.
      + intros i slot r Hi. destruct i as [|[|i]]; discriminate.
      + intros st h [Hin|[]]. discriminate.
      + rewrite Hsys. intros st Hf. left. exact Hf.
    - (* writer done *)
      destruct Hgh as [Q1 Q2].
      apply (MR_frame0 c c' [] M Hnd Hlen).
      + rewrite app_nil_r. exact Hlg.
      + exact Q1.
      + exact Q2.
      + exact Et.
      + rewrite Hu. eapply E.ups_ext_upd; [exact Hk|rewrite Hst; discriminate].
      + rewrite Hsys. auto.
      + intros u0 l0 lo hi [].
      + intros i slot r Hi. destruct i; discriminate.
      + intros st h [].
      + rewrite Hsys. intros st Hf. left. exact Hf.
    - (* finalize *)
      exfalso. eapply Hne. reflexivity.
    - (* thread *)
      destruct Hgh as [Q1 Q2].
      destruct (A.estep_effect _ _ _ _ _ Hs) as (_ & _ & Rr & Pp).
      apply (MR_frame0 c c' extra M Hnd Hlen).
      + exact Hlg.
      + exact Q1.
      + exact Q2.
      + exact Et.
      + rewrite Hu. apply E.ups_ext_refl.
      + rewrite Hsys. intros ab r. eapply O.estep_rcov; eauto.
      + intros u l lo hi Hin. exfalso. eapply issync_nodata'; eauto.
      + intros i slot r Hi. eapply issync_noindex; eauto.
      + intros st h Hin. exfalso. eapply issync_nowrite; eauto.
      + rewrite Hsys. intros st [Hf|[k Hf]].
        * destruct (Rr _ Hf) as [Hr|[p1 Hg1]]; [left; left; exact Hr|right; eapply SCOV_gps; eauto].
        * destruct (Pp _ _ Hf) as [Hr|[p1 Hg1]]; [left; right; eauto|right; eapply SCOV_gps; eauto].
    - (* dir *)
      destruct Hgh as [Q1 Q2].
      apply (MR_frame0 c c' [dir_op (cs_dirpc c) (st, g_hinit g)] M Hnd Hlen).
      + exact Hlg.
      + exact Q1.
      + exact Q2.
      + exact Et.
      + rewrite Hu. apply E.ups_ext_refl.
      + rewrite Hsys. auto.
      + intros u l lo hi [Hin|[]]. destruct (cs_dirpc c) as [|[|[|[|[|?]]]]]; discriminate.
      + intros i slot r Hi. destruct i as [|[|i]]; try discriminate. cbn in Hi.
        destruct (cs_dirpc c) as [|[|[|[|[|?]]]]]; discriminate.
      + intros st0 h [Hin|[]]. destruct (cs_dirpc c) as [|[|[|[|[|?]]]]]; try discriminate. inv Hin.
        apply (mr_fl _ _ _ _ M). apply E.writing_in_flight. exact Hw.
      + rewrite Hsys. intros st0 Hf. left. exact Hf.
  Qed.

  Lemma ENT_lift p p' sd el sd' el' ups ups' r :
    (forall ab r0, O.rcov p ab r0 -> O.rcov p' ab r0) -> E.ups_ext ups ups' ->
    ENT nb Back p sd el ups r -> ENT nb Back p' (sd ++ sd') (el ++ el') ups' r.
  Proof.
    intros HP EU (a & D & Cv & Cl). exists a. split; [apply DES_mono; exact D|]. split; [apply HP; exact Cv|].
    destruct Cl as [Hn|Hi]; [left; eapply NATU_ext; eauto|right; exact Hi].
  Qed.

  Lemma MR_step_fin cfg cur0 c ch c' ch' k seed ws :
    sim c ch -> SH g cur0 ch -> sim c' ch' -> SH g cur0 ch' ->
    RC c -> RC c' -> usz c -> MR c -> cstep g cfg c (CFinalize k seed ws) = Some c' -> MR c'.
  Proof.
    intros Sm HSH Sm' HSH' R R' U M H.
    destruct (sim_fields _ _ Sm) as (F1 & F2 & F3 & F4 & F5 & F6 & F7 & F8 & F9 & F10).
    destruct (sim_fields _ _ Sm') as (F1' & F2' & F3' & F4' & F5' & F6' & F7' & F8' & F9' & F10').
    assert (G : A.ginv (s_pbl (cs_sys c)) (cs_seeds c) (cs_elast c)).
    { pose proof (A.ci_g _ _ (sh_a _ _ _ HSH)) as G. rewrite F1, F8, F9 in G. exact G. }
    assert (G' : A.ginv (s_pbl (cs_sys c')) (cs_seeds c') (cs_elast c')).
    { pose proof (A.ci_g _ _ (sh_a _ _ _ HSH')) as G'. rewrite F1', F8', F9' in G'. exact G'. }
    pose proof (A.gi_nodup _ _ _ G) as Hnd. pose proof (A.gi_len _ _ _ G) as Hlen.
    pose proof R as [[HS [HU [HL [HP0 HF0]]]] Ho].
    assert (Ipbl : pbl_inv (s_pbl (cs_sys c))) by apply (proj1 (E.si_inv1 _ _ _ _ _ _ HS)).
    pose proof H as H0. cbn [cstep] in H.
    destruct (nth_error (cs_ups c) k) as [u|] eqn:Eu; [|discriminate].
    destruct (nth_error (s_uploads (cs_sys c)) k) as [[[tok size]|]|] eqn:Et; try discriminate.
    destruct (up_state u) as [|ok|] eqn:Eus; try discriminate.
    destruct (fresh c seed) eqn:Efr; [|discriminate]. cbn [negb] in H.
    destruct (put_finalize tok (if ok then Some (up_off u) else None) size seed (s_pbl (cs_sys c)))
      as [[p' fr]|] eqn:Epf; [|discriminate].
    destruct (sys_step cfg c (EFinalize k (if ok then Some (up_off u) else None) seed)) as [c1|] eqn:Ess;
      [|discriminate].
    apply A.sys_step_inv in Ess. destruct Ess as [s1 [Hs ->]]. cbn [step] in Hs. rewrite Et, Epf in Hs. injection Hs as Hs; subst s1.
    fold (A.fin_ups c k true) in H. fold (A.fin_ups c k false) in H.
    assert (HPc : forall ab r, O.rcov (s_pbl (cs_sys c)) ab r -> O.rcov p' ab r).
    { intros ab r. eapply O.rcov_fin; eauto. }
    assert (Hext : forall b, E.ups_ext (cs_ups c) (A.fin_ups c k b)).
    { intros b. unfold A.fin_ups. eapply E.ups_ext_upd; [exact Eu|rewrite Eus; discriminate]. }
    assert (Hfno : ~ In seed (cs_seeds c)) by (apply E.fresh_not_in; exact Efr).
    assert (Hfold : ~ In seed old) by (rewrite <- Ho; apply fresh_not_old; exact Efr).
    assert (HTS : forall sd', (sd' = [] \/ sd' = [seed]) ->
              forall slot r, In (slot, r) (cs_tbl c) -> forall x, In x sd' -> r_seed r <> x).
    { intros sd' [ -> | -> ] slot r Hin x; [intros []|]. intros [ <- | [] ] He.
      destruct (li_S' _ _ _ _ _ _ _ _ _ _ HL _ _ Hin) as [Hx|Hx]; rewrite He in Hx; contradiction. }
    assert (HLS : forall sd', (sd' = [] \/ sd' = [seed]) ->
              forall pos slot r, nth_error (cs_log c) pos = Some (IoIndex slot r) -> forall x, In x sd' -> r_seed r <> x).
    { intros sd' [ -> | -> ] pos slot r Hpos x; [intros []|]. intros [ <- | [] ] He.
      destruct (mr_log _ _ _ _ M _ _ _ Hpos) as (a & D & _). apply DES_seed in D. rewrite He in D. contradiction. }
    assert (HFl : forall c0, cs_sys c0 = with_uploads (with_pbl (cs_sys c) p') (clear_nth (s_uploads (cs_sys c)) k) ->
              forall st, E.in_flight (cs_sys c0) st -> E.in_flight (cs_sys c) st \/
                SCOV tb0 (cs_seeds c) (cs_elast c) (cs_log c) (length (cs_log c)) st).
    { intros c0 -> st Hf. left. exact Hf. }
    assert (Hshape : forall c0 b,
              c0 = with_ups (if length (epochSeeds (s_pbl (cs_sys c))) <? length (epochSeeds p')
                             then with_seeds (with_sys c (with_uploads (with_pbl (cs_sys c) p') (clear_nth (s_uploads (cs_sys c)) k)))
                                    (cs_seeds c ++ [seed]) (cs_elast c ++ [totalReleased p' + length (blocks p') - 1])
                             else with_sys c (with_uploads (with_pbl (cs_sys c) p') (clear_nth (s_uploads (cs_sys c)) k)))
                            (A.fin_ups c k b) ->
              exists sd' el', (sd' = [] \/ sd' = [seed]) /\ cs_seeds c0 = cs_seeds c ++ sd' /\ cs_elast c0 = cs_elast c ++ el' /\
                cs_sys c0 = with_uploads (with_pbl (cs_sys c) p') (clear_nth (s_uploads (cs_sys c)) k) /\
                cs_ups c0 = A.fin_ups c k b /\ cs_log c0 = cs_log c /\ cs_tbl c0 = cs_tbl c /\
                cs_closed_at c0 = cs_closed_at c).
    { intros c0 b ->. destruct (_ <? _); cbn.
      - exists [seed], [totalReleased p' + length (blocks p') - 1]. splits; auto.
      - exists [], []. rewrite !app_nil_r. splits; auto. }
    assert (Hno : forall c0 b sd' el', (sd' = [] \/ sd' = [seed]) ->
              cs_seeds c0 = cs_seeds c ++ sd' -> cs_elast c0 = cs_elast c ++ el' ->
              cs_sys c0 = with_uploads (with_pbl (cs_sys c) p') (clear_nth (s_uploads (cs_sys c)) k) ->
              cs_ups c0 = A.fin_ups c k b -> cs_log c0 = cs_log c -> cs_tbl c0 = cs_tbl c ->
              NoDup (cs_seeds c0) -> MR c0).
    { intros c0 b sd' el' Hsd Q1 Q2 Q3 Q4 Q5 Q6 Hn0.
      assert (EL0 : cs_log c0 = cs_log c ++ []) by (rewrite app_nil_r; exact Q5).
      assert (ET0 : cs_tbl c0 = cs_tbl c ++ []) by (rewrite app_nil_r; exact Q6).
      rewrite Q1 in Hn0.
      apply (MR_frame nb Back tb0 c c0 [] [] sd' el' M Hn0 Hlen EL0 Q1 Q2 ET0).
      - rewrite Q4. apply Hext.
      - rewrite Q3. exact HPc.
      - apply HTS. exact Hsd.
      - apply HLS. exact Hsd.
      - intros u0 l lo hi [].
      - intros i slot r Hi. destruct i; discriminate.
      - intros slot r [].
      - intros st h [].
      - apply HFl. exact Q3. }
    destruct fr as [off| | |].
    2-4: destruct ws; [|discriminate]; injection H as H; subst c';
      destruct (Hshape _ false eq_refl) as (sd' & el' & Hsd & Q1 & Q2 & Q3 & Q4 & Q5 & Q6 & Q7);
      eapply Hno; eauto; apply (A.gi_nodup _ _ _ G').
    destruct (do_writes p' k u ws (cs_log c) (cs_tbl c)) as [[log' tbl']|] eqn:Edw; [|discriminate]. injection H as H; subst c'.
    (* the finalizer that succeeded *)
    destruct (O.put_finalize_view _ _ _ _ _ _ _ Epf) as (V1 & V2 & V3 & V4 & V5 & V6 & V7).
    destruct (V7 off eq_refl) as (abs & T1 & T2 & T3 & T4 & T5).
    assert (Htok : Forall2 A.tok_rel (A.abss c) (s_uploads (cs_sys c))).
    { pose proof (A.ci_tok _ _ (sh_a _ _ _ HSH)) as T. unfold A.abss in *. rewrite F1, F2 in T. exact T. }
    assert (Habs : abs = up_abs u).
    { subst tok. eapply (A.Forall2_nth _ _ _ k (up_abs u)) in Htok; [| |exact Et].
      - exact Htok.
      - unfold A.abss. apply map_nth_error. exact Eu. }
    assert (Hoff : off = up_off u) by (destruct ok; [inv T2; reflexivity|discriminate]).
    assert (Hok : ok = true) by (destruct ok; [reflexivity|discriminate]).
    assert (Hsize : size = up_size u) by (eapply (proj2 U); eauto).
    subst abs off size ok. subst tok.
    destruct (E.put_finalize_core _ _ _ _ _ _ _ Ipbl Epf) as (P1 & P2 & P3 & _).
    pose proof (i_sync1 _ Ipbl) as S1. pose proof (i_sync2 _ Ipbl) as S2.
    assert (Hopen : synchronizingEpochs p' < length (epochSeeds p')).
    { rewrite P1. destruct P3 as [[P3 Hne]|P3]; rewrite P3.
      - specialize (Hne _ eq_refl). lia.
      - rewrite app_length. cbn. lia. }
    set (c2 := if length (epochSeeds (s_pbl (cs_sys c))) <? length (epochSeeds p') then _ else _) in *.
    set (cf := with_ups (with_index c2 log' tbl') (A.fin_ups c k true)) in *.
    destruct (Hshape (with_ups c2 (A.fin_ups c k true)) true eq_refl) as (sd' & el' & Hsd & Q1 & Q2 & Q3 & Q4 & Q5 & Q6 & Q7).
    cbn [cs_sys cs_seeds cs_elast cs_ups cs_log cs_tbl cs_closed_at with_ups] in Q1, Q2, Q3, Q4, Q5, Q6, Q7.
    assert (Ep' : s_pbl (cs_sys cf) = p') by (unfold cf; cbn [cs_sys with_ups with_index]; rewrite Q3; reflexivity).
    assert (Esd : cs_seeds cf = cs_seeds c ++ sd') by (unfold cf; cbn [cs_seeds with_ups with_index]; exact Q1).
    assert (Eel : cs_elast cf = cs_elast c ++ el') by (unfold cf; cbn [cs_elast with_ups with_index]; exact Q2).
    assert (Eup : cs_ups cf = A.fin_ups c k true) by reflexivity.
    assert (Hndp : NoDup (epochSeeds p')).
    { destruct G' as [_ [k0 [_ [G2 _]]] _ G5]. rewrite Ep' in G2. rewrite G2. apply O.NoDup_skipn. exact G5. }
    assert (Hsmall : (Z.of_nat (length (blocks p')) < 65536)%Z).
    { pose proof (A.ci_count _ _ (sh_a _ _ _ HSH')) as Cn. rewrite F1', Ep' in Cn. apply A.small_nat_Z. lia. }
    assert (Hlast : forall n' la, length (epochLast p') = S n' -> nth_error (epochLast p') n' = Some la -> up_abs u <= la).
    { assert (Efr' : fresh ch seed = true) by (unfold fresh in *; rewrite F8, F10; exact Efr).
      assert (Eu' : nth_error (cs_ups ch) k = Some u) by (rewrite F2; exact Eu).
      assert (Et' : nth_error (s_uploads (cs_sys ch)) k = Some (Some (PutAt (up_abs u), up_size u))) by (rewrite F1; exact Et).
      assert (Epf' : put_finalize (PutAt (up_abs u)) (Some (up_off u)) (up_size u) seed (s_pbl (cs_sys ch)) = Ok (p', FinOk (up_off u)))
        by (rewrite F1; exact Epf).
      pose proof (A.cinv_fin_core g ch k u _ _ seed _ p' _ true (sh_a _ _ _ HSH) Eu' Et' Efr' Epf') as Core.
      cbv zeta in Core. destruct Core as [_ Core]. exact (Core _ eq_refl). }
    set (uf := mkUp (up_key u) (up_abs u) (up_off u) (up_size u) (up_issued u) (UpFin true)).
    assert (Hk : nth_error (cs_ups cf) k = Some uf).
    { rewrite Eup. unfold A.fin_ups. rewrite (E.nth_upd_same _ _ _ _ Eu). reflexivity. }
    assert (Hiss : up_issued uf = up_size uf) by (cbn; apply (HU _ _ Eu Eus)).
    destruct (do_writes_MR nb Back Back_same p' k u uf ws (cs_seeds cf) (cs_elast cf) (cs_ups cf))
      with (16 := Edw) as (Y & Y1 & Y2 & Y3); auto.
    { rewrite <- Ep'. exact G'. }
    { lia. }
    { rewrite V1, V4. lia. }
    { intros b Hle Hb. rewrite V1 in Hb. apply T5. exact Hb. }
    { intros slot r0 Hin Hlv. rewrite Esd, Eel in Hlv.
      apply liveable_anti in Hlv; [|exact Hlen|eapply HTS; eauto].
      rewrite Esd, Eel, Eup. eapply ENT_lift; [exact HPc|apply Hext|]. apply (mr_tbl _ _ _ _ M _ _ Hin Hlv). }
    assert (EL : cs_log cf = cs_log c ++ map (fun e => IoIndex (fst e) (snd e)) Y) by (unfold cf; cbn [cs_log with_ups with_index]; exact Y1).
    assert (ET : cs_tbl cf = cs_tbl c ++ Y) by (unfold cf; cbn [cs_tbl with_ups with_index]; exact Y2).
    assert (EC : cs_closed_at cf = cs_closed_at c) by (unfold cf; cbn [cs_closed_at with_ups with_index]; exact Q7).
    assert (Q3f : cs_sys cf = with_uploads (with_pbl (cs_sys c) p') (clear_nth (s_uploads (cs_sys c)) k))
      by (unfold cf; cbn [cs_sys with_ups with_index]; exact Q3).
    clearbody cf.
    assert (HndX : NoDup (cs_seeds c ++ sd')) by (rewrite <- Esd; apply (A.gi_nodup _ _ _ G')).
    assert (EUx : E.ups_ext (cs_ups c) (cs_ups cf)) by (rewrite Eup; apply Hext).
    assert (HPx : forall ab r, O.rcov (s_pbl (cs_sys c)) ab r -> O.rcov (s_pbl (cs_sys cf)) ab r) by (rewrite Ep'; exact HPc).
    apply (MR_frame nb Back tb0 c cf _ Y sd' el' M HndX Hlen EL Esd Eel ET EUx HPx).
    - apply HTS. exact Hsd.
    - apply HLS. exact Hsd.
    - intros u0 l lo hi Hin. apply in_map_iff in Hin. destruct Hin as (x & Hx & _). discriminate.
    - intros i slot r Hi.
      assert (Hin : In (slot, r) Y).
      { apply nth_error_In in Hi. apply in_map_iff in Hi. destruct Hi as ([s0 r0] & Hx & Hin). cbn in Hx. inv Hx. exact Hin. }
      pose proof (new_seed_open BackE old sd0 c cf _ i slot r R R' EL EC Hi) as [N1 N2].
      split; [|split; [exact N1|]].
      + destruct (Y3 _ _ Hin) as (a & D & Cv & Cl). exists a. rewrite Ep'. split; [exact D|]. split; [exact Cv|].
        destruct Cl as [Hn|Hi']; [left|right; exact Hi']. split; [exact Hn|].
        intros q l lo hi Hq. rewrite EL in Hq.
        destruct (Nat.lt_ge_cases q (length (cs_log c))) as [Hlt|Hge]; [lia|].
        rewrite nth_error_app2 in Hq by exact Hge. apply nth_error_In in Hq.
        apply in_map_iff in Hq. destruct Hq as (x & Hx & _). discriminate.
      + intros q st h Hq. eapply (N2 q). rewrite EL. apply A.nth_error_app_some. exact Hq.
    - intros slot r Hin. rewrite Ep'. eauto.
    - intros st h Hin. apply in_map_iff in Hin. destruct Hin as (x & Hx & _). discriminate.
    - apply HFl. exact Q3f.
  Qed.
End RecRun.

(** ------------------------------------------------------------------ *)
(** * the start of a life, and reachable states *)

Lemma restore_offsets alloc init : forall n bl seeds lasts,
  restore_blocks alloc init n = (bl, seeds, lasts) ->
  forall i x, nth_error bl i = Some x -> b_syncing x = b_written x /\ b_synced x = b_written x.
Proof.
  induction init as [|bs rest IH]; intros n bl seeds lasts H i x Hi; cbn in H.
  - inv H. destruct i; discriminate.
  - destruct (alloc (bs_loc bs) (bs_off bs)); [|inv H; destruct i; discriminate].
    destruct (restore_blocks alloc rest (S n)) as [[bl' seeds'] lasts'] eqn:Er. inv H.
    destruct i as [|i]; cbn in Hi; [inv Hi; cbn; auto|eapply IH; eauto].
Qed.

Lemma restart_offsets gm st i x : nth_error (blocks (fst (restart gm st))) i = Some x ->
  b_syncing x = b_written x /\ b_synced x = b_written x.
Proof.
  unfold restart. destruct st as [[[oldest bl] h]|]; unfold pbl_new.
  - destruct (restore_blocks _ bl 0) as [[bl' seeds] lasts] eqn:Er. cbn. eapply restore_offsets; eauto.
  - cbn. destruct i; discriminate.
Qed.

Section RecReach.
  Variable g : geo.
  Variable base : medium irec.
  Hypothesis Hg65 : length (g_locs g) < 65536.
  Hypothesis Hndg : NoDup (g_locs g).
  Hypothesis Hbase : base_ok g base.

  Let p0 := fst (restart (geom g) (m_state base)).
  Let nb := length (blocks p0).

  Variable Back : irec -> nat -> Prop.
  Hypothesis Back_same : forall r r0 a, r_key r = r_key r0 -> r_off r = r_off r0 -> r_size r = r_size r0 ->
    Back r0 a -> Back r a.
  (** what the base medium promises for every base record that seed-resolves at the restart *)
  Hypothesis HB : forall slot r a, In (slot, r) (m_index base) -> sres p0 r a ->
    Back r a /\ exists b, nth_error (blocks p0) a = Some b /\ (r_off r + r_size r <= b_written b)%Z.
  Variable BackE : irec -> Prop.
  Hypothesis BackE_same : forall r r0, r_key r = r_key r0 -> r_off r = r_off r0 -> r_size r = r_size r0 ->
    BackE r0 -> BackE r.
  Hypothesis HBE : forall slot r, In (slot, r) (m_index base) -> In (r_seed r) (epochSeeds p0) -> BackE r.

  Let old := map (fun e : nat * irec => r_seed (snd e)) (m_index base).
  Let sd0 := epochSeeds p0.
  Let tb0 := m_index base.

  Lemma MR_init t0 : mrinv nb Back tb0 (cinit g base t0).
  Proof.
    destruct (restart_shape g (m_state base)) as (R1 & R2 & R3 & R4 & R5 & R6). fold p0 in R1, R2, R3, R4, R5, R6.
    constructor; cbn [cinit cs_sys cs_log cs_ups cs_tbl cs_seeds cs_elast s_pbl init_sys]; fold p0.
    - intros pos slot r H. destruct pos; discriminate.
    - intros slot r Hin (j & e & L1 & L2 & L3).
      set (a := Z.to_nat (Z.of_nat e - Z.of_N (r_bfl r))).
      assert (Ha : (Z.of_nat e - Z.of_N (r_bfl r) = Z.of_nat a)%Z) by (unfold a; lia).
      assert (Hs : sres p0 r a) by (exists j, e; auto).
      destruct (HB _ _ _ Hin Hs) as (Bk & b & B1 & B2).
      assert (Hlt : a < nb) by (apply nth_error_Some; unfold nb; congruence).
      exists a. split; [|split].
      + apply DES_iff. exists j, e. auto.
      + exists a. split; [apply fab_nth|]. rewrite R3. split; [exact Hlt|].
        intros b' _ Hb'. rewrite Nat.sub_0_r, B1 in Hb'. inv Hb'. split; [exact B2|].
        destruct (restart_offsets _ _ _ _ B1) as [O1 O2]. rewrite O1, O2. intros e0 _. split; intros; exact B2.
      + right. split; [exact Hlt|exact Bk].
    - apply incl_refl.
    - intros st [Hf|[k Hf]]; discriminate Hf.
    - intros q st h H. destruct q; discriminate.
  Qed.

  (** the invariants of a reachable state of the life, together with its shadow *)
  Record reachinv (t0 : N) (c : cst) : Prop := mkRI {
    ri_sh : exists ch, sim c ch /\ SH g (cs_cur (cinit g base t0)) ch;
    ri_rc : rcinv BackE old sd0 c;
    ri_us : usz c;
    ri_mr : mrinv nb Back tb0 c
  }.

  Lemma reachinv_run cfg t0 tr : forall c c', reachinv t0 c -> crun g cfg c tr = Some c' -> reachinv t0 c'.
  Proof.
    induction tr as [|e tr IH]; intros c c' RI H; cbn in H; [inv H; exact RI|].
    destruct (cstep g cfg c e) as [c1|] eqn:Es; [|discriminate].
    eapply IH; [|exact H]. clear IH H.
    destruct RI as [(ch & Sm & HSH) RC U M].
    assert (Htok : Forall2 A.tok_rel (A.abss c) (s_uploads (cs_sys c))).
    { pose proof (A.ci_tok _ _ (sh_a _ _ _ HSH)) as T. destruct (sim_fields _ _ Sm) as (F1 & F2 & _).
      unfold A.abss in *. rewrite F1, F2 in T. exact T. }
    destruct (sim_step _ _ _ _ _ _ Htok Sm Es) as (ch1 & Hs1 & Sm1).
    pose proof (SH_step _ _ _ _ _ _ Hg65 Hndg HSH Hs1) as HSH1.
    pose proof (cstep_rcinv _ BackE_same _ _ _ _ _ _ _ RC Es) as RC1.
    constructor.
    - exists ch1. split; [exact Sm1|exact HSH1].
    - exact RC1.
    - exact (usz_step _ _ _ _ _ U Es).
    - assert (Hcase : (forall k s ws, e <> CFinalize k s ws) \/ exists k s ws, e = CFinalize k s ws).
      { destruct e; try (left; intros; discriminate). right. eauto. }
      destruct Hcase as [Hne|(k & s & ws & ->)].
      + exact (MR_step_other nb Back tb0 g Hndg cfg _ c ch c1 e Hne Sm HSH U M Es).
      + exact (MR_step_fin nb Back Back_same tb0 BackE old sd0 g Hg65 cfg _ c ch c1 ch1 k s ws Sm HSH Sm1 HSH1 RC RC1 U M Es).
  Qed.

  Theorem creach_reachinv cfg t0 c : creach g cfg base t0 c -> reachinv t0 c.
  Proof.
    intros [tr H]. eapply reachinv_run; [|exact H]. constructor.
    - exists (shinit g base t0). split; [apply sim_init|apply SH_init; auto].
    - apply cinit_rcinv; auto. apply (proj1 Hbase).
    - apply usz_init.
    - apply MR_init.
  Qed.
End RecReach.
