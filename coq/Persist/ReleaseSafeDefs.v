(** Persist/ReleaseSafeDefs.v — vocabulary of the C04P theorems (definitions
    only): positions in the executed history of a schedule of the combined
    PersistentBlockList + PeriodicSyncer transition system (Persist/Syncer.v).

    A history is the list of executed steps (state before, event, state after),
    oldest first, as produced by [LiveActs.trace].  A block is identified by its
    absolute index = the number of PopFront calls that preceded the one removing
    it (block locations are reused, absolute indices are not): the i-th entry of
    [releasedLog] (the Block.Release() calls, in order) is the block with absolute
    index i (theorem [released_in_pop_order]). *)
From Coq Require Import List NArith ZArith Bool Arith Lia.
From BBS Require Import Persist.PBL Persist.Syncer Persist.LiveActs Persist.LiveCover Persist.LiveRelease.
Import ListNotations.

Definition hist : Type := list (sys * event * sys).

(** step [ip] is the PopFront removing the block with absolute index [i], which
    lives at location [l] *)
Definition pop_at (h : hist) (ip i : nat) (l : loc) : Prop :=
  exists a b fb rest, nth_error h ip = Some (a, EPopFront, b)
    /\ totalReleased (s_pbl a) = i /\ blocks (s_pbl a) = fb :: rest /\ b_loc fb = l.

(** step [ig]: loop [t] calls GetPersistentState and WritePersistentState(st)
    STARTS *)
Definition write_starts_at (h : hist) (ig : nat) (t : tid) (st : pstate) : Prop :=
  exists a e b, nth_error h ig = Some (a, e, b) /\ act_of a e = AGetState t /\ written_state b t = Some st.

(** the state [st] handed to the store at step [ig] does not list the block
    with absolute index [i]: its entries are, in order, blocks of the list at
    that moment — entry j is the block with absolute index
    totalBlocksReleased + j — and totalBlocksReleased exceeds [i] *)
Definition state_omits (h : hist) (ig : nat) (st : pstate) (i : nat) : Prop :=
  exists a e b, nth_error h ig = Some (a, e, b) /\ i < totalReleased (s_pbl a)
    /\ forall j x, nth_error (snd st) j = Some x ->
         exists bb, nth_error (blocks (s_pbl a)) j = Some bb /\ bs_loc x = b_loc bb.

(** step [iw]: loop [t]'s WritePersistentState(st) call COMPLETES successfully
    (returns nil; the loop is about to call NotifyPersistentStateWritten) *)
Definition write_completes_at (h : hist) (iw : nat) (t : tid) (st : pstate) : Prop :=
  exists a e b, nth_error h iw = Some (a, e, b) /\ written_state a t = Some st /\ wpc_of t b = Some WWritten.

(** no state write starts strictly between steps [lo] and [hi] *)
Definition no_start_between (h : hist) (lo hi : nat) : Prop :=
  forall k a e b, lo < k -> k < hi -> nth_error h k = Some (a, e, b) -> is_getstate (act_of a e) = false.

(** step [iz]: loop [t] runs NotifyPersistentStateWritten *)
Definition notified_at (h : hist) (iz : nat) (t : tid) : Prop :=
  exists a e b, nth_error h iz = Some (a, e, b) /\ act_of a e = AWritten t.

(** a state write that STARTED after the PopFront of block [i] (at [l]) and does
    not list it has COMPLETED (and it is one write: nothing else started a
    state write between its start and its completion) *)
Definition covered (h : hist) (i : nat) (l : loc) : Prop :=
  exists ip ig iw t st, ip < ig /\ ig < iw /\ pop_at h ip i l /\ write_starts_at h ig t st
    /\ state_omits h ig st i /\ no_start_between h ig iw /\ write_completes_at h iw t st.
