(** Persist/LiveCover.v — COVERAGE: the link from "a commit cycle of the put
    loop completes" to "THIS upload is covered by the state written".

    An acknowledged upload is described by the ghost record [obj] (absolute
    block index, block location, end offset, index of its epoch at
    acknowledgement time and that epoch's hash seed).  [tracked o lv d p]:
    in block list [p], after [d] epochs have been removed by PopFront since
    the acknowledgement, the object's block has been released, or
      lv >= 0: the block's writtenOffset covers the object and its epoch is
               still there (same seed, last block >= the object's block),
      lv >= 1: ... a started sync covers it (synchronizingOffset, synchronizingEpochs),
      lv >= 2: ... a completed sync covers it (synchronizedOffset, synchronizedEpochs).
    Every block-list call preserves every level, NotifySyncStarting lifts 0 to
    1, NotifySyncCompleted lifts 1 to 2, and GetPersistentState at level 2
    returns a state that covers the object. *)
From Coq Require Import List NArith ZArith Bool Arith Lia.
From BBS Require Import Persist.PBL Persist.PBLProofs Persist.Syncer Persist.SyncerProofs Persist.LiveActs.
Import ListNotations.

(** ---- list helpers ---- *)
Lemma nth_error_app_some {A} (l r : list A) i x : nth_error l i = Some x -> nth_error (l ++ r) i = Some x.
Proof.
  intros H. rewrite nth_error_app1; [exact H|]. apply nth_error_Some. congruence.
Qed.

Lemma nth_error_skipn_sub {A} k : forall (l : list A) x, k <= x -> nth_error (skipn k l) (x - k) = nth_error l x.
Proof.
  induction k as [|k IH]; intros l x H.
  - rewrite Nat.sub_0_r. reflexivity.
  - destruct l as [|y l]; cbn [skipn].
    + destruct (x - S k), x; reflexivity.
    + destruct x as [|x]; [lia|]. cbn [nth_error Nat.sub]. apply IH. lia.
Qed.

Lemma nth_error_firstn_lt {A} n : forall (l : list A) i, i < n -> nth_error (firstn n l) i = nth_error l i.
Proof.
  induction n as [|n IH]; intros l i H; [lia|].
  destruct l as [|y l]; [reflexivity|]. destruct i as [|i]; [reflexivity|]. cbn. apply IH. lia.
Qed.

Lemma nth_error_repeat_eq {A} (a x : A) n i : nth_error (repeat a n) i = Some x -> x = a.
Proof. intros H. apply nth_error_In in H. eapply repeat_spec; eauto. Qed.

Lemma firstn_add {A} a : forall b (l : list A), firstn (a + b) l = firstn a l ++ firstn b (skipn a l).
Proof.
  induction a as [|a IH]; intros b l; [reflexivity|].
  destruct l as [|x l]; cbn; [rewrite firstn_nil; reflexivity|]. rewrite IH. reflexivity.
Qed.

Lemma skipn_skipn' {A} a : forall b (l : list A), skipn b (skipn a l) = skipn (a + b) l.
Proof.
  induction a as [|a IH]; intros b l; [reflexivity|].
  destruct l as [|x l]; cbn; [apply skipn_nil|]. apply IH.
Qed.

(** ---- what each call does to the fields (projections only) ---- *)
Definition core (p : pbl) :=
  (blocks p, epochSeeds p, epochLast p, totalReleased p, synchronizingEpochs p, synchronizedEpochs p).

Lemma gps_fields p p' st : get_persistent_state p = Ok (p', st) ->
  core p' = core p /\ toRelease p' = toRelease p /\ releasing p' = length (toRelease p)
  /\ releasedLog p' = releasedLog p /\ closedForWriting p' = closedForWriting p
  /\ oldestEpochID p' = oldestEpochID p /\ fst st = oldestEpochID p
  /\ gps_loop (blocks p) 0 (synchronizedEpochs p) (epochSeeds p) = Ok (snd st).
Proof.
  unfold get_persistent_state. destruct (gps_loop _ _ _ _) eqn:E; [|discriminate].
  intros H; inversion H; subst. cbn. splits; auto.
Qed.

Lemma nsw_fields p p' : notify_state_written p = Ok p' ->
  core p' = core p /\ toRelease p' = skipn (releasing p) (toRelease p) /\ releasing p' = 0
  /\ releasedLog p' = releasedLog p ++ firstn (releasing p) (toRelease p)
  /\ closedForWriting p' = closedForWriting p /\ oldestEpochID p' = oldestEpochID p.
Proof.
  unfold notify_state_written. destruct (_ <? _); [discriminate|].
  destruct (skipn _ _) eqn:E; [destruct (nc_block _ _)|]; intros H; inversion H; subst; cbn; splits; auto.
Qed.

Definition nss_b (b : binfo) := mkBinfo (b_loc b) (b_written b) (b_written b) (b_synced b) (b_epochs b).
Definition nsc_b (b : binfo) := mkBinfo (b_loc b) (b_written b) (b_syncing b) (b_syncing b) (b_epochs b).

Lemma nsc_fields p :
  blocks (notify_sync_completed p) = map nsc_b (blocks p)
  /\ epochSeeds (notify_sync_completed p) = epochSeeds p /\ epochLast (notify_sync_completed p) = epochLast p
  /\ totalReleased (notify_sync_completed p) = totalReleased p
  /\ synchronizingEpochs (notify_sync_completed p) = synchronizingEpochs p
  /\ synchronizedEpochs (notify_sync_completed p) = synchronizingEpochs p
  /\ toRelease (notify_sync_completed p) = toRelease p /\ releasing (notify_sync_completed p) = releasing p
  /\ releasedLog (notify_sync_completed p) = releasedLog p
  /\ closedForWriting (notify_sync_completed p) = closedForWriting p
  /\ oldestEpochID (notify_sync_completed p) = oldestEpochID p.
Proof.
  unfold notify_sync_completed. destruct (_ =? _); [destruct (nc_block _ _)|]; cbn; splits; auto.
Qed.

Lemma pop_fields p p' fb rest : blocks p = fb :: rest -> pop_front p = Ok p' ->
  blocks p' = rest /\ epochSeeds p' = skipn (b_epochs fb) (epochSeeds p)
  /\ epochLast p' = skipn (b_epochs fb) (epochLast p) /\ totalReleased p' = S (totalReleased p)
  /\ synchronizingEpochs p' = synchronizingEpochs p - b_epochs fb
  /\ synchronizedEpochs p' = synchronizedEpochs p - b_epochs fb
  /\ toRelease p' = toRelease p ++ [b_loc fb] /\ releasing p' = releasing p
  /\ releasedLog p' = releasedLog p /\ closedForWriting p' = closedForWriting p
  /\ oldestEpochID p' = u32 (oldestEpochID p + N.of_nat (b_epochs fb)).
Proof.
  intros Eb. unfold pop_front. rewrite Eb.
  destruct (nc_unblock _ _) as [[rw h1]|]; [|discriminate]. cbn [obind].
  destruct (_ || _); [discriminate|].
  assert (forall x ec, (if x <=? ec then 0 else x - ec) = x - ec) as Hs.
  { intros x ec. destruct (Nat.leb_spec x ec); lia. }
  match goal with |- context [if ?c then nc_block _ _ else _] => destruct c end;
    [destruct (nc_block _ _) as [pw h2]|]; intros H; inversion H; subst; clear H; cbn;
    rewrite !Hs; splits; auto.
Qed.

Lemma fin_cases tok blk size seed p p' fr : put_finalize tok blk size seed p = Ok (p', fr) ->
  (p' = p /\ (forall off, fr <> FinOk off)) \/
  exists abs off bumped, tok = PutAt abs /\ blk = Some off /\ fr = FinOk off /\ closedForWriting p = false
    /\ totalReleased p <= abs /\ abs - totalReleased p < length (blocks p)
    /\ blocks p' = (if bumped : bool
                    then bump_last_epoch_count (set_written (blocks p) (abs - totalReleased p) (off + size))
                    else set_written (blocks p) (abs - totalReleased p) (off + size))
    /\ epochSeeds p' = (if bumped then epochSeeds p ++ [seed] else epochSeeds p)
    /\ epochLast p' = (if bumped then epochLast p ++ [totalReleased p + length (blocks p) - 1] else epochLast p)
    /\ (bumped = false -> length (epochLast p) <> synchronizingEpochs p /\
          exists la, nth_error (epochLast p) (length (epochLast p) - 1) = Some la /\ abs <= la)
    /\ totalReleased p' = totalReleased p /\ synchronizingEpochs p' = synchronizingEpochs p
    /\ synchronizedEpochs p' = synchronizedEpochs p
    /\ toRelease p' = toRelease p /\ releasing p' = releasing p /\ releasedLog p' = releasedLog p
    /\ closedForWriting p' = closedForWriting p /\ oldestEpochID p' = oldestEpochID p.
Proof.
  unfold put_finalize.
  destruct tok as [|abs]; [intros H; inversion H; subst; left; split; [reflexivity|discriminate]|].
  destruct blk as [off|]; [|intros H; inversion H; subst; left; split; [reflexivity|discriminate]].
  destruct (closedForWriting p) eqn:Ec; [intros H; inversion H; subst; left; split; [reflexivity|discriminate]|].
  destruct (Nat.ltb_spec abs (totalReleased p)) as [Hlt|Hge];
    [intros H; inversion H; subst; left; split; [reflexivity|discriminate]|].
  destruct (Nat.leb_spec (length (blocks p)) (abs - totalReleased p)) as [Hle|Hlt]; [discriminate|].
  intros H. right. exists abs, off.
  destruct (Nat.eqb_spec (length (epochLast p)) (synchronizingEpochs p)) as [He|Hne].
  - cbn [obind] in H. destruct (nc_unblock _ _) as [[pw h1]|]; [|discriminate]. cbn [obind] in H.
    inversion H; subst; clear H. exists true. cbn. rewrite set_written_length. splits; auto; try discriminate.
  - destruct (length (epochLast p)) as [|n'] eqn:El; [discriminate|].
    destruct (nth_error (epochLast p) n') as [la|] eqn:En; [|discriminate]. cbn [obind] in H.
    destruct (Nat.ltb_spec la abs) as [Hla|Hla].
    + destruct (nc_unblock _ _) as [[pw h1]|]; [|discriminate]. cbn [obind] in H.
      inversion H; subst; clear H. exists true. cbn. rewrite set_written_length. splits; auto; try discriminate.
    + inversion H; subst; clear H. exists false. cbn. splits; auto.
      intros _. split; [exact Hne|]. exists la. rewrite Nat.sub_0_r. split; [exact En|exact Hla].
Qed.

(** blocks keep location and sync offsets under set_written / bump *)
Definition same_sync (b b' : binfo) : Prop :=
  b_loc b' = b_loc b /\ (b_written b <= b_written b')%Z /\ b_syncing b' = b_syncing b /\ b_synced b' = b_synced b.

Lemma set_written_nth bs : forall i w j b, nth_error bs j = Some b ->
  exists b', nth_error (set_written bs i w) j = Some b' /\ same_sync b b' /\ (j = i -> (w <= b_written b')%Z).
Proof.
  induction bs as [|x r IH]; intros i w j b H; [destruct j; discriminate|].
  destruct i as [|i], j as [|j]; cbn in *.
  - inversion H; subst. destruct (Z.ltb_spec (b_written b) w); eexists; (split; [reflexivity|]);
      unfold same_sync; cbn; splits; auto; try lia.
  - exists b. unfold same_sync. splits; auto; try lia; try discriminate.
  - inversion H; subst. exists b. unfold same_sync. splits; auto; try lia; try discriminate.
  - destruct (IH i w j b H) as [b' [H1 [H2 H3]]]. exists b'. splits; auto.
Qed.

Lemma bump_nth bs : forall j b, nth_error bs j = Some b ->
  exists b', nth_error (bump_last_epoch_count bs) j = Some b' /\ same_sync b b'.
Proof.
  induction bs as [|x r IH]; intros j b H; [destruct j; discriminate|].
  destruct r as [|y r'].
  - destruct j as [|j]; [|destruct j; discriminate]. cbn in *. inversion H; subst.
    eexists. split; [reflexivity|]. unfold same_sync; cbn; splits; auto; lia.
  - change (bump_last_epoch_count (x :: y :: r')) with (x :: bump_last_epoch_count (y :: r')).
    destruct j as [|j]; cbn [nth_error] in *.
    + inversion H; subst. exists b. unfold same_sync; splits; auto; lia.
    + apply IH. exact H.
Qed.

(** ---- the tracked object ---- *)
Record obj := mkObj {
  o_block : nat;      (* absolute block index (totalBlocksReleased + index at Put time) *)
  o_loc : loc;        (* location of that block *)
  o_end : Z;          (* offset + size: the block must be persisted up to here *)
  o_epoch : nat;      (* index of the object's epoch in epochHashSeeds when the finalizer returned *)
  o_seed : N          (* that epoch's hash seed *)
}.

(** epochs removed by a step *)
Definition popc (a : act) (p : pbl) : nat :=
  match a with
  | APop => match blocks p with b :: _ => b_epochs b | [] => 0 end
  | _ => 0
  end.

Definition tracked (o : obj) (lv d : nat) (p : pbl) : Prop :=
  o_block o < totalReleased p \/
  (totalReleased p <= o_block o /\ d <= o_epoch o /\ exists b la,
     nth_error (blocks p) (o_block o - totalReleased p) = Some b /\ b_loc b = o_loc o
     /\ (o_end o <= b_written b)%Z
     /\ nth_error (epochSeeds p) (o_epoch o - d) = Some (o_seed o)
     /\ nth_error (epochLast p) (o_epoch o - d) = Some la /\ o_block o <= la
     /\ (1 <= lv -> (o_end o <= b_syncing b)%Z /\ o_epoch o - d < synchronizingEpochs p)
     /\ (2 <= lv -> (o_end o <= b_synced b)%Z /\ o_epoch o - d < synchronizedEpochs p)).

Lemma tracked_weaken o lv lv' d p : lv' <= lv -> tracked o lv d p -> tracked o lv' d p.
Proof.
  intros Hle [H|[H1 [H2 [b [la [A [B [C [D [E [F [G1 G2]]]]]]]]]]]]; [left; exact H|right].
  splits; auto. exists b, la. splits; auto; intros; [apply G1|apply G2]; lia.
Qed.

Lemma tracked_core o lv d p p' : core p' = core p -> tracked o lv d p -> tracked o lv d p'.
Proof.
  unfold core, tracked. intros H. inversion H as [[H1 H2 H3 H4 H5 H6]]. rewrite H1, H2, H3, H4, H5, H6. auto.
Qed.

Lemma tracked_nss o lv d f p : tracked o lv d p -> tracked o (Nat.max lv 1) d (notify_sync_starting f p).
Proof.
  intros [H|[H1 [H2 [b [la [A [B [C [D [E [F [G1 G2]]]]]]]]]]]]; [left; exact H|right]. cbn.
  splits; auto. exists (nss_b b), la. splits; auto.
  - apply (map_nth_error nss_b _ _ A).
  - intros _. cbn. split; [exact C|]. apply nth_error_Some. congruence.
  - intros Hl. cbn. apply G2. lia.
Qed.

Lemma tracked_nsc o lv d p :
  tracked o lv d p -> tracked o (match lv with 0 => 0 | _ => 2 end) d (notify_sync_completed p).
Proof.
  intros [H|[H1 [H2 [b [la [A [B [C [D [E [F [G1 G2]]]]]]]]]]]];
    destruct (nsc_fields p) as [Fb [Fs [Fl [Ft [Fsy [Fsd _]]]]]]; unfold tracked; rewrite Fb, Fs, Fl, Ft, Fsy, Fsd;
    [left; exact H|right].
  splits; auto. exists (nsc_b b), la. splits; auto.
  - apply (map_nth_error nsc_b _ _ A).
  - intros Hl. cbn. apply G1. destruct lv; lia.
  - intros Hl. cbn. apply G1. destruct lv; lia.
Qed.

Lemma tracked_push o lv d al p : tracked o lv d p -> tracked o lv d (fst (push_back al p)).
Proof.
  unfold push_back. destruct (closedForWriting p); [auto|]. destruct al; [|auto]. cbn.
  intros [H|[H1 [H2 [b [la [A [B [C [D [E [F [G1 G2]]]]]]]]]]]]; [left; exact H|right]. cbn.
  splits; auto. exists b, la. splits; auto. apply nth_error_app_some. exact A.
Qed.

Lemma tracked_pop o lv d p p' fb rest : inv_last p -> blocks p = fb :: rest -> pop_front p = Ok p' ->
  tracked o lv d p -> tracked o lv (d + b_epochs fb) p'.
Proof.
  intros L Eb Hp T. destruct (pop_fields _ _ _ _ Eb Hp) as [Fb [Fs [Fl [Ft [Fsy [Fsd _]]]]]].
  unfold tracked. rewrite Fb, Fs, Fl, Ft, Fsy, Fsd.
  destruct T as [H|[H1 [H2 [b [la [A [B [C [D [E [F [G1 G2]]]]]]]]]]]]; [left; lia|].
  destruct (Nat.eq_dec (o_block o) (totalReleased p)) as [Heq|Hne]; [left; lia|right].
  assert (b_epochs fb <= o_epoch o - d) as Hec.
  { destruct (Nat.le_gt_cases (b_epochs fb) (o_epoch o - d)) as [|Hlt]; [assumption|exfalso].
    unfold inv_last in L. rewrite L, Eb in E. cbn [lasts_of] in E.
    rewrite nth_error_app1 in E by (rewrite repeat_length; exact Hlt).
    apply nth_error_repeat_eq in E. lia. }
  rewrite Eb in A. replace (o_block o - totalReleased p) with (S (o_block o - S (totalReleased p))) in A by lia.
  cbn [nth_error] in A.
  replace (o_epoch o - (d + b_epochs fb)) with (o_epoch o - d - b_epochs fb) by lia.
  rewrite !nth_error_skipn_sub by exact Hec.
  splits; try lia. exists b, la. splits; auto.
  - intros Hl. destruct (G1 Hl). split; [assumption|lia].
  - intros Hl. destruct (G2 Hl). split; [assumption|lia].
Qed.

Lemma tracked_fin o lv d tok blk size seed p p' fr : put_finalize tok blk size seed p = Ok (p', fr) ->
  tracked o lv d p -> tracked o lv d p'.
Proof.
  intros Hf T. destruct (fin_cases _ _ _ _ _ _ _ Hf) as [[-> _]|
    [abs [off [bumped [_ [_ [_ [_ [_ [_ [Fb [Fs [Fl [_ [Ft [Fsy [Fsd _]]]]]]]]]]]]]]]]]; [exact T|].
  unfold tracked. rewrite Fb, Fs, Fl, Ft, Fsy, Fsd.
  destruct T as [H|[H1 [H2 [b [la [A [B [C [D [E [F [G1 G2]]]]]]]]]]]]; [left; exact H|right].
  splits; auto.
  destruct (set_written_nth _ (abs - totalReleased p) (off + size)%Z _ _ A) as [b1 [A1 [[S1 [S2 [S3 S4]]] _]]].
  assert (exists b2, nth_error (if bumped
            then bump_last_epoch_count (set_written (blocks p) (abs - totalReleased p) (off + size))
            else set_written (blocks p) (abs - totalReleased p) (off + size)) (o_block o - totalReleased p) = Some b2
          /\ same_sync b1 b2) as [b2 [A2 [S1' [S2' [S3' S4']]]]].
  { destruct bumped; [apply bump_nth; exact A1|]. exists b1. split; [exact A1|]. unfold same_sync; splits; auto; lia. }
  exists b2, la.
  split; [exact A2|]. split; [congruence|]. split; [lia|].
  split; [destruct bumped; [apply nth_error_app_some|]; exact D|].
  split; [destruct bumped; [apply nth_error_app_some|]; exact E|].
  split; [exact F|].
  split; intros Hl; [destruct (G1 Hl)|destruct (G2 Hl)]; (split; [|assumption]);
    [rewrite S3', S3|rewrite S4', S4]; assumption.
Qed.

(** next level after a call *)
Definition lv_next (lv : nat) (a : act) : nat :=
  match a with
  | ASyncStart => Nat.max lv 1
  | ASyncDone true => match lv with 0 => 1 | _ => 2 end
  | ASyncDone false => match lv with 0 => 0 | _ => 2 end
  | _ => lv
  end.

Lemma tracked_act o lv d a p p' : inv_last p -> apply_act a p = Ok p' -> tracked o lv d p ->
  tracked o (lv_next lv a) (d + popc a p) p'.
Proof.
  intros L Ha T. destruct a as [|al| |tok blk size seed| |b|t|t]; cbn [apply_act popc lv_next] in *.
  - inversion Ha; subst. rewrite Nat.add_0_r. exact T.
  - inversion Ha; subst. rewrite Nat.add_0_r. apply tracked_push. exact T.
  - destruct (blocks p) as [|fb rest] eqn:Eb; [unfold pop_front in Ha; rewrite Eb in Ha; discriminate|].
    eapply tracked_pop; eauto.
  - destruct (put_finalize _ _ _ _ _) as [[p1 fr]|] eqn:Ef; [|discriminate]. cbn in Ha. inversion Ha; subst.
    rewrite Nat.add_0_r. eapply tracked_fin; eauto.
  - inversion Ha; subst. rewrite Nat.add_0_r. apply tracked_nss. exact T.
  - inversion Ha; subst. rewrite Nat.add_0_r. destruct b.
    + pose proof (tracked_nss o _ d true _ (tracked_nsc o lv d p T)) as T'.
      eapply tracked_weaken; [|exact T']. destruct lv; cbn; lia.
    + apply tracked_nsc. exact T.
  - destruct (get_persistent_state p) as [[p1 st]|] eqn:Eg; [|discriminate]. cbn in Ha. inversion Ha; subst.
    rewrite Nat.add_0_r. destruct (gps_fields _ _ _ Eg) as [Hc _]. eapply tracked_core; eauto.
  - destruct (nsw_fields _ _ Ha) as [Hc _]. rewrite Nat.add_0_r. eapply tracked_core; eauto.
Qed.

(** ---- establishment: the finalizer returned FinOk ---- *)
Definition obj_of (p p' : pbl) (abs : nat) (endoff : Z) : obj :=
  mkObj abs (nth (abs - totalReleased p) (map b_loc (blocks p)) (0, 0)%Z) endoff
        (length (epochSeeds p') - 1) (nth (length (epochSeeds p') - 1) (epochSeeds p') 0%N).

Lemma fin_tracked abs blk size seed p p' off : pbl_inv p ->
  put_finalize (PutAt abs) blk size seed p = Ok (p', FinOk off) ->
  tracked (obj_of p p' abs (off + size)) 0 0 p'.
Proof.
  intros I Hf. destruct (fin_cases _ _ _ _ _ _ _ Hf) as [[_ Hn]|
    [abs0 [off0 [bumped [Ht [_ [Hfr [_ [Hge [Hlt [Fb [Fs [Fl [Hnb [Ft _]]]]]]]]]]]]]]]; [exfalso; eapply Hn; reflexivity|].
  inversion Ht; subst abs0. inversion Hfr; subst off0. clear Ht Hfr.
  right. unfold obj_of. cbn [o_block o_loc o_end o_epoch o_seed]. rewrite Ft, Nat.sub_0_r.
  split; [exact Hge|]. split; [lia|].
  destruct (nth_error (blocks p) (abs - totalReleased p)) as [b0|] eqn:E0;
    [|apply nth_error_None in E0; lia].
  destruct (set_written_nth _ (abs - totalReleased p) (off + size)%Z _ _ E0) as [b1 [A1 [[S1 [S2 [S3 S4]]] Hw]]].
  assert (exists b2, nth_error (blocks p') (abs - totalReleased p) = Some b2 /\ same_sync b1 b2)
    as [b2 [A2 [S1' [S2' _]]]].
  { rewrite Fb. destruct bumped; [apply bump_nth; exact A1|]. exists b1. split; [exact A1|].
    unfold same_sync; splits; auto; lia. }
  assert (0 < length (epochSeeds p') /\
          exists la, nth_error (epochLast p') (length (epochSeeds p') - 1) = Some la /\ abs <= la) as [Hpos [la [Hla Hle]]].
  { rewrite Fs, Fl. pose proof (i_len _ I) as Hlen. destruct bumped.
    - rewrite app_length. cbn. split; [lia|]. eexists. split.
      + rewrite nth_error_app2 by lia. replace (length (epochSeeds p) + 1 - 1 - length (epochLast p)) with 0 by lia.
        reflexivity.
      + lia.
    - destruct (Hnb eq_refl) as [_ [la [Hla Hle]]]. rewrite <- Hlen.
      split; [|exists la; auto]. assert (length (epochLast p) - 1 < length (epochLast p)); [|lia].
      apply nth_error_Some. congruence. }
  exists b2, la.
  split; [exact A2|].
  split; [rewrite S1', S1; symmetry; apply nth_error_nth; apply (map_nth_error b_loc _ _ E0)|].
  split; [specialize (Hw eq_refl); lia|].
  split; [apply nth_error_nth'; lia|].
  split; [exact Hla|]. split; [exact Hle|]. split; intros; lia.
Qed.

(** ---- GetPersistentState at level 2 covers the object ---- *)
Lemma tec_cons b r : total_epoch_count (b :: r) = b_epochs b + total_epoch_count r.
Proof. reflexivity. Qed.

Lemma tec_firstn_mono bs : forall i j, i <= j ->
  total_epoch_count (firstn i bs) <= total_epoch_count (firstn j bs).
Proof.
  induction bs as [|b r IH]; intros [|i] [|j] H; cbn [firstn]; rewrite ?tec_cons; try lia.
  - unfold total_epoch_count. cbn. lia.
  - specialize (IH i j). lia.
Qed.

Lemma lasts_of_nth bs : forall base x la, nth_error (lasts_of base bs) x = Some la ->
  base <= la /\ total_epoch_count (firstn (la - base) bs) <= x.
Proof.
  induction bs as [|b r IH]; intros base x la H; cbn [lasts_of] in H.
  - destruct x; discriminate.
  - destruct (Nat.lt_ge_cases x (b_epochs b)) as [Hlt|Hge].
    + rewrite nth_error_app1 in H by (rewrite repeat_length; exact Hlt).
      apply nth_error_repeat_eq in H. subst. rewrite Nat.sub_diag. cbn. split; [lia|].
      unfold total_epoch_count; cbn; lia.
    + rewrite nth_error_app2 in H by (rewrite repeat_length; exact Hge). rewrite repeat_length in H.
      destruct (IH _ _ _ H) as [H1 H2]. split; [lia|].
      replace (la - base) with (S (la - S base)) by lia. cbn [firstn]. rewrite tec_cons. lia.
Qed.

Lemma gps_blocks synced seeds bs : forall lastE r j b, gps_loop bs lastE synced seeds = Ok r ->
  nth_error bs j = Some b -> lastE + total_epoch_count (firstn j bs) < synced ->
  exists sds, nth_error r j = Some (mkBstate (b_loc b) (b_synced b) sds).
Proof.
  induction bs as [|x bs IH]; intros lastE r j b H Hn Hlt; [destruct j; discriminate|].
  cbn [gps_loop] in H. destruct (Nat.ltb_spec lastE synced) as [Hl|Hl]; [|exfalso; lia].
  destruct (_ <? _); [discriminate|].
  destruct (gps_loop bs _ synced seeds) as [r'|] eqn:Er; [|discriminate]. cbn in H. inversion H; subst; clear H.
  destruct j as [|j].
  - cbn in Hn. inversion Hn; subst. eexists. reflexivity.
  - cbn [nth_error] in *. eapply IH; eauto. cbn [firstn] in Hlt. rewrite tec_cons in Hlt. lia.
Qed.

(** every entry of the written state is the block at the same index *)
Lemma gps_prefix synced seeds bs : forall lastE r j e, gps_loop bs lastE synced seeds = Ok r ->
  nth_error r j = Some e ->
  exists b, nth_error bs j = Some b /\ bs_loc e = b_loc b /\ bs_off e = b_synced b.
Proof.
  induction bs as [|x bs IH]; intros lastE r j e H Hn; cbn [gps_loop] in H.
  - destruct (_ <? _); [discriminate|]. inversion H; subst. destruct j; discriminate.
  - destruct (lastE <? synced); [|inversion H; subst; destruct j; discriminate].
    destruct (_ <? _); [discriminate|].
    destruct (gps_loop bs _ synced seeds) as [r'|] eqn:Er; [|discriminate]. cbn in H. inversion H; subst; clear H.
    destruct j as [|j]; cbn [nth_error] in *.
    + inversion Hn; subst. exists x. auto.
    + eapply IH; eauto.
Qed.

Lemma gps_seeds synced seeds bs : forall lastE r, gps_loop bs lastE synced seeds = Ok r ->
  lastE <= synced -> synced <= lastE + total_epoch_count bs ->
  concat (map bs_seeds r) = firstn (synced - lastE) (skipn lastE seeds).
Proof.
  induction bs as [|x bs IH]; intros lastE r H H1 H2; cbn [gps_loop] in H.
  - unfold total_epoch_count in H2; cbn in H2. destruct (Nat.ltb_spec lastE synced); [lia|].
    inversion H; subst. replace (synced - lastE) with 0 by lia. reflexivity.
  - destruct (Nat.ltb_spec lastE synced) as [Hl|Hl].
    + destruct (_ <? _); [discriminate|].
      remember (Nat.min (lastE + b_epochs x) synced) as last eqn:Elast.
      destruct (gps_loop bs last synced seeds) as [r'|] eqn:Er; [|discriminate].
      cbn in H. inversion H; subst r; clear H. cbn [map concat bs_seeds].
      rewrite tec_cons in H2.
      rewrite (IH _ _ Er) by lia.
      replace (synced - lastE) with ((last - lastE) + (synced - last)) by lia.
      rewrite firstn_add, skipn_skipn'. replace (lastE + (last - lastE)) with last by lia. reflexivity.
    + inversion H; subst. replace (synced - lastE) with 0 by lia. reflexivity.
Qed.

(** the persistent state [st] covers object [o], found at block index [bi]
    of the state and at epoch index [ei] of the state's seeds (blocks in
    order, as NewPersistentBlockList concatenates them on restoration) *)
Definition covers (st : pstate) (bi : nat) (o : obj) (ei : nat) : Prop :=
  (exists bs, nth_error (snd st) bi = Some bs /\ bs_loc bs = o_loc o /\ (o_end o <= bs_off bs)%Z)
  /\ nth_error (concat (map bs_seeds (snd st))) ei = Some (o_seed o).

Lemma gps_covers o d p p' st : pbl_inv p -> inv_last p -> tracked o 2 d p ->
  get_persistent_state p = Ok (p', st) ->
  o_block o < totalReleased p \/ covers st (o_block o - totalReleased p) o (o_epoch o - d).
Proof.
  intros I L T Hg. destruct T as [H|[H1 [H2 [b [la [A [B [C [D [E [F [G1 G2]]]]]]]]]]]]; [left; exact H|right].
  destruct (G2 (le_n 2)) as [Hs Hlt]. destruct (gps_fields _ _ _ Hg) as [_ [_ [_ [_ [_ [_ [_ Hloop]]]]]]].
  unfold inv_last in L. rewrite L in E. destruct (lasts_of_nth _ _ _ _ E) as [_ Hcnt].
  pose proof (tec_firstn_mono (blocks p) (o_block o - totalReleased p) (la - totalReleased p) ltac:(lia)) as Hm.
  split.
  - destruct (gps_blocks _ _ _ _ _ _ _ Hloop A ltac:(lia)) as [sds Hn].
    eexists. split; [exact Hn|]. cbn. split; [exact B|exact Hs].
  - rewrite (gps_seeds _ _ _ _ _ Hloop) by (pose proof (i_sum _ I); pose proof (i_sync1 _ I); pose proof (i_sync2 _ I); lia).
    rewrite Nat.sub_0_r. cbn [skipn]. rewrite nth_error_firstn_lt by exact Hlt. exact D.
Qed.

(** ---- along schedules ---- *)
Fixpoint popsum (cfg : config) (s : sys) (tr : list event) : nat :=
  match tr with
  | [] => 0
  | e :: tr' =>
      match step cfg s e with
      | Some (Ok s') => popc (act_of s e) (s_pbl s) + popsum cfg s' tr'
      | _ => 0
      end
  end.

Lemma lv_next_ge lv a : lv <= 2 -> lv <= lv_next lv a.
Proof. intros H. destruct a as [| | | | |[]| |]; unfold lv_next; try lia; destruct lv; lia. Qed.

Lemma step_tracked cfg o lv d s e s' : linv s -> tracked o lv d (s_pbl s) -> step cfg s e = Some (Ok s') ->
  tracked o (lv_next lv (act_of s e)) (d + popc (act_of s e) (s_pbl s)) (s_pbl s').
Proof.
  intros [_ L] T H. eapply tracked_act; eauto. eapply step_act; eauto.
Qed.

Lemma run_tracked cfg o lv tr : lv <= 2 -> forall s d s', linv s -> tracked o lv d (s_pbl s) ->
  run cfg s tr = Some (Ok s') -> tracked o lv (d + popsum cfg s tr) (s_pbl s').
Proof.
  intros Hlv. induction tr as [|e tr IH]; intros s d s' I T H; cbn in *.
  - inversion H; subst. rewrite Nat.add_0_r. exact T.
  - destruct (step cfg s e) as [[s1|]|] eqn:Es; try discriminate.
    rewrite Nat.add_assoc. eapply IH; [eapply step_linv; eauto| |exact H].
    eapply tracked_weaken; [apply (lv_next_ge lv (act_of s e) Hlv)|]. eapply step_tracked; eauto.
Qed.

Definition sync_starts (s : sys) (e : event) : bool :=
  match act_of s e with ASyncStart | ASyncDone true => true | _ => false end.
Definition sync_completes (s : sys) (e : event) : bool :=
  match act_of s e with ASyncDone _ => true | _ => false end.

(** the state passed to WritePersistentState by thread [t], in flight in [s] *)
Definition written_state (s : sys) (t : tid) : option pstate :=
  match t with
  | TR => match s_r s with RW (WWriting st) => Some st | _ => None end
  | TP => match s_p s with PW _ (WWriting st) => Some st | _ => None end
  end.

Lemma getstate_step cfg s e s' t : step cfg s e = Some (Ok s') -> act_of s e = AGetState t ->
  exists p' st, get_persistent_state (s_pbl s) = Ok (p', st) /\ written_state s' t = Some st
    /\ s_pbl s' = p' /\ exists a, e = EStep t a.
Proof.
  destruct e as [alloc| |index size|k blk seed|d| |t' a]; cbn [act_of]; try discriminate.
  - destruct (nth_error _ _) as [[[tok sz]|]|]; discriminate.
  - destruct t'; cbn [step].
    + unfold rstep. destruct (s_r s) as [|ch|w]; try discriminate.
      destruct w; cbn [wact]; try discriminate. cbn [wstep].
      destruct (get_persistent_state _) as [[p' st]|]; [|discriminate].
      intros H Ht; inversion H; inversion Ht; subst. exists p', st. cbn. splits; eauto.
    + unfold pstep. destruct (s_p s) as [| | | | | | | |k w|]; try discriminate.
      destruct w; cbn [wact]; try discriminate. cbn [wstep].
      destruct (get_persistent_state _) as [[p' st]|]; [|discriminate].
      intros H Ht; inversion H; inversion Ht; subst. exists p', st. cbn. splits; eauto.
Qed.

Lemma fin_step cfg s k blk seed s' tok size : step cfg s (EFinalize k blk seed) = Some (Ok s') ->
  nth_error (s_uploads s) k = Some (Some (tok, size)) ->
  exists fr, put_finalize tok blk size seed (s_pbl s) = Ok (s_pbl s', fr).
Proof.
  cbn [step]. intros H En. rewrite En in H.
  destruct (put_finalize _ _ _ _ _) as [[p' fr]|]; [|discriminate]. inversion H; subst. exists fr. reflexivity.
Qed.

(** COVERAGE of an upload.  Schedule = ... finalizer returning FinOk (step i),
    [trA], a step that starts a data sync, [trB], a step at which a data sync
    completes, [trC], a step (of either loop) that calls GetPersistentState
    and starts WritePersistentState.  Then the object's block has been
    released by PopFront in the meantime, or the state passed to the store
    covers the object.  ([d]: epochs removed by PopFront in between.) *)
Theorem upload_covered_seg cfg s1 k blk seed s1' abs size off p' trA s2 e2 s2' trB s3 e3 s3' trC s4 e4 s4' t :
  linv s1 ->
  step cfg s1 (EFinalize k blk seed) = Some (Ok s1') ->
  nth_error (s_uploads s1) k = Some (Some (PutAt abs, size)) ->
  put_finalize (PutAt abs) blk size seed (s_pbl s1) = Ok (p', FinOk off) ->
  run cfg s1' trA = Some (Ok s2) -> step cfg s2 e2 = Some (Ok s2') -> sync_starts s2 e2 = true ->
  run cfg s2' trB = Some (Ok s3) -> step cfg s3 e3 = Some (Ok s3') -> sync_completes s3 e3 = true ->
  run cfg s3' trC = Some (Ok s4) -> step cfg s4 e4 = Some (Ok s4') -> act_of s4 e4 = AGetState t ->
  let o := obj_of (s_pbl s1) p' abs (off + size) in
  let d := popsum cfg s1' trA + popsum cfg s2' trB + popsum cfg s3' trC in
  abs < totalReleased (s_pbl s4) \/
  exists st, written_state s4' t = Some st /\ covers st (abs - totalReleased (s_pbl s4)) o (o_epoch o - d).
Proof.
  intros I1 Hs1 Hu Hf HA H2 Hst HB H3 Hco HC H4 Hg o d.
  destruct (fin_step _ _ _ _ _ _ _ _ Hs1 Hu) as [fr Hf']. rewrite Hf in Hf'. inversion Hf'; subst p'. clear Hf'.
  pose proof (step_linv _ _ _ _ I1 Hs1) as I1'.
  pose proof (fin_tracked _ _ _ _ _ _ _ (proj1 (proj1 I1)) Hf) as T0. fold o in T0.
  pose proof (run_tracked _ _ 0 _ ltac:(lia) _ _ _ I1' T0 HA) as TA. pose proof (run_linv _ _ _ _ I1' HA) as I2.
  pose proof (step_tracked _ _ _ _ _ _ _ I2 TA H2) as T2. pose proof (step_linv _ _ _ _ I2 H2) as I2'.
  assert (tracked o 1 (0 + popsum cfg s1' trA) (s_pbl s2')) as T2'.
  { unfold sync_starts in Hst. destruct (act_of s2 e2) as [| | | | |[]| |]; try discriminate;
      cbn in T2; rewrite Nat.add_0_r in T2; exact T2. }
  pose proof (run_tracked _ _ 1 _ ltac:(lia) _ _ _ I2' T2' HB) as TB. pose proof (run_linv _ _ _ _ I2' HB) as I3.
  pose proof (step_tracked _ _ _ _ _ _ _ I3 TB H3) as T3. pose proof (step_linv _ _ _ _ I3 H3) as I3'.
  assert (tracked o 2 (0 + popsum cfg s1' trA + popsum cfg s2' trB) (s_pbl s3')) as T3'.
  { unfold sync_completes in Hco. destruct (act_of s3 e3) as [| | | | |[]| |]; try discriminate;
      cbn in T3; rewrite Nat.add_0_r in T3; exact T3. }
  pose proof (run_tracked _ _ 2 _ ltac:(lia) _ _ _ I3' T3' HC) as TC. pose proof (run_linv _ _ _ _ I3' HC) as I4.
  destruct (getstate_step _ _ _ _ _ H4 Hg) as [p4 [st [Hgs [Hw _]]]].
  destruct (gps_covers _ _ _ _ _ (proj1 (proj1 I4)) (proj2 I4) TC Hgs) as [Hr|Hc].
  - left. exact Hr.
  - right. exists st. split; [exact Hw|]. exact Hc.
Qed.
