(** Safety invariants of the combined transition system (all schedules). *)
From Coq Require Import List NArith ZArith Bool Arith Lia.
From BBS Require Import Persist.PBL Persist.PBLProofs Persist.Syncer.
Import ListNotations.

(** ---- I1: block list invariant + validity of in-flight Put tokens ---- *)
Definition ext (p : pbl) : nat := totalReleased p + length (blocks p).

Definition up_ok (p : pbl) (u : option (put_token * Z)) : Prop :=
  match u with Some (tok, _) => tok_ok p tok | None => True end.

Definition inv1 (s : sys) : Prop := pbl_inv (s_pbl s) /\ Forall (up_ok (s_pbl s)) (s_uploads s).

Lemma up_ok_mono p p' u : ext p <= ext p' -> up_ok p u -> up_ok p' u.
Proof.
  unfold ext, up_ok, tok_ok. destruct u as [[[|abs] sz]|]; auto. lia.
Qed.

Lemma ups_mono p p' us : ext p <= ext p' -> Forall (up_ok p) us -> Forall (up_ok p') us.
Proof. intros H F. eapply Forall_impl; [|exact F]. intros u. apply up_ok_mono. exact H. Qed.

Lemma clear_nth_ok p us k : Forall (up_ok p) us -> Forall (up_ok p) (clear_nth us k).
Proof.
  intros F. revert k. induction F as [|u r Hu F IH]; intros [|k]; cbn; constructor; auto.
  exact I.
Qed.

Lemma chan_mono_refl p : chan_mono p p.
Proof. apply chan_mono_same; reflexivity. Qed.

Lemma gps_ext p p' st : get_persistent_state p = Ok (p', st) -> ext p' = ext p.
Proof.
  unfold get_persistent_state. destruct (gps_loop _ _ _ _); [|discriminate].
  cbn. intros H; inversion H; subst. reflexivity.
Qed.

Lemma nsw_ext p p' : notify_state_written p = Ok p' -> ext p' = ext p.
Proof.
  unfold notify_state_written. destruct (_ <? _); [discriminate|].
  destruct (skipn _ _); [destruct (nc_block _ _)|]; intros H; inversion H; subst; reflexivity.
Qed.

Lemma nss_ext f p : ext (notify_sync_starting f p) = ext p.
Proof. unfold ext. cbn. rewrite map_length. reflexivity. Qed.

Lemma nsc_ext p : ext (notify_sync_completed p) = ext p.
Proof.
  unfold notify_sync_completed. destruct (_ =? _); [destruct (nc_block _ _)|];
    unfold ext; cbn; rewrite map_length; reflexivity.
Qed.

Lemma nss_mono f p : chan_mono p (notify_sync_starting f p).
Proof. apply chan_mono_same; reflexivity. Qed.

(** what a step may do to the block list *)
Definition pbl_step_ok (p p' : pbl) : Prop := pbl_inv p' /\ chan_mono p p' /\ ext p <= ext p'.

Lemma pbl_step_refl p : pbl_inv p -> pbl_step_ok p p.
Proof. intros I. split; [exact I|]. split; [apply chan_mono_refl|lia]. Qed.

Lemma wstep_inv1 cfg me w a s r : inv1 s -> wstep cfg me w a s = Some r ->
  exists s' w', r = Ok (s', w') /\ pbl_step_ok (s_pbl s) (s_pbl s') /\ s_uploads s' = s_uploads s
    /\ s_r s' = s_r s /\ s_p s' = s_p s /\ s_now s' = s_now s /\ s_last s' = s_last s
    /\ s_sched s' = s_sched s /\ s_cancel s' = s_cancel s.
Proof.
  intros [I U]. unfold wstep. destruct w.
  - destruct (s_store s); [discriminate|]. intros H; inversion H; subst.
    eexists _, _. split; [reflexivity|]. cbn. splits; auto. apply pbl_step_refl; exact I.
  - destruct (get_persistent_state_inv _ I) as [p' [st [Hg [I' [_ [Hh [_ [_ [Hp Hr]]]]]]]]].
    rewrite Hg. intros H; inversion H; subst.
    eexists _, _. split; [reflexivity|]. cbn. splits; auto.
    split; [exact I'|]. split; [apply chan_mono_same; auto|]. rewrite (gps_ext _ _ _ Hg). lia.
  - destruct (a_ok a); intros H; inversion H; subst;
      (eexists _, _; split; [reflexivity|]; cbn; splits; auto; apply pbl_step_refl; exact I).
  - destruct (notify_state_written_inv _ I) as [p' [Hn [I' _]]].
    rewrite Hn. intros H; inversion H; subst.
    eexists _, _. split; [reflexivity|]. cbn. splits; auto.
    split; [exact I'|]. split; [eapply notify_state_written_mono; eauto|]. rewrite (nsw_ext _ _ Hn). lia.
  - destruct (_ <=? _)%N; [|discriminate]. intros H; inversion H; subst.
    eexists _, _. split; [reflexivity|]. splits; auto. apply pbl_step_refl; exact I.
Qed.

Lemma step_inv1 cfg s e r : inv1 s -> step cfg s e = Some r ->
  exists s', r = Ok s' /\ inv1 s' /\ chan_mono (s_pbl s) (s_pbl s').
Proof.
  intros II. pose proof II as [I U]. destruct e as [alloc| |index size|k blk seed|d| |t a]; cbn [step].
  - (* PushBack *)
    intros H; inversion H; subst. eexists. split; [reflexivity|]. cbn.
    split; [split|].
    + apply push_back_inv; exact I.
    + eapply ups_mono; [|exact U]. unfold push_back, ext.
      destruct (closedForWriting (s_pbl s)); cbn; [lia|]. destruct alloc; cbn; [rewrite app_length; cbn|]; lia.
    + unfold push_back. destruct (closedForWriting (s_pbl s)); [apply chan_mono_refl|].
      destruct alloc; [|apply chan_mono_refl]. apply chan_mono_same; reflexivity.
  - (* PopFront *)
    destruct (blocks (s_pbl s)) eqn:Eb; [discriminate|].
    destruct (pop_front_inv _ I) as [p' [Hp [I' _]]]; [congruence|].
    rewrite Hp. intros H; inversion H; subst. eexists. split; [reflexivity|]. cbn.
    destruct (pop_front_mono _ _ I Hp) as [M [He _]].
    split; [split|]; auto. eapply ups_mono; [|exact U]. unfold ext. cbn. lia.
  - (* PutStart *)
    destruct (closedForWriting (s_pbl s) || (index <? length (blocks (s_pbl s)))) eqn:E; [|discriminate].
    destruct (put_start_ok index (s_pbl s)) as [tok [Ht Hok]].
    { apply orb_true_iff in E. destruct E as [E|E]; [left; exact E|right; apply Nat.ltb_lt; exact E]. }
    rewrite Ht. intros H; inversion H; subst. eexists. split; [reflexivity|]. cbn.
    split; [split; auto|apply chan_mono_refl].
    apply Forall_app. split; [exact U|]. constructor; [exact Hok|constructor].
  - (* Finalize *)
    destruct (nth_error (s_uploads s) k) as [[[tok sz]|]|] eqn:En; try discriminate.
    assert (tok_ok (s_pbl s) tok) as Hok.
    { apply nth_error_In in En. rewrite Forall_forall in U. apply (U _ En). }
    destruct (put_finalize_inv tok blk sz seed _ I Hok) as [p' [fr [Hf [I' [_ [_ [_ [_ [Ht Hl]]]]]]]]].
    rewrite Hf. intros H; inversion H; subst. eexists. split; [reflexivity|]. cbn.
    destruct (put_finalize_mono _ _ _ _ _ _ _ I Hf) as [M _].
    split; [split|]; auto.
    assert (Forall (up_ok p') (s_uploads s)) as U'.
    { eapply ups_mono; [|exact U]. unfold ext. lia. }
    apply clear_nth_ok. exact U'.
  - intros H; inversion H; subst. eexists. split; [reflexivity|]. split; [exact II|apply chan_mono_refl].
  - intros H; inversion H; subst. eexists. split; [reflexivity|]. split; [exact II|apply chan_mono_refl].
  - destruct t.
    + (* release loop *)
      unfold rstep. destruct (s_r s) as [|ch|w].
      * intros H; inversion H; subst. eexists. split; [reflexivity|]. split; [exact II|apply chan_mono_refl].
      * destruct (is_closed _ _); [|discriminate].
        intros H; inversion H; subst. eexists. split; [reflexivity|]. split; [exact II|apply chan_mono_refl].
      * destruct (wstep cfg TR w a s) as [o|] eqn:Ew; [|discriminate].
        destruct (wstep_inv1 _ _ _ _ _ _ II Ew) as [s' [w' [-> [[I' [M E]] [Hu _]]]]].
        destruct w'; intros H; inversion H; subst; (eexists; split; [reflexivity|]; unfold inv1; cbn;
          split; [split; [exact I'|rewrite Hu; eapply ups_mono; eauto]|exact M]).
    + (* put loop *)
      unfold pstep. destruct (s_p s) as [|ch|ch|dl|keep|keep final|keep final|keep final dl|keep w|].
      * intros H; inversion H; subst. eexists. split; [reflexivity|]. split; [exact II|apply chan_mono_refl].
      * destruct (is_closed _ _); intros H; inversion H; subst;
          (eexists; split; [reflexivity|]; split; [exact II|apply chan_mono_refl]).
      * destruct (s_cancel s && _); [|destruct (is_closed _ _); [|discriminate]];
          intros H; inversion H; subst;
          (eexists; split; [reflexivity|]; split; [exact II|apply chan_mono_refl]).
      * destruct (s_cancel s && _); [|destruct (_ && _)%bool; [|discriminate]];
          intros H; inversion H; subst;
          (eexists; split; [reflexivity|]; split; [exact II|apply chan_mono_refl]).
      * intros H; inversion H; subst. eexists. split; [reflexivity|]. unfold inv1.
        change (s_pbl (with_p (with_pbl s (notify_sync_starting false (s_pbl s))) (PSyncing keep false)))
          with (notify_sync_starting false (s_pbl s)).
        change (s_uploads (with_p (with_pbl s (notify_sync_starting false (s_pbl s))) (PSyncing keep false)))
          with (s_uploads s).
        split; [split|apply nss_mono].
        -- apply notify_sync_starting_inv; exact I.
        -- eapply ups_mono; [|exact U]. rewrite nss_ext. lia.
      * destruct (a_ok a); intros H; inversion H; subst;
          (eexists; split; [reflexivity|]; split; [exact II|apply chan_mono_refl]).
      * pose proof (notify_sync_completed_inv _ I) as I1.
        pose proof (notify_sync_completed_mono _ I) as M1.
        destruct (negb keep && negb final); intros H; inversion H; subst;
          (eexists; split; [reflexivity|]); unfold inv1;
          match goal with |- context [s_pbl (with_p (with_pbl _ ?p) _)] =>
            change (s_pbl (with_p (with_pbl s p) _)) with p end;
          match goal with |- context [s_uploads (with_p (with_pbl _ ?p) ?q)] =>
            change (s_uploads (with_p (with_pbl s p) q)) with (s_uploads s) end.
        -- split; [split|].
           ++ apply notify_sync_starting_inv; exact I1.
           ++ eapply ups_mono; [|exact U]. rewrite nss_ext, nsc_ext. lia.
           ++ destruct M1 as [A [B [C D]]]. unfold chan_mono. cbn. splits; auto.
        -- split; [split|]; auto. eapply ups_mono; [|exact U]. rewrite nsc_ext. lia.
      * destruct (_ <=? _)%N; [|discriminate]. intros H; inversion H; subst.
        eexists. split; [reflexivity|]. split; [exact II|apply chan_mono_refl].
      * destruct (wstep cfg TP w a s) as [o|] eqn:Ew; [|discriminate].
        destruct (wstep_inv1 _ _ _ _ _ _ II Ew) as [s' [w' [-> [[I' [M E]] [Hu _]]]]].
        destruct w'; intros H; inversion H; subst; (eexists; split; [reflexivity|]; unfold inv1; cbn;
          split; [split; [exact I'|rewrite Hu; eapply ups_mono; eauto]|exact M]).
      * discriminate.
Qed.

(** ---- close_once / no panic: over all schedules ---- *)
Lemma run_inv1 cfg tr : forall s r, inv1 s -> run cfg s tr = Some r -> exists s', r = Ok s' /\ inv1 s'.
Proof.
  induction tr as [|e tr IH]; intros s r I H; cbn in H.
  - inversion H; subst. eauto.
  - destruct (step cfg s e) as [o|] eqn:Es; [|discriminate].
    destruct (step_inv1 _ _ _ _ I Es) as [s' [-> [I' _]]]. eapply IH; eauto.
Qed.

Lemma init_inv1 alloc oldest init t0 : inv1 (init_sys (fst (pbl_new alloc oldest init)) t0).
Proof. split; [apply pbl_new_inv|constructor]. Qed.

(** ---- reachable states ---- *)
Definition reachable (cfg : config) (alloc : loc -> Z -> bool) (oldest : N) (init : list bstate) (t0 : N)
  (s : sys) : Prop :=
  exists tr, run cfg (init_sys (fst (pbl_new alloc oldest init)) t0) tr = Some (Ok s).

Lemma reachable_inv1 cfg alloc oldest init t0 s : reachable cfg alloc oldest init t0 s -> inv1 s.
Proof.
  intros [tr H]. destruct (run_inv1 _ _ _ _ (init_inv1 alloc oldest init t0) H) as [s' [E I]].
  inversion E; subst. exact I.
Qed.

Theorem no_panic_all_schedules cfg alloc oldest init t0 tr :
  run cfg (init_sys (fst (pbl_new alloc oldest init)) t0) tr <> Some Panic.
Proof.
  intros H. destruct (run_inv1 _ _ _ _ (init_inv1 alloc oldest init t0) H) as [s' [E _]]. discriminate.
Qed.

Theorem wakeup_put_reach cfg alloc oldest init t0 s : reachable cfg alloc oldest init t0 s ->
  (synchronizedEpochs (s_pbl s) < length (epochSeeds (s_pbl s)) -> put_chan_closed (s_pbl s) = true) /\
  (synchronizedEpochs (s_pbl s) = length (epochSeeds (s_pbl s)) -> put_chan_closed (s_pbl s) = false).
Proof.
  intros R. destruct (reachable_inv1 _ _ _ _ _ _ R) as [I _].
  split; [apply inv_wakeup_put|apply inv_put_open]; exact I.
Qed.

Theorem wakeup_release_reach cfg alloc oldest init t0 s : reachable cfg alloc oldest init t0 s ->
  (toRelease (s_pbl s) <> [] -> release_chan_closed (s_pbl s) = true) /\
  (toRelease (s_pbl s) = [] -> release_chan_closed (s_pbl s) = false).
Proof.
  intros R. destruct (reachable_inv1 _ _ _ _ _ _ R) as [I _].
  split; [apply inv_wakeup_release|apply inv_release_open]; exact I.
Qed.

Theorem close_once_reach cfg alloc oldest init t0 s : reachable cfg alloc oldest init t0 s ->
  NoDup (ch_closed (heap (s_pbl s))).
Proof.
  intros R. destruct (reachable_inv1 _ _ _ _ _ _ R) as [I _]. exact (cw_nodup _ _ _ (i_chan _ I)).
Qed.
