(** Safety invariants of the combined transition system (all schedules). *)
From Coq Require Import List NArith ZArith Bool Arith Lia.
From BBS Require Import Persist.PBL Persist.PBLProofs Persist.Syncer.
Import ListNotations.

(** ---- I1: block list invariant + validity of in-flight Put tokens ---- *)
Definition ext (p : pbl) : nat := totalReleased p + length (blocks p).

Definition up_ok (p : pbl) (u : option (put_token * Z)) : Prop :=
  match u with Some (tok, _) => tok_ok p tok | None => True end.

Definition inv1 (s : sys) : Prop := pbl_inv (s_pbl s) /\ Forall (up_ok (s_pbl s)) (s_uploads s).

Lemma up_ok_mono p p' u : ext p <= ext p' -> up_ok p u -> up_ok p' u.
Proof.
  unfold ext, up_ok, tok_ok. destruct u as [[[|abs] sz]|]; auto. lia.
Qed.

Lemma ups_mono p p' us : ext p <= ext p' -> Forall (up_ok p) us -> Forall (up_ok p') us.
Proof. intros H F. eapply Forall_impl; [|exact F]. intros u. apply up_ok_mono. exact H. Qed.

Lemma clear_nth_ok p us k : Forall (up_ok p) us -> Forall (up_ok p) (clear_nth us k).
Proof.
  intros F. revert k. induction F as [|u r Hu F IH]; intros [|k]; cbn; constructor; auto.
  exact I.
Qed.

Lemma chan_mono_refl p : chan_mono p p.
Proof. apply chan_mono_same; reflexivity. Qed.

Lemma gps_ext p p' st : get_persistent_state p = Ok (p', st) -> ext p' = ext p.
Proof.
  unfold get_persistent_state. destruct (gps_loop _ _ _ _); [|discriminate].
  cbn. intros H; inversion H; subst. reflexivity.
Qed.

Lemma nsw_ext p p' : notify_state_written p = Ok p' -> ext p' = ext p.
Proof.
  unfold notify_state_written. destruct (_ <? _); [discriminate|].
  destruct (skipn _ _); [destruct (nc_block _ _)|]; intros H; inversion H; subst; reflexivity.
Qed.

Lemma nss_ext f p : ext (notify_sync_starting f p) = ext p.
Proof. unfold ext. cbn. rewrite map_length. reflexivity. Qed.

Lemma nsc_ext p : ext (notify_sync_completed p) = ext p.
Proof.
  unfold notify_sync_completed. destruct (_ =? _); [destruct (nc_block _ _)|];
    unfold ext; cbn; rewrite map_length; reflexivity.
Qed.

Lemma nss_mono f p : chan_mono p (notify_sync_starting f p).
Proof. apply chan_mono_same; reflexivity. Qed.

(** what a step may do to the block list *)
Definition pbl_step_ok (p p' : pbl) : Prop := pbl_inv p' /\ chan_mono p p' /\ ext p <= ext p'.

Lemma pbl_step_refl p : pbl_inv p -> pbl_step_ok p p.
Proof. intros I. split; [exact I|]. split; [apply chan_mono_refl|lia]. Qed.

Lemma wstep_inv1 cfg me w a s r : inv1 s -> wstep cfg me w a s = Some r ->
  exists s' w', r = Ok (s', w') /\ pbl_step_ok (s_pbl s) (s_pbl s') /\ s_uploads s' = s_uploads s
    /\ s_r s' = s_r s /\ s_p s' = s_p s /\ s_now s' = s_now s /\ s_last s' = s_last s
    /\ s_sched s' = s_sched s /\ s_cancel s' = s_cancel s.
Proof.
  intros [I U]. unfold wstep. destruct w.
  - destruct (s_store s); [discriminate|]. intros H; inversion H; subst.
    eexists _, _. split; [reflexivity|]. cbn. splits; auto. apply pbl_step_refl; exact I.
  - destruct (get_persistent_state_inv _ I) as [p' [st [Hg [I' [_ [Hh [_ [_ [Hp Hr]]]]]]]]].
    rewrite Hg. intros H; inversion H; subst.
    eexists _, _. split; [reflexivity|]. cbn. splits; auto.
    split; [exact I'|]. split; [apply chan_mono_same; auto|]. rewrite (gps_ext _ _ _ Hg). lia.
  - destruct (a_ok a); intros H; inversion H; subst;
      (eexists _, _; split; [reflexivity|]; cbn; splits; auto; apply pbl_step_refl; exact I).
  - destruct (notify_state_written_inv _ I) as [p' [Hn [I' _]]].
    rewrite Hn. intros H; inversion H; subst.
    eexists _, _. split; [reflexivity|]. cbn. splits; auto.
    split; [exact I'|]. split; [eapply notify_state_written_mono; eauto|]. rewrite (nsw_ext _ _ Hn). lia.
  - destruct (_ <=? _)%N; [|discriminate]. intros H; inversion H; subst.
    eexists _, _. split; [reflexivity|]. splits; auto. apply pbl_step_refl; exact I.
Qed.

Lemma step_inv1 cfg s e r : inv1 s -> step cfg s e = Some r ->
  exists s', r = Ok s' /\ inv1 s' /\ chan_mono (s_pbl s) (s_pbl s').
Proof.
  intros II. pose proof II as [I U]. destruct e as [alloc| |index size|k blk seed|d| |t a]; cbn [step].
  - (* PushBack *)
    intros H; inversion H; subst. eexists. split; [reflexivity|]. cbn.
    split; [split|].
    + apply push_back_inv; exact I.
    + eapply ups_mono; [|exact U]. unfold push_back, ext.
      destruct (closedForWriting (s_pbl s)); cbn; [lia|]. destruct alloc; cbn; [rewrite app_length; cbn|]; lia.
    + unfold push_back. destruct (closedForWriting (s_pbl s)); [apply chan_mono_refl|].
      destruct alloc; [|apply chan_mono_refl]. apply chan_mono_same; reflexivity.
  - (* PopFront *)
    destruct (blocks (s_pbl s)) eqn:Eb; [discriminate|].
    destruct (pop_front_inv _ I) as [p' [Hp [I' _]]]; [congruence|].
    rewrite Hp. intros H; inversion H; subst. eexists. split; [reflexivity|]. cbn.
    destruct (pop_front_mono _ _ I Hp) as [M [He _]].
    split; [split|]; auto. eapply ups_mono; [|exact U]. unfold ext. cbn. lia.
  - (* PutStart *)
    destruct (closedForWriting (s_pbl s) || (index <? length (blocks (s_pbl s)))) eqn:E; [|discriminate].
    destruct (put_start_ok index (s_pbl s)) as [tok [Ht Hok]].
    { apply orb_true_iff in E. destruct E as [E|E]; [left; exact E|right; apply Nat.ltb_lt; exact E]. }
    rewrite Ht. intros H; inversion H; subst. eexists. split; [reflexivity|]. cbn.
    split; [split; auto|apply chan_mono_refl].
    apply Forall_app. split; [exact U|]. constructor; [exact Hok|constructor].
  - (* Finalize *)
    destruct (nth_error (s_uploads s) k) as [[[tok sz]|]|] eqn:En; try discriminate.
    assert (tok_ok (s_pbl s) tok) as Hok.
    { apply nth_error_In in En. rewrite Forall_forall in U. apply (U _ En). }
    destruct (put_finalize_inv tok blk sz seed _ I Hok) as [p' [fr [Hf [I' [_ [_ [_ [_ [Ht Hl]]]]]]]]].
    rewrite Hf. intros H; inversion H; subst. eexists. split; [reflexivity|]. cbn.
    destruct (put_finalize_mono _ _ _ _ _ _ _ I Hf) as [M _].
    split; [split|]; auto.
    assert (Forall (up_ok p') (s_uploads s)) as U'.
    { eapply ups_mono; [|exact U]. unfold ext. lia. }
    apply clear_nth_ok. exact U'.
  - intros H; inversion H; subst. eexists. split; [reflexivity|]. split; [exact II|apply chan_mono_refl].
  - intros H; inversion H; subst. eexists. split; [reflexivity|]. split; [exact II|apply chan_mono_refl].
  - destruct t.
    + (* release loop *)
      unfold rstep. destruct (s_r s) as [|ch|w].
      * intros H; inversion H; subst. eexists. split; [reflexivity|]. split; [exact II|apply chan_mono_refl].
      * destruct (is_closed _ _); [|discriminate].
        intros H; inversion H; subst. eexists. split; [reflexivity|]. split; [exact II|apply chan_mono_refl].
      * destruct (wstep cfg TR w a s) as [o|] eqn:Ew; [|discriminate].
        destruct (wstep_inv1 _ _ _ _ _ _ II Ew) as [s' [w' [-> [[I' [M E]] [Hu _]]]]].
        destruct w'; intros H; inversion H; subst; (eexists; split; [reflexivity|]; unfold inv1; cbn;
          split; [split; [exact I'|rewrite Hu; eapply ups_mono; eauto]|exact M]).
    + (* put loop *)
      unfold pstep. destruct (s_p s) as [|ch|ch|dl|keep|keep final|keep final|keep final dl|keep w|].
      * intros H; inversion H; subst. eexists. split; [reflexivity|]. split; [exact II|apply chan_mono_refl].
      * destruct (is_closed _ _); intros H; inversion H; subst;
          (eexists; split; [reflexivity|]; split; [exact II|apply chan_mono_refl]).
      * destruct (s_cancel s && _); [|destruct (is_closed _ _); [|discriminate]];
          intros H; inversion H; subst;
          (eexists; split; [reflexivity|]; split; [exact II|apply chan_mono_refl]).
      * destruct (s_cancel s && _); [|destruct (_ && _)%bool; [|discriminate]];
          intros H; inversion H; subst;
          (eexists; split; [reflexivity|]; split; [exact II|apply chan_mono_refl]).
      * intros H; inversion H; subst. eexists. split; [reflexivity|]. unfold inv1.
        change (s_pbl (with_p (with_pbl s (notify_sync_starting false (s_pbl s))) (PSyncing keep false)))
          with (notify_sync_starting false (s_pbl s)).
        change (s_uploads (with_p (with_pbl s (notify_sync_starting false (s_pbl s))) (PSyncing keep false)))
          with (s_uploads s).
        split; [split|apply nss_mono].
        -- apply notify_sync_starting_inv; exact I.
        -- eapply ups_mono; [|exact U]. rewrite nss_ext. lia.
      * destruct (a_ok a); intros H; inversion H; subst;
          (eexists; split; [reflexivity|]; split; [exact II|apply chan_mono_refl]).
      * pose proof (notify_sync_completed_inv _ I) as I1.
        pose proof (notify_sync_completed_mono _ I) as M1.
        destruct (negb keep && negb final); intros H; inversion H; subst;
          (eexists; split; [reflexivity|]); unfold inv1;
          match goal with |- context [s_pbl (with_p (with_pbl _ ?p) _)] =>
            change (s_pbl (with_p (with_pbl s p) _)) with p end;
          match goal with |- context [s_uploads (with_p (with_pbl _ ?p) ?q)] =>
            change (s_uploads (with_p (with_pbl s p) q)) with (s_uploads s) end.
        -- split; [split|].
           ++ apply notify_sync_starting_inv; exact I1.
           ++ eapply ups_mono; [|exact U]. rewrite nss_ext, nsc_ext. lia.
           ++ destruct M1 as [A [B [C D]]]. unfold chan_mono. cbn. splits; auto.
        -- split; [split|]; auto. eapply ups_mono; [|exact U]. rewrite nsc_ext. lia.
      * destruct (_ <=? _)%N; [|discriminate]. intros H; inversion H; subst.
        eexists. split; [reflexivity|]. split; [exact II|apply chan_mono_refl].
      * destruct (wstep cfg TP w a s) as [o|] eqn:Ew; [|discriminate].
        destruct (wstep_inv1 _ _ _ _ _ _ II Ew) as [s' [w' [-> [[I' [M E]] [Hu _]]]]].
        destruct w'; intros H; inversion H; subst; (eexists; split; [reflexivity|]; unfold inv1; cbn;
          split; [split; [exact I'|rewrite Hu; eapply ups_mono; eauto]|exact M]).
      * discriminate.
Qed.

(** ---- close_once / no panic: over all schedules ---- *)
Lemma run_inv1 cfg tr : forall s r, inv1 s -> run cfg s tr = Some r -> exists s', r = Ok s' /\ inv1 s'.
Proof.
  induction tr as [|e tr IH]; intros s r I H; cbn in H.
  - inversion H; subst. eauto.
  - destruct (step cfg s e) as [o|] eqn:Es; [|discriminate].
    destruct (step_inv1 _ _ _ _ I Es) as [s' [-> [I' _]]]. eapply IH; eauto.
Qed.

Lemma init_inv1 alloc oldest init t0 : inv1 (init_sys (fst (pbl_new alloc oldest init)) t0).
Proof. split; [apply pbl_new_inv|constructor]. Qed.

(** ---- reachable states ---- *)
Definition reachable (cfg : config) (alloc : loc -> Z -> bool) (oldest : N) (init : list bstate) (t0 : N)
  (s : sys) : Prop :=
  exists tr, run cfg (init_sys (fst (pbl_new alloc oldest init)) t0) tr = Some (Ok s).

Lemma reachable_inv1 cfg alloc oldest init t0 s : reachable cfg alloc oldest init t0 s -> inv1 s.
Proof.
  intros [tr H]. destruct (run_inv1 _ _ _ _ (init_inv1 alloc oldest init t0) H) as [s' [E I]].
  inversion E; subst. exact I.
Qed.

Theorem no_panic_all_schedules cfg alloc oldest init t0 tr :
  run cfg (init_sys (fst (pbl_new alloc oldest init)) t0) tr <> Some Panic.
Proof.
  intros H. destruct (run_inv1 _ _ _ _ (init_inv1 alloc oldest init t0) H) as [s' [E _]]. discriminate.
Qed.

Theorem wakeup_put_reach cfg alloc oldest init t0 s : reachable cfg alloc oldest init t0 s ->
  (synchronizedEpochs (s_pbl s) < length (epochSeeds (s_pbl s)) -> put_chan_closed (s_pbl s) = true) /\
  (synchronizedEpochs (s_pbl s) = length (epochSeeds (s_pbl s)) -> put_chan_closed (s_pbl s) = false).
Proof.
  intros R. destruct (reachable_inv1 _ _ _ _ _ _ R) as [I _].
  split; [apply inv_wakeup_put|apply inv_put_open]; exact I.
Qed.

Theorem wakeup_release_reach cfg alloc oldest init t0 s : reachable cfg alloc oldest init t0 s ->
  (toRelease (s_pbl s) <> [] -> release_chan_closed (s_pbl s) = true) /\
  (toRelease (s_pbl s) = [] -> release_chan_closed (s_pbl s) = false).
Proof.
  intros R. destruct (reachable_inv1 _ _ _ _ _ _ R) as [I _].
  split; [apply inv_wakeup_release|apply inv_release_open]; exact I.
Qed.

Theorem close_once_reach cfg alloc oldest init t0 s : reachable cfg alloc oldest init t0 s ->
  NoDup (ch_closed (heap (s_pbl s))).
Proof.
  intros R. destruct (reachable_inv1 _ _ _ _ _ _ R) as [I _]. exact (cw_nodup _ _ _ (i_chan _ I)).
Qed.

(** ---- I2: channels the loops hold are current or already closed ---- *)
Definition r_held_ok (s : sys) : Prop :=
  forall c, s_r s = RWait c ->
    c = get_release_wakeup (s_pbl s) \/ is_closed (heap (s_pbl s)) c = true.
Definition p_held_ok (s : sys) : Prop :=
  forall c, s_p s = PSelect c \/ s_p s = PIdle c ->
    c = get_put_wakeup (s_pbl s) \/ is_closed (heap (s_pbl s)) c = true.
Definition inv2 (s : sys) : Prop := r_held_ok s /\ p_held_ok s.

Lemma r_held_mono s s' : chan_mono (s_pbl s) (s_pbl s') -> s_r s' = s_r s -> r_held_ok s -> r_held_ok s'.
Proof.
  intros [_ [Hc [_ Hr]]] E H c Hc'. rewrite E in Hc'. destruct (H c Hc') as [->|Hcl].
  - destruct Hr as [Hr|Hr]; [left; symmetry; exact Hr|right; exact Hr].
  - right. apply Hc. exact Hcl.
Qed.

Lemma p_held_mono s s' : chan_mono (s_pbl s) (s_pbl s') -> s_p s' = s_p s -> p_held_ok s -> p_held_ok s'.
Proof.
  intros [_ [Hc [Hp _]]] E H c Hc'. rewrite E in Hc'. destruct (H c Hc') as [->|Hcl].
  - destruct Hp as [Hp|Hp]; [left; symmetry; exact Hp|right; exact Hp].
  - right. apply Hc. exact Hcl.
Qed.

Lemma rstep_frame cfg a s s' : inv1 s -> rstep cfg a s = Some (Ok s') -> s_p s' = s_p s.
Proof.
  intros II. unfold rstep. destruct (s_r s) as [|ch|w].
  - intros H; inversion H; reflexivity.
  - destruct (is_closed _ _); [|discriminate]. intros H; inversion H; reflexivity.
  - destruct (wstep cfg TR w a s) as [o|] eqn:Ew; [|discriminate].
    destruct (wstep_inv1 _ _ _ _ _ _ II Ew) as [s1 [w' [-> [_ [_ [_ [Hp _]]]]]]].
    destruct w'; intros H; inversion H; subst; cbn; exact Hp.
Qed.

Lemma pstep_frame cfg a s s' : inv1 s -> pstep cfg a s = Some (Ok s') -> s_r s' = s_r s.
Proof.
  intros II. unfold pstep.
  destruct (s_p s) as [|ch|ch|dl|keep|keep final|keep final|keep final dl|keep w|];
    try (intros H; inversion H; reflexivity).
  - destruct (is_closed _ _); intros H; inversion H; reflexivity.
  - destruct (s_cancel s && _); [|destruct (is_closed _ _); [|discriminate]]; intros H; inversion H; reflexivity.
  - destruct (s_cancel s && _); [|destruct (_ && _)%bool; [|discriminate]]; intros H; inversion H; reflexivity.
  - destruct (a_ok a); intros H; inversion H; reflexivity.
  - destruct (negb keep && negb final); intros H; inversion H; reflexivity.
  - destruct (_ <=? _)%N; [|discriminate]. intros H; inversion H; reflexivity.
  - destruct (wstep cfg TP w a s) as [o|] eqn:Ew; [|discriminate].
    destruct (wstep_inv1 _ _ _ _ _ _ II Ew) as [s1 [w' [-> [_ [_ [Hr _]]]]]].
    destruct w'; intros H; inversion H; subst; cbn; exact Hr.
Qed.

Lemma env_frame cfg s e s' : (forall t a, e <> EStep t a) -> step cfg s e = Some (Ok s') ->
  s_r s' = s_r s /\ s_p s' = s_p s.
Proof.
  intros Hne. destruct e as [alloc| |index size|k blk seed|d| |t a]; cbn [step].
  - intros H; inversion H; auto.
  - destruct (blocks _); [discriminate|]. destruct (pop_front _); [|discriminate]. intros H; inversion H; auto.
  - destruct (_ || _); [|discriminate]. destruct (put_start _ _); [|discriminate]. intros H; inversion H; auto.
  - destruct (nth_error _ _) as [[[tok sz]|]|]; try discriminate.
    destruct (put_finalize _ _ _ _ _) as [[p' fr]|]; [|discriminate]. intros H; inversion H; auto.
  - intros H; inversion H; auto.
  - intros H; inversion H; auto.
  - exfalso. eapply Hne. reflexivity.
Qed.

Lemma rstep_held cfg a s s' : rstep cfg a s = Some (Ok s') -> r_held_ok s'.
Proof.
  unfold rstep, r_held_ok. destruct (s_r s) as [|ch|w].
  - intros H; inversion H; subst. cbn. intros c Hc. inversion Hc; subst. left. reflexivity.
  - destruct (is_closed _ _); [|discriminate]. intros H; inversion H; subst. cbn. intros c Hc. discriminate.
  - destruct (wstep cfg TR w a s) as [[[s1 [w'|]]|]|]; try discriminate;
      intros H; inversion H; subst; cbn; intros c Hc; discriminate.
Qed.

Lemma pstep_held cfg a s s' : inv1 s -> p_held_ok s -> pstep cfg a s = Some (Ok s') -> p_held_ok s'.
Proof.
  intros II Hh. unfold pstep, p_held_ok.
  destruct (s_p s) as [|ch|ch|dl|keep|keep final|keep final|keep final dl|keep w|] eqn:Ep.
  - intros H; inversion H; subst. cbn. intros c [Hc|Hc]; inversion Hc; subst. left. reflexivity.
  - destruct (is_closed _ _); intros H; inversion H; subst; cbn; intros c [Hc|Hc]; inversion Hc; subst.
    apply Hh. left. exact Ep.
  - destruct (s_cancel s && _); [|destruct (is_closed _ _); [|discriminate]];
      intros H; inversion H; subst; cbn; intros c [Hc|Hc]; discriminate.
  - destruct (s_cancel s && _); [|destruct (_ && _)%bool; [|discriminate]];
      intros H; inversion H; subst; cbn; intros c [Hc|Hc]; discriminate.
  - intros H; inversion H; subst; cbn; intros c [Hc|Hc]; discriminate.
  - destruct (a_ok a); intros H; inversion H; subst; cbn; intros c [Hc|Hc]; discriminate.
  - destruct (negb keep && negb final); intros H; inversion H; subst; cbn; intros c [Hc|Hc]; discriminate.
  - destruct (_ <=? _)%N; [|discriminate]. intros H; inversion H; subst; cbn; intros c [Hc|Hc]; discriminate.
  - destruct (wstep cfg TP w a s) as [[[s1 [w'|]]|]|]; try discriminate;
      intros H; inversion H; subst; cbn; try (intros c [Hc|Hc]; discriminate).
    destruct keep; intros c [Hc|Hc]; discriminate.
  - discriminate.
Qed.

Lemma step_inv2 cfg s e s' : inv1 s -> inv2 s -> step cfg s e = Some (Ok s') -> inv2 s'.
Proof.
  intros II [Hr Hp] Hs.
  destruct (step_inv1 _ _ _ _ II Hs) as [s1 [E [_ M]]]. inversion E; subst s1.
  destruct e as [alloc| |index size|k blk seed|d| |t a].
  1-6: (match type of Hs with step _ _ ?e = _ =>
          assert (forall t a, e <> EStep t a) as Hne by (intros t0 a0 H0; discriminate H0) end;
        destruct (env_frame cfg s _ s' Hne Hs) as [Er Ep];
        split; [eapply r_held_mono|eapply p_held_mono]; eauto).
  destruct t; cbn [step] in Hs.
  - split; [eapply rstep_held; eauto|].
    eapply p_held_mono; eauto. eapply rstep_frame; eauto.
  - split; [|eapply pstep_held; eauto].
    eapply r_held_mono; eauto. eapply pstep_frame; eauto.
Qed.

Lemma init_inv2 p t0 : inv2 (init_sys p t0).
Proof. split; intros c H; cbn in H; [discriminate|destruct H; discriminate]. Qed.

Lemma run_inv12 cfg tr : forall s s', inv1 s -> inv2 s -> run cfg s tr = Some (Ok s') -> inv1 s' /\ inv2 s'.
Proof.
  induction tr as [|e tr IH]; intros s s' I1 I2 H; cbn in H.
  - inversion H; subst. auto.
  - destruct (step cfg s e) as [[s1|]|] eqn:Es; try discriminate.
    destruct (step_inv1 _ _ _ _ I1 Es) as [s2 [E [I1' _]]]. inversion E; subst s2.
    exact (IH s1 s' I1' (step_inv2 _ _ _ _ I1 I2 Es) H).
Qed.

(** A loop never waits on an open channel while work is pending. *)
Theorem no_missed_wakeup_reach cfg alloc oldest init t0 s : reachable cfg alloc oldest init t0 s ->
  (forall c, s_r s = RWait c -> c <> get_release_wakeup (s_pbl s) -> is_closed (heap (s_pbl s)) c = true) /\
  (forall c, s_p s = PSelect c \/ s_p s = PIdle c -> c <> get_put_wakeup (s_pbl s) ->
             is_closed (heap (s_pbl s)) c = true) /\
  (forall c, s_r s = RWait c -> toRelease (s_pbl s) <> [] -> is_closed (heap (s_pbl s)) c = true) /\
  (forall c, s_p s = PSelect c \/ s_p s = PIdle c ->
             synchronizedEpochs (s_pbl s) < length (epochSeeds (s_pbl s)) ->
             is_closed (heap (s_pbl s)) c = true).
Proof.
  intros [tr H].
  destruct (run_inv12 _ _ _ _ (init_inv1 alloc oldest init t0) (init_inv2 _ t0) H) as [[I U] [Hr Hp]].
  splits.
  - intros c Hc Hne. destruct (Hr c Hc); [congruence|assumption].
  - intros c Hc Hne. destruct (Hp c Hc); [congruence|assumption].
  - intros c Hc Hw. destruct (Hr c Hc) as [->|]; [|assumption]. apply (inv_wakeup_release _ I Hw).
  - intros c Hc Hw. destruct (Hp c Hc) as [->|]; [|assumption]. apply (inv_wakeup_put _ I Hw).
Qed.

(** ---- I4: the minimum epoch interval between sync schedule times ---- *)
Fixpoint gaps_ok (i t0 : N) (l : list N) : Prop :=
  match l with
  | [] => True
  | x :: r => (hd t0 r + i <= x)%N /\ gaps_ok i t0 r
  end.

Definition inv4 (cfg : config) (t0 : N) (s : sys) : Prop :=
  (s_last s <= s_now s)%N /\ s_last s = hd t0 (s_sched s) /\ gaps_ok (c_interval cfg) t0 (s_sched s)
  /\ (forall dl, s_p s = PTimer dl -> (s_last s + c_interval cfg <= dl)%N).

Lemma env_frame_t cfg s e s' : (forall t a, e <> EStep t a) -> step cfg s e = Some (Ok s') ->
  s_last s' = s_last s /\ s_sched s' = s_sched s /\ (s_now s <= s_now s')%N.
Proof.
  intros Hne. destruct e as [alloc| |index size|k blk seed|d| |t a]; cbn [step].
  - intros H; inversion H; cbn; splits; auto; lia.
  - destruct (blocks _); [discriminate|]. destruct (pop_front _); [|discriminate].
    intros H; inversion H; cbn; splits; auto; lia.
  - destruct (_ || _); [|discriminate]. destruct (put_start _ _); [|discriminate].
    intros H; inversion H; cbn; splits; auto; lia.
  - destruct (nth_error _ _) as [[[tok sz]|]|]; try discriminate.
    destruct (put_finalize _ _ _ _ _) as [[p' fr]|]; [|discriminate].
    intros H; inversion H; cbn; splits; auto; lia.
  - intros H; inversion H; cbn; splits; auto; lia.
  - intros H; inversion H; cbn; splits; auto; lia.
  - exfalso. eapply Hne. reflexivity.
Qed.

Lemma rstep_frame_t cfg a s s' : inv1 s -> rstep cfg a s = Some (Ok s') ->
  s_last s' = s_last s /\ s_sched s' = s_sched s /\ s_now s' = s_now s.
Proof.
  intros II. unfold rstep. destruct (s_r s) as [|ch|w].
  - intros H; inversion H; auto.
  - destruct (is_closed _ _); [|discriminate]. intros H; inversion H; auto.
  - destruct (wstep cfg TR w a s) as [o|] eqn:Ew; [|discriminate].
    destruct (wstep_inv1 _ _ _ _ _ _ II Ew) as [s1 [w' [-> [_ [_ [_ [_ [Hn [Hl [Hs _]]]]]]]]]].
    destruct w'; intros H; inversion H; subst; cbn; auto.
Qed.

Lemma step_inv4 cfg t0 s e s' : inv1 s -> inv4 cfg t0 s -> step cfg s e = Some (Ok s') -> inv4 cfg t0 s'.
Proof.
  intros II [H1 [H2 [H3 H4]]] Hs.
  destruct e as [alloc| |index size|k blk seed|d| |t a].
  1-6: (match type of Hs with step _ _ ?e = _ =>
          assert (forall t a, e <> EStep t a) as Hne by (intros t1 a0 H0; discriminate H0) end;
        destruct (env_frame cfg s _ s' Hne Hs) as [Er Ep];
        destruct (env_frame_t cfg s _ s' Hne Hs) as [El [Esch En]];
        unfold inv4; rewrite El, Esch, Ep; splits; auto; lia).
  destruct t; cbn [step] in Hs.
  - destruct (rstep_frame_t _ _ _ _ II Hs) as [El [Esch En]].
    pose proof (rstep_frame _ _ _ _ II Hs) as Ep.
    unfold inv4. rewrite El, Esch, Ep, En. splits; auto.
  - unfold pstep in Hs.
    destruct (s_p s) as [|ch|ch|dl|keep|keep final|keep final|keep final dl|keep w|] eqn:Epc.
    + inversion Hs; subst. unfold inv4. cbn. splits; auto. intros dl Hd; discriminate.
    + destruct (is_closed _ _); inversion Hs; subst; unfold inv4; cbn; splits; auto.
      * intros dl Hd. inversion Hd; subst. lia.
      * intros dl Hd; discriminate.
    + destruct (s_cancel s && _); [|destruct (is_closed _ _); [|discriminate]];
        inversion Hs; subst; unfold inv4; cbn; splits; auto.
      * intros dl Hd; discriminate.
      * intros dl Hd. inversion Hd; subst. lia.
    + specialize (H4 dl eq_refl).
      destruct (s_cancel s && _).
      * inversion Hs; subst; unfold inv4; cbn; splits; auto. intros dl' Hd; discriminate.
      * destruct ((dl <=? a_time a)%N && (a_time a <=? s_now s)%N) eqn:Et; [|discriminate].
        apply andb_true_iff in Et. destruct Et as [Et1 Et2].
        apply N.leb_le in Et1. apply N.leb_le in Et2.
        inversion Hs; subst; unfold inv4; cbn; splits; auto.
        -- rewrite <- H2. lia.
        -- intros dl' Hd; discriminate.
    + inversion Hs; subst. unfold inv4. cbn. splits; auto. intros dl Hd; discriminate.
    + destruct (a_ok a); inversion Hs; subst; unfold inv4; cbn; splits; auto; intros dl Hd; discriminate.
    + destruct (negb keep && negb final); inversion Hs; subst; unfold inv4; cbn; splits; auto;
        intros dl Hd; discriminate.
    + destruct (_ <=? _)%N; [|discriminate]. inversion Hs; subst. unfold inv4. cbn. splits; auto.
      intros dl' Hd; discriminate.
    + destruct (wstep cfg TP w a s) as [o|] eqn:Ew; [|discriminate].
      destruct (wstep_inv1 _ _ _ _ _ _ II Ew) as [s1 [w' [-> [_ [_ [_ [_ [Hn [Hl [Hsc _]]]]]]]]]].
      destruct w'; inversion Hs; subst; unfold inv4; cbn; rewrite Hl, Hsc, Hn; splits; auto;
        intros dl Hd; try discriminate. destruct keep; discriminate.
    + discriminate.
Qed.

Lemma init_inv4 cfg p t0 : inv4 cfg t0 (init_sys p t0).
Proof. unfold inv4. cbn. splits; auto; try lia. intros dl H; discriminate. Qed.

Lemma run_inv14 cfg t0 tr : forall s s', inv1 s -> inv4 cfg t0 s -> run cfg s tr = Some (Ok s') -> inv4 cfg t0 s'.
Proof.
  induction tr as [|e tr IH]; intros s s' I1 I4 H; cbn in H.
  - inversion H; subst. auto.
  - destruct (step cfg s e) as [[s1|]|] eqn:Es; try discriminate.
    destruct (step_inv1 _ _ _ _ I1 Es) as [s2 [E [I1' _]]]. inversion E; subst s2.
    exact (IH s1 s' I1' (step_inv4 _ _ _ _ _ I1 I4 Es) H).
Qed.

(** Consecutive sync schedule times (the timer expiries stored in
    lastSynchronizationTime while running) are at least the minimum epoch
    interval apart, the first one at least one interval after construction. *)
Theorem min_interval_reach cfg alloc oldest init t0 s : reachable cfg alloc oldest init t0 s ->
  gaps_ok (c_interval cfg) t0 (s_sched s).
Proof.
  intros [tr H].
  destruct (run_inv14 _ t0 _ _ _ (init_inv1 alloc oldest init t0) (init_inv4 cfg _ t0) H) as [_ [_ [G _]]].
  exact G.
Qed.

(** ---- I3: storeLock is held exactly by the loop that is between
    GetPersistentState and the end of writePersistentState ---- *)
Definition holds (w : wpc) : bool :=
  match w with WGetState | WWriting _ | WWritten => true | _ => false end.
Definition r_holds (s : sys) : bool := match s_r s with RW w => holds w | _ => false end.
Definition p_holds (s : sys) : bool := match s_p s with PW _ w => holds w | _ => false end.
Definition inv3 (s : sys) : Prop :=
  s_store s = (if r_holds s then Some TR else if p_holds s then Some TP else None)
  /\ r_holds s && p_holds s = false.

Lemma env_frame_store cfg s e s' : (forall t a, e <> EStep t a) -> step cfg s e = Some (Ok s') ->
  s_store s' = s_store s.
Proof.
  intros Hne. destruct e as [alloc| |index size|k blk seed|d| |t a]; cbn [step].
  - intros H; inversion H; auto.
  - destruct (blocks _); [discriminate|]. destruct (pop_front _); [|discriminate]. intros H; inversion H; auto.
  - destruct (_ || _); [|discriminate]. destruct (put_start _ _); [|discriminate]. intros H; inversion H; auto.
  - destruct (nth_error _ _) as [[[tok sz]|]|]; try discriminate.
    destruct (put_finalize _ _ _ _ _) as [[p' fr]|]; [|discriminate]. intros H; inversion H; auto.
  - intros H; inversion H; auto.
  - intros H; inversion H; auto.
  - exfalso. eapply Hne. reflexivity.
Qed.

Ltac fin3 :=
  unfold inv3, r_holds, p_holds in *; cbn in *;
  repeat match goal with
         | H : s_r _ = _ |- _ => rewrite H in *; clear H
         | H : s_p _ = _ |- _ => rewrite H in *; clear H
         end; cbn in *;
  repeat match goal with
         | |- context [match s_r ?s with _ => _ end] => destruct (s_r s) as [| |[]]; cbn in *
         | |- context [match s_p ?s with _ => _ end] => destruct (s_p s) as [| | | | | | | |? []|]; cbn in *
         | H : context [match s_r ?s with _ => _ end] |- _ => destruct (s_r s) as [| |[]]; cbn in *
         | H : context [match s_p ?s with _ => _ end] |- _ => destruct (s_p s) as [| | | | | | | |? []|]; cbn in *
         end;
  try (intuition congruence).

Lemma wstep_store cfg me w a s s1 w' : wstep cfg me w a s = Some (Ok (s1, w')) ->
  s_r s1 = s_r s /\ s_p s1 = s_p s /\
  match w with
  | WAcquire => s_store s = None /\ s_store s1 = Some me /\ w' = Some WGetState
  | WGetState => s_store s1 = s_store s /\ exists st, w' = Some (WWriting st)
  | WWriting _ => (s_store s1 = s_store s /\ w' = Some WWritten) \/ (s_store s1 = None /\ exists dl, w' = Some (WSleep dl))
  | WWritten => s_store s1 = None /\ w' = None
  | WSleep _ => s_store s1 = s_store s /\ w' = Some WAcquire
  end.
Proof.
  unfold wstep. destruct w.
  - destruct (s_store s) eqn:E; [discriminate|]. intros H; inversion H; subst. cbn. auto.
  - destruct (get_persistent_state _) as [[p' st]|]; [|discriminate]. intros H; inversion H; subst. cbn. eauto.
  - destruct (a_ok a); intros H; inversion H; subst; cbn; splits; auto.
    right; split; [reflexivity|eexists; reflexivity].
  - destruct (notify_state_written _); [|discriminate]. intros H; inversion H; subst. cbn. auto.
  - destruct (_ <=? _)%N; [|discriminate]. intros H; inversion H; subst. auto.
Qed.

Lemma step_inv3 cfg s e s' : inv3 s -> step cfg s e = Some (Ok s') -> inv3 s'.
Proof.
  intros I3 Hs.
  destruct e as [alloc| |index size|k blk seed|d| |t a].
  1-6: (match type of Hs with step _ _ ?e = _ =>
          assert (forall t a, e <> EStep t a) as Hne by (intros t1 a0 H0; discriminate H0) end;
        destruct (env_frame cfg s _ s' Hne Hs) as [Er Ep];
        pose proof (env_frame_store cfg s _ s' Hne Hs) as Est;
        unfold inv3, r_holds, p_holds in *; rewrite Er, Ep, Est; exact I3).
  destruct t; cbn [step] in Hs.
  - unfold rstep in Hs. destruct (s_r s) as [|ch|w] eqn:Er.
    + inversion Hs; subst. fin3.
    + destruct (is_closed _ _); [|discriminate]. inversion Hs; subst. fin3.
    + destruct (wstep cfg TR w a s) as [[[s1 w']|]|] eqn:Ew; try discriminate.
      destruct (wstep_store _ _ _ _ _ _ _ Ew) as [Hr [Hp Hw]].
      destruct w; cbn in Hw.
      * destruct Hw as [H1 [H2 ->]]. inversion Hs; subst. clear Hs Ew. fin3.
      * destruct Hw as [H1 [st ->]]. inversion Hs; subst. clear Hs Ew. fin3.
      * destruct Hw as [[H1 ->]|[H1 [dl ->]]]; inversion Hs; subst; clear Hs Ew; fin3.
      * destruct Hw as [H1 ->]. inversion Hs; subst. clear Hs Ew. fin3.
      * destruct Hw as [H1 ->]. inversion Hs; subst. clear Hs Ew. fin3.
  - unfold pstep in Hs.
    destruct (s_p s) as [|ch|ch|dl|keep|keep final|keep final|keep final dl|keep w|] eqn:Ep.
    + inversion Hs; subst. fin3.
    + destruct (is_closed _ _); inversion Hs; subst; fin3.
    + destruct (s_cancel s && _); [|destruct (is_closed _ _); [|discriminate]]; inversion Hs; subst; fin3.
    + destruct (s_cancel s && _); [|destruct (_ && _)%bool; [|discriminate]]; inversion Hs; subst; fin3.
    + inversion Hs; subst. fin3.
    + destruct (a_ok a); inversion Hs; subst; fin3.
    + destruct (negb keep && negb final); inversion Hs; subst; fin3.
    + destruct (_ <=? _)%N; [|discriminate]. inversion Hs; subst. fin3.
    + destruct (wstep cfg TP w a s) as [[[s1 w']|]|] eqn:Ew; try discriminate.
      destruct (wstep_store _ _ _ _ _ _ _ Ew) as [Hr [Hp Hw]].
      destruct w; cbn in Hw.
      * destruct Hw as [H1 [H2 ->]]. inversion Hs; subst. clear Hs Ew. fin3.
      * destruct Hw as [H1 [st ->]]. inversion Hs; subst. clear Hs Ew. fin3.
      * destruct Hw as [[H1 ->]|[H1 [dl ->]]]; inversion Hs; subst; clear Hs Ew; fin3.
      * destruct Hw as [H1 ->]. inversion Hs; subst. clear Hs Ew. destruct keep; fin3.
      * destruct Hw as [H1 ->]. inversion Hs; subst. clear Hs Ew. fin3.
    + discriminate.
Qed.

Lemma init_inv3 p t0 : inv3 (init_sys p t0).
Proof. unfold inv3. cbn. auto. Qed.

Lemma run_inv_all cfg t0 tr : forall s s',
  inv1 s -> inv2 s -> inv3 s -> inv4 cfg t0 s -> run cfg s tr = Some (Ok s') ->
  inv1 s' /\ inv2 s' /\ inv3 s' /\ inv4 cfg t0 s'.
Proof.
  induction tr as [|e tr IH]; intros s s' I1 I2 I3 I4 H; cbn in H.
  - inversion H; subst. auto.
  - destruct (step cfg s e) as [[s1|]|] eqn:Es; try discriminate.
    destruct (step_inv1 _ _ _ _ I1 Es) as [s2 [E [I1' _]]]. inversion E; subst s2.
    exact (IH s1 s' I1' (step_inv2 _ _ _ _ I1 I2 Es) (step_inv3 _ _ _ _ I3 Es)
              (step_inv4 _ _ _ _ _ I1 I4 Es) H).
Qed.

Lemma reachable_inv_all cfg alloc oldest init t0 s : reachable cfg alloc oldest init t0 s ->
  inv1 s /\ inv2 s /\ inv3 s /\ inv4 cfg t0 s.
Proof.
  intros [tr H].
  exact (run_inv_all cfg t0 tr _ _ (init_inv1 alloc oldest init t0) (init_inv2 _ t0) (init_inv3 _ t0)
                     (init_inv4 cfg _ t0) H).
Qed.

(** ---- no stall: a loop with pending work is never stuck ---- *)
(** The release loop can take a step on its own, or waits for its I/O call to
    return, or sleeps after a failed write (retry), or waits for storeLock
    while the put loop holds it — and then the put loop is inside
    writePersistentState and is itself runnable or waiting for its I/O call
    (never for a timer). *)
Definition r_progress (cfg : config) (s : sys) : Prop :=
  r_internal cfg s = true \/ r_in_io s = true \/ r_in_timer s = true \/
  (s_r s = RW WAcquire /\ s_store s = Some TP /\ (p_in_io s = true \/ p_internal cfg s = true)).

Definition p_progress (cfg : config) (s : sys) : Prop :=
  p_internal cfg s = true \/ p_in_io s = true \/ p_in_timer s = true \/ s_p s = PExit \/
  (exists k, s_p s = PW k WAcquire /\ s_store s = Some TR /\ (r_in_io s = true \/ r_internal cfg s = true)).

Lemma holder_enabled_p cfg s : inv1 s -> p_holds s = true -> p_in_io s = true \/ p_internal cfg s = true.
Proof.
  intros [I _] H. unfold p_holds in H. destruct (s_p s) as [| | | | | | | |k w|] eqn:Ep; try discriminate.
  unfold p_internal, p_in_io, p_in_timer, enabled. rewrite Ep. cbn [step]. unfold pstep. rewrite Ep.
  destruct w; try discriminate; cbn.
  - right. destruct (get_persistent_state_inv _ I) as [p' [st [Hg _]]]. rewrite Hg. reflexivity.
  - left. reflexivity.
  - right. destruct (notify_state_written_inv _ I) as [p' [Hn _]]. rewrite Hn. destruct k; reflexivity.
Qed.

Lemma holder_enabled_r cfg s : inv1 s -> r_holds s = true -> r_in_io s = true \/ r_internal cfg s = true.
Proof.
  intros [I _] H. unfold r_holds in H. destruct (s_r s) as [| |w] eqn:Er; try discriminate.
  unfold r_internal, r_in_io, r_in_timer, enabled. rewrite Er. cbn [step]. unfold rstep. rewrite Er.
  destruct w; try discriminate; cbn.
  - right. destruct (get_persistent_state_inv _ I) as [p' [st [Hg _]]]. rewrite Hg. reflexivity.
  - left. reflexivity.
  - right. destruct (notify_state_written_inv _ I) as [p' [Hn _]]. rewrite Hn. reflexivity.
Qed.

Theorem release_progress_reach cfg alloc oldest init t0 s : reachable cfg alloc oldest init t0 s ->
  toRelease (s_pbl s) <> [] -> r_progress cfg s.
Proof.
  intros R Hw. pose proof (no_missed_wakeup_reach _ _ _ _ _ _ R) as [_ [_ [Hc _]]].
  destruct (reachable_inv_all _ _ _ _ _ _ R) as [I1 [_ [[I3a I3b] _]]].
  unfold r_progress. destruct (s_r s) as [|c|w] eqn:Er.
  - left. unfold r_internal, r_in_io, r_in_timer, enabled. cbn [step]. unfold rstep. rewrite Er. reflexivity.
  - left. unfold r_internal, r_in_io, r_in_timer, enabled. cbn [step]. unfold rstep. rewrite Er.
    rewrite (Hc c eq_refl Hw). reflexivity.
  - destruct w.
    + destruct (s_store s) as [t|] eqn:Est.
      * right. right. right. unfold r_holds in *. rewrite Er in *. cbn in *.
        destruct (p_holds s) eqn:Hp; [|discriminate]. inversion I3a; subst.
        splits; auto. apply holder_enabled_p; assumption.
      * left. unfold r_internal, r_in_io, r_in_timer, enabled. cbn [step]. unfold rstep. rewrite Er.
        cbn. rewrite Est. reflexivity.
    + destruct (holder_enabled_r cfg s I1) as [H|H]; [unfold r_holds; rewrite Er; reflexivity| |]; auto.
    + right. left. unfold r_in_io. rewrite Er. reflexivity.
    + destruct (holder_enabled_r cfg s I1) as [H|H]; [unfold r_holds; rewrite Er; reflexivity| |]; auto.
    + right. right. left. unfold r_in_timer. rewrite Er. reflexivity.
Qed.

Theorem put_progress_reach cfg alloc oldest init t0 s : reachable cfg alloc oldest init t0 s ->
  synchronizedEpochs (s_pbl s) < length (epochSeeds (s_pbl s)) -> p_progress cfg s.
Proof.
  intros R Hw. pose proof (no_missed_wakeup_reach _ _ _ _ _ _ R) as [_ [_ [_ Hc]]].
  destruct (reachable_inv_all _ _ _ _ _ _ R) as [I1 [_ [[I3a I3b] _]]].
  unfold p_progress.
  destruct (s_p s) as [|ch|ch|dl|keep|keep final|keep final|keep final dl|keep w|] eqn:Ep.
  - left. unfold p_internal, p_in_io, p_in_timer, enabled. rewrite Ep. cbn [step]. unfold pstep. rewrite Ep. reflexivity.
  - left. unfold p_internal, p_in_io, p_in_timer, enabled. rewrite Ep. cbn [step]. unfold pstep. rewrite Ep.
    destruct (is_closed _ _); reflexivity.
  - left. unfold p_internal, p_in_io, p_in_timer, enabled. rewrite Ep. cbn [step]. unfold pstep. rewrite Ep.
    rewrite (Hc ch (or_intror eq_refl) Hw). cbn. destruct (s_cancel s && _); reflexivity.
  - right. right. left. unfold p_in_timer. rewrite Ep. reflexivity.
  - left. unfold p_internal, p_in_io, p_in_timer, enabled. rewrite Ep. cbn [step]. unfold pstep. rewrite Ep. reflexivity.
  - right. left. unfold p_in_io. rewrite Ep. reflexivity.
  - left. unfold p_internal, p_in_io, p_in_timer, enabled. rewrite Ep. cbn [step]. unfold pstep. rewrite Ep.
    destruct (negb keep && negb final); reflexivity.
  - right. right. left. unfold p_in_timer. rewrite Ep. reflexivity.
  - destruct w.
    + destruct (s_store s) as [t|] eqn:Est.
      * right. right. right. right. exists keep. unfold p_holds in *. rewrite Ep in *. cbn in *.
        destruct (r_holds s) eqn:Hr.
        -- inversion I3a; subst. splits; auto. apply holder_enabled_r; assumption.
        -- discriminate.
      * left. unfold p_internal, p_in_io, p_in_timer, enabled. rewrite Ep. cbn [step]. unfold pstep. rewrite Ep.
        cbn. rewrite Est. reflexivity.
    + destruct (holder_enabled_p cfg s I1) as [H|H]; [unfold p_holds; rewrite Ep; reflexivity| |]; auto.
    + right. left. unfold p_in_io. rewrite Ep. reflexivity.
    + destruct (holder_enabled_p cfg s I1) as [H|H]; [unfold p_holds; rewrite Ep; reflexivity| |]; auto.
    + right. right. left. unfold p_in_timer. rewrite Ep. reflexivity.
  - right. right. right. left. reflexivity.
Qed.

(** The release loop's step function does not mention minimumEpochInterval. *)
Theorem release_independent_of_interval cfg cfg' a s :
  c_retry cfg = c_retry cfg' -> rstep cfg a s = rstep cfg' a s.
Proof.
  intros E. unfold rstep. destruct (s_r s) as [| |w]; try reflexivity.
  unfold wstep. destruct w; try reflexivity. rewrite E. reflexivity.
Qed.

(** ---- failures are followed by a retry ---- *)
Theorem failed_write_is_retried cfg s st t :
  s_r s = RW (WWriting st) ->
  exists s1, step cfg s (EStep TR (mkAns false t)) = Some (Ok s1)
    /\ s_r s1 = RW (WSleep (s_now s + c_retry cfg)) /\ s_store s1 = None /\ s_pbl s1 = s_pbl s
    /\ (forall s2 a, step cfg s1 (EStep TR a) = Some (Ok s2) -> s_r s2 = RW WAcquire).
Proof.
  intros Er. cbn [step]. unfold rstep. rewrite Er. cbn. eexists. split; [reflexivity|]. cbn.
  splits; auto. intros s2 a. unfold rstep. cbn.
  destruct (_ <=? _)%N; [|discriminate]. intros H; inversion H; reflexivity.
Qed.

Theorem failed_sync_is_retried cfg s keep final t :
  s_p s = PSyncing keep final ->
  exists s1, step cfg s (EStep TP (mkAns false t)) = Some (Ok s1)
    /\ s_p s1 = PSyncSleep keep final (s_now s + c_retry cfg) /\ s_pbl s1 = s_pbl s
    /\ (forall s2 a, step cfg s1 (EStep TP a) = Some (Ok s2) -> s_p s2 = PSyncing keep final).
Proof.
  intros Ep. cbn [step]. unfold pstep. rewrite Ep. cbn. eexists. split; [reflexivity|]. cbn.
  splits; auto. intros s2 a. unfold pstep. cbn.
  destruct (_ <=? _)%N; [|discriminate]. intros H; inversion H; reflexivity.
Qed.

(** ---- ranking on the program counters (per commit cycle) ---- *)
Definition w_dist (w : wpc) : nat :=
  match w with WWritten => 1 | WWriting _ => 2 | WGetState => 3 | WAcquire => 4 | WSleep _ => 5 end.
Definition r_dist (s : sys) : nat :=
  match s_r s with RStart => 6 | RWait _ => 5 | RW w => w_dist w end.
Definition p_dist (s : sys) : nat :=
  match s_p s with
  | PExit => 0
  | PW _ w => w_dist w
  | PSyncRet k f => if negb k && negb f then 8 else 5
  | PSyncing k f => if negb k && negb f then 9 else 6
  | PSyncSleep k f _ => if negb k && negb f then 10 else 7
  | PNotify k => if k then 7 else 10
  | PTimer _ => 11
  | PIdle _ => 12
  | PSelect _ => 13
  | PStart => 14
  end.

(** the step is the failure of an I/O call *)
Definition r_fails (s : sys) (a : ans) : bool := r_in_io s && negb (a_ok a).
Definition p_fails (s : sys) (a : ans) : bool := p_in_io s && negb (a_ok a).

Lemma r_rank_step cfg s a s' : inv1 s -> step cfg s (EStep TR a) = Some (Ok s') ->
  if r_fails s a then r_dist s' <= r_dist s + 3
  else r_dist s' < r_dist s \/
       (s_r s = RW WWritten /\ s_r s' = RStart /\
        releasedLog (s_pbl s') = releasedLog (s_pbl s) ++ firstn (releasing (s_pbl s)) (toRelease (s_pbl s))).
Proof.
  intros [I _]. cbn [step]. unfold rstep, r_fails, r_in_io, r_dist. destruct (s_r s) as [|c|w] eqn:Er.
  - intros H; inversion H; subst. cbn. lia.
  - destruct (is_closed _ _); [|discriminate]. intros H; inversion H; subst. cbn. lia.
  - destruct w; cbn [wstep w_io].
    + destruct (s_store s); [discriminate|]. intros H; inversion H; subst. cbn. lia.
    + destruct (get_persistent_state _) as [[p' st]|]; [|discriminate]. intros H; inversion H; subst. cbn. lia.
    + destruct (a_ok a); intros H; inversion H; subst; cbn; lia.
    + destruct (notify_state_written_inv _ I) as [p' [Hn [_ [Hl _]]]]. rewrite Hn.
      intros H; inversion H; subst. cbn. right. splits; auto.
    + destruct (_ <=? _)%N; [|discriminate]. intros H; inversion H; subst. cbn. lia.
Qed.

Lemma p_rank_step cfg s a s' : inv1 s -> step cfg s (EStep TP a) = Some (Ok s') ->
  if p_fails s a then p_dist s' <= p_dist s + 3
  else p_dist s' < p_dist s \/
       (exists k, s_p s = PW k WWritten /\ s_p s' = (if k then PStart else PExit) /\
        releasedLog (s_pbl s') = releasedLog (s_pbl s) ++ firstn (releasing (s_pbl s)) (toRelease (s_pbl s))).
Proof.
  intros [I _]. cbn [step]. unfold pstep, p_fails, p_in_io, p_dist.
  destruct (s_p s) as [|ch|ch|dl|keep|keep final|keep final|keep final dl|keep w|] eqn:Ep.
  - intros H; inversion H; subst. cbn. lia.
  - destruct (is_closed _ _); intros H; inversion H; subst; cbn; lia.
  - destruct (s_cancel s && _); [|destruct (is_closed _ _); [|discriminate]];
      intros H; inversion H; subst; cbn; lia.
  - destruct (s_cancel s && _); [|destruct (_ && _)%bool; [|discriminate]];
      intros H; inversion H; subst; cbn; lia.
  - intros H; inversion H; subst. cbn. destruct keep; cbn; lia.
  - destruct (a_ok a); intros H; inversion H; subst; cbn; destruct keep, final; cbn; lia.
  - destruct keep, final; cbn; intros H; inversion H; subst; cbn; lia.
  - destruct (_ <=? _)%N; [|discriminate]. intros H; inversion H; subst. cbn.
    destruct keep, final; cbn; lia.
  - destruct w; cbn [wstep w_io].
    + destruct (s_store s); [discriminate|]. intros H; inversion H; subst. cbn. lia.
    + destruct (get_persistent_state _) as [[p' st]|]; [|discriminate]. intros H; inversion H; subst. cbn. lia.
    + destruct (a_ok a); intros H; inversion H; subst; cbn; lia.
    + destruct (notify_state_written_inv _ I) as [p' [Hn [_ [Hl _]]]]. rewrite Hn.
      intros H; inversion H; subst. cbn. right. exists keep. splits; auto.
    + destruct (_ <=? _)%N; [|discriminate]. intros H; inversion H; subst. cbn. lia.
  - discriminate.
Qed.

(** steps of the other threads leave a loop's rank unchanged *)
Lemma r_rank_frame cfg s e s' : inv1 s -> (forall a, e <> EStep TR a) -> step cfg s e = Some (Ok s') ->
  r_dist s' = r_dist s.
Proof.
  intros II Hne Hs. unfold r_dist. destruct e as [alloc| |index size|k blk seed|d| |t a].
  1-6: (match type of Hs with step _ _ ?e = _ =>
          assert (forall t a, e <> EStep t a) as Hne' by (intros t1 a0 H0; discriminate H0) end;
        destruct (env_frame cfg s _ s' Hne' Hs) as [Er _]; rewrite Er; reflexivity).
  destruct t; [exfalso; eapply Hne; reflexivity|]. cbn [step] in Hs.
  rewrite (pstep_frame _ _ _ _ II Hs). reflexivity.
Qed.

Lemma p_rank_frame cfg s e s' : inv1 s -> (forall a, e <> EStep TP a) -> step cfg s e = Some (Ok s') ->
  p_dist s' = p_dist s.
Proof.
  intros II Hne Hs. unfold p_dist. destruct e as [alloc| |index size|k blk seed|d| |t a].
  1-6: (match type of Hs with step _ _ ?e = _ =>
          assert (forall t a, e <> EStep t a) as Hne' by (intros t1 a0 H0; discriminate H0) end;
        destruct (env_frame cfg s _ s' Hne' Hs) as [_ Ep]; rewrite Ep; reflexivity).
  destruct t; [|exfalso; eapply Hne; reflexivity]. cbn [step] in Hs.
  rewrite (rstep_frame _ _ _ _ II Hs). reflexivity.
Qed.

Theorem release_rank_reach cfg alloc oldest init t0 s : reachable cfg alloc oldest init t0 s ->
  (forall a s', step cfg s (EStep TR a) = Some (Ok s') ->
     if r_fails s a then r_dist s' <= r_dist s + 3
     else r_dist s' < r_dist s \/
          (s_r s = RW WWritten /\ s_r s' = RStart /\
           releasedLog (s_pbl s') = releasedLog (s_pbl s) ++ firstn (releasing (s_pbl s)) (toRelease (s_pbl s))))
  /\ (forall e s', (forall a, e <> EStep TR a) -> step cfg s e = Some (Ok s') -> r_dist s' = r_dist s).
Proof.
  intros R. pose proof (reachable_inv1 _ _ _ _ _ _ R) as II. split.
  - intros a s'. apply r_rank_step. exact II.
  - intros e s'. apply r_rank_frame. exact II.
Qed.

Theorem put_rank_reach cfg alloc oldest init t0 s : reachable cfg alloc oldest init t0 s ->
  (forall a s', step cfg s (EStep TP a) = Some (Ok s') ->
     if p_fails s a then p_dist s' <= p_dist s + 3
     else p_dist s' < p_dist s \/
          (exists k, s_p s = PW k WWritten /\ s_p s' = (if k then PStart else PExit) /\
           releasedLog (s_pbl s') = releasedLog (s_pbl s) ++ firstn (releasing (s_pbl s)) (toRelease (s_pbl s))))
  /\ (forall e s', (forall a, e <> EStep TP a) -> step cfg s e = Some (Ok s') -> p_dist s' = p_dist s).
Proof.
  intros R. pose proof (reachable_inv1 _ _ _ _ _ _ R) as II. split.
  - intros a s'. apply p_rank_step. exact II.
  - intros e s'. apply p_rank_frame. exact II.
Qed.
