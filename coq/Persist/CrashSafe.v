(** Persist/CrashSafe.v — crash safety of the first life, assembled from
    CrashEpochProofs (durability chain), CrashAllocProofs (same region after
    the restart), CrashOffsetsProofs (restored write offsets cover) and
    CrashReuseProofs (no later surviving write of another upload). *)
From Coq Require Import List NArith ZArith Bool Arith Lia.
From BBS Require Import Persist.PBL Persist.Syncer Persist.Crash Persist.CrashLts.
From BBS Require Persist.CrashEpochProofs Persist.CrashAllocProofs Persist.CrashOffsetsProofs Persist.CrashReuseProofs.
Import ListNotations.

Theorem crash_safe_thm : forall g cfg t0 c, length (g_locs g) < 65536 -> NoDup (g_locs g) ->
  creach g cfg medium_empty t0 c ->
  forall n ch slot r i, resolves g (crash_of medium_empty c n ch) slot r i ->
  exists up l b,
    (* the record designates the allocation of a completed upload of its key *)
    nth_error (cs_ups c) (r_up r) = Some up /\ up_key up = r_key r /\ up_off up = r_off r /\
    up_size up = r_size r /\ up_state up = UpFin true /\ up_issued up = up_size up /\
    (* every data write of that upload was durable at the crash point *)
    (forall q l' lo hi, nth_error (cs_log c) q = Some (IoData (r_up r) l' lo hi) ->
       q < durable_upto (firstn n (cs_log c))) /\
    (* the restarted list resolves it to the region the upload was allocated in, below the restored write offset *)
    nth_error (blocks (fst (restart (geom g) (m_state (crash_of medium_empty c n ch))))) i = Some b /\
    b_loc b = l /\ nth_error (cs_locs c) (up_abs up) = Some l /\
    (0 <= r_off r)%Z /\ (0 <= r_size r)%Z /\ (r_off r + r_size r <= b_written b)%Z /\
    (* and on the post-crash data device those bytes are exactly what that upload wrote *)
    (forall z, (r_off r <= z < r_off r + r_size r)%Z ->
       byte_owner (m_data (crash_of medium_empty c n ch)) l z None = Some (r_up r)).
Proof.
  intros g cfg t0 c Hg Hnd R n ch slot r i Hres.
  destruct (CrashEpochProofs.crash_safe_durable g cfg t0 c R n ch slot r i Hres)
    as (up & U1 & U2 & U3 & U4 & U5 & U6 & U7).
  destruct (CrashReuseProofs.crash_safe_bytes g cfg t0 c Hg Hnd R n ch slot r i Hres)
    as (up' & l & V1 & V2 & V3 & V4).
  rewrite U1 in V1. inversion V1; subst up'.
  destruct (CrashOffsetsProofs.restored_offsets_cover g cfg t0 c Hg R n ch slot r i Hres)
    as (b & B1 & B2 & B3 & B4).
  exists up, l, b. unfold block_loc in V2. rewrite B1 in V2. inversion V2.
  subst l. repeat split; auto.
  all: try (intros; eauto).
Qed.
Print Assumptions crash_safe_thm.
