(** Persist/Syncer.v — pkg/blobstore/local/periodic_syncer.go: the two
    [PeriodicSyncer] loops as thread programs over [PBL] calls, and the
    labelled transition system that combines them with upload finalizers,
    block releases (PopFront), PushBack, the virtual clock and shutdown, as
    wired in pkg/blobstore/configuration/new_blob_access.go:

      go func() { for { periodicSyncer.ProcessBlockRelease() } }()           (thread TR)
      for periodicSyncer.ProcessBlockPut(ctx) {}                             (thread TP)

    Definitions only.  Atomic steps (DESIGN 3.4): one section protected by
    [sourceLock] (one or two PBL calls, exactly as the code groups them), the
    completion of one I/O call (DataSyncer / WritePersistentState) with
    success or failure, one timer expiry, one channel wait / select becoming
    enabled, the acquisition of [storeLock].  [storeLock] is held across I/O
    and is therefore explicit state. *)
From Coq Require Import List NArith ZArith Bool Arith Lia.
From BBS Require Import Persist.PBL.
Import ListNotations.

Record config := mkConfig {
  c_interval : N;      (* minimumEpochInterval *)
  c_retry : N          (* errorRetryInterval *)
}.

Inductive tid := TR | TP.
Definition tid_eqb (a b : tid) : bool :=
  match a, b with TR, TR => true | TP, TP => true | _, _ => false end.

(** Program counter inside writePersistentStateRetrying(). *)
Inductive wpc :=
| WAcquire                    (* about to ps.storeLock.Lock() *)
| WGetState                   (* holds storeLock; about to RLock, GetPersistentState, call the store *)
| WWriting (st : pstate)      (* store.WritePersistentState(st) in flight, storeLock held *)
| WWritten                    (* it returned nil; about to Lock, NotifyPersistentStateWritten; unlock *)
| WSleep (deadline : N).      (* it failed; storeLock released; logErrorAndSleep timer *)

(** ProcessBlockRelease in a loop. *)
Inductive rpc :=
| RStart                      (* about to RLock, GetBlockReleaseWakeup *)
| RWait (ch : nat)            (* <-ch *)
| RW (w : wpc).

(** ProcessBlockPut in a loop. *)
Inductive ppc :=
| PStart                      (* about to RLock, GetBlockPutWakeup *)
| PSelect (ch : nat)          (* outer select { case <-ch: ...; default: ... } *)
| PIdle (ch : nat)            (* inner select { case <-ctx.Done(); case <-ch } *)
| PTimer (deadline : N)       (* select { case <-ctx.Done(); case last = <-t } *)
| PNotify (keep : bool)       (* about to Lock, NotifySyncStarting(false), Unlock, call dataSyncer *)
| PSyncing (keep final : bool)        (* dataSyncer() in flight *)
| PSyncRet (keep final : bool)        (* it returned nil; about to Lock, NotifySyncCompleted ... *)
| PSyncSleep (keep final : bool) (deadline : N)   (* it failed; logErrorAndSleep timer *)
| PW (keep : bool) (w : wpc)
| PExit.                      (* ProcessBlockPut returned false *)

(** What the environment answers to a thread step: the result of the I/O
    call that completes / which ready case a Go select picks when two are
    ready ([a_ok = true]: success resp. ctx.Done()), and the time value the
    timer delivers. *)
Record ans := mkAns { a_ok : bool; a_time : N }.

(** A completed (nil-returning) WritePersistentState call, with ghost
    information used by the theorems. *)
Record wrec := mkWrec {
  w_by : tid;
  w_state : pstate;
  w_released_upto : nat       (* number of Release()d blocks this write allows in total *)
}.

Record sys := mkSys {
  s_pbl : pbl;
  s_now : N;                  (* virtual clock *)
  s_last : N;                 (* ps.lastSynchronizationTime *)
  s_cancel : bool;            (* ctx cancelled *)
  s_store : option tid;       (* holder of ps.storeLock *)
  s_r : rpc;
  s_p : ppc;
  s_uploads : list (option (put_token * Z));   (* Put calls whose finalizer has not run yet *)
  (* ghost history *)
  s_sched : list N;           (* sync schedule times (timer expiries stored in s_last), newest first *)
  s_writes : list wrec        (* completed state writes, newest first *)
}.

Definition with_pbl (s : sys) (p : pbl) : sys :=
  mkSys p (s_now s) (s_last s) (s_cancel s) (s_store s) (s_r s) (s_p s) (s_uploads s) (s_sched s) (s_writes s).
Definition with_now (s : sys) (n : N) : sys :=
  mkSys (s_pbl s) n (s_last s) (s_cancel s) (s_store s) (s_r s) (s_p s) (s_uploads s) (s_sched s) (s_writes s).
Definition with_fire (s : sys) (t : N) : sys :=
  mkSys (s_pbl s) (s_now s) t (s_cancel s) (s_store s) (s_r s) (s_p s) (s_uploads s) (t :: s_sched s) (s_writes s).
Definition with_cancel (s : sys) : sys :=
  mkSys (s_pbl s) (s_now s) (s_last s) true (s_store s) (s_r s) (s_p s) (s_uploads s) (s_sched s) (s_writes s).
Definition with_store (s : sys) (o : option tid) : sys :=
  mkSys (s_pbl s) (s_now s) (s_last s) (s_cancel s) o (s_r s) (s_p s) (s_uploads s) (s_sched s) (s_writes s).
Definition with_r (s : sys) (r : rpc) : sys :=
  mkSys (s_pbl s) (s_now s) (s_last s) (s_cancel s) (s_store s) r (s_p s) (s_uploads s) (s_sched s) (s_writes s).
Definition with_p (s : sys) (p : ppc) : sys :=
  mkSys (s_pbl s) (s_now s) (s_last s) (s_cancel s) (s_store s) (s_r s) p (s_uploads s) (s_sched s) (s_writes s).
Definition with_uploads (s : sys) (u : list (option (put_token * Z))) : sys :=
  mkSys (s_pbl s) (s_now s) (s_last s) (s_cancel s) (s_store s) (s_r s) (s_p s) u (s_sched s) (s_writes s).
Definition with_write (s : sys) (w : wrec) : sys :=
  mkSys (s_pbl s) (s_now s) (s_last s) (s_cancel s) (s_store s) (s_r s) (s_p s) (s_uploads s) (s_sched s) (w :: s_writes s).

(** NewPeriodicSyncer: lastSynchronizationTime = clock.Now(). *)
Definition init_sys (p : pbl) (t0 : N) : sys :=
  mkSys p t0 t0 false None RStart PStart [] [] [].

(** ---- writePersistentStateRetrying, one atomic step ----
    Result: [None] = not enabled; otherwise the new system state and the
    next program counter ([None] = the function returned). *)
Definition wstep (cfg : config) (me : tid) (w : wpc) (a : ans) (s : sys)
  : option (outcome (sys * option wpc)) :=
  match w with
  | WAcquire =>
      match s_store s with
      | None => Some (Ok (with_store s (Some me), Some WGetState))
      | Some _ => None
      end
  | WGetState =>
      match get_persistent_state (s_pbl s) with
      | Panic => Some Panic
      | Ok (p', st) => Some (Ok (with_pbl s p', Some (WWriting st)))
      end
  | WWriting st =>
      if a_ok a then
        Some (Ok (with_write s (mkWrec me st (length (releasedLog (s_pbl s)) + releasing (s_pbl s))),
                  Some WWritten))
      else Some (Ok (with_store s None, Some (WSleep (s_now s + c_retry cfg))))
  | WWritten =>
      match notify_state_written (s_pbl s) with
      | Panic => Some Panic
      | Ok p' => Some (Ok (with_store (with_pbl s p') None, None))
      end
  | WSleep dl =>
      if (dl <=? s_now s)%N then Some (Ok (s, Some WAcquire)) else None
  end.

(** ---- one atomic step of the release loop ---- *)
Definition rstep (cfg : config) (a : ans) (s : sys) : option (outcome sys) :=
  match s_r s with
  | RStart => Some (Ok (with_r s (RWait (get_release_wakeup (s_pbl s)))))
  | RWait ch =>
      if is_closed (heap (s_pbl s)) ch then Some (Ok (with_r s (RW WAcquire))) else None
  | RW w =>
      match wstep cfg TR w a s with
      | None => None
      | Some Panic => Some Panic
      | Some (Ok (s', Some w')) => Some (Ok (with_r s' (RW w')))
      | Some (Ok (s', None)) => Some (Ok (with_r s' RStart))
      end
  end.

(** ---- one atomic step of the put loop ---- *)
Definition pstep (cfg : config) (a : ans) (s : sys) : option (outcome sys) :=
  match s_p s with
  | PStart => Some (Ok (with_p s (PSelect (get_put_wakeup (s_pbl s)))))
  | PSelect ch =>
      if is_closed (heap (s_pbl s)) ch
      then (* NewTimer(last + interval - now): expires at last + interval *)
           Some (Ok (with_p s (PTimer (s_last s + c_interval cfg))))
      else Some (Ok (with_p s (PIdle ch)))
  | PIdle ch =>
      let cready := s_cancel s in
      let hready := is_closed (heap (s_pbl s)) ch in
      if cready && (a_ok a || negb hready) then Some (Ok (with_p s (PNotify false)))
      else if hready then Some (Ok (with_p s (PTimer (s_now s + c_interval cfg))))
      else None
  | PTimer dl =>
      let cready := s_cancel s in
      let tready := ((dl <=? a_time a) && (a_time a <=? s_now s))%N in
      if cready && (a_ok a || negb tready) then Some (Ok (with_p s (PNotify false)))
      else if tready then Some (Ok (with_p (with_fire s (a_time a)) (PNotify true)))
      else None
  | PNotify keep =>
      Some (Ok (with_p (with_pbl s (notify_sync_starting false (s_pbl s))) (PSyncing keep false)))
  | PSyncing keep final =>
      if a_ok a then Some (Ok (with_p s (PSyncRet keep final)))
      else Some (Ok (with_p s (PSyncSleep keep final (s_now s + c_retry cfg))))
  | PSyncSleep keep final dl =>
      if (dl <=? s_now s)%N then Some (Ok (with_p s (PSyncing keep final))) else None
  | PSyncRet keep final =>
      let p1 := notify_sync_completed (s_pbl s) in
      if negb keep && negb final
      then Some (Ok (with_p (with_pbl s (notify_sync_starting true p1)) (PSyncing false true)))
      else Some (Ok (with_p (with_pbl s p1) (PW keep WAcquire)))
  | PW keep w =>
      match wstep cfg TP w a s with
      | None => None
      | Some Panic => Some Panic
      | Some (Ok (s', Some w')) => Some (Ok (with_p s' (PW keep w')))
      | Some (Ok (s', None)) => Some (Ok (with_p s' (if keep then PStart else PExit)))
      end
  | PExit => None
  end.

(** ---- the combined LTS ---- *)
Inductive event :=
| EPushBack (alloc : option loc)
| EPopFront
| EPutStart (index : nat) (sizeBytes : Z)
| EFinalize (k : nat) (blk : option Z) (seed : N)
| ETick (d : N)
| ECancel
| EStep (t : tid) (a : ans).

Fixpoint clear_nth {A} (l : list (option A)) (k : nat) : list (option A) :=
  match l, k with
  | [], _ => []
  | _ :: r, O => None :: r
  | x :: r, S k' => x :: clear_nth r k'
  end.

(** Caller contract of the BlockList interface (OldCurrentNewLocationBlobMap
    honours it): PopFront only on a non-empty list, Put only on an existing
    block index.  Events violating it are not enabled. *)
Definition step (cfg : config) (s : sys) (e : event) : option (outcome sys) :=
  match e with
  | EPushBack alloc => Some (Ok (with_pbl s (fst (push_back alloc (s_pbl s)))))
  | EPopFront =>
      match blocks (s_pbl s) with
      | [] => None
      | _ => match pop_front (s_pbl s) with
             | Panic => Some Panic
             | Ok p' => Some (Ok (with_pbl s p'))
             end
      end
  | EPutStart index size =>
      if closedForWriting (s_pbl s) || (index <? length (blocks (s_pbl s))) then
        match put_start index (s_pbl s) with
        | Panic => Some Panic
        | Ok tok => Some (Ok (with_uploads s (s_uploads s ++ [Some (tok, size)])))
        end
      else None
  | EFinalize k blk seed =>
      match nth_error (s_uploads s) k with
      | Some (Some (tok, size)) =>
          match put_finalize tok blk size seed (s_pbl s) with
          | Panic => Some Panic
          | Ok (p', _) => Some (Ok (with_uploads (with_pbl s p') (clear_nth (s_uploads s) k)))
          end
      | _ => None
      end
  | ETick d => Some (Ok (with_now s (s_now s + d)))
  | ECancel => Some (Ok (with_cancel s))
  | EStep TR a => rstep cfg a s
  | EStep TP a => pstep cfg a s
  end.

(** A schedule is an event list; [run] is total: [None] when a scheduled
    thread is not enabled, [Some Panic] when a step panics. *)
Fixpoint run (cfg : config) (s : sys) (tr : list event) : option (outcome sys) :=
  match tr with
  | [] => Some (Ok s)
  | e :: tr' =>
      match step cfg s e with
      | None => None
      | Some Panic => Some Panic
      | Some (Ok s') => run cfg s' tr'
      end
  end.

(** ---- classification of steps, used by the theorems ---- *)
(** The next step of a thread waits for the environment (I/O completion or a
    timer) rather than for another thread. *)
Definition w_io (w : wpc) : bool := match w with WWriting _ => true | _ => false end.
Definition w_timer (w : wpc) : bool := match w with WSleep _ => true | _ => false end.

Definition r_in_io (s : sys) : bool := match s_r s with RW w => w_io w | _ => false end.
Definition r_in_timer (s : sys) : bool := match s_r s with RW w => w_timer w | _ => false end.
Definition p_in_io (s : sys) : bool :=
  match s_p s with PSyncing _ _ => true | PW _ w => w_io w | _ => false end.
Definition p_in_timer (s : sys) : bool :=
  match s_p s with PTimer _ | PSyncSleep _ _ _ => true | PW _ w => w_timer w | _ => false end.

Definition enabled (cfg : config) (s : sys) (t : tid) (a : ans) : bool :=
  match step cfg s (EStep t a) with Some _ => true | None => false end.

(** Internal steps: enabled without any answer from the environment (neither
    an I/O completion nor a timer expiry). *)
Definition r_internal (cfg : config) (s : sys) : bool :=
  negb (r_in_io s) && negb (r_in_timer s) && enabled cfg s TR (mkAns true 0).
Definition p_internal (cfg : config) (s : sys) : bool :=
  match s_p s with
  | PTimer _ => s_cancel s     (* ctx.Done() is ready: no timer expiry needed *)
  | _ => negb (p_in_io s) && negb (p_in_timer s) && enabled cfg s TP (mkAns true 0)
  end.
