(** Proofs for property C03 (see Props/C03.v for the statements). *)
From Coq Require Import List NArith ZArith Bool Arith Lia.
From BBS Require Import Persist.PBL Persist.PBLProofs Persist.Syncer Persist.SyncerProofs Persist.Shutdown Persist.ShutdownArith.
Import ListNotations.

(** ---- the epoch layout: epochLast is determined by the blocks' epoch counts ---- *)
Fixpoint elayout (base : nat) (bs : list binfo) : list nat :=
  match bs with
  | [] => []
  | b :: r => repeat base (b_epochs b) ++ elayout (S base) r
  end.

Lemma elayout_length base bs : length (elayout base bs) = total_epoch_count bs.
Proof.
  revert base. induction bs as [|b r IH]; intros base; cbn; [reflexivity|].
  rewrite app_length, repeat_length, IH. unfold total_epoch_count. cbn. reflexivity.
Qed.

Lemma elayout_app base a b : elayout base (a ++ b) = elayout base a ++ elayout (base + length a) b.
Proof.
  revert base. induction a as [|x a IH]; intros base; cbn.
  - rewrite Nat.add_0_r. reflexivity.
  - rewrite IH, <- app_assoc. replace (base + S (length a)) with (S base + length a) by lia. reflexivity.
Qed.

Lemma elayout_ext base a b : map b_epochs a = map b_epochs b -> elayout base a = elayout base b.
Proof.
  revert base b. induction a as [|x a IH]; intros base [|y b] H; cbn in *; try discriminate; [reflexivity|].
  inversion H. rewrite H1. f_equal. apply IH. assumption.
Qed.

Lemma elayout_range base bs i l : nth_error (elayout base bs) i = Some l -> base <= l < base + length bs.
Proof.
  revert base i. induction bs as [|b r IH]; intros base i H; cbn in H.
  - destruct i; discriminate.
  - destruct (Nat.lt_ge_cases i (b_epochs b)) as [Hlt|Hge].
    + rewrite nth_error_app1 in H by (rewrite repeat_length; exact Hlt).
      apply nth_error_In, repeat_spec in H. subst. cbn. lia.
    + rewrite nth_error_app2 in H by (rewrite repeat_length; exact Hge).
      apply IH in H. cbn. lia.
Qed.

Lemma set_written_epochs_map bs i w : map b_epochs (set_written bs i w) = map b_epochs bs.
Proof.
  revert i. induction bs as [|b r IH]; intros [|i]; cbn; auto.
  - destruct (b_written b <? w)%Z; reflexivity.
  - rewrite IH. reflexivity.
Qed.

Lemma bump_length bs : length (bump_last_epoch_count bs) = length bs.
Proof.
  induction bs as [|b r IH]; [reflexivity|]. destruct r as [|b' r']; [reflexivity|].
  change (bump_last_epoch_count (b :: b' :: r')) with (b :: bump_last_epoch_count (b' :: r')).
  cbn [length]. rewrite IH. reflexivity.
Qed.

Lemma elayout_bump base bs : bs <> [] ->
  elayout base (bump_last_epoch_count bs) = elayout base bs ++ [base + length bs - 1].
Proof.
  revert base. induction bs as [|b r IH]; intros base Hne; [congruence|].
  destruct r as [|b' r'].
  - cbn. rewrite !app_nil_r. replace (base + 1 - 1) with base by lia.
    change (base :: repeat base (b_epochs b)) with (repeat base (S (b_epochs b))).
    rewrite <- repeat_cons. reflexivity.
  - change (bump_last_epoch_count (b :: b' :: r')) with (b :: bump_last_epoch_count (b' :: r')).
    cbn [elayout]. rewrite IH by congruence. rewrite app_assoc. f_equal. f_equal. cbn [length]. lia.
Qed.

(** what set_written / bump do to the block at a given index *)
Lemma set_written_nth bs i w j b : nth_error bs j = Some b ->
  exists b', nth_error (set_written bs i w) j = Some b' /\ (b_written b <= b_written b')%Z
    /\ b_syncing b' = b_syncing b /\ b_synced b' = b_synced b /\ b_loc b' = b_loc b
    /\ (j = i -> (w <= b_written b')%Z).
Proof.
  revert i j. induction bs as [|x r IH]; intros i j H; [destruct j; discriminate|].
  destruct i as [|i], j as [|j]; cbn in *.
  - inversion H; subst. destruct (Z.ltb_spec (b_written b) w); eexists; (split; [reflexivity|]); cbn; splits; auto; lia.
  - eexists; split; [exact H|]. splits; auto; try lia; try discriminate.
  - inversion H; subst. eexists; split; [reflexivity|]. splits; auto; try lia; try discriminate.
  - destruct (IH i j H) as [b' [H1 [H2 [H3 [H4 [H5 H6]]]]]]. eexists; split; [exact H1|]. splits; auto.
Qed.

Lemma bump_nth bs j b : nth_error bs j = Some b ->
  exists b', nth_error (bump_last_epoch_count bs) j = Some b' /\ b_written b' = b_written b
    /\ b_syncing b' = b_syncing b /\ b_synced b' = b_synced b /\ b_loc b' = b_loc b.
Proof.
  revert j. induction bs as [|x r IH]; intros j H; [destruct j; discriminate|].
  destruct r as [|y r'].
  - destruct j as [|j]; [|destruct j; discriminate]. cbn in *. inversion H; subst.
    eexists; split; [reflexivity|]. cbn. splits; auto.
  - change (bump_last_epoch_count (x :: y :: r')) with (x :: bump_last_epoch_count (y :: r')).
    destruct j as [|j]; cbn in *.
    + inversion H; subst. eexists; split; [reflexivity|]. splits; auto.
    + apply IH. exact H.
Qed.

(** ---- the ghost invariant at the level of the block list ---- *)
Definition evicted (p : pbl) (a : ack) : Prop := a_abs a < totalReleased p.
Definition pos (g : gp) (a : ack) : nat := a_ep a - g_pe g.

Record ack_live (p : pbl) (g : gp) (a : ack) : Prop := mkAckLive {
  al_ge : totalReleased p <= a_abs a;
  al_ep : g_pe g <= a_ep a;
  al_seed : nth_error (epochSeeds p) (pos g a) = Some (a_seed a);
  al_last : nth_error (epochLast p) (pos g a) = Some (a_last a);
  al_le : a_abs a <= a_last a;
  al_blk : exists b, nth_error (blocks p) (a_abs a - totalReleased p) = Some b /\ (a_end a <= b_written b)%Z
}.
Definition ack_ok (p : pbl) (g : gp) (a : ack) : Prop := evicted p a \/ ack_live p g a.
Definition ack_syncing (p : pbl) (g : gp) (a : ack) : Prop :=
  evicted p a \/ (pos g a < synchronizingEpochs p /\
                  exists b, nth_error (blocks p) (a_abs a - totalReleased p) = Some b /\ (a_end a <= b_syncing b)%Z).
Definition ack_synced (p : pbl) (g : gp) (a : ack) : Prop :=
  evicted p a \/ (pos g a < synchronizedEpochs p /\
                  exists b, nth_error (blocks p) (a_abs a - totalReleased p) = Some b /\ (a_end a <= b_synced b)%Z).
Definition ack_static (oldest0 : N) (a : ack) : Prop :=
  a_ref a = (u32 (oldest0 + N.of_nat (a_ep a)), u16z (Z.of_nat (a_last a) - Z.of_nat (a_abs a))).

Record ginv (oldest0 : N) (p : pbl) (g : gp) : Prop := mkGinv {
  gi_el : epochLast p = elayout (totalReleased p) (blocks p);
  gi_old : oldestEpochID p = u32 (oldest0 + N.of_nat (g_pe g));
  gi_acks : Forall (ack_ok p g) (g_acks g);
  gi_static : Forall (ack_static oldest0) (g_acks g);
  gi_syncing : Forall (ack_syncing p g) (g_syncing g);
  gi_synced : Forall (ack_synced p g) (g_synced g);
  gi_sub1 : incl (g_syncing g) (g_acks g);
  gi_sub2 : incl (g_synced g) (g_acks g)
}.

Lemma Forall_incl {A} (P : A -> Prop) l l' : incl l' l -> Forall P l -> Forall P l'.
Proof. intros Hi F. rewrite Forall_forall in *. auto. Qed.

(** ---- PushBack ---- *)
Lemma push_back_ginv o alloc p g : ginv o p g -> ginv o (fst (push_back alloc p)) g.
Proof.
  intros G. unfold push_back. destruct (closedForWriting p); [exact G|]. destruct alloc as [l|]; [|exact G].
  destruct G. cbn. constructor; cbn; auto.
  - rewrite elayout_app. cbn. rewrite app_nil_r. exact gi_el0.
  - eapply Forall_impl; [|exact gi_acks0]. intros a [E|L]; [left; exact E|right].
    destruct L. constructor; cbn; auto. destruct al_blk0 as [b [H1 H2]]. exists b. split; [|exact H2].
    rewrite nth_error_app1; [exact H1|]. apply nth_error_Some. congruence.
  - eapply Forall_impl; [|exact gi_syncing0]. intros a [E|[L [b [H1 H2]]]]; [left; exact E|right]. cbn.
    split; [exact L|]. exists b. split; [|exact H2]. rewrite nth_error_app1; [exact H1|]. apply nth_error_Some. congruence.
  - eapply Forall_impl; [|exact gi_synced0]. intros a [E|[L [b [H1 H2]]]]; [left; exact E|right]. cbn.
    split; [exact L|]. exists b. split; [|exact H2]. rewrite nth_error_app1; [exact H1|]. apply nth_error_Some. congruence.
Qed.

(** ---- PopFront ---- *)
Lemma pop_front_shape p p' b rest : blocks p = b :: rest -> pop_front p = Ok p' ->
  blocks p' = rest /\ epochSeeds p' = skipn (b_epochs b) (epochSeeds p)
  /\ epochLast p' = skipn (b_epochs b) (epochLast p) /\ totalReleased p' = S (totalReleased p)
  /\ oldestEpochID p' = u32 (oldestEpochID p + N.of_nat (b_epochs b))
  /\ synchronizingEpochs p' = synchronizingEpochs p - b_epochs b
  /\ synchronizedEpochs p' = synchronizedEpochs p - b_epochs b
  /\ closedForWriting p' = closedForWriting p.
Proof.
  intros Eb. unfold pop_front. rewrite Eb.
  destruct (nc_unblock (releaseWakeup p) (heap p)) as [[rw h1]|]; [|discriminate]. cbn [obind].
  destruct (_ || _); [discriminate|].
  destruct (if _ =? _ then _ else _) as [pw h2].
  intros H; inversion H; subst; clear H. cbn. splits; auto.
  - destruct (Nat.leb_spec (synchronizingEpochs p) (b_epochs b)); lia.
  - destruct (Nat.leb_spec (synchronizedEpochs p) (b_epochs b)); lia.
Qed.

Lemma nth_error_skipn {A} (l : list A) n i : nth_error (skipn n l) i = nth_error l (n + i).
Proof.
  revert l. induction n as [|n IH]; intros l; [reflexivity|]. destruct l; [destruct i; reflexivity|]. cbn. apply IH.
Qed.

Lemma u32_add_l a b : u32 (u32 a + b) = u32 (a + b).
Proof. unfold u32. rewrite N.add_mod_idemp_l; [reflexivity|discriminate]. Qed.

Lemma pop_front_ginv o p g p' b rest : ginv o p g -> blocks p = b :: rest -> pop_front p = Ok p' ->
  ginv o p' (g_pop g (b_epochs b)).
Proof.
  intros G Eb Hp. destruct (pop_front_shape _ _ _ _ Eb Hp) as [Hb [Hs [Hl [Ht [Ho [Hy [Hd _]]]]]]].
  destruct G. set (ec := b_epochs b) in *.
  assert (EL : epochLast p = repeat (totalReleased p) ec ++ elayout (S (totalReleased p)) rest).
  { rewrite gi_el0, Eb. reflexivity. }
  (* a live ack in a later block keeps its place; one in the first block is evicted *)
  assert (Hpos : forall a, ack_live p g a -> totalReleased p < a_abs a -> ec <= pos g a).
  { intros a L Hgt. destruct L. destruct (Nat.lt_ge_cases (pos g a) ec) as [Hlt|]; [|assumption].
    rewrite EL, nth_error_app1 in al_last0 by (rewrite repeat_length; exact Hlt).
    apply nth_error_In, repeat_spec in al_last0. lia. }
  assert (Hblk : forall a, totalReleased p < a_abs a ->
                 nth_error rest (a_abs a - S (totalReleased p)) = nth_error (blocks p) (a_abs a - totalReleased p)).
  { intros a Hgt. rewrite Eb. replace (a_abs a - totalReleased p) with (S (a_abs a - S (totalReleased p))) by lia.
    reflexivity. }
  assert (Hp' : forall a, g_pe g <= a_ep a -> ec <= pos g a -> pos (g_pop g ec) a = pos g a - ec /\ ec + (pos g a - ec) = pos g a).
  { intros a H1 H2. unfold pos in *. cbn. lia. }
  constructor.
  - rewrite Hl, Hb, Ht, EL. rewrite skipn_app, repeat_length, Nat.sub_diag, skipn_all2 by (rewrite repeat_length; lia).
    reflexivity.
  - rewrite Ho, gi_old0, u32_add_l. cbn. f_equal. lia.
  - cbn. eapply Forall_impl; [|exact gi_acks0]. intros a [E|L]; [left; unfold evicted in *; lia|].
    destruct (Nat.eq_dec (a_abs a) (totalReleased p)) as [He|Hne]; [left; unfold evicted; lia|right].
    pose proof L as L0. destruct L. assert (totalReleased p < a_abs a) as Hgt by lia.
    pose proof (Hpos a L0 Hgt) as Hge. destruct (Hp' a al_ep0 Hge) as [Hq1 Hq2].
    constructor.
    + rewrite Ht. lia.
    + cbn. unfold pos in *. lia.
    + rewrite Hs, Hq1, nth_error_skipn, Hq2. exact al_seed0.
    + rewrite Hl, Hq1, nth_error_skipn, Hq2. exact al_last0.
    + exact al_le0.
    + rewrite Hb, Ht, Hblk by exact Hgt. exact al_blk0.
  - exact gi_static0.
  - cbn. rewrite Forall_forall in *. intros a Ha. pose proof (gi_syncing0 a Ha) as [E|[Hlt Hbk]]; [left; unfold evicted in *; lia|].
    destruct (Nat.eq_dec (a_abs a) (totalReleased p)) as [He|Hne]; [left; unfold evicted; lia|].
    destruct (gi_acks0 a (gi_sub3 a Ha)) as [E|L]; [left; unfold evicted in *; lia|right].
    assert (totalReleased p < a_abs a) as Hgt by (destruct L; lia).
    pose proof (Hpos a L Hgt) as Hge. destruct (Hp' a (al_ep _ _ _ L) Hge) as [Hq1 Hq2].
    split; [rewrite Hy, Hq1; lia|]. rewrite Hb, Ht, Hblk by exact Hgt. exact Hbk.
  - cbn. rewrite Forall_forall in *. intros a Ha. pose proof (gi_synced0 a Ha) as [E|[Hlt Hbk]]; [left; unfold evicted in *; lia|].
    destruct (Nat.eq_dec (a_abs a) (totalReleased p)) as [He|Hne]; [left; unfold evicted; lia|].
    destruct (gi_acks0 a (gi_sub4 a Ha)) as [E|L]; [left; unfold evicted in *; lia|right].
    assert (totalReleased p < a_abs a) as Hgt by (destruct L; lia).
    pose proof (Hpos a L Hgt) as Hge. destruct (Hp' a (al_ep _ _ _ L) Hge) as [Hq1 Hq2].
    split; [rewrite Hd, Hq1; lia|]. rewrite Hb, Ht, Hblk by exact Hgt. exact Hbk.
  - exact gi_sub3.
  - exact gi_sub4.
Qed.

(** ---- NotifySyncStarting / NotifySyncCompleted ---- *)
Lemma elayout_map base f bs : (forall b, b_epochs (f b) = b_epochs b) -> elayout base (map f bs) = elayout base bs.
Proof. intros Hf. apply elayout_ext. rewrite map_map. apply map_ext. exact Hf. Qed.

Lemma live_pos_lt p g a : ack_live p g a -> pos g a < length (epochSeeds p).
Proof. intros L. apply nth_error_Some. rewrite (al_seed _ _ _ L). discriminate. Qed.

Lemma notify_sync_starting_ginv o f p g : ginv o p g -> ginv o (notify_sync_starting f p) (g_start g).
Proof.
  intros G. destruct G. constructor; cbn.
  - rewrite elayout_map by reflexivity. exact gi_el0.
  - exact gi_old0.
  - eapply Forall_impl; [|exact gi_acks0]. intros a [E|L]; [left; exact E|right].
    destruct L. constructor; cbn; auto. destruct al_blk0 as [b [H1 H2]].
    eexists. rewrite nth_error_map, H1. split; [reflexivity|exact H2].
  - exact gi_static0.
  - eapply Forall_impl; [|exact gi_acks0]. intros a [E|L]; [left; exact E|right]. cbn.
    change (pos (g_start g) a) with (pos g a).
    split; [apply (live_pos_lt p g a); exact L|].
    destruct L. destruct al_blk0 as [b [H1 H2]]. eexists. rewrite nth_error_map, H1. split; [reflexivity|exact H2].
  - eapply Forall_impl; [|exact gi_synced0]. intros a [E|[L [b [H1 H2]]]]; [left; exact E|right]. cbn.
    split; [exact L|]. eexists. rewrite nth_error_map, H1. split; [reflexivity|exact H2].
  - apply incl_refl.
  - exact gi_sub4.
Qed.

Lemma nsc_shape p : let p' := notify_sync_completed p in
  blocks p' = map (fun b => mkBinfo (b_loc b) (b_written b) (b_syncing b) (b_syncing b) (b_epochs b)) (blocks p)
  /\ epochSeeds p' = epochSeeds p /\ epochLast p' = epochLast p /\ totalReleased p' = totalReleased p
  /\ oldestEpochID p' = oldestEpochID p /\ synchronizingEpochs p' = synchronizingEpochs p
  /\ synchronizedEpochs p' = synchronizingEpochs p /\ closedForWriting p' = closedForWriting p.
Proof.
  unfold notify_sync_completed. destruct (_ =? _); [destruct (nc_block _ _)|]; cbn; splits; reflexivity.
Qed.

Lemma notify_sync_completed_ginv o p g : ginv o p g -> ginv o (notify_sync_completed p) (g_done g).
Proof.
  intros G. destruct (nsc_shape p) as [Hb [Hs [Hl [Ht [Ho [Hy [Hd _]]]]]]]. destruct G. constructor; cbn.
  - rewrite Hl, Ht, Hb, elayout_map by reflexivity. exact gi_el0.
  - rewrite Ho. exact gi_old0.
  - eapply Forall_impl; [|exact gi_acks0]. intros a [E|L]; [left; unfold evicted in *; rewrite Ht; exact E|right].
    destruct L. constructor; rewrite ?Ht, ?Hs, ?Hl; auto. destruct al_blk0 as [b [H1 H2]].
    eexists. rewrite Hb, nth_error_map, H1. split; [reflexivity|exact H2].
  - exact gi_static0.
  - eapply Forall_impl; [|exact gi_syncing0]. intros a [E|[L [b [H1 H2]]]]; [left; unfold evicted in *; rewrite Ht; exact E|right].
    rewrite Hy, Ht. split; [exact L|]. eexists. rewrite Hb, nth_error_map, H1. split; [reflexivity|exact H2].
  - eapply Forall_impl; [|exact gi_syncing0]. intros a [E|[L [b [H1 H2]]]]; [left; unfold evicted in *; rewrite Ht; exact E|right].
    rewrite Hd, Ht. split; [exact L|]. eexists. rewrite Hb, nth_error_map, H1. split; [reflexivity|exact H2].
  - exact gi_sub3.
  - exact gi_sub3.
Qed.

(** methods that touch neither blocks nor epochs *)
Lemma ginv_same o p p' g : ginv o p g ->
  blocks p' = blocks p -> epochSeeds p' = epochSeeds p -> epochLast p' = epochLast p ->
  totalReleased p' = totalReleased p -> oldestEpochID p' = oldestEpochID p ->
  synchronizingEpochs p' = synchronizingEpochs p -> synchronizedEpochs p' = synchronizedEpochs p ->
  ginv o p' g.
Proof.
  intros G Hb Hs Hl Ht Ho Hy Hd. destruct G. constructor; auto.
  - rewrite Hl, Ht, Hb. exact gi_el0.
  - rewrite Ho. exact gi_old0.
  - eapply Forall_impl; [|exact gi_acks0]. intros a [E|L]; [left; unfold evicted in *; rewrite Ht; exact E|right].
    destruct L. constructor; rewrite ?Ht, ?Hs, ?Hl, ?Hb; auto.
  - eapply Forall_impl; [|exact gi_syncing0]. intros a [E|L]; [left; unfold evicted in *; rewrite Ht; exact E|right].
    rewrite Hy, Ht, Hb. exact L.
  - eapply Forall_impl; [|exact gi_synced0]. intros a [E|L]; [left; unfold evicted in *; rewrite Ht; exact E|right].
    rewrite Hd, Ht, Hb. exact L.
Qed.

Lemma gps_ginv o p p' st g : ginv o p g -> get_persistent_state p = Ok (p', st) -> ginv o p' g.
Proof.
  intros G. unfold get_persistent_state. destruct (gps_loop _ _ _ _); [|discriminate]. cbn.
  intros H; inversion H; subst. eapply ginv_same; eauto.
Qed.

Lemma nsw_ginv o p p' g : ginv o p g -> notify_state_written p = Ok p' -> ginv o p' g.
Proof.
  intros G. unfold notify_state_written. destruct (_ <? _); [discriminate|].
  destruct (skipn _ _); [destruct (nc_block _ _)|]; intros H; inversion H; subst; eapply ginv_same; eauto.
Qed.

(** ---- the finalizer ---- *)
Lemma put_finalize_not_ok tok blk size seed p p' fr :
  put_finalize tok blk size seed p = Ok (p', fr) -> (forall off, fr <> FinOk off) -> p' = p.
Proof.
  unfold put_finalize. destruct tok as [|abs]; [intros H; inversion H; reflexivity|].
  destruct blk as [off|]; [|intros H; inversion H; reflexivity].
  destruct (closedForWriting p); [intros H; inversion H; reflexivity|].
  destruct (abs <? totalReleased p); [intros H; inversion H; reflexivity|].
  destruct (length (blocks p) <=? abs - totalReleased p); [discriminate|].
  destruct (if _ =? _ then _ else _) as [[|]|]; cbn [obind]; try discriminate.
  - destruct (nc_unblock _ _) as [[pw h1]|]; cbn [obind]; [|discriminate].
    intros H; inversion H; subst. intros Hn. exfalso. eapply Hn. reflexivity.
  - intros H; inversion H; subst. intros Hn. exfalso. eapply Hn. reflexivity.
Qed.

Lemma put_finalize_closed tok blk size seed p p' fr :
  closedForWriting p = true -> put_finalize tok blk size seed p = Ok (p', fr) ->
  p' = p /\ (fr = FinClosed \/ fr = FinBlockError).
Proof.
  intros Hc. unfold put_finalize. destruct tok as [|abs]; [intros H; inversion H; auto|].
  destruct blk as [off|]; [|intros H; inversion H; auto].
  rewrite Hc. intros H; inversion H; auto.
Qed.

Lemma put_finalize_ok_shape tok blk size seed p p' off :
  put_finalize tok blk size seed p = Ok (p', FinOk off) ->
  exists abs, tok = PutAt abs /\ blk = Some off /\ closedForWriting p = false /\ totalReleased p <= abs
    /\ abs - totalReleased p < length (blocks p)
    /\ totalReleased p' = totalReleased p /\ oldestEpochID p' = oldestEpochID p
    /\ synchronizingEpochs p' = synchronizingEpochs p /\ synchronizedEpochs p' = synchronizedEpochs p
    /\ closedForWriting p' = false
    /\ let bl1 := set_written (blocks p) (abs - totalReleased p) (off + size)%Z in
       ((blocks p' = bump_last_epoch_count bl1 /\ epochSeeds p' = epochSeeds p ++ [seed]
         /\ epochLast p' = epochLast p ++ [totalReleased p + length bl1 - 1])
        \/ (blocks p' = bl1 /\ epochSeeds p' = epochSeeds p /\ epochLast p' = epochLast p
            /\ exists n' la, length (epochLast p) = S n' /\ nth_error (epochLast p) n' = Some la /\ abs <= la)).
Proof.
  unfold put_finalize. destruct tok as [|abs]; [intros HH; inversion HH|].
  destruct blk as [off'|]; [|intros HH; inversion HH].
  destruct (closedForWriting p) eqn:Ec; [intros HH; inversion HH|].
  destruct (Nat.ltb_spec abs (totalReleased p)) as [Hlt|Hge]; [intros HH; inversion HH|].
  destruct (Nat.leb_spec (length (blocks p)) (abs - totalReleased p)) as [Hle|Hgt]; [discriminate|].
  destruct (Nat.eqb_spec (length (epochLast p)) (synchronizingEpochs p)) as [He|Hne].
  - cbn [obind]. destruct (nc_unblock _ _) as [[pw h1]|]; cbn [obind]; [|discriminate].
    intros HH; inversion HH; subst. exists abs. cbn. splits; auto; try (left; splits; auto; fail).
  - destruct (length (epochLast p)) as [|n'] eqn:En; [discriminate|].
    destruct (nth_error (epochLast p) n') as [la|] eqn:Ela; [|discriminate]. cbn [obind].
    destruct (Nat.ltb_spec la abs) as [Hla|Hla].
    + destruct (nc_unblock _ _) as [[pw h1]|]; cbn [obind]; [|discriminate].
      intros HH; inversion HH; subst. exists abs. cbn. splits; auto; try (left; splits; auto; fail).
    + intros HH; inversion HH; subst. exists abs. cbn. splits; auto; try (right; splits; auto; exists n', la; splits; auto; fail).
Qed.

Lemma nth_error_last_app {A} (l : list A) x : nth_error (l ++ [x]) (length l) = Some x.
Proof. rewrite nth_error_app2, Nat.sub_diag by lia. reflexivity. Qed.

Lemma put_finalize_ginv o blk size seed p p' off g abs :
  pbl_inv p -> ginv o p g -> put_finalize (PutAt abs) blk size seed p = Ok (p', FinOk off) ->
  exists a, mk_ack g p' abs (off + size)%Z = Some a /\ ginv o p' (g_with_acks g (a :: g_acks g)).
Proof.
  intros I G Hf. destruct (put_finalize_ok_shape _ _ _ _ _ _ _ Hf)
    as [abs' [Ha [Hblk [Hc [Hge [Hlt [Ht [Ho [Hy [Hd [Hc' Hcase]]]]]]]]]]].
  inversion Ha; subst abs'; clear Ha. cbn zeta in Hcase.
  set (i := abs - totalReleased p) in *. set (w := (off + size)%Z) in *.
  set (bl1 := set_written (blocks p) i w) in *.
  assert (Hlen1 : length bl1 = length (blocks p)) by apply set_written_length.
  pose proof (i_len _ I) as Hll.
  destruct G.
  (* facts common to both cases *)
  assert (Hblocks : forall j b, nth_error (blocks p) j = Some b ->
            exists b', nth_error (blocks p') j = Some b' /\ (b_written b <= b_written b')%Z
              /\ b_syncing b' = b_syncing b /\ b_synced b' = b_synced b /\ (j = i -> (w <= b_written b')%Z)).
  { intros j b Hj. destruct (set_written_nth _ i w _ _ Hj) as [b1 [H1 [H2 [H3 [H4 [_ H6]]]]]].
    destruct Hcase as [[Hb _]|[Hb _]]; rewrite Hb.
    - destruct (bump_nth _ _ _ H1) as [b2 [K1 [K2 [K3 [K4 _]]]]]. exists b2. rewrite K2, K3, K4. splits; auto.
    - exists b1. splits; auto. }
  assert (Hseeds : forall j x, nth_error (epochSeeds p) j = Some x -> nth_error (epochSeeds p') j = Some x).
  { intros j x Hj. destruct Hcase as [[_ [Hs _]]|[_ [Hs _]]]; rewrite Hs; [|exact Hj].
    rewrite nth_error_app1; [exact Hj|]. apply nth_error_Some. congruence. }
  assert (Hlasts : forall j x, nth_error (epochLast p) j = Some x -> nth_error (epochLast p') j = Some x).
  { intros j x Hj. destruct Hcase as [[_ [_ Hs]]|[_ [_ [Hs _]]]]; rewrite Hs; [|exact Hj].
    rewrite nth_error_app1; [exact Hj|]. apply nth_error_Some. congruence. }
  assert (HEL : epochLast p' = elayout (totalReleased p') (blocks p')).
  { rewrite Ht. destruct Hcase as [[Hb [_ Hl]]|[Hb [_ [Hl _]]]]; rewrite Hb, Hl.
    - rewrite elayout_bump.
      + rewrite (elayout_ext _ bl1 (blocks p)) by apply set_written_epochs_map. rewrite <- gi_el0. reflexivity.
      + intros E. rewrite E in Hlen1. cbn in Hlen1. lia.
    - rewrite (elayout_ext _ bl1 (blocks p)) by apply set_written_epochs_map. exact gi_el0. }
  (* the new ack *)
  assert (Hnew : exists lei la sd, length (epochSeeds p') = S lei /\ nth_error (epochLast p') lei = Some la
            /\ nth_error (epochSeeds p') lei = Some sd /\ abs <= la).
  { destruct Hcase as [[_ [Hs Hl]]|[_ [Hs [Hl [n' [la [E1 [E2 E3]]]]]]]].
    - exists (length (epochSeeds p)), (totalReleased p + length bl1 - 1), seed.
      rewrite Hs, Hl, app_length. cbn. splits; [lia| | |lia].
      + rewrite <- Hll. apply nth_error_last_app.
      + apply nth_error_last_app.
    - assert (exists sd, nth_error (epochSeeds p) n' = Some sd) as [sd Hsd].
      { destruct (nth_error (epochSeeds p) n') eqn:E; [eauto|]. apply nth_error_None in E. lia. }
      exists n', la, sd. rewrite Hs, Hl. splits; auto. lia. }
  destruct Hnew as [lei [la [sd [N1 [N2 [N3 N4]]]]]].
  assert (Hmk : mk_ack g p' abs w = Some (mkAck abs w (g_pe g + lei) la sd
            (u32 (oldestEpochID p' + N.of_nat lei), u16z (Z.of_nat la - Z.of_nat (totalReleased p') - Z.of_nat (abs - totalReleased p'))))).
  { unfold mk_ack, index_to_ref. rewrite N1, N2, N3. reflexivity. }
  eexists. split; [exact Hmk|].
  constructor; cbn.
  - exact HEL.
  - rewrite Ho. exact gi_old0.
  - constructor.
    + right. constructor; cbn; unfold pos; cbn; rewrite ?Ht; try lia.
      * replace (g_pe g + lei - g_pe g) with lei by lia. exact N3.
      * replace (g_pe g + lei - g_pe g) with lei by lia. exact N2.
      * fold i. destruct (nth_error (blocks p) i) as [b|] eqn:Eb; [|apply nth_error_None in Eb; lia].
        destruct (Hblocks _ _ Eb) as [b' [K1 [_ [_ [_ K5]]]]]. exists b'. split; [exact K1|]. apply K5. reflexivity.
    + eapply Forall_impl; [|exact gi_acks0]. intros a [E|L]; [left; unfold evicted in *; rewrite Ht; exact E|right].
      destruct L. constructor; rewrite ?Ht; auto.
      destruct al_blk0 as [b [H1 H2]]. destruct (Hblocks _ _ H1) as [b' [K1 [K2 _]]]. exists b'. split; [exact K1|lia].
  - constructor; [|exact gi_static0]. unfold ack_static. cbn. f_equal.
    + rewrite Ho, gi_old0, u32_add_l. f_equal. lia.
    + f_equal. rewrite Ht. lia.
  - eapply Forall_impl; [|exact gi_syncing0]. intros a [E|[L [b [H1 H2]]]]; [left; unfold evicted in *; rewrite Ht; exact E|right].
    rewrite Hy, Ht. split; [exact L|]. destruct (Hblocks _ _ H1) as [b' [K1 [_ [K3 _]]]]. exists b'. rewrite K3. auto.
  - eapply Forall_impl; [|exact gi_synced0]. intros a [E|[L [b [H1 H2]]]]; [left; unfold evicted in *; rewrite Ht; exact E|right].
    rewrite Hd, Ht. split; [exact L|]. destruct (Hblocks _ _ H1) as [b' [K1 [_ [_ [K4 _]]]]]. exists b'. rewrite K4. auto.
  - intros a Ha. right. apply gi_sub3. exact Ha.
  - intros a Ha. right. apply gi_sub4. exact Ha.
Qed.

(** ---- GetPersistentState followed by NewPersistentBlockList ---- *)
Lemma firstn_repeat {A} (x : A) k m : firstn k (repeat x m) = repeat x (Nat.min k m).
Proof.
  revert m. induction k as [|k IH]; intros m; [reflexivity|]. destruct m as [|m]; [reflexivity|].
  cbn. rewrite IH. reflexivity.
Qed.

Lemma firstn_add {A} (l : list A) a b : firstn (a + b) l = firstn a l ++ firstn b (skipn a l).
Proof.
  revert l. induction a as [|a IH]; intros l; [reflexivity|]. destruct l as [|x l]; [cbn; rewrite firstn_nil; reflexivity|].
  cbn. rewrite IH. reflexivity.
Qed.

Lemma skipn_add {A} (l : list A) a b : skipn (a + b) l = skipn b (skipn a l).
Proof.
  revert l. induction a as [|a IH]; intros l; [reflexivity|]. destruct l as [|x l]; [cbn; rewrite skipn_nil; reflexivity|].
  cbn. apply IH.
Qed.

Lemma gps_restore bs : forall lastE synced seeds out n,
  gps_loop bs lastE synced seeds = Ok out -> lastE <= synced ->
  synced <= lastE + total_epoch_count bs -> synced <= length seeds ->
  exists bl, restore_blocks (fun _ _ => true) out n =
               (bl, firstn (synced - lastE) (skipn lastE seeds), firstn (synced - lastE) (elayout n bs))
    /\ length bl = length out /\ length out <= length bs
    /\ (forall j b', nth_error bl j = Some b' ->
          exists b, nth_error bs j = Some b /\ b_written b' = b_synced b /\ b_loc b' = b_loc b)
    /\ (forall e l, e < synced - lastE -> nth_error (elayout n bs) e = Some l -> l < n + length out).
Proof.
  induction bs as [|b r IH]; intros lastE synced seeds out n Hg H1 H2 H3.
  - cbn [gps_loop] in Hg. unfold total_epoch_count in H2. cbn in H2.
    destruct (Nat.ltb_spec lastE synced); [lia|]. inversion Hg; subst.
    replace (synced - lastE) with 0 by lia. exists []. cbn. splits; auto; try lia.
    all: try (intros j b' Hj; destruct j; discriminate).
  - cbn [gps_loop] in Hg. destruct (Nat.ltb_spec lastE synced) as [Hlt|Hge].
    + set (last := Nat.min (lastE + b_epochs b) synced) in *.
      destruct (Nat.ltb_spec (length seeds) last); [discriminate|].
      destruct (gps_loop r last synced seeds) as [r'|] eqn:Er; [|discriminate]. cbn [obind] in Hg.
      inversion Hg; subst out; clear Hg.
      assert (Hle : last <= synced) by (unfold last; lia).
      assert (Hcount : synced <= last + total_epoch_count r).
      { unfold last, total_epoch_count in *. cbn in H2. lia. }
      destruct (IH last synced seeds r' (S n) Er Hle Hcount H3) as [bl [Hr [Hl1 [Hl2 [Hb He]]]]].
      cbn [restore_blocks bs_loc bs_off bs_seeds]. rewrite Hr.
      assert (Hfl : length (firstn (last - lastE) (skipn lastE seeds)) = last - lastE).
      { rewrite firstn_length, skipn_length. lia. }
      rewrite Hfl.
      eexists. split; [|splits].
      * f_equal; [f_equal|].
        -- replace (synced - lastE) with ((last - lastE) + (synced - last)) by lia.
           rewrite firstn_add. f_equal. rewrite <- skipn_add. f_equal. f_equal. lia.
        -- cbn [elayout]. destruct (Nat.le_gt_cases (lastE + b_epochs b) synced) as [Hc|Hc].
           ++ replace last with (lastE + b_epochs b) by (unfold last; lia).
              replace (lastE + b_epochs b - lastE) with (b_epochs b) by lia.
              replace (synced - lastE) with (b_epochs b + (synced - (lastE + b_epochs b))) by lia.
              rewrite firstn_add. rewrite firstn_app, repeat_length, Nat.sub_diag, firstn_O, app_nil_r.
              assert (Hf : firstn (b_epochs b) (repeat n (b_epochs b)) = repeat n (b_epochs b))
                by (apply firstn_all2; rewrite repeat_length; lia).
              assert (Hs : skipn (b_epochs b) (repeat n (b_epochs b)) = [])
                by (apply skipn_all2; rewrite repeat_length; lia).
              rewrite Hf, skipn_app, repeat_length, Nat.sub_diag, Hs. reflexivity.
           ++ replace last with synced by (unfold last; lia).
              rewrite Nat.sub_diag, firstn_O, app_nil_r.
              rewrite firstn_app, repeat_length. replace (synced - lastE - b_epochs b) with 0 by lia.
              rewrite firstn_O, app_nil_r, firstn_repeat. f_equal. lia.
      * cbn. rewrite Hl1. reflexivity.
      * cbn. lia.
      * intros j b' Hj. destruct j as [|j]; cbn in Hj.
        -- inversion Hj; subst. exists b. cbn. splits; auto.
        -- apply Hb in Hj. exact Hj.
      * intros e l Hlt' Hn. cbn [elayout] in Hn. cbn [length].
        destruct (Nat.lt_ge_cases e (b_epochs b)) as [Hc|Hc].
        -- rewrite nth_error_app1 in Hn by (rewrite repeat_length; exact Hc).
           apply nth_error_In, repeat_spec in Hn. lia.
        -- rewrite nth_error_app2 in Hn by (rewrite repeat_length; exact Hc). rewrite repeat_length in Hn.
           apply He in Hn; [lia|]. unfold last. lia.
    + inversion Hg; subst. replace (synced - lastE) with 0 by lia. exists []. cbn. splits; auto; try lia.
      all: try (intros j b' Hj; destruct j; discriminate).
Qed.

Lemma nth_error_firstn_lt {A} (l : list A) n i : i < n -> nth_error (firstn n l) i = nth_error l i.
Proof.
  revert l i. induction n as [|n IH]; intros l i H; [lia|]. destruct l as [|x l]; [destruct i; reflexivity|].
  destruct i as [|i]; [reflexivity|]. cbn. apply IH. lia.
Qed.

Lemma elayout_add k base bs : elayout (k + base) bs = map (Nat.add k) (elayout base bs).
Proof.
  revert base. induction bs as [|b r IH]; intros base; [reflexivity|]. cbn [elayout].
  rewrite map_app. f_equal.
  - induction (b_epochs b); cbn; [reflexivity|]. f_equal. assumption.
  - replace (S (k + base)) with (k + S base) by lia. apply IH.
Qed.

Lemma elayout_shift base bs e l : nth_error (elayout base bs) e = Some l ->
  base <= l /\ nth_error (elayout 0 bs) e = Some (l - base).
Proof.
  replace base with (base + 0) at 1 by lia. rewrite elayout_add, nth_error_map.
  destruct (nth_error (elayout 0 bs) e) as [x|]; cbn; [|discriminate].
  intros H; inversion H; subst. split; [lia|]. f_equal. lia.
Qed.

Lemma restart_shape st bl seeds lasts : restore_blocks (fun _ _ => true) (snd st) 0 = (bl, seeds, lasts) ->
  blocks (restart_of st) = bl /\ epochSeeds (restart_of st) = seeds /\ epochLast (restart_of st) = lasts
  /\ totalReleased (restart_of st) = 0 /\ oldestEpochID (restart_of st) = u32 (fst st)
  /\ closedForWriting (restart_of st) = false.
Proof. intros H. unfold restart_of, pbl_new. rewrite H. cbn. splits; reflexivity. Qed.

(** A snapshot taken by GetPersistentState covers every ack that the latest
    completed sync covers. *)
Lemma synced_covers o p p' st g t cohort a : pbl_inv p -> ginv o p g ->
  get_persistent_state p = Ok (p', st) -> ack_ok p g a -> ack_synced p g a ->
  covers (mkGw t st (totalReleased p) (g_pe g) cohort) a.
Proof.
  intros I G Hg Hok Hsy. unfold covers. cbn [gw_base_abs gw_base_ep gw_state].
  destruct Hok as [E|L]; [left; exact E|]. destruct Hsy as [E|[Hlt [b [Hb1 Hb2]]]]; [left; exact E|]. right.
  unfold get_persistent_state in Hg.
  destruct (gps_loop (blocks p) 0 (synchronizedEpochs p) (epochSeeds p)) as [out|] eqn:Eg; [|discriminate].
  cbn [obind] in Hg. inversion Hg; subst p' st; clear Hg.
  destruct I. destruct (gps_restore _ _ _ _ _ 0 Eg) as [bl [Hr [Hl1 [Hl2 [Hbl He]]]]]; try lia.
  rewrite Nat.sub_0_r in *. cbn [skipn] in Hr.
  destruct (restart_shape (oldestEpochID p, out) _ _ _ Hr) as [R1 [R2 [R3 _]]].
  destruct L. fold (pos g a).
  destruct (elayout_shift _ _ _ _ (eq_trans (f_equal (fun l => nth_error l (pos g a)) (eq_sym (gi_el _ _ _ G))) al_last0))
    as [Hge Hsh].
  splits; auto.
  - rewrite R2, nth_error_firstn_lt by exact Hlt. exact al_seed0.
  - rewrite R3, nth_error_firstn_lt by exact Hlt. exact Hsh.
  - rewrite R1. pose proof (He _ _ Hlt Hsh) as Hin. cbn in Hin.
    destruct (nth_error bl (a_abs a - totalReleased p)) as [b'|] eqn:Eb'.
    + destruct (Hbl _ _ Eb') as [b0 [K1 [K2 _]]]. rewrite Hb1 in K1. inversion K1; subst b0.
      exists b'. split; [reflexivity|]. rewrite K2. exact Hb2.
    + apply nth_error_None in Eb'. lia.
Qed.

(** ---- the record written for an ack resolves on the restarted list ---- *)
Lemma covered_record_resolves o w a :
  gw_base_abs w <= a_abs a -> covers w a -> ack_static o a ->
  fst (gw_state w) = u32 (o + N.of_nat (gw_base_ep w)) ->
  (N.of_nat (a_ep a - gw_base_ep w) < 2 ^ 32)%N -> (Z.of_nat (a_last a - a_abs a) < 2 ^ 16)%Z ->
  ref_to_index (fst (a_ref a)) (snd (a_ref a)) (restart_of (gw_state w))
    = Ok (Some (a_abs a - gw_base_abs w, a_seed a))
  /\ exists b, nth_error (blocks (restart_of (gw_state w))) (a_abs a - gw_base_abs w) = Some b
               /\ (a_end a <= b_written b)%Z.
Proof.
  intros Hge [E|[_ [Hep [Hs [Hl [Hle Hb]]]]]] Hst Hold H32 H16; [lia|]. split; [|exact Hb].
  cbn zeta in *. set (p' := restart_of (gw_state w)) in *.
  assert (Ho : oldestEpochID p' = u32 (fst (gw_state w)) /\ totalReleased p' = 0).
  { unfold p', restart_of, pbl_new. destruct (restore_blocks _ _ _) as [[bl sd] ls]. cbn. auto. }
  destruct Ho as [Ho Ht]. unfold ack_static in Hst. rewrite Hst. cbn [fst snd].
  unfold ref_to_index. rewrite Ho, Hold, u32_diff by assumption. rewrite Nat2N.id, Hl, Hs, Ht.
  assert (nth_error (epochSeeds p') (a_ep a - gw_base_ep w) <> None) as Hn by congruence.
  apply nth_error_Some in Hn.
  destruct (N.leb_spec (N.of_nat (length (epochSeeds p'))) (N.of_nat (a_ep a - gw_base_ep w))); [lia|].
  rewrite u16_small by lia.
  destruct (Z.ltb_spec (Z.of_nat (a_last a - gw_base_abs w) - Z.of_nat 0)
                       (Z.of_N (Z.to_N (Z.of_nat (a_last a) - Z.of_nat (a_abs a))))); [lia|].
  repeat f_equal. lia.
Qed.

(** ================= the combined system ================= *)
Lemma gw_step_g t w a s s' x : gs_g (gw_step t w a s s' x) = gs_g x.
Proof.
  unfold gw_step. destruct w; try reflexivity.
  - destruct t; reflexivity.
  - destruct (a_ok a); [destruct (get_pend x t)|]; destruct t; reflexivity.
Qed.

Lemma wstep_ginv o cfg me w a s s1 w' g : ginv o (s_pbl s) g ->
  wstep cfg me w a s = Some (Ok (s1, w')) -> ginv o (s_pbl s1) g.
Proof.
  intros G. unfold wstep. destruct w.
  - destruct (s_store s); [discriminate|]. intros H; inversion H; subst. exact G.
  - destruct (get_persistent_state (s_pbl s)) as [[p' st]|] eqn:E; [|discriminate].
    intros H; inversion H; subst. cbn. eapply gps_ginv; eauto.
  - destruct (a_ok a); intros H; inversion H; subst; exact G.
  - destruct (notify_state_written (s_pbl s)) as [p'|] eqn:E; [|discriminate].
    intros H; inversion H; subst. cbn. eapply nsw_ginv; eauto.
  - destruct (_ <=? _)%N; [|discriminate]. intros H; inversion H; subst. exact G.
Qed.

Lemma step_ginv o cfg s e s' x : inv1 s -> ginv o (s_pbl s) (gs_g x) ->
  step cfg s e = Some (Ok s') -> ginv o (s_pbl s') (gs_g (gstep s e s' x)).
Proof.
  intros [I U] G. destruct e as [alloc| |index size|k blk seed|d| |t a]; cbn [step gstep].
  - intros H; inversion H; subst. cbn. apply push_back_ginv. exact G.
  - destruct (blocks (s_pbl s)) as [|b rest] eqn:Eb; [discriminate|].
    destruct (pop_front (s_pbl s)) as [p'|] eqn:Ep; [|discriminate].
    intros H; inversion H; subst. cbn. eapply pop_front_ginv; eauto.
  - destruct (_ || _); [|discriminate]. destruct (put_start _ _); [|discriminate].
    intros H; inversion H; subst. exact G.
  - destruct (nth_error (s_uploads s) k) as [[[tok sz]|]|] eqn:En; try discriminate.
    destruct (put_finalize tok blk sz seed (s_pbl s)) as [[p' fr]|] eqn:Ef; [|discriminate].
    intros H; inversion H; subst; clear H. cbn [s_pbl with_uploads with_pbl].
    destruct tok as [|abs].
    + rewrite (put_finalize_not_ok _ _ _ _ _ _ _ Ef); [exact G|].
      intros off Hc; subst. cbn in Ef. inversion Ef.
    + rewrite Ef. destruct fr as [off| | |].
      * destruct (put_finalize_ginv o _ _ _ _ _ _ _ _ I G Ef) as [a [Hm Hg]]. rewrite Hm. exact Hg.
      * rewrite (put_finalize_not_ok _ _ _ _ _ _ _ Ef) by discriminate. exact G.
      * rewrite (put_finalize_not_ok _ _ _ _ _ _ _ Ef) by discriminate. exact G.
      * rewrite (put_finalize_not_ok _ _ _ _ _ _ _ Ef) by discriminate. exact G.
  - intros H; inversion H; subst. exact G.
  - intros H; inversion H; subst. exact G.
  - destruct t.
    + unfold rstep. destruct (s_r s) as [|ch|w] eqn:Er.
      * intros H; inversion H; subst. exact G.
      * destruct (is_closed _ _); [|discriminate]. intros H; inversion H; subst. exact G.
      * destruct (wstep cfg TR w a s) as [[[s1 w']|]|] eqn:Ew; try discriminate.
        rewrite gw_step_g. pose proof (wstep_ginv _ _ _ _ _ _ _ _ _ G Ew) as G1.
        destruct w'; intros H; inversion H; subst; exact G1.
    + unfold pstep. destruct (s_p s) as [|ch|ch|dl|keep|keep final|keep final|keep final dl|keep w|] eqn:Ep.
      * intros H; inversion H; subst. exact G.
      * destruct (is_closed _ _); intros H; inversion H; subst; exact G.
      * destruct (s_cancel s && _); [|destruct (is_closed _ _); [|discriminate]];
          intros H; inversion H; subst; exact G.
      * destruct (s_cancel s && _); [|destruct (_ && _)%bool; [|discriminate]];
          intros H; inversion H; subst; exact G.
      * intros H; inversion H; subst. cbn. apply notify_sync_starting_ginv. exact G.
      * destruct (a_ok a); intros H; inversion H; subst; exact G.
      * destruct (negb keep && negb final); intros H; inversion H; subst; cbn.
        -- apply (notify_sync_starting_ginv o true _ (g_done (gs_g x))). apply notify_sync_completed_ginv. exact G.
        -- apply notify_sync_completed_ginv. exact G.
      * destruct (_ <=? _)%N; [|discriminate]. intros H; inversion H; subst. exact G.
      * destruct (wstep cfg TP w a s) as [[[s1 w']|]|] eqn:Ew; try discriminate.
        rewrite gw_step_g. pose proof (wstep_ginv _ _ _ _ _ _ _ _ _ G Ew) as G1.
        destruct w'; intros H; inversion H; subst; exact G1.
      * discriminate.
Qed.

(** ---- completed and pending state writes ---- *)
Definition gw_ok (o : N) (w : gwrite) : Prop :=
  Forall (covers w) (gw_cohort w) /\ Forall (ack_static o) (gw_cohort w)
  /\ fst (gw_state w) = u32 (o + N.of_nat (gw_base_ep w)).
Definition opt_ok (o : N) (ow : option gwrite) : Prop := match ow with Some w => gw_ok o w | None => True end.
Definition wok (o : N) (x : gsys) : Prop :=
  Forall (gw_ok o) (gs_writes x) /\ opt_ok o (gs_pend_r x) /\ opt_ok o (gs_pend_p x).

Definition wpc_of (t : tid) (s : sys) : option wpc :=
  match t with
  | TR => match s_r s with RW w => Some w | _ => None end
  | TP => match s_p s with PW _ w => Some w | _ => None end
  end.

Definition same_writes (x x' : gsys) : Prop :=
  gs_pend_r x' = gs_pend_r x /\ gs_pend_p x' = gs_pend_p x /\ gs_writes x' = gs_writes x.

Lemma same_writes_refl x : same_writes x x.
Proof. unfold same_writes. auto. Qed.
Lemma same_writes_with_g x g : same_writes x (gs_with_g x g).
Proof. unfold same_writes. auto. Qed.

Lemma gstep_frame s e s' x : (forall t a, e = EStep t a -> wpc_of t s = None) -> same_writes x (gstep s e s' x).
Proof.
  intros Hn. destruct e as [alloc| |index size|k blk seed|d| |t a]; cbn [gstep]; try apply same_writes_refl.
  - destruct (blocks _); [apply same_writes_refl|apply same_writes_with_g].
  - destruct (nth_error _ _) as [[[[|abs] sz]|]|]; try apply same_writes_refl.
    destruct (put_finalize _ _ _ _ _) as [[p' [off| | |]]|]; try apply same_writes_refl.
    destruct (mk_ack _ _ _ _); [apply same_writes_with_g|apply same_writes_refl].
  - specialize (Hn t a eq_refl). destruct t; cbn in Hn.
    + destruct (s_r s); try apply same_writes_refl. discriminate.
    + destruct (s_p s) as [|ch|ch|dl|keep|keep final|keep final|keep final dl|keep w|];
        try apply same_writes_refl; try apply same_writes_with_g; try discriminate.
      destruct (negb keep && negb final); apply same_writes_with_g.
Qed.

Lemma wok_same o x x' : same_writes x x' -> wok o x -> wok o x'.
Proof. intros [H1 [H2 H3]] [W1 [W2 W3]]. unfold wok. rewrite H1, H2, H3. auto. Qed.

Lemma get_state_gw_ok o p p' st g t : pbl_inv p -> ginv o p g -> get_persistent_state p = Ok (p', st) ->
  gw_ok o (mkGw t st (totalReleased p) (g_pe g) (g_synced g)).
Proof.
  intros I G Hg. unfold gw_ok. cbn. splits.
  - rewrite Forall_forall. intros a Ha. eapply synced_covers; eauto.
    + pose proof (gi_acks _ _ _ G) as F. rewrite Forall_forall in F. apply F. apply (gi_sub2 _ _ _ G). exact Ha.
    + pose proof (gi_synced _ _ _ G) as F. rewrite Forall_forall in F. apply F. exact Ha.
  - eapply Forall_incl; [apply (gi_sub2 _ _ _ G)|apply (gi_static _ _ _ G)].
  - unfold get_persistent_state in Hg. destruct (gps_loop _ _ _ _); [|discriminate]. cbn in Hg.
    inversion Hg; subst. cbn. apply (gi_old _ _ _ G).
Qed.

(** one step of writePersistentStateRetrying *)
Lemma gw_step_wok o cfg t w a s s1 w' x (s' : sys) :
  inv1 s -> ginv o (s_pbl s) (gs_g x) -> wok o x ->
  wstep cfg t w a s = Some (Ok (s1, w')) ->
  (forall st, w' = Some (WWriting st) -> wpc_of t s' = Some (WWriting st)) ->
  wok o (gw_step t w a s s' x).
Proof.
  intros [I _] G W Hw Hpc. unfold gw_step. destruct w; try exact W.
  - unfold wstep in Hw. destruct (get_persistent_state (s_pbl s)) as [[p' st]|] eqn:Eg; [|discriminate].
    inversion Hw; subst. specialize (Hpc st eq_refl).
    pose proof (get_state_gw_ok o _ _ _ _ t I G Eg) as Hok.
    destruct W as [W1 [W2 W3]]. destruct t; cbn in Hpc.
    + destruct (s_r s') as [| |w0]; try discriminate. inversion Hpc; subst. unfold wok. cbn. auto.
    + destruct (s_p s') as [| | | | | | | |k0 w0|]; try discriminate. inversion Hpc; subst. unfold wok. cbn. auto.
  - destruct W as [W1 [W2 W3]]. destruct (a_ok a).
    + destruct t; cbn.
      * destruct (gs_pend_r x) eqn:E; unfold wok; cbn; [|rewrite E; auto]. splits; auto.
      * destruct (gs_pend_p x) eqn:E; unfold wok; cbn; [|rewrite E; auto]. splits; auto.
    + destruct t; unfold wok; cbn; auto.
Qed.

Lemma step_wok o cfg s e s' x : inv1 s -> ginv o (s_pbl s) (gs_g x) -> wok o x ->
  step cfg s e = Some (Ok s') -> wok o (gstep s e s' x).
Proof.
  intros II G W Hs.
  assert (Hframe : (forall t a, e = EStep t a -> wpc_of t s = None) -> wok o (gstep s e s' x)).
  { intros Hn. eapply wok_same; [apply gstep_frame; exact Hn|exact W]. }
  destruct e as [alloc| |index size|k blk seed|d| |t a]; try (apply Hframe; intros; discriminate).
  destruct (wpc_of t s) as [w|] eqn:Ew; [|apply Hframe; intros t0 a0 H; inversion H; subst; exact Ew].
  clear Hframe. destruct t; cbn in Ew.
  - destruct (s_r s) as [| |w0] eqn:Er; try discriminate. inversion Ew; subst w0.
    cbn [step gstep] in *. unfold rstep in Hs. rewrite Er in *.
    destruct (wstep cfg TR w a s) as [[[s1 w']|]|] eqn:Hw; try discriminate.
    eapply gw_step_wok; eauto. intros st E; subst.
    inversion Hs; subst. reflexivity.
  - destruct (s_p s) as [| | | | | | | |keep w0|] eqn:Ep; try discriminate. inversion Ew; subst w0.
    cbn [step gstep] in *. unfold pstep in Hs. rewrite Ep in *.
    destruct (wstep cfg TP w a s) as [[[s1 w']|]|] eqn:Hw; try discriminate.
    eapply gw_step_wok; eauto. intros st E; subst.
    inversion Hs; subst. reflexivity.
Qed.

(** ---- all schedules ---- *)
Definition sinv (o : N) (s : sys) (x : gsys) : Prop :=
  inv1 s /\ ginv o (s_pbl s) (gs_g x) /\ wok o x.

Lemma step_sinv o cfg s e s' x : sinv o s x -> step cfg s e = Some (Ok s') -> sinv o s' (gstep s e s' x).
Proof.
  intros [I [G W]] Hs. destruct (step_inv1 _ _ _ _ I Hs) as [s0 [E [I' _]]]. inversion E; subst s0.
  split; [exact I'|]. split; [eapply step_ginv; eauto|eapply step_wok; eauto].
Qed.

Lemma grun_sinv o cfg tr : forall s x s' x', sinv o s x -> grun cfg s x tr = Some (Ok (s', x')) -> sinv o s' x'.
Proof.
  induction tr as [|e tr IH]; intros s x s' x' S H; cbn in H.
  - inversion H; subst. exact S.
  - destruct (step cfg s e) as [[s1|]|] eqn:Es; try discriminate.
    eapply IH; [|exact H]. eapply step_sinv; eauto.
Qed.

Lemma restore_el alloc init : forall n bl sd ls, restore_blocks alloc init n = (bl, sd, ls) -> ls = elayout n bl.
Proof.
  induction init as [|bs rest IH]; intros n bl sd ls H; cbn in H.
  - inversion H; reflexivity.
  - destruct (alloc _ _); [|inversion H; reflexivity].
    destruct (restore_blocks alloc rest (S n)) as [[bl' sd'] ls'] eqn:E. inversion H; subst.
    cbn. rewrite (IH _ _ _ _ E). reflexivity.
Qed.

Lemma init_sinv alloc oldest init t0 : sinv oldest (init_sys (fst (pbl_new alloc oldest init)) t0) g0.
Proof.
  split; [apply init_inv1|]. split.
  - unfold pbl_new. destruct (restore_blocks alloc init 0) as [[bl sd] ls] eqn:E. cbn.
    constructor; cbn; try constructor; try (intros a []).
    + eapply restore_el; eauto.
    + rewrite N.add_0_r. reflexivity.
  - unfold wok, g0. cbn. auto.
Qed.

(** The projection of the instrumented run is the run of Syncer.v: the ghost
    never influences a step. *)
Lemma grun_run cfg tr : forall s x,
  run cfg s tr = match grun cfg s x tr with
                 | Some (Ok (s', _)) => Some (Ok s')
                 | Some Panic => Some Panic
                 | None => None
                 end.
Proof.
  induction tr as [|e tr IH]; intros s x; cbn; [reflexivity|].
  destruct (step cfg s e) as [[s1|]|]; auto.
Qed.

Definition greachable (cfg : config) (alloc : loc -> Z -> bool) (oldest : N) (init : list bstate) (t0 : N)
  (s : sys) (x : gsys) : Prop :=
  exists tr, grun cfg (init_sys (fst (pbl_new alloc oldest init)) t0) g0 tr = Some (Ok (s, x)).

Lemma greachable_sinv cfg alloc oldest init t0 s x : greachable cfg alloc oldest init t0 s x -> sinv oldest s x.
Proof. intros [tr H]. eapply grun_sinv; [apply init_sinv|exact H]. Qed.

Lemma greachable_reachable cfg alloc oldest init t0 s x : greachable cfg alloc oldest init t0 s x ->
  reachable cfg alloc oldest init t0 s.
Proof. intros [tr H]. exists tr. rewrite (grun_run cfg tr _ g0), H. reflexivity. Qed.

Theorem commit_covers_all cfg alloc oldest init t0 s x : greachable cfg alloc oldest init t0 s x ->
  forall w, In w (gs_writes x) -> forall a, In a (gw_cohort w) -> covers w a.
Proof.
  intros R w Hw a Ha. destruct (greachable_sinv _ _ _ _ _ _ _ R) as [_ [_ [W _]]].
  rewrite Forall_forall in W. destruct (W w Hw) as [C _]. rewrite Forall_forall in C. auto.
Qed.

Theorem commit_record_resolves cfg alloc oldest init t0 s x : greachable cfg alloc oldest init t0 s x ->
  forall w, In w (gs_writes x) -> forall a, In a (gw_cohort w) ->
  gw_base_abs w <= a_abs a ->
  (N.of_nat (a_ep a - gw_base_ep w) < 2 ^ 32)%N -> (Z.of_nat (a_last a - a_abs a) < 2 ^ 16)%Z ->
  ref_to_index (fst (a_ref a)) (snd (a_ref a)) (restart_of (gw_state w))
    = Ok (Some (a_abs a - gw_base_abs w, a_seed a))
  /\ exists b, nth_error (blocks (restart_of (gw_state w))) (a_abs a - gw_base_abs w) = Some b
               /\ (a_end a <= b_written b)%Z.
Proof.
  intros R w Hw a Ha Hge H32 H16. destruct (greachable_sinv _ _ _ _ _ _ _ R) as [_ [_ [W _]]].
  rewrite Forall_forall in W. destruct (W w Hw) as [C [S O]]. rewrite Forall_forall in C, S.
  eapply covered_record_resolves; eauto.
Qed.

(** ================= shutdown ================= *)
(** refused, not lost: once the list is closed for writing no finalizer
    returns FinOk, nothing changes, no ack is created *)
Theorem refused_not_lost_pbl tok blk size seed p p' fr :
  closedForWriting p = true -> put_finalize tok blk size seed p = Ok (p', fr) ->
  p' = p /\ (fr = FinClosed \/ (fr = FinBlockError /\ blk = None)).
Proof.
  intros Hc. unfold put_finalize. destruct tok as [|abs]; [intros H; inversion H; auto|].
  destruct blk as [off|]; [|intros H; inversion H; auto].
  rewrite Hc. intros H; inversion H; auto.
Qed.

Lemma push_back_closed alloc p : closedForWriting p = true -> push_back alloc p = (p, PushClosed).
Proof. intros Hc. unfold push_back. rewrite Hc. reflexivity. Qed.

(** how closedForWriting evolves *)
Lemma gps_closed p p' st : get_persistent_state p = Ok (p', st) -> closedForWriting p' = closedForWriting p.
Proof.
  unfold get_persistent_state. destruct (gps_loop _ _ _ _); [|discriminate]. cbn. intros H; inversion H; reflexivity.
Qed.
Lemma nsw_closed p p' : notify_state_written p = Ok p' -> closedForWriting p' = closedForWriting p.
Proof.
  unfold notify_state_written. destruct (_ <? _); [discriminate|].
  destruct (skipn _ _); [destruct (nc_block _ _)|]; intros H; inversion H; reflexivity.
Qed.
Lemma put_finalize_closed_flag tok blk size seed p p' fr :
  put_finalize tok blk size seed p = Ok (p', fr) -> closedForWriting p' = closedForWriting p.
Proof.
  intros H. destruct fr as [off| | |].
  - destruct (put_finalize_ok_shape _ _ _ _ _ _ _ H) as [abs [_ [_ [Hc [_ [_ [_ [_ [_ [_ [Hc' _]]]]]]]]]]]. congruence.
  - rewrite (put_finalize_not_ok _ _ _ _ _ _ _ H) by discriminate. reflexivity.
  - rewrite (put_finalize_not_ok _ _ _ _ _ _ _ H) by discriminate. reflexivity.
  - rewrite (put_finalize_not_ok _ _ _ _ _ _ _ H) by discriminate. reflexivity.
Qed.
Lemma wstep_closed cfg me w a s s1 w' : wstep cfg me w a s = Some (Ok (s1, w')) ->
  closedForWriting (s_pbl s1) = closedForWriting (s_pbl s).
Proof.
  unfold wstep. destruct w.
  - destruct (s_store s); [discriminate|]. intros H; inversion H; reflexivity.
  - destruct (get_persistent_state (s_pbl s)) as [[p' st]|] eqn:E; [|discriminate].
    intros H; inversion H; subst. cbn. eapply gps_closed; eauto.
  - destruct (a_ok a); intros H; inversion H; reflexivity.
  - destruct (notify_state_written (s_pbl s)) as [p'|] eqn:E; [|discriminate].
    intros H; inversion H; subst. cbn. eapply nsw_closed; eauto.
  - destruct (_ <=? _)%N; [|discriminate]. intros H; inversion H; reflexivity.
Qed.

(** closedForWriting is set by exactly one step: the put loop's
    NotifySyncStarting(true) after the first shutdown sync; it is never reset *)
Lemma step_closed cfg s e s' : step cfg s e = Some (Ok s') ->
  closedForWriting (s_pbl s') = closedForWriting (s_pbl s)
  \/ (closedForWriting (s_pbl s) = false /\ closedForWriting (s_pbl s') = true /\
      exists a, e = EStep TP a /\ s_p s = PSyncRet false false /\ s_p s' = PSyncing false true).
Proof.
  destruct e as [alloc| |index size|k blk seed|d| |t a]; cbn [step].
  - intros H; inversion H; subst. left. cbn. unfold push_back.
    destruct (closedForWriting (s_pbl s)) eqn:E; [exact E|]. destruct alloc; cbn; auto.
  - destruct (blocks (s_pbl s)) as [|b rest] eqn:Eb; [discriminate|].
    destruct (pop_front (s_pbl s)) as [p'|] eqn:Ep; [|discriminate]. intros H; inversion H; subst. left. cbn.
    destruct (pop_front_shape _ _ _ _ Eb Ep) as [_ [_ [_ [_ [_ [_ [_ Hc]]]]]]]. exact Hc.
  - destruct (_ || _); [|discriminate]. destruct (put_start _ _); [|discriminate]. intros H; inversion H; auto.
  - destruct (nth_error (s_uploads s) k) as [[[tok sz]|]|]; try discriminate.
    destruct (put_finalize tok blk sz seed (s_pbl s)) as [[p' fr]|] eqn:Ef; [|discriminate].
    intros H; inversion H; subst. left. cbn. eapply put_finalize_closed_flag; eauto.
  - intros H; inversion H; auto.
  - intros H; inversion H; auto.
  - destruct t.
    + unfold rstep. destruct (s_r s) as [|ch|w].
      * intros H; inversion H; auto.
      * destruct (is_closed _ _); [|discriminate]. intros H; inversion H; auto.
      * destruct (wstep cfg TR w a s) as [[[s1 w']|]|] eqn:Ew; try discriminate.
        pose proof (wstep_closed _ _ _ _ _ _ _ Ew) as Hc. destruct w'; intros H; inversion H; subst; left; exact Hc.
    + unfold pstep. destruct (s_p s) as [|ch|ch|dl|keep|keep final|keep final|keep final dl|keep w|] eqn:Ep.
      * intros H; inversion H; auto.
      * destruct (is_closed _ _); intros H; inversion H; auto.
      * destruct (s_cancel s && _); [|destruct (is_closed _ _); [|discriminate]]; intros H; inversion H; auto.
      * destruct (s_cancel s && _); [|destruct (_ && _)%bool; [|discriminate]]; intros H; inversion H; auto.
      * intros H; inversion H; auto.
      * destruct (a_ok a); intros H; inversion H; auto.
      * destruct (nsc_shape (s_pbl s)) as [_ [_ [_ [_ [_ [_ [_ Hc]]]]]]].
        destruct keep, final; cbn [negb andb]; intros H; inversion H; subst; cbn; auto.
        destruct (closedForWriting (s_pbl s)) eqn:E; [left; reflexivity|right].
        splits; auto. exists a. auto.
      * destruct (_ <=? _)%N; [|discriminate]. intros H; inversion H; auto.
      * destruct (wstep cfg TP w a s) as [[[s1 w']|]|] eqn:Ew; try discriminate.
        pose proof (wstep_closed _ _ _ _ _ _ _ Ew) as Hc. destruct w'; intros H; inversion H; subst; left; exact Hc.
      * discriminate.
Qed.

(** ---- the final commit covers every ack ---- *)
Definition all_acked (x : gsys) (w : gwrite) : Prop := gw_cohort w = g_acks (gs_g x).
Definition head_all_acked (x : gsys) : Prop := exists w0 rest, gs_writes x = w0 :: rest /\ all_acked x w0.

Definition fi (s : sys) (x : gsys) : Prop :=
  closedForWriting (s_pbl s) = true ->
  g_syncing (gs_g x) = g_acks (gs_g x) /\
  match s_p s with
  | PSyncing false true | PSyncSleep false true _ | PSyncRet false true => True
  | PW false w =>
      g_synced (gs_g x) = g_acks (gs_g x) /\
      match w with
      | WWriting _ => exists w0, gs_pend_p x = Some w0 /\ all_acked x w0
      | WWritten => head_all_acked x
      | _ => True
      end
  | PExit =>
      g_synced (gs_g x) = g_acks (gs_g x) /\ head_all_acked x /\
      match s_r s with
      | RW (WWriting _) => exists w0, gs_pend_r x = Some w0 /\ all_acked x w0
      | _ => True
      end
  | _ => False
  end.

(** environment events and thread steps that change neither the ghost lists nor the program counters *)
Lemma fi_frame s x s' x' :
  s_p s' = s_p s -> s_r s' = s_r s ->
  g_acks (gs_g x') = g_acks (gs_g x) -> g_syncing (gs_g x') = g_syncing (gs_g x) ->
  g_synced (gs_g x') = g_synced (gs_g x) -> same_writes x x' ->
  (closedForWriting (s_pbl s') = true -> closedForWriting (s_pbl s) = true) ->
  fi s x -> fi s' x'.
Proof.
  intros Hp Hr Ha Hy Hd [W1 [W2 W3]] Hc F C. specialize (F (Hc C)).
  unfold fi, head_all_acked, all_acked in *. rewrite Hp, Hr, Ha, Hy, Hd, W1, W2, W3. exact F.
Qed.

Lemma holds_excl s : inv3 s -> r_holds s = true -> p_holds s = true -> False.
Proof. intros [_ H] Hr Hp. rewrite Hr, Hp in H. discriminate. Qed.

Lemma step_fi cfg s e s' x : inv3 s -> fi s x -> step cfg s e = Some (Ok s') -> fi s' (gstep s e s' x).
Proof.
  intros I3 F Hs.
  destruct (step_closed _ _ _ _ Hs) as [Hsame|[Hc0 [Hc1 [a [He [Hp0 Hp1]]]]]].
  2:{ (* the closing step *)
    subst e. intros _. cbn [gstep]. rewrite Hp0, Hp1. cbn. auto. }
  assert (Hc : closedForWriting (s_pbl s') = true -> closedForWriting (s_pbl s) = true) by congruence.
  destruct e as [alloc| |index size|k blk seed|d| |t a]; cbn [step] in Hs.
  - inversion Hs; subst. apply (fi_frame s x); auto. apply same_writes_refl.
  - destruct (blocks (s_pbl s)) as [|b rest] eqn:Eb; [discriminate|].
    destruct (pop_front (s_pbl s)) as [p'|] eqn:Ep; [|discriminate]. inversion Hs; subst.
    cbn [gstep]. rewrite Eb. apply (fi_frame s x); auto. apply same_writes_with_g.
  - destruct (_ || _); [|discriminate]. destruct (put_start _ _); [|discriminate]. inversion Hs; subst.
    apply (fi_frame s x); auto. apply same_writes_refl.
  - destruct (nth_error (s_uploads s) k) as [[[tok sz]|]|] eqn:En; try discriminate.
    destruct (put_finalize tok blk sz seed (s_pbl s)) as [[p' fr]|] eqn:Ef; [|discriminate]. inversion Hs; subst.
    intros C. cbn [s_pbl with_uploads with_pbl] in *.
    assert (Cs : closedForWriting (s_pbl s) = true) by (apply Hc; exact C).
    destruct (refused_not_lost_pbl _ _ _ _ _ _ _ Cs Ef) as [Hpp Hfr].
    assert (Hx : gstep s (EFinalize k blk seed) (with_uploads (with_pbl s p') (clear_nth (s_uploads s) k)) x = x).
    { cbn [gstep]. rewrite En. destruct tok as [|abs]; [reflexivity|]. rewrite Ef.
      destruct Hfr as [->|[-> _]]; reflexivity. }
    rewrite Hx. specialize (F Cs). exact F.
  - inversion Hs; subst. apply (fi_frame s x); auto. apply same_writes_refl.
  - inversion Hs; subst. apply (fi_frame s x); auto. apply same_writes_refl.
  - destruct t.
    + (* release loop *)
      unfold rstep in Hs. destruct (s_r s) as [|ch|w] eqn:Er.
      * inversion Hs; subst. intros C. specialize (F (Hc C)). unfold fi in *. cbn [gstep]. rewrite Er. cbn.
        destruct F as [F1 F2]. split; [exact F1|].
        destruct (s_p s) as [| | | | |[] []|[] []|[] [] ?|[] w0|]; auto. destruct F2 as [A [B _]]. auto.
      * destruct (is_closed _ _); [|discriminate]. inversion Hs; subst. intros C. specialize (F (Hc C)).
        unfold fi in *. cbn [gstep]. rewrite Er. cbn. destruct F as [F1 F2]. split; [exact F1|].
        destruct (s_p s) as [| | | | |[] []|[] []|[] [] ?|[] w0|]; auto. destruct F2 as [A [B _]]. auto.
      * destruct (wstep cfg TR w a s) as [[[s1 w']|]|] eqn:Ew; try discriminate.
        destruct (wstep_store _ _ _ _ _ _ _ Ew) as [Hr1 [Hp1 Hcase]].
        assert (Hsp : s_p s' = s_p s).
        { destruct w'; inversion Hs; subst; cbn; exact Hp1. }
        intros C. specialize (F (Hc C)). unfold fi in *. cbn [gstep]. rewrite Er, Hsp.
        destruct F as [F1 F2]. rewrite gw_step_g. split; [exact F1|].
        assert (Hrh : forall st, w = WWriting st -> p_holds s = false).
        { intros st ->. destruct (p_holds s) eqn:Eh; [|reflexivity]. exfalso.
          eapply holds_excl; eauto. unfold r_holds. rewrite Er. reflexivity. }
        destruct w as [| |st| |dl]; cbn [gw_step].
        -- (* WAcquire *) destruct Hcase as [_ [_ ->]]. inversion Hs; subst. cbn.
           destruct (s_p s) as [| | | | |[] []|[] []|[] [] ?|[] w0|]; auto. destruct F2 as [A [B _]]. auto.
        -- (* WGetState *) destruct Hcase as [_ [st ->]]. inversion Hs; subst. cbn.
           destruct (s_p s) as [| | | | |[] []|[] []|[] [] ?|[] w0|]; auto.
           destruct F2 as [A [B _]]. splits; auto. eexists. split; [reflexivity|]. unfold all_acked. cbn. exact A.
        -- (* WWriting *) specialize (Hrh st eq_refl). unfold p_holds in Hrh. unfold wstep in Ew.
           destruct (a_ok a) eqn:Ea; inversion Ew; subst s1 w'; inversion Hs; subst s'; cbn.
           ++ destruct (s_p s) as [| | | | |[] []|[] []|[] [] ?|[] w0|]; auto.
              ** destruct F2 as [A B]. destruct (gs_pend_r x); cbn; split; auto; destruct w0; auto; discriminate.
              ** rewrite Er in F2. destruct F2 as [A [B [w0 [P Q]]]]. rewrite P. cbn. splits; auto.
                 exists w0, (gs_writes x). split; [reflexivity|exact Q].
           ++ destruct (s_p s) as [| | | | |[] []|[] []|[] [] ?|[] w0|]; auto. destruct F2 as [A [B _]]. auto.
        -- (* WWritten *) destruct Hcase as [_ ->]. inversion Hs; subst. cbn.
           destruct (s_p s) as [| | | | |[] []|[] []|[] [] ?|[] w0|]; auto. destruct F2 as [A [B _]]. auto.
        -- (* WSleep *) destruct Hcase as [_ ->]. inversion Hs; subst. cbn.
           destruct (s_p s) as [| | | | |[] []|[] []|[] [] ?|[] w0|]; auto. destruct F2 as [A [B _]]. auto.
    + (* put loop *)
      intros C. specialize (F (Hc C)). unfold fi in F. destruct F as [F1 F2].
      unfold pstep in Hs. destruct (s_p s) as [|ch|ch|dl|keep|keep final|keep final|keep final dl|keep w|] eqn:Ep;
        try (exfalso; exact F2); try discriminate.
      * destruct keep, final; try (exfalso; exact F2).
        unfold fi. destruct (a_ok a); inversion Hs; subst; cbn [gstep]; rewrite Ep; cbn; auto.
      * destruct keep, final; try (exfalso; exact F2). cbn [negb andb] in Hs. inversion Hs; subst.
        unfold fi. cbn [gstep]. rewrite Ep. cbn. auto.
      * destruct keep, final; try (exfalso; exact F2).
        destruct (_ <=? _)%N; [|discriminate]. inversion Hs; subst. unfold fi. cbn [gstep]. rewrite Ep. cbn. auto.
      * destruct keep; [exfalso; exact F2|]. destruct F2 as [A B].
        destruct (wstep cfg TP w a s) as [[[s1 w']|]|] eqn:Ew; try discriminate.
        destruct (wstep_store _ _ _ _ _ _ _ Ew) as [Hr1 [Hp1 Hcase]].
        unfold fi. cbn [gstep]. rewrite Ep, gw_step_g. split; [exact F1|].
        destruct w as [| |st| |dl]; cbn [gw_step].
        -- destruct Hcase as [_ [_ ->]]. inversion Hs; subst. cbn. auto.
        -- destruct Hcase as [_ [st ->]]. inversion Hs; subst. cbn. split; [exact A|].
           eexists. split; [reflexivity|]. unfold all_acked. cbn. exact A.
        -- destruct B as [w0 [P Q]]. unfold wstep in Ew.
           destruct (a_ok a) eqn:Ea; inversion Ew; subst s1 w'; inversion Hs; subst s'; cbn.
           ++ rewrite P. cbn. split; [exact A|]. exists w0, (gs_writes x). split; [reflexivity|exact Q].
           ++ auto.
        -- destruct Hcase as [_ ->]. inversion Hs; subst. cbn. rewrite Hr1. splits; auto.
           destruct (s_r s) as [| |w0] eqn:Er; auto. destruct w0; auto. exfalso.
           eapply holds_excl; eauto; [unfold r_holds|unfold p_holds]; rewrite ?Er, ?Ep; reflexivity.
        -- destruct Hcase as [_ ->]. inversion Hs; subst. cbn. auto.
Qed.

(** where the put loop is once the final sync has begun *)
Definition pcinv (s : sys) : Prop :=
  match s_p s with
  | PSyncing k true | PSyncSleep k true _ | PSyncRet k true => k = false /\ closedForWriting (s_pbl s) = true
  | PW false _ | PExit => closedForWriting (s_pbl s) = true
  | _ => True
  end.

Lemma step_pcinv cfg s e s' : pcinv s -> step cfg s e = Some (Ok s') -> pcinv s'.
Proof.
  intros P Hs. pose proof (step_closed _ _ _ _ Hs) as Hcl.
  assert (Hmono : closedForWriting (s_pbl s) = true -> closedForWriting (s_pbl s') = true).
  { destruct Hcl as [E|[_ [E _]]]; congruence. }
  assert (Hframe : s_p s' = s_p s -> pcinv s').
  { intros E. unfold pcinv in *. rewrite E.
    destruct (s_p s) as [| | | | |k []|k []|k [] ?|[] w|]; intuition. }
  destruct e as [alloc| |index size|k blk seed|d| |t a]; cbn [step] in Hs.
  - inversion Hs; subst. apply Hframe. reflexivity.
  - destruct (blocks _); [discriminate|]. destruct (pop_front _); [|discriminate]. inversion Hs; subst.
    apply Hframe. reflexivity.
  - destruct (_ || _); [|discriminate]. destruct (put_start _ _); [|discriminate]. inversion Hs; subst.
    apply Hframe. reflexivity.
  - destruct (nth_error _ _) as [[[tok sz]|]|]; try discriminate.
    destruct (put_finalize _ _ _ _ _) as [[p' fr]|]; [|discriminate]. inversion Hs; subst. apply Hframe. reflexivity.
  - inversion Hs; subst. apply Hframe. reflexivity.
  - inversion Hs; subst. apply Hframe. reflexivity.
  - destruct t.
    + unfold rstep in Hs. destruct (s_r s) as [|ch|w].
      * inversion Hs; subst. apply Hframe. reflexivity.
      * destruct (is_closed _ _); [|discriminate]. inversion Hs; subst. apply Hframe. reflexivity.
      * destruct (wstep cfg TR w a s) as [[[s1 w']|]|] eqn:Ew; try discriminate.
        destruct (wstep_store _ _ _ _ _ _ _ Ew) as [_ [Hp1 _]]. apply Hframe.
        destruct w'; inversion Hs; subst; cbn; exact Hp1.
    + unfold pstep in Hs. unfold pcinv in *.
      destruct (s_p s) as [|ch|ch|dl|keep|keep final|keep final|keep final dl|keep w|] eqn:Ep.
      * inversion Hs; subst. cbn. exact I.
      * destruct (is_closed _ _); inversion Hs; subst; cbn; exact I.
      * destruct (s_cancel s && _); [|destruct (is_closed _ _); [|discriminate]]; inversion Hs; subst; cbn; exact I.
      * destruct (s_cancel s && _); [|destruct (_ && _)%bool; [|discriminate]]; inversion Hs; subst; cbn; exact I.
      * inversion Hs; subst. cbn. exact I.
      * destruct (a_ok a); inversion Hs; subst; cbn; destruct final; auto.
      * destruct (nsc_shape (s_pbl s)) as [_ [_ [_ [_ [_ [_ [_ Hc]]]]]]].
        destruct keep, final; cbn [negb andb] in Hs; inversion Hs; subst; cbn; auto.
        all: try (destruct P as [P _]; discriminate).
        all: try (destruct P as [_ P]; rewrite Hc; exact P).
      * destruct (_ <=? _)%N; [|discriminate]. inversion Hs; subst. cbn. destruct final; auto.
      * destruct (wstep cfg TP w a s) as [[[s1 w']|]|] eqn:Ew; try discriminate.
        pose proof (wstep_closed _ _ _ _ _ _ _ Ew) as Hc.
        destruct w'; inversion Hs; subst; cbn; destruct keep; auto; rewrite Hc; exact P.
      * discriminate.
Qed.

Definition sinv2 (o : N) (s : sys) (x : gsys) : Prop := sinv o s x /\ inv3 s /\ fi s x /\ pcinv s.

Lemma grun_sinv2 o cfg tr : forall s x s' x', sinv2 o s x -> grun cfg s x tr = Some (Ok (s', x')) -> sinv2 o s' x'.
Proof.
  induction tr as [|e tr IH]; intros s x s' x' S H; cbn in H.
  - inversion H; subst. exact S.
  - destruct (step cfg s e) as [[s1|]|] eqn:Es; try discriminate.
    eapply IH; [|exact H]. destruct S as [S1 [S2 [S3 S4]]]. split; [eapply step_sinv; eauto|].
    split; [eapply step_inv3; eauto|]. split; [eapply step_fi; eauto|eapply step_pcinv; eauto].
Qed.

Lemma init_sinv2 alloc oldest init t0 : sinv2 oldest (init_sys (fst (pbl_new alloc oldest init)) t0) g0.
Proof.
  split; [apply init_sinv|]. split; [apply init_inv3|]. split.
  - intros C. exfalso. unfold pbl_new in C. destruct (restore_blocks _ _ _) as [[bl sd] ls]. cbn in C. discriminate.
  - exact I.
Qed.

(** graceful: when ProcessBlockPut has returned false, the newest completed
    state write — the state on the medium — covers every ack ever made *)
Theorem graceful_all cfg alloc oldest init t0 s x : greachable cfg alloc oldest init t0 s x ->
  s_p s = PExit ->
  closedForWriting (s_pbl s) = true /\
  exists w rest, gs_writes x = w :: rest /\ gw_cohort w = g_acks (gs_g x) /\
                 forall a, In a (g_acks (gs_g x)) -> covers w a.
Proof.
  intros [tr H] Hp. destruct (grun_sinv2 _ _ _ _ _ _ _ (init_sinv2 alloc oldest init t0) H) as [[_ [_ W]] [_ [F P]]].
  unfold pcinv in P. rewrite Hp in P. split; [exact P|]. specialize (F P). rewrite Hp in F.
  destruct F as [_ [_ [[w [rest [Hw Ha]]] _]]]. exists w, rest. splits; auto.
  intros a Hin. destruct W as [W _]. rewrite Hw in W. inversion W; subst. destruct H2 as [C _].
  rewrite Forall_forall in C. apply C. unfold all_acked in Ha. rewrite Ha. exact Hin.
Qed.

(** refused, not lost, over all schedules: after the final NotifySyncStarting
    no step creates an ack and every finalizer leaves the list unchanged *)
Theorem refused_not_lost_all cfg alloc oldest init t0 s x : greachable cfg alloc oldest init t0 s x ->
  closedForWriting (s_pbl s) = true ->
  forall e s', step cfg s e = Some (Ok s') ->
    closedForWriting (s_pbl s') = true /\ g_acks (gs_g (gstep s e s' x)) = g_acks (gs_g x).
Proof.
  intros R C e s' Hs. split.
  - destruct (step_closed _ _ _ _ Hs) as [E|[E _]]; congruence.
  - destruct e as [alloc'| |index size|k blk seed|d| |t a]; cbn [gstep]; try reflexivity.
    + destruct (blocks _); reflexivity.
    + destruct (nth_error (s_uploads s) k) as [[[[|abs] sz]|]|] eqn:En; try reflexivity.
      destruct (put_finalize (PutAt abs) blk sz seed (s_pbl s)) as [[p' fr]|] eqn:Ef; [|reflexivity].
      destruct (refused_not_lost_pbl _ _ _ _ _ _ _ C Ef) as [_ [->|[-> _]]]; reflexivity.
    + destruct t.
      * destruct (s_r s); try reflexivity. rewrite gw_step_g. reflexivity.
      * destruct (s_p s) as [| | | | |? ?|k f|? ? ?|? w|]; try reflexivity.
        -- destruct (negb k && negb f); reflexivity.
        -- rewrite gw_step_g. reflexivity.
Qed.

(** ================= the layout of restored blocks ================= *)
Lemma promote_new_spec pol : forall fuel i nb i' nb', i <= fuel -> promote_new pol fuel i nb = (i', nb') ->
  i' + nb' = i + nb /\ (i' = 0 \/ should_grow_new pol 0 nb' = false).
Proof.
  induction fuel as [|f IH]; intros i nb i' nb' Hle H; cbn in H.
  - inversion H; subst. split; [reflexivity|left; lia].
  - destruct i as [|i]; [inversion H; subst; auto|].
    destruct (should_grow_new pol 0 nb) eqn:E.
    + apply IH in H; [|lia]. destruct H as [H1 H2]. split; [lia|exact H2].
    + inversion H; subst. auto.
Qed.

Lemma promote_current_spec pol : forall fuel i cb i' cb', i <= fuel -> promote_current pol fuel i cb = (i', cb') ->
  i' + cb' = i + cb /\ (i' = 0 \/ should_grow_current pol cb' = false).
Proof.
  induction fuel as [|f IH]; intros i cb i' cb' Hle H; cbn in H.
  - inversion H; subst. split; [reflexivity|left; lia].
  - destruct i as [|i]; [inversion H; subst; auto|].
    destruct (should_grow_current pol cb) eqn:E.
    + apply IH in H; [|lia]. destruct H as [H1 H2]. split; [lia|exact H2].
    + inversion H; subst. auto.
Qed.

Lemma ocn_new_counts pol desiredOld n :
  l_old (ocn_new pol desiredOld n) + l_current (ocn_new pol desiredOld n) + l_new (ocn_new pol desiredOld n) = n.
Proof.
  unfold ocn_new. destruct (promote_new pol n n 0) as [i1 nb] eqn:E1.
  destruct (promote_current pol i1 i1 0) as [i2 cb] eqn:E2. cbn.
  destruct (promote_new_spec _ _ _ _ _ _ (le_n _) E1) as [H1 _].
  destruct (promote_current_spec _ _ _ _ _ _ (le_n _) E2) as [H2 _]. lia.
Qed.

Theorem restored_layout_cas old cur new n : n <= old + cur + new ->
  l_to_be_released (ocn_new (cas_policy cur new) old n) = 0.
Proof.
  intros Hn. unfold ocn_new, cas_policy. destruct (promote_new _ n n 0) as [i1 nb] eqn:E1.
  destruct (promote_current _ i1 i1 0) as [i2 cb] eqn:E2. cbn [l_to_be_released].
  destruct (promote_new_spec _ _ _ _ _ _ (le_n _) E1) as [H1 H1'].
  destruct (promote_current_spec _ _ _ _ _ _ (le_n _) E2) as [H2 _].
  destruct (Nat.ltb_spec old i2); [|reflexivity]. exfalso.
  destruct H1' as [->|Hg]; [lia|]. unfold should_grow_new in Hg. apply Nat.ltb_ge in Hg. lia.
Qed.

Theorem restored_layout_ac old cur n : n <= old + cur + 1 ->
  l_to_be_released (ocn_new (ac_policy cur) old n) = 0.
Proof.
  intros Hn. unfold ocn_new, ac_policy. destruct (promote_new _ n n 0) as [i1 nb] eqn:E1.
  destruct (promote_current _ i1 i1 0) as [i2 cb] eqn:E2. cbn [l_to_be_released].
  destruct (promote_new_spec _ _ _ _ _ _ (le_n _) E1) as [H1 H1'].
  destruct (promote_current_spec _ _ _ _ _ _ (le_n _) E2) as [H2 H2'].
  destruct (Nat.ltb_spec old i2); [|reflexivity]. exfalso.
  destruct H2' as [->|Hg2]; [lia|]. unfold should_grow_current in Hg2. apply Nat.ltb_ge in Hg2.
  destruct H1' as [->|Hg]; [lia|]. unfold should_grow_new in Hg. apply Nat.ltb_ge in Hg. lia.
Qed.

Lemma promote_new_le d : forall fuel i z i' nb', z <= d -> promote_new (Immutable d) fuel i z = (i', nb') -> nb' <= d.
Proof.
  induction fuel as [|f IH]; intros i z i' nb' Hz H; cbn [promote_new] in H.
  - inversion H; subst. exact Hz.
  - destruct i; [inversion H; subst; exact Hz|]. unfold should_grow_new in H.
    destruct (Nat.ltb_spec (0 + z) d).
    + eapply IH; [|exact H]. lia.
    + inversion H; subst. exact Hz.
Qed.

(** and the hypothesis is sharp: one block more is scheduled for release *)
Theorem restored_layout_cas_overflow old cur new n : old + cur + new < n ->
  l_to_be_released (ocn_new (cas_policy cur new) old n) = n - (old + cur + new).
Proof.
  intros Hn. unfold ocn_new, cas_policy. destruct (promote_new _ n n 0) as [i1 nb] eqn:E1.
  destruct (promote_current _ i1 i1 0) as [i2 cb] eqn:E2. cbn [l_to_be_released].
  destruct (promote_new_spec _ _ _ _ _ _ (le_n _) E1) as [H1 H1'].
  assert (Hnb : nb <= cur + new) by (eapply promote_new_le; [|exact E1]; lia).
  assert (Hcb : i2 = i1 /\ cb = 0).
  { destruct i1; cbn in E2; inversion E2; auto. }
  destruct Hcb as [-> ->].
  destruct H1' as [->|Hg]; [lia|]. unfold should_grow_new in Hg. apply Nat.ltb_ge in Hg.
  destruct (Nat.ltb_spec old i1); lia.
Qed.

(** ================= when does a record resolve ================= *)
(** BlockReferenceToBlockIndex succeeds exactly when the referenced epoch is
    one of the list's epochs (its seed is then the one returned) and the
    referenced block — BlocksFromLast before the epoch's last block — has not
    been popped; the block is then listed. *)
Lemma ref_to_index_iff p eid bfl i sd :
  length (epochLast p) = length (epochSeeds p) ->
  epochLast p = elayout (totalReleased p) (blocks p) ->
  (ref_to_index eid bfl p = Ok (Some (i, sd)) <->
   exists e la, N.of_nat e = u32 (eid + 2 ^ 32 - oldestEpochID p)
     /\ nth_error (epochSeeds p) e = Some sd /\ nth_error (epochLast p) e = Some la
     /\ (Z.of_nat (totalReleased p) + Z.of_N bfl <= Z.of_nat la)%Z
     /\ i = Z.to_nat (Z.of_nat la - Z.of_nat (totalReleased p) - Z.of_N bfl)
     /\ i < length (blocks p)).
Proof.
  intros Hlen HEL. unfold ref_to_index.
  set (en := u32 (eid + 2 ^ 32 - oldestEpochID p)).
  destruct (N.leb_spec (N.of_nat (length (epochSeeds p))) en) as [Hle|Hlt].
  - split; [discriminate|]. intros [e [la [He [Hs _]]]]. exfalso.
    assert (e < length (epochSeeds p)) by (apply nth_error_Some; congruence). lia.
  - assert (Hn : N.to_nat en < length (epochSeeds p)) by lia.
    destruct (nth_error (epochLast p) (N.to_nat en)) as [la|] eqn:El;
      [|apply nth_error_None in El; lia].
    destruct (nth_error (epochSeeds p) (N.to_nat en)) as [sd'|] eqn:Es;
      [|apply nth_error_None in Es; lia].
    assert (Hrange : totalReleased p <= la < totalReleased p + length (blocks p)).
    { rewrite HEL in El. eapply elayout_range; eauto. }
    destruct (Z.ltb_spec (Z.of_nat la - Z.of_nat (totalReleased p)) (Z.of_N bfl)) as [Hb|Hb].
    + split; [discriminate|]. intros [e [la' [He [_ [Hl [Hz _]]]]]]. exfalso.
      assert (e = N.to_nat en) by lia. subst e. rewrite El in Hl. inversion Hl; subst. lia.
    + split.
      * intros H; inversion H; subst. exists (N.to_nat en), la. splits; auto; lia.
      * intros [e [la' [He [Hs [Hl [Hz [Hi _]]]]]]].
        assert (e = N.to_nat en) by lia. subst e. rewrite El in Hl. rewrite Es in Hs.
        inversion Hl; inversion Hs; subst. reflexivity.
Qed.

Lemma restart_wf st : let p := restart_of st in
  length (epochLast p) = length (epochSeeds p) /\ epochLast p = elayout (totalReleased p) (blocks p).
Proof.
  cbn zeta. unfold restart_of, pbl_new. destruct (restore_blocks _ (snd st) 0) as [[bl sd] ls] eqn:E. cbn.
  split; [apply (restore_lengths _ _ _ _ _ _ E)|eapply restore_el; eauto].
Qed.
