(** Persist/CrashOffsetsProofs.v — write offsets across a crash + restart.

    Goal 1 ([restored_offsets_cover]): first life; for every record that
      resolves after a crash at ANY log prefix under ANY loss choice, the
      restored block it resolves to has a restored write offset
      ([b_written] = [bs_off] of the surviving state file) at or above the end
      of the record's location.
    Goal 2 ([no_overwrite_after_restart_block]): any base medium; every data
      write of the new life into a restored block lies at or above the
      restored write offset rounded up to a sector.
    Corollary ([committed_space_not_overwritten_in_restored_block]).
    Goal 3 ([upload_writes_tile]): the data writes of one upload tile its
      allocation.

    Proofs only; stdlib only; no axioms. *)
From Coq Require Import List NArith ZArith Bool Arith Lia.
From BBS Require Import Persist.PBL Persist.PBLProofs Persist.Syncer Persist.SyncerProofs
                        Persist.Crash Persist.CrashLts.
From BBS Require Persist.CrashEpochProofs.
From BBS Require Import Persist.CrashAllocProofs.
Import ListNotations.

Module E := BBS.Persist.CrashEpochProofs.

Set Warnings "-abstract-large-number".

(** ------------------------------------------------------------------ *)
(** * Goal 2: no overwrite below the restored write offset (any base) *)

Theorem no_overwrite_after_restart_block : forall g cfg base t0 c, (0 < g_sector g)%Z ->
  creach g cfg base t0 c ->
  forall q k l lo hi, nth_error (cs_log c) q = Some (IoData k l lo hi) ->
  forall up i b, nth_error (cs_ups c) k = Some up -> up_abs up = i ->
    nth_error (blocks (fst (restart (geom g) (m_state base)))) i = Some b ->
    (b_written b <= round_up (g_sector g) (b_written b) <= lo)%Z.
Proof.
  intros g cfg base t0 c Hs R q k l lo hi Hq up i b Hup Hi Hb. subst i.
  destruct (alloc_disjoint _ _ _ _ _ R) as (_ & _ & D).
  destruct (D k l lo hi (nth_error_In _ _ Hq)) as (u & U1 & U2 & U3).
  rewrite Hup in U1. inv U1.
  destruct (alloc_above_restored_offset _ _ _ _ _ Hs R) as (_ & A).
  destruct (A _ _ _ Hup Hb). lia.
Qed.

(** ------------------------------------------------------------------ *)
(** * list helpers *)

Lemma nth_error_map_inv {A B} (f : A -> B) l i y :
  nth_error (map f l) i = Some y -> exists x, nth_error l i = Some x /\ y = f x.
Proof.
  rewrite nth_error_map. destruct (nth_error l i) as [x|]; cbn; [|discriminate].
  intros H; inv H. eauto.
Qed.

Lemma set_written_nth bs : forall i w j b',
  nth_error (set_written bs i w) j = Some b' ->
  exists b, nth_error bs j = Some b /\ (b_written b <= b_written b')%Z /\
    b_syncing b' = b_syncing b /\ b_synced b' = b_synced b /\ (j = i -> (w <= b_written b')%Z).
Proof.
  induction bs as [|b0 bs IH]; intros i w j b' H.
  - destruct i; cbn in H; rewrite nth_error_nil' in H; discriminate.
  - destruct i as [|i], j as [|j]; cbn in H.
    + inv H. exists b0. destruct (Z.ltb_spec (b_written b0) w); cbn; splits; auto; lia.
    + exists b'. splits; auto; try lia; try discriminate.
    + inv H. exists b'. splits; auto; try lia; try discriminate.
    + destruct (IH _ _ _ _ H) as (b & B1 & B2 & B3 & B4 & B5). exists b. cbn. splits; auto; intros Hj; apply B5; lia.
Qed.

Lemma bump_nth bs : forall j b',
  nth_error (bump_last_epoch_count bs) j = Some b' ->
  exists b, nth_error bs j = Some b /\ b_written b' = b_written b /\
    b_syncing b' = b_syncing b /\ b_synced b' = b_synced b.
Proof.
  induction bs as [|b0 bs IH]; intros j b' H; [destruct j; discriminate|].
  destruct bs as [|b1 bs].
  - destruct j as [|j]; cbn in H; [|rewrite nth_error_nil' in H; discriminate].
    inv H. exists b0. cbn. auto.
  - change (bump_last_epoch_count (b0 :: b1 :: bs)) with (b0 :: bump_last_epoch_count (b1 :: bs)) in H.
    destruct j as [|j]; cbn [nth_error] in H.
    + inv H. exists b'. auto.
    + apply IH in H. exact H.
Qed.

Lemma bump_length bs : length (bump_last_epoch_count bs) = length bs.
Proof.
  induction bs as [|b0 bs IH]; [reflexivity|]. destruct bs as [|b1 bs]; [reflexivity|].
  change (bump_last_epoch_count (b0 :: b1 :: bs)) with (b0 :: bump_last_epoch_count (b1 :: bs)).
  cbn [length]. rewrite IH. reflexivity.
Qed.

Lemma NoDup_skipn {A} k (l : list A) : NoDup l -> NoDup (skipn k l).
Proof.
  revert l. induction k; intros l H; cbn; [exact H|]. destruct l; [constructor|]. inv H. auto.
Qed.

(** ------------------------------------------------------------------ *)
(** * what [put_finalize] does to the offsets *)

Lemma put_finalize_view tok blk size seed p p' fr :
  put_finalize tok blk size seed p = Ok (p', fr) ->
  totalReleased p' = totalReleased p /\ synchronizingEpochs p' = synchronizingEpochs p /\
  synchronizedEpochs p' = synchronizedEpochs p /\ length (blocks p') = length (blocks p) /\
  (epochSeeds p' = epochSeeds p \/ epochSeeds p' = epochSeeds p ++ [seed]) /\
  (forall i b', nth_error (blocks p') i = Some b' ->
     exists b, nth_error (blocks p) i = Some b /\ (b_written b <= b_written b')%Z /\
       b_syncing b' = b_syncing b /\ b_synced b' = b_synced b) /\
  (forall off, fr = FinOk off -> exists abs, tok = PutAt abs /\ blk = Some off /\
     totalReleased p <= abs /\ abs - totalReleased p < length (blocks p) /\
     forall b', nth_error (blocks p') (abs - totalReleased p) = Some b' -> (off + size <= b_written b')%Z).
Proof.
  assert (Hid : forall q, q = p -> forall fr0, (forall o, fr0 <> FinOk o) ->
    totalReleased q = totalReleased p /\ synchronizingEpochs q = synchronizingEpochs p /\
    synchronizedEpochs q = synchronizedEpochs p /\ length (blocks q) = length (blocks p) /\
    (epochSeeds q = epochSeeds p \/ epochSeeds q = epochSeeds p ++ [seed]) /\
    (forall i b', nth_error (blocks q) i = Some b' ->
       exists b, nth_error (blocks p) i = Some b /\ (b_written b <= b_written b')%Z /\
         b_syncing b' = b_syncing b /\ b_synced b' = b_synced b) /\
    (forall off, fr0 = FinOk off -> exists abs, tok = PutAt abs /\ blk = Some off /\
       totalReleased p <= abs /\ abs - totalReleased p < length (blocks p) /\
       forall b', nth_error (blocks q) (abs - totalReleased p) = Some b' -> (off + size <= b_written b')%Z)).
  { intros q -> fr0 Hn. splits; auto.
    - intros i b' H. exists b'. splits; auto; lia.
    - intros off Ho. exfalso. eapply Hn; eauto. }
  unfold put_finalize.
  destruct tok as [|abs]; [intros HH; inv HH; apply Hid; [reflexivity|discriminate]|].
  destruct blk as [off|]; [|intros HH; inv HH; apply Hid; [reflexivity|discriminate]].
  destruct (closedForWriting p) eqn:Ec; [intros HH; inv HH; apply Hid; [reflexivity|discriminate]|].
  destruct (Nat.ltb_spec abs (totalReleased p)); [intros HH; inv HH; apply Hid; [reflexivity|discriminate]|].
  destruct (Nat.leb_spec (length (blocks p)) (abs - totalReleased p)); [discriminate|].
  clear Hid.
  set (bl1 := set_written (blocks p) (abs - totalReleased p) (off + size)%Z).
  assert (Hl1 : length bl1 = length (blocks p)) by apply set_written_length.
  assert (Hsw : forall i b', nth_error bl1 i = Some b' ->
     exists b, nth_error (blocks p) i = Some b /\ (b_written b <= b_written b')%Z /\
       b_syncing b' = b_syncing b /\ b_synced b' = b_synced b /\
       (i = abs - totalReleased p -> (off + size <= b_written b')%Z)).
  { intros i b' H'. eapply set_written_nth; eauto. }
  assert (Hbump : forall pw h1 b0,
     let q := mkPbl b0 (bump_last_epoch_count bl1) (epochSeeds p ++ [seed])
             (epochLast p ++ [totalReleased p + length bl1 - 1]) (totalReleased p) (oldestEpochID p)
             (synchronizingEpochs p) (synchronizedEpochs p) pw (toRelease p) (releasing p)
             (releaseWakeup p) h1 (releasedLog p) in
     totalReleased q = totalReleased p /\ synchronizingEpochs q = synchronizingEpochs p /\
     synchronizedEpochs q = synchronizedEpochs p /\ length (blocks q) = length (blocks p) /\
     (epochSeeds q = epochSeeds p \/ epochSeeds q = epochSeeds p ++ [seed]) /\
     (forall i b', nth_error (blocks q) i = Some b' ->
        exists b, nth_error (blocks p) i = Some b /\ (b_written b <= b_written b')%Z /\
          b_syncing b' = b_syncing b /\ b_synced b' = b_synced b) /\
     (forall off0, FinOk off = FinOk off0 -> exists abs0, PutAt abs = PutAt abs0 /\ Some off = Some off0 /\
        totalReleased p <= abs0 /\ abs0 - totalReleased p < length (blocks p) /\
        forall b', nth_error (blocks q) (abs0 - totalReleased p) = Some b' -> (off0 + size <= b_written b')%Z)).
  { intros pw h1 b0 q. unfold q. cbn. splits; auto.
    - rewrite bump_length. exact Hl1.
    - intros i b' H'. apply bump_nth in H'. destruct H' as (b1 & B1 & B2 & B3 & B4).
      destruct (Hsw _ _ B1) as (b & C1 & C2 & C3 & C4 & _). exists b. splits; auto; try congruence; try lia.
    - intros off0 Ho. inv Ho. exists abs. splits; auto.
      intros b' H'. apply bump_nth in H'. destruct H' as (b1 & B1 & B2 & B3 & B4).
      destruct (Hsw _ _ B1) as (b & C1 & C2 & C3 & C4 & C5). rewrite B2. apply C5. reflexivity. }
  intros HH.
  destruct (Nat.eqb_spec (length (epochLast p)) (synchronizingEpochs p)).
  - cbn [obind] in HH. destruct (nc_unblock (putWakeup p) (heap p)) as [[pw h1]|]; [|discriminate].
    cbn [obind] in HH. inv HH. apply Hbump.
  - destruct (length (epochLast p)) as [|n'] eqn:El; [discriminate|].
    destruct (nth_error (epochLast p) n') as [la|] eqn:En; [|discriminate].
    cbn [obind] in HH. destruct (Nat.ltb_spec la abs).
    + destruct (nc_unblock (putWakeup p) (heap p)) as [[pw h1]|]; [|discriminate].
      cbn [obind] in HH. inv HH. apply Hbump.
    + inv HH. cbn. splits; auto.
      * intros i b' H'. destruct (Hsw _ _ H') as (b & C1 & C2 & C3 & C4 & _). exists b. auto.
      * intros off0 Ho. inv Ho. exists abs. splits; auto.
        intros b' H'. destruct (Hsw _ _ H') as (b & C1 & C2 & C3 & C4 & C5). apply C5. reflexivity.
Qed.

(** ------------------------------------------------------------------ *)
(** * the per-record offset invariant *)

(** the block that record [r] designates (absolute index [a], as long as it is
    in the list) has been written / is being synced / has been synced up to
    the end of [r]'s location, according to the sync status of [r]'s epoch *)
Definition rcov (p : pbl) (ab : list nat) (r : irec) : Prop :=
  exists a, nth_error ab (r_up r) = Some a /\ a < totalReleased p + length (blocks p) /\
    forall b, totalReleased p <= a -> nth_error (blocks p) (a - totalReleased p) = Some b ->
      (r_off r + r_size r <= b_written b)%Z /\
      forall e, nth_error (epochSeeds p) e = Some (r_seed r) ->
        (e < synchronizingEpochs p -> (r_off r + r_size r <= b_syncing b)%Z) /\
        (e < synchronizedEpochs p -> (r_off r + r_size r <= b_synced b)%Z).

Lemma rcov_vsame p p' ab r :
  blocks p' = blocks p -> epochSeeds p' = epochSeeds p ->
  synchronizingEpochs p' = synchronizingEpochs p -> synchronizedEpochs p' = synchronizedEpochs p ->
  totalReleased p' = totalReleased p -> rcov p ab r -> rcov p' ab r.
Proof.
  intros E1 E2 E3 E4 E5 (a & A1 & A2 & A3). exists a. rewrite E1, E2, E3, E4, E5. auto.
Qed.

Lemma rcov_ab_app p ab ab' r : rcov p ab r -> rcov p (ab ++ ab') r.
Proof.
  intros (a & A1 & A2 & A3). exists a. splits; auto. apply nth_error_app_some. exact A1.
Qed.

Lemma rcov_push p l ab r : rcov p ab r -> rcov (set_blocks p (blocks p ++ [mkBinfo l 0 0 0 0])) ab r.
Proof.
  intros (a & A1 & A2 & A3). exists a. cbn. rewrite app_length. cbn. splits; auto; [lia|].
  intros b Ha Hb. rewrite nth_error_app1 in Hb by lia. auto.
Qed.

Lemma rcov_pop p p' ab r : pop_front p = Ok p' -> rcov p ab r -> rcov p' ab r.
Proof.
  intros Hp (a & A1 & A2 & A3).
  destruct (pop_front_spec _ _ Hp) as (b0 & rest & E1 & E2 & _ & _ & _ & _ & E7 & _).
  destruct (E.pop_core _ _ Hp) as (ec & P1 & P2 & P3 & P4).
  exists a. rewrite E2, E7. rewrite E1 in A2. cbn in A2. splits; auto; [lia|].
  intros b Ha Hb.
  assert (Hb0 : nth_error (blocks p) (a - totalReleased p) = Some b).
  { rewrite E1. replace (a - totalReleased p) with (S (a - S (totalReleased p))) by lia. exact Hb. }
  destruct (A3 b ltac:(lia) Hb0) as [W ES]. split; [exact W|].
  intros e He. rewrite P2, nth_error_skipn' in He. destruct (ES _ He) as [C S].
  rewrite P3, P4. split.
  - destruct (Nat.leb_spec (synchronizingEpochs p) ec); intros; [lia|apply C; lia].
  - destruct (Nat.leb_spec (synchronizedEpochs p) ec); intros; [lia|apply S; lia].
Qed.

Lemma rcov_nss f p ab r : rcov p ab r -> rcov (notify_sync_starting f p) ab r.
Proof.
  intros (a & A1 & A2 & A3). exists a. cbn. rewrite map_length. splits; auto.
  intros b Ha Hb. apply nth_error_map_inv in Hb. destruct Hb as (b0 & Hb0 & ->). cbn.
  destruct (A3 b0 Ha Hb0) as [W ES]. split; [exact W|]. intros e He. split; [auto|].
  apply (ES e He).
Qed.

Lemma rcov_nsc p ab r : rcov p ab r -> rcov (notify_sync_completed p) ab r.
Proof.
  intros (a & A1 & A2 & A3). exists a. unfold notify_sync_completed.
  destruct (if synchronizingEpochs p =? length (epochSeeds p) then nc_block (putWakeup p) (heap p)
            else (putWakeup p, heap p)) as [pw h1].
  cbn. rewrite map_length. splits; auto.
  intros b Ha Hb. apply nth_error_map_inv in Hb. destruct Hb as (b0 & Hb0 & ->). cbn.
  destruct (A3 b0 Ha Hb0) as [W ES]. split; [exact W|]. intros e He.
  destruct (ES e He) as [C S]. auto.
Qed.

Lemma rcov_fin tok blk size seed p p' fr ab r : pbl_inv p ->
  put_finalize tok blk size seed p = Ok (p', fr) -> rcov p ab r -> rcov p' ab r.
Proof.
  intros I Hf (a & A1 & A2 & A3).
  destruct (put_finalize_view _ _ _ _ _ _ _ Hf) as (V1 & V2 & V3 & V4 & V5 & V6 & _).
  exists a. rewrite V1, V2, V3, V4. splits; auto.
  intros b' Ha Hb'. destruct (V6 _ _ Hb') as (b & B1 & B2 & B3 & B4).
  destruct (A3 b Ha B1) as [W ES]. split; [lia|]. intros e He. rewrite B3, B4.
  pose proof (i_sync1 _ I). pose proof (i_sync2 _ I).
  destruct V5 as [V5|V5]; rewrite V5 in He; [apply ES; exact He|].
  apply nth_error_snoc_inv in He. destruct He as [He|[-> _]]; [apply ES; exact He|].
  split; intros; lia.
Qed.

(** a record written with the seed of the newest epoch, which is still open *)
Lemma rcov_new p ab r a :
  NoDup (epochSeeds p) -> synchronizedEpochs p <= synchronizingEpochs p ->
  synchronizingEpochs p < length (epochSeeds p) ->
  E.last_seed p = Some (r_seed r) -> nth_error ab (r_up r) = Some a ->
  a < totalReleased p + length (blocks p) ->
  (forall b, totalReleased p <= a -> nth_error (blocks p) (a - totalReleased p) = Some b ->
     (r_off r + r_size r <= b_written b)%Z) ->
  rcov p ab r.
Proof.
  intros Hnd H1 H2 Hl Ha Hlt Hw. exists a. splits; auto.
  intros b Hle Hb. split; [auto|]. intros e He. unfold E.last_seed in Hl.
  assert (e = length (epochSeeds p) - 1) by (eapply NoDup_nth_eq; eauto).
  split; intros; lia.
Qed.

(** ------------------------------------------------------------------ *)
(** * what the two syncer threads do to the offsets *)

Definition vsame (p p' : pbl) : Prop :=
  blocks p' = blocks p /\ epochSeeds p' = epochSeeds p /\
  synchronizingEpochs p' = synchronizingEpochs p /\ synchronizedEpochs p' = synchronizedEpochs p /\
  totalReleased p' = totalReleased p.

Lemma vsame_refl p : vsame p p.
Proof. unfold vsame. auto. Qed.

Lemma gps_vsame p p' st : get_persistent_state p = Ok (p', st) -> vsame p p'.
Proof.
  unfold get_persistent_state. destruct (gps_loop _ _ _ _); [|discriminate]. cbn.
  intros H; inv H. unfold vsame. cbn. auto.
Qed.

Lemma nsw_vsame p p' : notify_state_written p = Ok p' -> vsame p p'.
Proof.
  unfold notify_state_written. destruct (_ <? _); [discriminate|].
  destruct (skipn (releasing p) (toRelease p)) as [|x rest];
    [destruct (nc_block _ _) as [rw h1]|]; intros H; inv H; unfold vsame; cbn; auto.
Qed.

Lemma wstep_vsame cfg me w a s s' w' : wstep cfg me w a s = Some (Ok (s', w')) -> vsame (s_pbl s) (s_pbl s').
Proof.
  unfold wstep. destruct w.
  - destruct (s_store s); [discriminate|]. intros H; inv H. apply vsame_refl.
  - destruct (get_persistent_state (s_pbl s)) as [[p1 st1]|] eqn:Eg; [|discriminate].
    intros H; inv H. cbn. eapply gps_vsame; eauto.
  - destruct (a_ok a); intros H; inv H; apply vsame_refl.
  - destruct (notify_state_written (s_pbl s)) as [p1|] eqn:En; [|discriminate].
    intros H; inv H. cbn. eapply nsw_vsame; eauto.
  - destruct (_ <=? _)%N; [|discriminate]. intros H; inv H. apply vsame_refl.
Qed.

Lemma estep_pbl (P : pbl -> Prop) cfg s t a s' :
  step cfg s (EStep t a) = Some (Ok s') ->
  (forall p p', vsame p p' -> P p -> P p') ->
  (forall f p, P p -> P (notify_sync_starting f p)) ->
  (forall p, P p -> P (notify_sync_completed p)) ->
  P (s_pbl s) -> P (s_pbl s').
Proof.
  intros H Hv Hs Hc H0. destruct t; cbn [step] in H.
  - unfold rstep in H. destruct (s_r s) as [|ch|w].
    + inv H. exact H0.
    + destruct (is_closed _ _); [|discriminate]. inv H. exact H0.
    + destruct (wstep cfg TR w a s) as [[[s1 [w1|]]|]|] eqn:Ew; try discriminate;
        apply wstep_vsame in Ew; inv H; cbn; eapply Hv; eauto.
  - unfold pstep in H. destruct (s_p s) as [|ch|ch|dl|keep|keep final|keep final|keep final dl|keep w|].
    + inv H. exact H0.
    + destruct (is_closed _ _); inv H; exact H0.
    + destruct (s_cancel s && _); [|destruct (is_closed _ _); [|discriminate]]; inv H; exact H0.
    + destruct (s_cancel s && _); [|destruct (_ && _)%bool; [|discriminate]]; inv H; exact H0.
    + inv H. cbn. apply Hs. exact H0.
    + destruct (a_ok a); inv H; exact H0.
    + destruct (negb keep && negb final); inv H; cbn; auto.
    + destruct (_ <=? _)%N; [|discriminate]. inv H. exact H0.
    + destruct (wstep cfg TP w a s) as [[[s1 [w1|]]|]|] eqn:Ew; try discriminate;
        apply wstep_vsame in Ew; inv H; cbn; eapply Hv; eauto.
    + discriminate.
Qed.

Lemma estep_rcov cfg s t a s' ab r :
  step cfg s (EStep t a) = Some (Ok s') -> rcov (s_pbl s) ab r -> rcov (s_pbl s') ab r.
Proof.
  intros H. apply (estep_pbl (fun p => rcov p ab r) _ _ _ _ _ H).
  - intros p p' (V1 & V2 & V3 & V4 & V5). apply rcov_vsame; auto.
  - intros f p. apply rcov_nss.
  - intros p. apply rcov_nsc.
Qed.

(** ------------------------------------------------------------------ *)
(** * GetPersistentState: the offsets it emits *)

Lemma gps_loop_off bs : forall lastE synced seeds r,
  gps_loop bs lastE synced seeds = Ok r ->
  forall q b, nth_error r q = Some b -> exists b0, nth_error bs q = Some b0 /\ bs_off b = b_synced b0.
Proof.
  induction bs as [|b0 bs IH]; intros lastE synced seeds r H q b Hq; cbn [gps_loop] in H.
  - destruct (lastE <? synced); [discriminate|]. inv H. rewrite nth_error_nil' in Hq. discriminate.
  - destruct (lastE <? synced); [|inv H; rewrite nth_error_nil' in Hq; discriminate].
    destruct (length seeds <? _); [discriminate|].
    destruct (gps_loop bs _ synced seeds) as [r'|] eqn:Er; [|discriminate].
    cbn [obind] in H. inv H. destruct q as [|q]; cbn in Hq.
    + inv Hq. exists b0. cbn. auto.
    + cbn. eapply IH; eauto.
Qed.

Lemma gps_off p p1 st : get_persistent_state p = Ok (p1, st) ->
  forall q b, nth_error (snd st) q = Some b ->
    exists b0, nth_error (blocks p) q = Some b0 /\ bs_off b = b_synced b0.
Proof.
  unfold get_persistent_state.
  destruct (gps_loop (blocks p) 0 (synchronizedEpochs p) (epochSeeds p)) as [bl|] eqn:E; [|discriminate].
  cbn [obind]. intros H; inv H. cbn [snd]. eapply gps_loop_off; eauto.
Qed.

(** ------------------------------------------------------------------ *)
(** * state files *)

(** every seed of the state designates (via the ghost tables) the position of
    the entry that lists it, counted from absolute block index [kst] *)
Definition stk (sd : list N) (el : list nat) (st : pstate) (kst : nat) : Prop :=
  forall q b s0, nth_error (snd st) q = Some b -> In s0 (bs_seeds b) ->
    exists j, nth_error sd j = Some s0 /\ nth_error el j = Some (kst + q).

(** if the seed of [r] occurs in [st], the entry of [st] for the block that [r]
    designates has a write offset at or above the end of [r]'s location *)
Definition cover (ab : list nat) (st : pstate) (kst : nat) (r : irec) : Prop :=
  forall qq bq, nth_error (snd st) qq = Some bq -> In (r_seed r) (bs_seeds bq) ->
    exists a, nth_error ab (r_up r) = Some a /\
      (kst <= a -> forall bi, nth_error (snd st) (a - kst) = Some bi -> (r_off r + r_size r <= bs_off bi)%Z).

(** a state in flight: covers every record of the log *)
Definition sfl sd el ab (L : list (io irec)) (st : pstate) : Prop :=
  exists kst, stk sd el st kst /\ forall slot r, In (IoIndex slot r) L -> cover ab st kst r.

(** a state written at log position [q]: covers every record written before *)
Definition slg sd el ab (L : list (io irec)) (q : nat) (st : pstate) : Prop :=
  exists kst, stk sd el st kst /\
    forall pos slot r, pos < q -> nth_error L pos = Some (IoIndex slot r) -> cover ab st kst r.

Lemma stk_mono sd el sd' el' st kst : stk sd el st kst -> stk (sd ++ sd') (el ++ el') st kst.
Proof.
  intros H q b s0 Hq Hs. destruct (H q b s0 Hq Hs) as (j & J1 & J2).
  exists j. split; apply nth_error_app_some; assumption.
Qed.

Lemma cover_mono ab ab' st kst r : cover ab st kst r -> cover (ab ++ ab') st kst r.
Proof.
  intros H qq bq Hq Hs. destruct (H qq bq Hq Hs) as (a & A1 & A2).
  exists a. split; [apply nth_error_app_some; exact A1|exact A2].
Qed.

Lemma in_st_seeds (st : pstate) qq bq s : nth_error (snd st) qq = Some bq -> In s (bs_seeds bq) -> In s (E.st_seeds st).
Proof.
  intros Hq Hs. unfold E.st_seeds. apply in_concat. exists (bs_seeds bq). split; [|exact Hs].
  apply in_map. eapply nth_error_In; eauto.
Qed.

Lemma cover_vacuous ab st kst r : ~ In (r_seed r) (E.st_seeds st) -> cover ab st kst r.
Proof. intros Hn qq bq Hq Hs. exfalso. apply Hn. eapply in_st_seeds; eauto. Qed.

Lemma gps_sfl p sd el ab L p1 st :
  ginv p sd el -> get_persistent_state p = Ok (p1, st) ->
  (forall slot r, In (IoIndex slot r) L -> rcov p ab r) ->
  sfl sd el ab L st.
Proof.
  intros [G1 [k [Gk [G2 G3]]] G4 G5] Hg Hlog. exists (totalReleased p). split.
  - intros q b s0 Hq Hs. destruct (gps_spec _ _ _ Hg q b Hq) as [_ H2].
    destruct (H2 s0 Hs) as [e [E1 E2]]. exists (k + e). split.
    + rewrite <- nth_error_skipn', <- G2. exact E1.
    + rewrite <- nth_error_skipn', <- G3, G1. exact E2.
  - intros slot r Hin qq bq Hqq Hs. destruct (Hlog _ _ Hin) as (a & A1 & A2 & A3).
    exists a. split; [exact A1|]. intros Hle bi Hbi.
    destruct (gps_off _ _ _ Hg _ _ Hbi) as (b0 & B1 & B2). rewrite B2.
    destruct (A3 b0 Hle B1) as [W ES].
    pose proof (in_st_seeds _ _ _ _ Hqq Hs) as Hin'.
    apply (E.gps_seeds _ _ _ _ Hg) in Hin'. apply E.in_firstn_nth in Hin'.
    destruct Hin' as (j & J1 & J2). apply (ES j J2). exact J1.
Qed.

(** ------------------------------------------------------------------ *)
(** * the offset invariant of the instrumented transition system *)

Record oinv (c : cst) : Prop := mkOinv {
  oi_log : forall slot r, In (IoIndex slot r) (cs_log c) -> rcov (s_pbl (cs_sys c)) (abss c) r;
  oi_tbl : forall slot r, In (slot, r) (cs_tbl c) -> rcov (s_pbl (cs_sys c)) (abss c) r;
  oi_fl : forall st, E.in_flight (cs_sys c) st -> sfl (cs_seeds c) (cs_elast c) (abss c) (cs_log c) st;
  oi_wr : forall q st h, nth_error (cs_log c) q = Some (IoWriteNew (st, h)) ->
            slg (cs_seeds c) (cs_elast c) (abss c) (cs_log c) q st
}.

Lemma oinv_frame c c' X sd' el' ab' :
  oinv c ->
  cs_log c' = cs_log c ++ X ->
  cs_seeds c' = cs_seeds c ++ sd' -> cs_elast c' = cs_elast c ++ el' -> abss c' = abss c ++ ab' ->
  (forall r, rcov (s_pbl (cs_sys c)) (abss c) r -> rcov (s_pbl (cs_sys c')) (abss c) r) ->
  (forall slot r, In (IoIndex slot r) X ->
     rcov (s_pbl (cs_sys c')) (abss c) r /\
     forall st, E.in_flight (cs_sys c') st -> ~ In (r_seed r) (E.st_seeds st)) ->
  (forall st h, In (IoWriteNew (st, h)) X ->
     (forall slot r, ~ In (IoIndex slot r) X) /\
     sfl (cs_seeds c) (cs_elast c) (abss c) (cs_log c) st) ->
  (forall slot r, In (slot, r) (cs_tbl c') ->
     In (slot, r) (cs_tbl c) \/ rcov (s_pbl (cs_sys c')) (abss c) r) ->
  (forall st, E.in_flight (cs_sys c') st ->
     E.in_flight (cs_sys c) st \/ sfl (cs_seeds c) (cs_elast c) (abss c) (cs_log c) st) ->
  oinv c'.
Proof.
  intros [O1 O2 O3 O4] EL ES EE EA HP HX HW HT HF.
  constructor; rewrite ?EL, ?ES, ?EE, ?EA.
  - intros slot r Hin. apply rcov_ab_app. apply in_app_iff in Hin. destruct Hin as [Hin|Hin].
    + apply HP. eauto.
    + apply (HX _ _ Hin).
  - intros slot r Hin. apply rcov_ab_app. destruct (HT _ _ Hin) as [H|H]; [apply HP; eauto|exact H].
  - intros st Hf.
    assert (Hs : sfl (cs_seeds c) (cs_elast c) (abss c) (cs_log c) st).
    { destruct (HF st Hf) as [H|H]; [auto|exact H]. }
    destruct Hs as (kst & K1 & K2). exists kst. split; [apply stk_mono; exact K1|].
    intros slot r Hin. apply in_app_iff in Hin. destruct Hin as [Hin|Hin].
    + apply cover_mono. eauto.
    + apply cover_vacuous. apply (proj2 (HX _ _ Hin)). exact Hf.
  - intros q st h Hq. destruct (Nat.lt_ge_cases q (length (cs_log c))) as [Hlt|Hge].
    + rewrite nth_error_app1 in Hq by exact Hlt. destruct (O4 _ _ _ Hq) as (kst & K1 & K2).
      exists kst. split; [apply stk_mono; exact K1|]. intros pos slot r Hp Hn.
      rewrite nth_error_app1 in Hn by lia. apply cover_mono. eauto.
    + rewrite nth_error_app2 in Hq by exact Hge. apply nth_error_In in Hq.
      destruct (HW _ _ Hq) as [Hni (kst & K1 & K2)].
      exists kst. split; [apply stk_mono; exact K1|]. intros pos slot r Hp Hn.
      destruct (Nat.lt_ge_cases pos (length (cs_log c))) as [Hl|Hg].
      * rewrite nth_error_app1 in Hn by exact Hl. apply cover_mono. apply nth_error_In in Hn. eauto.
      * rewrite nth_error_app2 in Hn by exact Hg. apply nth_error_In in Hn. exfalso. eapply Hni; eauto.
Qed.

Lemma oinv_simple c c' s' X ab' :
  oinv c -> cs_sys c' = s' -> cs_log c' = cs_log c ++ X ->
  (forall slot r, ~ In (IoIndex slot r) X) -> (forall st h, ~ In (IoWriteNew (st, h)) X) ->
  cs_seeds c' = cs_seeds c -> cs_elast c' = cs_elast c -> cs_tbl c' = cs_tbl c ->
  abss c' = abss c ++ ab' ->
  (forall r, rcov (s_pbl (cs_sys c)) (abss c) r -> rcov (s_pbl s') (abss c) r) ->
  (forall st, E.in_flight s' st ->
     E.in_flight (cs_sys c) st \/ sfl (cs_seeds c) (cs_elast c) (abss c) (cs_log c) st) ->
  oinv c'.
Proof.
  intros O Es EL Hni Hnw ES EE ET EA HP HF.
  eapply (oinv_frame c c' X [] [] ab'); rewrite ?app_nil_r, ?Es; auto.
  - intros slot r Hin. exfalso. eapply Hni; eauto.
  - intros st h Hin. exfalso. eapply Hnw; eauto.
  - intros slot r Hin. left. rewrite <- ET. exact Hin.
Qed.

Lemma push_back_rcov alloc p ab r : rcov p ab r -> rcov (fst (push_back alloc p)) ab r.
Proof.
  unfold push_back. destruct (closedForWriting p); [auto|]. destruct alloc; [|auto].
  cbn. apply rcov_push.
Qed.

(** events other than thread steps and finalizers *)
Lemma oinv_env cfg c e s' c' ab' :
  oinv c -> step cfg (cs_sys c) e = Some (Ok s') ->
  (forall t a, e <> EStep t a) -> (forall k b s, e <> EFinalize k b s) ->
  cs_sys c' = s' -> cs_log c' = cs_log c -> cs_seeds c' = cs_seeds c -> cs_elast c' = cs_elast c ->
  cs_tbl c' = cs_tbl c -> abss c' = abss c ++ ab' -> oinv c'.
Proof.
  intros O Hs Hne Hnf E1 E2 E3 E4 E5 E6.
  destruct (env_frame _ _ _ _ Hne Hs) as [Er Ep].
  eapply (oinv_simple c c' s' []); eauto; rewrite ?app_nil_r; auto.
  - intros r Hr. destruct e; cbn [step] in Hs.
    + inv Hs. cbn. apply push_back_rcov. exact Hr.
    + destruct (blocks (s_pbl (cs_sys c))); [discriminate|].
      destruct (pop_front (s_pbl (cs_sys c))) as [p'|] eqn:Ep'; [|discriminate]. inv Hs. cbn.
      eapply rcov_pop; eauto.
    + destruct (_ || _); [|discriminate]. destruct (put_start _ _); [|discriminate]. inv Hs. exact Hr.
    + exfalso. eapply Hnf. reflexivity.
    + inv Hs. exact Hr.
    + inv Hs. exact Hr.
    + exfalso. eapply Hne. reflexivity.
  - intros st Hf. left. eapply E.in_flight_frame; eauto.
Qed.

Lemma oinv_push g cfg c c' : oinv c -> cstep g cfg c CPush = Some c' -> oinv c'.
Proof.
  intros O H. cbn [cstep] in H.
  assert (Hany : forall alloc c0, sys_step cfg c (EPushBack alloc) = Some c0 ->
            oinv c0 /\ forall locs cur fr hd, oinv (with_alloc c0 locs cur fr hd)).
  { intros alloc c0 H0. apply sys_step_inv in H0. destruct H0 as [s' [Hs ->]].
    split; [|intros locs cur fr hd]; eapply (oinv_env cfg c _ s' _ []); eauto; try discriminate;
      unfold abss; cbn; rewrite app_nil_r; reflexivity. }
  destruct (closedForWriting (s_pbl (cs_sys c))); [apply (Hany _ _ H)|].
  destruct (cs_free c) as [|l fr]; [apply (Hany _ _ H)|].
  destruct (sys_step cfg c (EPushBack (Some l))) as [c1|] eqn:Ess; [|discriminate]. inv H.
  apply (Hany _ _ Ess).
Qed.

Lemma oinv_pop g cfg c c' : oinv c -> cstep g cfg c CPop = Some c' -> oinv c'.
Proof.
  intros O H. cbn [cstep] in H. apply sys_step_inv in H. destruct H as [s' [Hs ->]].
  eapply (oinv_env cfg c _ s' _ []); eauto; try discriminate.
  unfold abss. cbn. rewrite app_nil_r. reflexivity.
Qed.

Lemma oinv_tick g cfg c c' d : oinv c -> cstep g cfg c (CTick d) = Some c' -> oinv c'.
Proof.
  intros O H. cbn [cstep] in H. apply sys_step_inv in H. destruct H as [s' [Hs ->]].
  eapply (oinv_env cfg c _ s' _ []); eauto; try discriminate.
  unfold abss. cbn. rewrite app_nil_r. reflexivity.
Qed.

Lemma oinv_cancel g cfg c c' : oinv c -> cstep g cfg c CCancel = Some c' -> oinv c'.
Proof.
  intros O H. cbn [cstep] in H. apply sys_step_inv in H. destruct H as [s' [Hs ->]].
  eapply (oinv_env cfg c _ s' _ []); eauto; try discriminate.
  unfold abss. cbn. rewrite app_nil_r. reflexivity.
Qed.

Lemma oinv_putstart g cfg c c' index key size :
  oinv c -> cstep g cfg c (CPutStart index key size) = Some c' -> oinv c'.
Proof.
  intros O H. cbn [cstep] in H. destruct (size <? 0)%Z; [discriminate|].
  destruct (sys_step cfg c (EPutStart index size)) as [c1|] eqn:Ess; [|discriminate].
  apply sys_step_inv in Ess. destruct Ess as [s' [Hs ->]].
  destruct (closedForWriting (s_pbl (cs_sys c))).
  - inv H. eapply (oinv_env cfg c _ s' _ [_]); eauto; try discriminate.
    unfold abss. cbn. rewrite map_app. reflexivity.
  - destruct (nth_error (cs_cur c) _); [|discriminate]. destruct (nth_error (cs_locs c) _); [|discriminate].
    destruct (_ <=? _)%Z; [|discriminate]. inv H.
    eapply (oinv_env cfg c _ s' _ [_]); eauto; try discriminate.
    unfold abss. cbn. rewrite map_app. reflexivity.
Qed.

Lemma oinv_data g cfg c c' k n : oinv c -> cstep g cfg c (CData k n) = Some c' -> oinv c'.
Proof.
  intros O H. cbn [cstep] in H.
  destruct (nth_error (cs_ups c) k) as [u|]; [|discriminate].
  destruct (up_state u); try discriminate.
  destruct (up_loc (cs_locs c) u) as [l|]; [|discriminate].
  destruct (_ && _)%bool; [|discriminate]. inv H.
  eapply (oinv_simple c _ (cs_sys c) [_] []); eauto; try reflexivity.
  - intros slot r [Hc|[]]. discriminate.
  - intros st h [Hc|[]]. discriminate.
  - unfold abss. cbn. rewrite abss_upd by reflexivity. rewrite app_nil_r. reflexivity.
Qed.

Lemma oinv_writerdone g cfg c c' k ok : oinv c -> cstep g cfg c (CWriterDone k ok) = Some c' -> oinv c'.
Proof.
  intros O H. cbn [cstep] in H.
  destruct (nth_error (cs_ups c) k) as [u|]; [|discriminate].
  destruct (up_state u); try discriminate.
  destruct (ok && _)%bool; [discriminate|].
  assert (Hf : forall c0, cs_sys c0 = cs_sys c -> cs_log c0 = cs_log c -> cs_seeds c0 = cs_seeds c ->
                cs_elast c0 = cs_elast c -> cs_tbl c0 = cs_tbl c ->
                cs_ups c0 = upd_nth (cs_ups c) k (fun u => mkUp (up_key u) (up_abs u) (up_off u) (up_size u)
                                                             (up_issued u) (UpDone ok)) -> oinv c0).
  { intros c0 E1 E2 E3 E4 E5 E6.
    eapply (oinv_simple c c0 (cs_sys c) [] []); eauto; rewrite ?app_nil_r; auto.
    unfold abss at 1. rewrite E6. apply abss_upd. reflexivity. }
  destruct (up_loc (cs_locs c) u) as [l|]; [|inv H; apply Hf; reflexivity].
  destruct (_ && _)%bool; inv H; apply Hf; reflexivity.
Qed.

Lemma oinv_dir g cfg c c' : oinv c -> cstep g cfg c CDir = Some c' -> oinv c'.
Proof.
  intros O H. cbn [cstep] in H.
  destruct (writing (cs_sys c)) as [st|] eqn:Ew; [|discriminate].
  destruct (cs_dirpc c <? dir_ops_total); [|discriminate]. inv H.
  apply E.writing_in_flight in Ew. pose proof (oi_fl _ O _ Ew) as Hs.
  eapply (oinv_frame c _ [dir_op (cs_dirpc c) (st, g_hinit g)] [] [] []); rewrite ?app_nil_r; eauto;
    try reflexivity.
  - intros slot r [Hc|[]]. destruct (cs_dirpc c) as [|[|[|[|[|?]]]]]; discriminate.
  - intros st0 h [Hc|[]]. split.
    + intros slot r [Hc'|[]]. rewrite Hc' in Hc. discriminate.
    + destruct (cs_dirpc c) as [|[|[|[|[|?]]]]]; try discriminate. inv Hc. exact Hs.
Qed.

Lemma oinv_cstep g cfg c c' t a : cinv g c -> oinv c -> cstep g cfg c (CStep t a) = Some c' -> oinv c'.
Proof.
  intros I O H. cbn [cstep] in H.
  destruct (thread_writing _ t && a_ok a && negb _); [discriminate|].
  destruct (sys_step cfg c (EStep t a)) as [c1|] eqn:Ess; [|discriminate].
  apply sys_step_inv in Ess. destruct Ess as [s' [Hs ->]].
  destruct (estep_effect _ _ _ _ _ Hs) as (U & S & R & P).
  cbv zeta in H.
  destruct (release_regions _ _ _ _ _) as [fr hd].
  assert (HF : forall st, E.in_flight s' st ->
     E.in_flight (cs_sys c) st \/ sfl (cs_seeds c) (cs_elast c) (abss c) (cs_log c) st).
  { intros st [Hf|[k Hf]].
    - destruct (R _ Hf) as [Hr|[p1 Hg]]; [left; left; exact Hr|right].
      eapply gps_sfl; eauto; [apply (ci_g _ _ I)|apply (oi_log _ O)].
    - destruct (P _ _ Hf) as [Hr|[p1 Hg]]; [left; right; eauto|right].
      eapply gps_sfl; eauto; [apply (ci_g _ _ I)|apply (oi_log _ O)]. }
  assert (HP : forall r, rcov (s_pbl (cs_sys c)) (abss c) r -> rcov (s_pbl s') (abss c) r).
  { intros r. eapply estep_rcov; eauto. }
  destruct t.
  - destruct (thread_at_getstate _ _); inv H;
      (eapply (oinv_simple c _ s' [] []); eauto; rewrite ?app_nil_r; reflexivity).
  - destruct (if p_notifies (cs_sys c) then _ else _) as [ncl cat].
    cbn [cs_sys cs_log with_sys] in H.
    set (log' := if p_syncing (cs_sys c) then cs_log c ++ [IoSyncEnd (a_ok a)]
                 else if p_syncing s' then cs_log c ++ [IoSyncBegin] else cs_log c) in *.
    assert (HX : exists X, log' = cs_log c ++ X /\ (forall slot r, ~ In (IoIndex slot r) X) /\
                   (forall st h, ~ In (IoWriteNew (st, h)) X)).
    { unfold log'. destruct (p_syncing (cs_sys c)); [|destruct (p_syncing s')].
      - eexists. split; [reflexivity|]. split; intros ? ? [Hc|[]]; discriminate.
      - eexists. split; [reflexivity|]. split; intros ? ? [Hc|[]]; discriminate.
      - exists []. rewrite app_nil_r. split; [reflexivity|]. split; intros ? ? []. }
    destruct HX as (X & HX1 & HX2 & HX3).
    destruct (thread_at_getstate _ _); inv H;
      (eapply (oinv_simple c _ s' X []); eauto; rewrite ?app_nil_r; reflexivity).
Qed.

(** ------------------------------------------------------------------ *)
(** * the finalizer section *)

Lemma do_writes_cov p ab k u ws :
  NoDup (epochSeeds p) -> synchronizedEpochs p <= synchronizingEpochs p ->
  synchronizingEpochs p < length (epochSeeds p) ->
  nth_error ab k = Some (up_abs u) -> up_abs u < totalReleased p + length (blocks p) ->
  (forall b, totalReleased p <= up_abs u -> nth_error (blocks p) (up_abs u - totalReleased p) = Some b ->
     (up_off u + up_size u <= b_written b)%Z) ->
  forall L tbl L' tbl', do_writes p k u ws L tbl = Some (L', tbl') ->
    (forall slot r, In (slot, r) tbl -> rcov p ab r) ->
    exists X, L' = L ++ map (fun e => IoIndex (fst e) (snd e)) X /\ tbl' = tbl ++ X /\
      forall slot r, In (slot, r) X -> rcov p ab r.
Proof.
  intros Hnd H1 H2 Hk Hlt Hw. induction ws as [|w ws IH]; intros L tbl L' tbl' H Htbl; cbn [do_writes] in H.
  - inv H. exists []. cbn. rewrite !app_nil_r. splits; auto. intros ? ? [].
  - destruct w as [slot|from to].
    + destruct (Nat.ltb_spec (up_abs u) (totalReleased p)); [discriminate|].
      destruct (mk_rec p (up_abs u - totalReleased p) (up_key u) (up_off u) (up_size u) k) as [r|] eqn:Em;
        [|discriminate].
      destruct (E.mk_rec_facts _ _ _ _ _ _ _ Em) as (F1 & F2 & F3 & F4 & F5).
      assert (Hr : rcov p ab r).
      { eapply (rcov_new p ab r (up_abs u)); eauto; rewrite ?F2, ?F3, ?F4; auto. }
      destruct (IH _ _ _ _ H) as (X & X1 & X2 & X3).
      { intros s0 r0 Hin. apply in_app_iff in Hin. destruct Hin as [Hin|[Hin|[]]]; [eauto|]. inv Hin. exact Hr. }
      exists ((slot, r) :: X). cbn. rewrite X1, X2, <- !app_assoc. splits; auto.
      intros s0 r0 [Hin|Hin]; [inv Hin; exact Hr|eauto].
    + destruct (slot_get tbl from None) as [r0|] eqn:Es; [|discriminate].
      destruct (live_index p r0) as [i|] eqn:El; [|discriminate].
      destruct (mk_rec p i (r_key r0) (r_off r0) (r_size r0) (r_up r0)) as [r|] eqn:Em; [|discriminate].
      destruct (E.mk_rec_facts _ _ _ _ _ _ _ Em) as (F1 & F2 & F3 & F4 & F5).
      assert (Hr0 : rcov p ab r0).
      { apply slot_get_in in Es. destruct Es as [Es|[s' Hin]]; [discriminate|]. eauto. }
      assert (Hr : rcov p ab r).
      { destruct Hr0 as (a0 & A1 & A2 & A3).
        eapply (rcov_new p ab r a0); eauto; rewrite ?F2, ?F3, ?F4; auto.
        intros b Hle Hb. apply (A3 b Hle Hb). }
      destruct (IH _ _ _ _ H) as (X & X1 & X2 & X3).
      { intros s0 r1 Hin. apply in_app_iff in Hin. destruct Hin as [Hin|[Hin|[]]]; [eauto|]. inv Hin. exact Hr. }
      exists ((to, r) :: X). cbn. rewrite X1, X2, <- !app_assoc. splits; auto.
      intros s0 r1 [Hin|Hin]; [inv Hin; exact Hr|eauto].
Qed.

(** the seed of a record appended by this step is the seed of an open epoch,
    hence it occurs in no state in flight (from the invariant of CrashEpochProofs) *)
Lemma new_record_seed_open c c' X slot r st :
  E.cinv c -> E.cinv c' -> cs_log c' = cs_log c ++ X -> cs_closed_at c' = cs_closed_at c ->
  In (IoIndex slot r) X -> E.in_flight (cs_sys c') st -> ~ In (r_seed r) (E.st_seeds st).
Proof.
  intros [_ [_ HL]] [HS' [_ HL']] EL EC Hin Hf Hs.
  pose proof (E.si_W _ _ _ _ _ _ HS' _ Hf _ Hs) as H1.
  pose proof (E.si_le1 _ _ _ _ _ _ HS') as Hle.
  apply (E.in_firstn_le _ _ _ _ H1) in Hle.
  apply In_nth_error in Hin. destruct Hin as [pos Hpos].
  destruct (E.li_C _ _ _ _ _ _ _ HL') as [_ C'].
  destruct (E.li_C _ _ _ _ _ _ _ HL) as [C _].
  assert (Hn : nth_error (cs_log c') (length (cs_log c) + pos) = Some (IoIndex slot r)).
  { rewrite EL, nth_error_app2 by lia. replace (_ + pos - _) with pos by lia. exact Hpos. }
  specialize (C' _ _ _ Hn Hle). rewrite EC in C'. lia.
Qed.

(** ------------------------------------------------------------------ *)
(** * sizes and signs (any base whose restored cursors are non-negative) *)

Record uinv (c : cst) : Prop := mkUinv {
  ui_len : length (s_uploads (cs_sys c)) = length (cs_ups c);
  ui_size : forall k u tok size, nth_error (cs_ups c) k = Some u ->
      nth_error (s_uploads (cs_sys c)) k = Some (Some (tok, size)) -> size = up_size u;
  ui_cur : forall j x, nth_error (cs_cur c) j = Some x -> (0 <= x)%Z;
  ui_ups : forall k u, nth_error (cs_ups c) k = Some u -> (0 <= up_off u /\ 0 <= up_size u)%Z
}.

Lemma clear_nth_length {A} (l : list (option A)) k : length (clear_nth l k) = length l.
Proof. revert k. induction l as [|x l IH]; intros [|k]; cbn; auto. Qed.

Lemma clear_nth_some {A} (l : list (option A)) k j x :
  nth_error (clear_nth l k) j = Some (Some x) -> nth_error l j = Some (Some x).
Proof.
  revert k j. induction l as [|y l IH]; intros [|k] [|j] H; cbn in *; try discriminate; auto.
  eapply IH; eauto.
Qed.

Lemma step_uploads cfg s e s' : step cfg s e = Some (Ok s') ->
  match e with
  | EPutStart _ sz => exists tok, s_uploads s' = s_uploads s ++ [Some (tok, sz)]
  | EFinalize k _ _ => s_uploads s' = clear_nth (s_uploads s) k
  | _ => s_uploads s' = s_uploads s
  end.
Proof.
  intros H. destruct e; cbn [step] in H.
  - inv H. reflexivity.
  - destruct (blocks (s_pbl s)); [discriminate|]. destruct (pop_front _); [|discriminate]. inv H. reflexivity.
  - destruct (_ || _); [|discriminate]. destruct (put_start _ _) as [tok|]; [|discriminate]. inv H. cbn. eauto.
  - destruct (nth_error (s_uploads s) k) as [[[tok sz]|]|]; try discriminate.
    destruct (put_finalize _ _ _ _ _) as [[p' fr]|]; [|discriminate]. inv H. reflexivity.
  - inv H. reflexivity.
  - inv H. reflexivity.
  - apply (estep_effect _ _ _ _ _ H).
Qed.

Lemma uinv_upd c c' k f :
  uinv c -> same_alloc f -> cs_ups c' = upd_nth (cs_ups c) k f ->
  (s_uploads (cs_sys c') = s_uploads (cs_sys c) \/
   exists k', s_uploads (cs_sys c') = clear_nth (s_uploads (cs_sys c)) k') ->
  (cs_cur c' = cs_cur c \/ cs_cur c' = cs_cur c ++ [0%Z]) -> uinv c'.
Proof.
  intros [U1 U2 U3 U4] Hf Eu Es Ec. constructor.
  - rewrite Eu, upd_nth_length. destruct Es as [->|[k' ->]]; [|rewrite clear_nth_length]; exact U1.
  - intros j y tok size Hy Hs. rewrite Eu in Hy. apply upd_nth_inv in Hy. destruct Hy as (x & Hx & Hy).
    assert (Hs' : nth_error (s_uploads (cs_sys c)) j = Some (Some (tok, size))).
    { destruct Es as [Es|[k' Es]]; rewrite Es in Hs; [exact Hs|eapply clear_nth_some; eauto]. }
    rewrite (U2 _ _ _ _ Hx Hs'). destruct (Hf x) as (_ & _ & F3).
    destruct Hy as [->|[_ ->]]; auto.
  - intros j x Hj. destruct Ec as [Ec|Ec]; rewrite Ec in Hj; [eauto|].
    apply nth_error_snoc_inv in Hj. destruct Hj as [Hj|[_ ->]]; [eauto|lia].
  - intros j y Hy. rewrite Eu in Hy. apply upd_nth_inv in Hy. destruct Hy as (x & Hx & Hy).
    destruct (Hf x) as (_ & F2 & F3). destruct (U4 _ _ Hx).
    destruct Hy as [->|[_ ->]]; [auto|]. rewrite F2, F3. auto.
Qed.

Lemma same_alloc_id : same_alloc (fun u => u).
Proof. intros u. auto. Qed.

Lemma uinv_keep c c' :
  uinv c -> cs_ups c' = cs_ups c -> s_uploads (cs_sys c') = s_uploads (cs_sys c) ->
  (cs_cur c' = cs_cur c \/ cs_cur c' = cs_cur c ++ [0%Z]) -> uinv c'.
Proof.
  intros U E1 E2 E3. eapply (uinv_upd c c' 0 (fun u => u)); eauto using same_alloc_id.
  rewrite upd_nth_id. exact E1.
Qed.

Lemma uinv_step g cfg c e c' : uinv c -> cstep g cfg c e = Some c' -> uinv c'.
Proof.
  intros U H. destruct e; cbn [cstep] in H.
  - (* push *)
    assert (Hany : forall alloc c0, sys_step cfg c (EPushBack alloc) = Some c0 ->
              uinv c0 /\ forall locs fr hd, uinv (with_alloc c0 locs (cs_cur c ++ [0%Z]) fr hd)).
    { intros alloc c0 H0. apply sys_step_inv in H0. destruct H0 as [s' [Hs ->]].
      apply step_uploads in Hs. split; [|intros locs fr hd]; eapply uinv_keep; eauto. }
    destruct (closedForWriting (s_pbl (cs_sys c))); [apply (Hany _ _ H)|].
    destruct (cs_free c) as [|l fr]; [apply (Hany _ _ H)|].
    destruct (sys_step cfg c (EPushBack (Some l))) as [c1|] eqn:Ess; [|discriminate]. inv H.
    apply (Hany _ _ Ess).
  - apply sys_step_inv in H. destruct H as [s' [Hs ->]]. apply step_uploads in Hs.
    eapply uinv_keep; eauto.
  - (* put start *)
    destruct (Z.ltb_spec size 0) as [|Hsz]; [discriminate|].
    destruct (sys_step cfg c (EPutStart index size)) as [c1|] eqn:Ess; [|discriminate].
    apply sys_step_inv in Ess. destruct Ess as [s' [Hs ->]]. apply step_uploads in Hs.
    destruct Hs as [tok Hs]. destruct U as [U1 U2 U3 U4].
    assert (Hsize : forall x, up_size x = size -> forall k u tok0 size0,
              nth_error (cs_ups c ++ [x]) k = Some u ->
              nth_error (s_uploads s') k = Some (Some (tok0, size0)) -> size0 = up_size u).
    { intros x Hx k u tok0 size0 Hu Ht. rewrite Hs in Ht.
      apply nth_error_snoc_inv in Hu. apply nth_error_snoc_inv in Ht.
      destruct Hu as [Hu|[Hk ->]], Ht as [Ht|[Hk' Ht]]; eauto.
      - apply E.nth_lt in Hu. lia.
      - apply E.nth_lt in Ht. lia.
      - inv Ht. auto. }
    destruct (closedForWriting (s_pbl (cs_sys c))).
    + inv H. constructor; cbn.
      * rewrite Hs, !app_length. cbn. lia.
      * apply Hsize. reflexivity.
      * exact U3.
      * intros k u Hu. apply nth_error_snoc_inv in Hu. destruct Hu as [Hu|[_ ->]]; [eauto|cbn; lia].
    + destruct (nth_error (cs_cur c) _) as [off|] eqn:Eo; [|discriminate].
      destruct (nth_error (cs_locs c) _); [|discriminate].
      destruct (_ <=? _)%Z; [|discriminate]. inv H. constructor; cbn.
      * rewrite Hs, !app_length. cbn. lia.
      * apply Hsize. reflexivity.
      * intros j x Hj. rewrite nth_error_upd_nth in Hj. destruct (Nat.eqb j _); [|eauto].
        destruct (nth_error (cs_cur c) j) as [y|] eqn:Ey; cbn in Hj; [|discriminate]. inv Hj.
        specialize (U3 _ _ Ey). lia.
      * intros k u Hu. apply nth_error_snoc_inv in Hu. destruct Hu as [Hu|[_ ->]]; [eauto|cbn].
        specialize (U3 _ _ Eo). lia.
  - (* data *)
    destruct (nth_error (cs_ups c) k) as [u|]; [|discriminate].
    destruct (up_state u); try discriminate.
    destruct (up_loc (cs_locs c) u) as [l|]; [|discriminate].
    destruct (_ && _)%bool; [|discriminate]. inv H.
    eapply uinv_upd; eauto; [|reflexivity]. intros u0. cbn. auto.
  - (* writer done *)
    destruct (nth_error (cs_ups c) k) as [u|]; [|discriminate].
    destruct (up_state u); try discriminate.
    destruct (ok && _)%bool; [discriminate|].
    assert (Hf : forall c0, cs_sys c0 = cs_sys c -> cs_cur c0 = cs_cur c ->
                  cs_ups c0 = upd_nth (cs_ups c) k (fun u => mkUp (up_key u) (up_abs u) (up_off u) (up_size u)
                                                               (up_issued u) (UpDone ok)) -> uinv c0).
    { intros c0 E1 E2 E3. eapply uinv_upd; eauto; [|rewrite E1; auto]. intros u0. cbn. auto. }
    destruct (up_loc (cs_locs c) u) as [l|]; [|inv H; apply Hf; reflexivity].
    destruct (_ && _)%bool; inv H; apply Hf; reflexivity.
  - (* finalize *)
    destruct (nth_error (cs_ups c) k) as [u|] eqn:Eu; [|discriminate].
    destruct (nth_error (s_uploads (cs_sys c)) k) as [[[tok size]|]|] eqn:Et; try discriminate.
    destruct (up_state u) as [|ok|] eqn:Eus; try discriminate.
    destruct (negb (fresh c seed)); [discriminate|].
    destruct (put_finalize tok _ size seed (s_pbl (cs_sys c))) as [[p' fr]|] eqn:Epf; [|discriminate].
    destruct (sys_step cfg c _) as [c1|] eqn:Ess; [|discriminate].
    apply sys_step_inv in Ess. destruct Ess as [s1 [Hs ->]]. apply step_uploads in Hs.
    assert (Hf : forall b c0, cs_ups c0 = fin_ups c k b -> cs_cur c0 = cs_cur c ->
                  s_uploads (cs_sys c0) = s_uploads s1 -> uinv c0).
    { intros b c0 E1 E2 E3. eapply uinv_upd; eauto; [intros u0; cbn; auto|]. right. exists k. congruence. }
    fold (fin_ups c k true) in H. fold (fin_ups c k false) in H.
    destruct fr as [off| | |].
    2-4: destruct ws; [|discriminate]; inv H; apply (Hf false); destruct (_ <? _); reflexivity.
    destruct (do_writes p' k u ws (cs_log c) (cs_tbl c)) as [[log' tbl']|]; [|discriminate]. inv H.
    apply (Hf true); destruct (_ <? _); reflexivity.
  - apply sys_step_inv in H. destruct H as [s' [Hs ->]]. apply step_uploads in Hs.
    eapply uinv_keep; eauto.
  - apply sys_step_inv in H. destruct H as [s' [Hs ->]]. apply step_uploads in Hs.
    eapply uinv_keep; eauto.
  - (* thread step *)
    destruct (_ && _ && _)%bool; [discriminate|].
    destruct (sys_step cfg c (EStep t a)) as [c1|] eqn:Ess; [|discriminate].
    apply sys_step_inv in Ess. destruct Ess as [s' [Hs ->]]. apply step_uploads in Hs.
    cbv zeta in H. destruct (release_regions _ _ _ _ _) as [fr hd].
    destruct t.
    + destruct (thread_at_getstate _ _); inv H; eapply uinv_keep; eauto.
    + destruct (if p_notifies (cs_sys c) then _ else _) as [ncl cat].
      destruct (thread_at_getstate _ _); inv H; eapply uinv_keep; eauto.
  - destruct (writing _); [|discriminate]. destruct (_ <? _); [|discriminate]. inv H.
    eapply uinv_keep; eauto.
Qed.

Lemma uinv_init g t0 : uinv (cinit g medium_empty t0).
Proof.
  constructor; cbn.
  - reflexivity.
  - intros k u tok size H. rewrite nth_error_nil' in H. discriminate.
  - intros j x H. rewrite nth_error_nil' in H. discriminate.
  - intros k u H. rewrite nth_error_nil' in H. discriminate.
Qed.

Lemma oinv_finalize g cfg c c' k seed ws :
  cinv g c -> cinv g c' -> E.cinv c -> E.cinv c' -> uinv c -> oinv c ->
  cstep g cfg c (CFinalize k seed ws) = Some c' -> oinv c'.
Proof.
  intros I I' EI EI' U O H. cbn [cstep] in H.
  destruct (nth_error (cs_ups c) k) as [u|] eqn:Eu; [|discriminate].
  destruct (nth_error (s_uploads (cs_sys c)) k) as [[[tok size]|]|] eqn:Et; try discriminate.
  destruct (up_state u) as [|ok|] eqn:Eus; try discriminate.
  destruct (fresh c seed) eqn:Efr; [|discriminate]. cbn [negb] in H.
  destruct (put_finalize tok (if ok then Some (up_off u) else None) size seed (s_pbl (cs_sys c)))
    as [[p' fr]|] eqn:Epf; [|discriminate].
  destruct (sys_step cfg c (EFinalize k (if ok then Some (up_off u) else None) seed)) as [c1|] eqn:Ess;
    [|discriminate].
  apply sys_step_inv in Ess. destruct Ess as [s1 [Hs ->]]. cbn [step] in Hs. rewrite Et, Epf in Hs. inv Hs.
  fold (fin_ups c k true) in H. fold (fin_ups c k false) in H.
  assert (Ipbl : pbl_inv (s_pbl (cs_sys c))).
  { destruct EI as [HS _]. apply (proj1 (E.si_inv1 _ _ _ _ _ _ HS)). }
  assert (HP : forall r, rcov (s_pbl (cs_sys c)) (abss c) r -> rcov p' (abss c) r).
  { intros r. eapply rcov_fin; eauto. }
  assert (Hab : forall b, map up_abs (fin_ups c k b) = abss c).
  { intros b. unfold fin_ups. apply abss_upd. reflexivity. }
  set (s1 := with_uploads (with_pbl (cs_sys c) p') (clear_nth (s_uploads (cs_sys c)) k)) in *.
  assert (HF : forall st, E.in_flight s1 st -> E.in_flight (cs_sys c) st) by (intros st Hf; exact Hf).
  destruct fr as [off| | |].
  2-4: destruct ws; [|discriminate]; inv H;
       destruct (length (epochSeeds (s_pbl (cs_sys c))) <? length (epochSeeds p'));
       [eapply (oinv_frame c _ [] [seed] [_] [])|eapply (oinv_frame c _ [] [] [] [])];
       rewrite ?app_nil_r; eauto; try reflexivity;
       try (unfold abss; cbn; apply Hab);
       try (intros ? ? []); intros slot r Hin; left; exact Hin.
  destruct (do_writes p' k u ws (cs_log c) (cs_tbl c)) as [[log' tbl']|] eqn:Edw; [|discriminate].
  (* facts about the finalizer that succeeded *)
  destruct (put_finalize_view _ _ _ _ _ _ _ Epf) as (V1 & V2 & V3 & V4 & V5 & V6 & V7).
  destruct (V7 off eq_refl) as (abs & T1 & T2 & T3 & T4 & T5).
  assert (Habs : abs = up_abs u).
  { subst tok. pose proof (ci_tok _ _ I) as I5.
    eapply (Forall2_nth _ _ _ k (up_abs u)) in I5; [| |exact Et].
    - exact I5.
    - unfold abss. apply map_nth_error. exact Eu. }
  assert (Hoff : off = up_off u) by (destruct ok; [inv T2; reflexivity|discriminate]).
  assert (Hsize : size = up_size u) by (eapply (ui_size _ U); eauto).
  subst abs off size.
  destruct (E.put_finalize_core _ _ _ _ _ _ _ Ipbl Epf) as (P1 & P2 & P3 & _).
  pose proof (i_sync1 _ Ipbl) as S1. pose proof (i_sync2 _ Ipbl) as S2.
  assert (Hopen : synchronizingEpochs p' < length (epochSeeds p')).
  { rewrite P1. destruct P3 as [[P3 Hne]|P3]; rewrite P3.
    - specialize (Hne _ eq_refl). lia.
    - rewrite app_length. cbn. lia. }
  assert (Ep' : s_pbl (cs_sys c') = p').
  { inv H. destruct (_ <? _); reflexivity. }
  assert (Hnd : NoDup (epochSeeds p')).
  { destruct (ci_g _ _ I') as [_ [k0 [_ [G2 _]]] _ G5]. rewrite Ep' in G2. rewrite G2.
    apply NoDup_skipn. exact G5. }
  destruct (do_writes_cov p' (abss c) k u ws Hnd ltac:(lia) Hopen) with (4 := Edw) as (X & X1 & X2 & X3).
  { unfold abss. apply map_nth_error. exact Eu. }
  { rewrite V1, V4. lia. }
  { intros b Hle Hb. rewrite V1 in Hb. apply T5. exact Hb. }
  { intros slot r Hin. apply HP. apply (oi_tbl _ O _ _ Hin). }
  assert (Hlog : cs_log c' = cs_log c ++ map (fun e => IoIndex (fst e) (snd e)) X).
  { inv H. destruct (_ <? _); reflexivity. }
  assert (Hca : cs_closed_at c' = cs_closed_at c).
  { inv H. destruct (_ <? _); reflexivity. }
  assert (Hsys : cs_sys c' = s1).
  { inv H. destruct (_ <? _); reflexivity. }
  assert (HX : forall slot r, In (IoIndex slot r) (map (fun e => IoIndex (fst e) (snd e)) X) ->
     rcov (s_pbl (cs_sys c')) (abss c) r /\
     forall st, E.in_flight (cs_sys c') st -> ~ In (r_seed r) (E.st_seeds st)).
  { intros slot r Hin. split.
    - apply in_map_iff in Hin. destruct Hin as ([s0 r0] & Hx & Hin). cbn in Hx. injection Hx as Hx1 Hx2. subst s0 r0.
      rewrite Ep'. eapply X3; eauto.
    - intros st Hf. eapply (new_record_seed_open c c' _ slot r st EI EI' Hlog Hca Hin Hf). }
  assert (HW : forall st h, In (IoWriteNew (st, h)) (map (fun e => IoIndex (fst e) (snd e)) X) ->
     (forall slot r, ~ In (IoIndex slot r) (map (fun e => IoIndex (fst e) (snd e)) X)) /\
     sfl (cs_seeds c) (cs_elast c) (abss c) (cs_log c) st).
  { intros st h Hin. apply in_map_iff in Hin. destruct Hin as (x & Hx & _). discriminate. }
  assert (HT : forall slot r, In (slot, r) (cs_tbl c') ->
     In (slot, r) (cs_tbl c) \/ rcov (s_pbl (cs_sys c')) (abss c) r).
  { intros slot r Hin. assert (Et' : cs_tbl c' = cs_tbl c ++ X) by (inv H; destruct (_ <? _); reflexivity).
    rewrite Et' in Hin. apply in_app_iff in Hin. destruct Hin as [Hin|Hin]; [left; exact Hin|right].
    rewrite Ep'. eapply X3; eauto. }
  assert (HP' : forall r, rcov (s_pbl (cs_sys c)) (abss c) r -> rcov (s_pbl (cs_sys c')) (abss c) r).
  { rewrite Ep'. exact HP. }
  assert (HF' : forall st, E.in_flight (cs_sys c') st ->
     E.in_flight (cs_sys c) st \/ sfl (cs_seeds c) (cs_elast c) (abss c) (cs_log c) st).
  { rewrite Hsys. intros st Hf. left. exact Hf. }
  assert (Hshape : (cs_seeds c' = cs_seeds c ++ [] /\ cs_elast c' = cs_elast c ++ []) \/
                   exists x, cs_seeds c' = cs_seeds c ++ [seed] /\ cs_elast c' = cs_elast c ++ [x]).
  { inv H. destruct (_ <? _); cbn; rewrite ?app_nil_r; [right; eauto|left; auto]. }
  assert (Hab' : abss c' = abss c ++ []).
  { rewrite app_nil_r. inv H. destruct (_ <? _); unfold abss; cbn; apply Hab. }
  destruct Hshape as [[Q1 Q2]|[x [Q1 Q2]]]; eapply oinv_frame; eauto.
Qed.

(** ------------------------------------------------------------------ *)
(** * every step preserves the offset invariant; reachable states *)

Lemma oinv_step g cfg c e c' :
  cinv g c -> cinv g c' -> E.cinv c -> E.cinv c' -> uinv c -> oinv c ->
  cstep g cfg c e = Some c' -> oinv c'.
Proof.
  intros I I' EI EI' U O H. destruct e.
  - exact (oinv_push _ _ _ _ O H).
  - exact (oinv_pop _ _ _ _ O H).
  - exact (oinv_putstart _ _ _ _ _ _ _ O H).
  - exact (oinv_data _ _ _ _ _ _ O H).
  - exact (oinv_writerdone _ _ _ _ _ _ O H).
  - exact (oinv_finalize _ _ _ _ _ _ _ I I' EI EI' U O H).
  - exact (oinv_tick _ _ _ _ _ O H).
  - exact (oinv_cancel _ _ _ _ O H).
  - exact (oinv_cstep _ _ _ _ _ _ I O H).
  - exact (oinv_dir _ _ _ _ O H).
Qed.

Definition allinv (g : geo) (c : cst) : Prop := cinv g c /\ E.cinv c /\ uinv c /\ oinv c.

Lemma allinv_step g cfg c e c' : length (g_locs g) < 65536 ->
  allinv g c -> cstep g cfg c e = Some c' -> allinv g c'.
Proof.
  intros Hg (I & EI & U & O) H.
  pose proof (cstep_cinv _ _ _ _ _ Hg I H) as I'.
  pose proof (E.cstep_inv _ _ _ _ _ EI H) as EI'.
  split; [exact I'|]. split; [exact EI'|]. split; [exact (uinv_step _ _ _ _ _ U H)|].
  exact (oinv_step _ _ _ _ _ I I' EI EI' U O H).
Qed.

Lemma oinv_init g t0 : oinv (cinit g medium_empty t0).
Proof.
  constructor; cbn.
  - intros slot r [].
  - intros slot r [].
  - intros st [Hf|[k Hf]]; discriminate Hf.
  - intros q st h Hq. rewrite nth_error_nil' in Hq. discriminate.
Qed.

Lemma allinv_run g cfg tr : length (g_locs g) < 65536 ->
  forall c c', allinv g c -> crun g cfg c tr = Some c' -> allinv g c'.
Proof.
  intros Hg. induction tr as [|e tr IH]; intros c c' A H; cbn in H.
  - inv H. exact A.
  - destruct (cstep g cfg c e) as [c1|] eqn:Es; [|discriminate].
    eapply IH; [|exact H]. eapply allinv_step; eauto.
Qed.

Theorem creach_allinv g cfg t0 c : length (g_locs g) < 65536 ->
  creach g cfg medium_empty t0 c -> allinv g c.
Proof.
  intros Hg [tr H]. eapply allinv_run; eauto.
  split; [apply cinit_cinv|]. split; [apply E.cinit_inv|]. split; [apply uinv_init|apply oinv_init].
Qed.

(** ------------------------------------------------------------------ *)
(** * Goal 1 *)

Lemma resolve_cover sd el ab r oldest bl alloc i kst bs :
  NoDup sd -> rec_ok sd el ab r -> stk sd el (oldest, bl) kst -> cover ab (oldest, bl) kst r ->
  resolve_ref (fst (pbl_new alloc oldest bl)) 0 (r_epoch r) (r_bfl r) (r_seed r) = Some i ->
  nth_error bl i = Some bs -> (r_off r + r_size r <= bs_off bs)%Z.
Proof.
  intros Hnd (j & e0 & a & R1 & R2 & R3 & R4) Hst Hcov Hres Hbs.
  destruct (pbl_new_fields alloc oldest bl) as [Htr Hf].
  destruct (restore_blocks alloc bl 0) as [[bl' seeds'] lasts'] eqn:Er.
  destruct (Hf _ _ _ eq_refl) as (F1 & F2 & F3). clear Hf.
  set (p' := fst (pbl_new alloc oldest bl)) in *.
  unfold resolve_ref in Hres.
  destruct (ref_to_index (r_epoch r) (r_bfl r) p') as [[[i' seed]|]|] eqn:Eri; try discriminate.
  cbn in Hres. destruct (N.eqb_spec seed (r_seed r)) as [Es|]; [|discriminate]. injection Hres as Hii. subst i'.
  apply ref_to_index_spec in Eri. destruct Eri as (e & la & E1 & E2 & E3 & E4).
  rewrite Htr in E3, E4. rewrite F3 in E1. rewrite F2 in E2.
  destruct (restore_spec _ _ _ _ _ _ Er _ _ E2) as (q & b & Q1 & Q2 & Q3 & Q4).
  rewrite E1 in Q1. injection Q1 as Hla. cbn [plus] in Hla. subst la.
  rewrite Es in Q3.
  destruct (Hst q b _ Q2 Q3) as (j' & S1 & S2).
  assert (j = j') by (eapply NoDup_nth_eq; [exact Hnd|exact R1|exact S1]). subst j'.
  rewrite R2 in S2. injection S2 as He0. subst e0.
  assert (Ha : a = kst + i) by lia.
  destruct (Hcov q b Q2 Q3) as (a' & A1 & A2). cbn [snd] in *.
  rewrite R3 in A1. injection A1 as <-.
  apply (A2 ltac:(lia)). replace (a - kst) with i by lia. exact Hbs.
Qed.

Theorem restored_offsets_cover : forall g cfg t0 c, length (g_locs g) < 65536 ->
  creach g cfg medium_empty t0 c ->
  forall n ch slot r i, resolves g (crash_of medium_empty c n ch) slot r i ->
  exists b, nth_error (blocks (fst (restart (geom g) (m_state (crash_of medium_empty c n ch))))) i = Some b /\
    (r_off r + r_size r <= b_written b)%Z /\ (0 <= r_off r)%Z /\ (0 <= r_size r)%Z.
Proof.
  intros g cfg t0 c Hg R n ch slot r i Hres.
  destruct (creach_allinv _ _ _ _ Hg R) as (I & EI & U & O).
  (* the block exists *)
  destruct (crash_safe_location_strong _ _ _ _ Hg R _ _ _ _ _ Hres) as (up0 & l & _ & Hbl & _).
  unfold block_loc in Hbl.
  destruct (nth_error (blocks (fst (restart (geom g) (m_state (crash_of medium_empty c n ch))))) i)
    as [b|] eqn:Eb; [|discriminate].
  exists b. split; [reflexivity|].
  (* signs *)
  destruct (E.crash_safe_durable _ _ _ _ R _ _ _ _ _ Hres) as (up & P1 & _ & P3 & P4 & _).
  destruct (ui_ups _ U _ _ P1) as [Z1 Z2]. rewrite P3 in Z1. rewrite P4 in Z2.
  split; [|split; assumption].
  (* the record is a record write of the prefix *)
  destruct Hres as [H1 H2]. unfold crash_of in *.
  rewrite E.crash_medium_index in H1. cbn [m_index medium_empty app] in H1.
  apply E.slot_get_in in H1. destruct H1 as [H1|[slot' H1]]; [discriminate|].
  apply E.select_incl in H1. apply E.index_writes_in in H1. apply In_nth_error in H1. destruct H1 as [pos Hpos].
  apply E.nth_firstn in Hpos. destruct Hpos as [Hpn Hpos].
  assert (Hrec : rec_ok (cs_seeds c) (cs_elast c) (abss c) r).
  { pose proof (ci_log _ _ I) as HL. rewrite Forall_forall in HL.
    apply (HL _ (nth_error_In _ _ Hpos)). }
  (* the state file is the payload of a state write of the prefix *)
  destruct (restart_written _ _ _ _ Eb) as (oldest & bl & h & bs & Est & Ebs & Ew & _).
  rewrite Ew. rewrite Est in H2. cbn [restart] in H2.
  pose proof (E.crash_medium_state _ _ _ Est) as Hw. destruct Hw as [Hw|Hw].
  { inv Hw. rewrite nth_error_nil' in Ebs. discriminate. }
  apply In_nth_error in Hw. destruct Hw as [q Hq]. apply E.nth_firstn in Hq. destruct Hq as [Hqn Hq].
  (* the record write precedes the state write *)
  assert (Hseed : In (r_seed r) (concat (map bs_seeds (snd (oldest, bl))))).
  { apply E.resolve_ref_seed in H2. apply E.pbl_new_seeds in H2. exact H2. }
  pose proof (E.seed_durable_after_sync _ _ _ _ R _ _ _ _ Hq Hseed _ _ _ Hpos eq_refl) as Hd.
  pose proof (E.durable_le_length (firstn q (cs_log c))) as Hdl.
  rewrite firstn_length in Hdl.
  destruct (oi_wr _ O _ _ _ Hq) as (kst & K1 & K2).
  eapply resolve_cover; eauto.
  - apply (gi_nodup _ _ _ (ci_g _ _ I)).
  - eapply K2; eauto. lia.
Qed.

(** ------------------------------------------------------------------ *)
(** * Corollary: Goal 1 on the first life + Goal 2 on a second life started on
      the crashed media *)

Theorem committed_space_not_overwritten_in_restored_block :
  forall g cfg t0 c n ch cfg2 t02 c2,
  length (g_locs g) < 65536 -> (0 < g_sector g)%Z ->
  creach g cfg medium_empty t0 c ->
  creach g cfg2 (crash_of medium_empty c n ch) t02 c2 ->
  forall slot r i, resolves g (crash_of medium_empty c n ch) slot r i ->
  forall q k l lo hi up, nth_error (cs_log c2) q = Some (IoData k l lo hi) ->
    nth_error (cs_ups c2) k = Some up -> up_abs up = i ->
    (r_off r + r_size r <= lo)%Z.
Proof.
  intros g cfg t0 c n ch cfg2 t02 c2 Hg Hs R1 R2 slot r i Hres q k l lo hi up Hq Hup Hi.
  destruct (restored_offsets_cover _ _ _ _ Hg R1 _ _ _ _ _ Hres) as (b & B1 & B2 & _).
  pose proof (no_overwrite_after_restart_block _ _ _ _ _ Hs R2 _ _ _ _ _ Hq _ _ _ Hup Hi B1). lia.
Qed.

(** ------------------------------------------------------------------ *)
(** * Goal 3: the data writes of one upload tile its allocation (any base) *)

Fixpoint data_of (k : nat) (L : list (io irec)) : list (loc * Z * Z) :=
  match L with
  | [] => []
  | IoData u l lo hi :: t => if Nat.eqb u k then (l, lo, hi) :: data_of k t else data_of k t
  | _ :: t => data_of k t
  end.

(** consecutive half-open intervals from [x] to [y], all on the region [ol] *)
Fixpoint tiles (ol : option loc) (x : Z) (ws : list (loc * Z * Z)) (y : Z) : Prop :=
  match ws with
  | [] => x = y
  | (l, lo, hi) :: t => Some l = ol /\ lo = x /\ (lo < hi)%Z /\ tiles ol hi t y
  end.

Lemma data_of_app k L L' : data_of k (L ++ L') = data_of k L ++ data_of k L'.
Proof.
  induction L as [|e L IH]; cbn; [reflexivity|]. destruct e; auto.
  destruct (Nat.eqb u k); cbn; rewrite IH; reflexivity.
Qed.

Lemma data_of_none k L : (forall l lo hi, ~ In (IoData k l lo hi) L) -> data_of k L = [].
Proof.
  induction L as [|e L IH]; intros H; cbn; [reflexivity|].
  assert (IH' : data_of k L = []) by (apply IH; intros l lo hi Hin; eapply H; right; exact Hin).
  destruct e; auto. destruct (Nat.eqb_spec u k); [|exact IH'].
  subst u. exfalso. eapply H. left. reflexivity.
Qed.

Lemma in_data_of k L l lo hi : In (l, lo, hi) (data_of k L) -> In (IoData k l lo hi) L.
Proof.
  induction L as [|e L IH]; cbn; [auto|]. destruct e; auto.
  destruct (Nat.eqb_spec u k); [|auto]. subst u. intros [H|H]; [inv H; auto|auto].
Qed.

Lemma tiles_snoc ol x ws y l y' : tiles ol x ws y -> Some l = ol -> (y < y')%Z ->
  tiles ol x (ws ++ [(l, y, y')]) y'.
Proof.
  revert x. induction ws as [|[[l0 lo] hi] ws IH]; intros x H Hl Hy; cbn in *.
  - subst y. auto.
  - destruct H as (H1 & H2 & H3 & H4). splits; auto.
Qed.

Lemma tiles_loc_app locs t a x ws y :
  tiles (nth_error locs a) x ws y -> tiles (nth_error (locs ++ t) a) x ws y.
Proof.
  revert x. induction ws as [|[[l0 lo] hi] ws IH]; intros x H; cbn in *; [exact H|].
  destruct H as (H1 & H2 & H3 & H4). splits; auto.
  symmetry. apply nth_error_app_some. symmetry. exact H1.
Qed.

Lemma tiles_cover ol x ws y : tiles ol x ws y -> forall z, (x <= z < y)%Z ->
  exists l lo hi, In (l, lo, hi) ws /\ Some l = ol /\ (lo <= z < hi)%Z.
Proof.
  revert x. induction ws as [|[[l0 lo] hi] ws IH]; intros x H z Hz; cbn in *; [lia|].
  destruct H as (H1 & H2 & H3 & H4). destruct (Z.lt_ge_cases z hi).
  - exists l0, lo, hi. splits; auto; lia.
  - destruct (IH _ H4 z ltac:(lia)) as (l & lo' & hi' & A & B & C). exists l, lo', hi'. auto.
Qed.

Lemma tiles_le ol x ws y : tiles ol x ws y -> (x <= y)%Z.
Proof.
  revert x. induction ws as [|[[l0 lo] hi] ws IH]; intros x H; cbn in *; [lia|].
  destruct H as (H1 & H2 & H3 & H4). apply IH in H4. lia.
Qed.

Lemma do_writes_app p k u ws : forall L tbl L' tbl', do_writes p k u ws L tbl = Some (L', tbl') ->
  exists X, L' = L ++ X /\ forall e, In e X -> exists s r, e = IoIndex s r.
Proof.
  induction ws as [|w ws IH]; intros L tbl L' tbl' H; cbn [do_writes] in H.
  - inv H. exists []. rewrite app_nil_r. split; [reflexivity|]. intros e [].
  - destruct w as [slot|from to].
    + destruct (_ <? _); [discriminate|]. destruct (mk_rec _ _ _ _ _ _) as [r|]; [|discriminate].
      destruct (IH _ _ _ _ H) as (X & X1 & X2). exists (IoIndex slot r :: X).
      rewrite X1, <- app_assoc. split; [reflexivity|]. intros e [<-|Hin]; eauto.
    + destruct (slot_get tbl from None) as [r0|]; [|discriminate].
      destruct (live_index p r0) as [i|]; [|discriminate].
      destruct (mk_rec _ _ _ _ _ _) as [r|]; [|discriminate].
      destruct (IH _ _ _ _ H) as (X & X1 & X2). exists (IoIndex to r :: X).
      rewrite X1, <- app_assoc. split; [reflexivity|]. intros e [<-|Hin]; eauto.
Qed.

(** an in-place update of one upload that keeps its allocation and issue count *)
Definition keeps (f : upinfo -> upinfo) : Prop :=
  forall u, up_abs (f u) = up_abs u /\ up_off (f u) = up_off u /\ up_issued (f u) = up_issued u.

Definition quiet_step (c c' : cst) : Prop :=
  (exists X, cs_log c' = cs_log c ++ X /\ forall k l lo hi, ~ In (IoData k l lo hi) X) /\
  (cs_locs c' = cs_locs c \/ exists l, cs_locs c' = cs_locs c ++ [l]) /\
  ((exists k f, keeps f /\ cs_ups c' = upd_nth (cs_ups c) k f) \/
   (exists x, up_issued x = 0%Z /\ cs_ups c' = cs_ups c ++ [x])).

Definition data_step (c c' : cst) : Prop :=
  exists k u l n, nth_error (cs_ups c) k = Some u /\ nth_error (cs_locs c) (up_abs u) = Some l /\ (0 < n)%Z /\
    cs_log c' = cs_log c ++ [IoData k l (up_off u + up_issued u) (up_off u + up_issued u + n)]%Z /\
    cs_locs c' = cs_locs c /\
    cs_ups c' = upd_nth (cs_ups c) k (fun u => mkUp (up_key u) (up_abs u) (up_off u) (up_size u)
                                                   (up_issued u + n)%Z (up_state u)).

Lemma quiet_same c c' X :
  cs_log c' = cs_log c ++ X -> (forall k l lo hi, ~ In (IoData k l lo hi) X) ->
  cs_locs c' = cs_locs c -> cs_ups c' = cs_ups c -> quiet_step c c'.
Proof.
  intros E1 H E2 E3. split; [eauto|]. split; [auto|]. left. exists 0, (fun u => u).
  split; [intros u; auto|]. rewrite upd_nth_id. exact E3.
Qed.

Lemma quiet_upd c c' X k f :
  cs_log c' = cs_log c ++ X -> (forall k l lo hi, ~ In (IoData k l lo hi) X) ->
  cs_locs c' = cs_locs c -> keeps f -> cs_ups c' = upd_nth (cs_ups c) k f -> quiet_step c c'.
Proof. intros E1 H E2 Hf E3. split; [eauto|]. split; [auto|]. left. eauto. Qed.

Lemma cstep_shape g cfg c e c' : cstep g cfg c e = Some c' -> quiet_step c c' \/ data_step c c'.
Proof.
  intros H. destruct e; cbn [cstep] in H.
  - left.
    assert (Hany : forall alloc c0, sys_step cfg c (EPushBack alloc) = Some c0 -> quiet_step c c0).
    { intros alloc c0 H0. apply sys_step_inv in H0. destruct H0 as [s' [_ ->]].
      eapply (quiet_same _ _ []); cbn; rewrite ?app_nil_r; auto. }
    destruct (closedForWriting _); [eauto|]. destruct (cs_free c) as [|l fr]; [eauto|].
    destruct (sys_step _ _ _) as [c1|] eqn:Ess; [|discriminate]. inv H.
    apply sys_step_inv in Ess. destruct Ess as [s' [_ ->]].
    split; [exists []; cbn; rewrite app_nil_r; auto|]. split; [right; eexists; reflexivity|].
    left. exists 0, (fun u => u). split; [intros u; auto|]. cbn. rewrite upd_nth_id. reflexivity.
  - left. apply sys_step_inv in H. destruct H as [s' [_ ->]].
    eapply (quiet_same _ _ []); cbn; rewrite ?app_nil_r; auto.
  - left. destruct (size <? 0)%Z; [discriminate|].
    destruct (sys_step _ _ _) as [c1|] eqn:Ess; [|discriminate].
    apply sys_step_inv in Ess. destruct Ess as [s' [_ ->]].
    destruct (closedForWriting _).
    + inv H. split; [exists []; cbn; rewrite app_nil_r; auto|]. split; [auto|]. right. eexists. split; [|reflexivity]. reflexivity.
    + destruct (nth_error (cs_cur c) _); [|discriminate]. destruct (nth_error (cs_locs c) _); [|discriminate].
      destruct (_ <=? _)%Z; [|discriminate]. inv H.
      split; [exists []; cbn; rewrite app_nil_r; auto|]. split; [auto|]. right. eexists. split; [|reflexivity]. reflexivity.
  - right. destruct (nth_error (cs_ups c) k) as [u|] eqn:Eu; [|discriminate].
    destruct (up_state u); try discriminate.
    unfold up_loc in H. destruct (nth_error (cs_locs c) (up_abs u)) as [l|] eqn:El; [|discriminate].
    destruct (Z.ltb_spec 0 n); [|discriminate]. cbn [andb] in H.
    destruct (_ <=? _)%Z; [|discriminate]. inv H.
    exists k, u, l, n. splits; auto.
  - left. destruct (nth_error (cs_ups c) k) as [u|]; [|discriminate].
    destruct (up_state u); try discriminate. destruct (ok && _)%bool; [discriminate|].
    assert (Hf : forall c0, cs_log c0 = cs_log c -> cs_locs c0 = cs_locs c ->
                  cs_ups c0 = upd_nth (cs_ups c) k (fun u => mkUp (up_key u) (up_abs u) (up_off u) (up_size u)
                                                               (up_issued u) (UpDone ok)) -> quiet_step c c0).
    { intros c0 E1 E2 E3. eapply (quiet_upd _ _ []); eauto; rewrite ?app_nil_r; auto. intros u0. cbn. auto. }
    destruct (up_loc _ _); [|inv H; apply Hf; reflexivity].
    destruct (_ && _)%bool; inv H; apply Hf; reflexivity.
  - left. destruct (nth_error (cs_ups c) k) as [u|]; [|discriminate].
    destruct (nth_error (s_uploads (cs_sys c)) k) as [[[tok sz]|]|]; try discriminate.
    destruct (up_state u); try discriminate. destruct (negb _); [discriminate|].
    destruct (put_finalize _ _ _ _ _) as [[p' fr]|]; [|discriminate].
    destruct (sys_step _ _ _) as [c1|] eqn:Ess; [|discriminate].
    apply sys_step_inv in Ess. destruct Ess as [s' [_ ->]].
    assert (Hk : forall b, keeps (fun u => mkUp (up_key u) (up_abs u) (up_off u) (up_size u) (up_issued u) (UpFin b)))
      by (intros b u0; cbn; auto).
    destruct fr.
    2-4: destruct ws; [|discriminate]; inv H; eapply (quiet_upd _ _ []); eauto; rewrite ?app_nil_r; auto;
         destruct (_ <? _); reflexivity.
    destruct (do_writes _ _ _ _ _ _) as [[log' tbl']|] eqn:Edw; [|discriminate]. inv H.
    destruct (do_writes_app _ _ _ _ _ _ _ _ Edw) as (X & X1 & X2).
    eapply (quiet_upd _ _ X); eauto; try (destruct (_ <? _); cbn; auto; reflexivity).
    intros k0 l lo hi Hin. destruct (X2 _ Hin) as (s0 & r0 & Hc). discriminate.
  - left. apply sys_step_inv in H. destruct H as [s' [_ ->]].
    eapply (quiet_same _ _ []); cbn; rewrite ?app_nil_r; auto.
  - left. apply sys_step_inv in H. destruct H as [s' [_ ->]].
    eapply (quiet_same _ _ []); cbn; rewrite ?app_nil_r; auto.
  - left. destruct (_ && _ && _)%bool; [discriminate|].
    destruct (sys_step _ _ _) as [c1|] eqn:Ess; [|discriminate].
    apply sys_step_inv in Ess. destruct Ess as [s' [_ ->]].
    cbv zeta in H. destruct (release_regions _ _ _ _ _) as [fr hd].
    destruct t.
    + destruct (thread_at_getstate _ _); inv H; eapply (quiet_same _ _ []); cbn; rewrite ?app_nil_r; auto.
    + destruct (if p_notifies (cs_sys c) then _ else _) as [ncl cat].
      cbn [cs_sys cs_log with_sys] in H.
      assert (HX : exists X, (if p_syncing (cs_sys c) then cs_log c ++ [IoSyncEnd (a_ok a)]
                   else if p_syncing s' then cs_log c ++ [IoSyncBegin] else cs_log c) = cs_log c ++ X /\
                   forall k l lo hi, ~ In (IoData k l lo hi) X).
      { destruct (p_syncing (cs_sys c)); [|destruct (p_syncing s')].
        - eexists. split; [reflexivity|]. intros ? ? ? ? [Hc|[]]; discriminate.
        - eexists. split; [reflexivity|]. intros ? ? ? ? [Hc|[]]; discriminate.
        - exists []. rewrite app_nil_r. split; [reflexivity|]. intros ? ? ? ? []. }
      destruct HX as (X & HX1 & HX2).
      destruct (thread_at_getstate _ _); inv H; eapply (quiet_same _ _ X); cbn; auto.
  - left. destruct (writing _) as [st|]; [|discriminate]. destruct (_ <? _); [|discriminate]. inv H.
    eapply (quiet_same _ _ [_]); cbn; auto.
    intros k l lo hi [Hc|[]]. destruct (cs_dirpc c) as [|[|[|[|[|?]]]]]; discriminate.
Qed.

Record tinv (c : cst) : Prop := mkTinv {
  ti_tiles : forall k up, nth_error (cs_ups c) k = Some up ->
     tiles (nth_error (cs_locs c) (up_abs up)) (up_off up) (data_of k (cs_log c)) (up_off up + up_issued up);
  ti_dom : forall k l lo hi, In (IoData k l lo hi) (cs_log c) -> k < length (cs_ups c)
}.

Lemma tinv_step g cfg c e c' : tinv c -> cstep g cfg c e = Some c' -> tinv c'.
Proof.
  intros [T1 T2] H. destruct (cstep_shape _ _ _ _ _ H) as [Q|D].
  - destruct Q as ((X & EL & HX) & Hlocs & Hups).
    assert (Hd : forall k, data_of k (cs_log c') = data_of k (cs_log c)).
    { intros k. rewrite EL, data_of_app, (data_of_none k X), app_nil_r; [reflexivity|]. intros l lo hi. apply HX. }
    assert (Hl : forall a x ws y, tiles (nth_error (cs_locs c) a) x ws y -> tiles (nth_error (cs_locs c') a) x ws y).
    { intros a x ws y Ht. destruct Hlocs as [->|[l ->]]; [exact Ht|apply tiles_loc_app; exact Ht]. }
    assert (Hdom : forall k l lo hi, In (IoData k l lo hi) (cs_log c') -> k < length (cs_ups c)).
    { intros k l lo hi Hin. rewrite EL in Hin. apply in_app_iff in Hin.
      destruct Hin as [Hin|Hin]; [eauto|exfalso; eapply HX; eauto]. }
    destruct Hups as [(k0 & f & Hf & EU)|(x & Hx & EU)]; constructor.
    + intros k up Hup. rewrite EU in Hup. apply upd_nth_inv in Hup. destruct Hup as (u & Hu & Hy).
      rewrite Hd. apply Hl. specialize (T1 _ _ Hu). destruct (Hf u) as (F1 & F2 & F3).
      destruct Hy as [->|[_ ->]]; [exact T1|]. rewrite F1, F2, F3. exact T1.
    + intros k l lo hi Hin. rewrite EU, upd_nth_length. eauto.
    + intros k up Hup. rewrite EU in Hup. apply nth_error_snoc_inv in Hup. rewrite Hd.
      destruct Hup as [Hup|[-> ->]]; [apply Hl; eauto|].
      rewrite (data_of_none (length (cs_ups c))); [cbn; lia|].
      intros l lo hi Hin. apply T2 in Hin. lia.
    + intros k l lo hi Hin. rewrite EU, app_length. apply Hdom in Hin. lia.
  - destruct D as (k & u & l & n & Eu & El & Hn & EL & ELoc & EU). constructor.
    + intros k' up Hup. rewrite EU in Hup. rewrite nth_error_upd_nth in Hup. rewrite ELoc, EL, data_of_app. cbn.
      destruct (Nat.eqb_spec k' k) as [->|Hne].
      * rewrite Eu in Hup. cbn in Hup. inv Hup. cbn. rewrite Nat.eqb_refl.
        replace (up_off u + (up_issued u + n))%Z with (up_off u + up_issued u + n)%Z by lia.
        apply tiles_snoc; [apply T1; exact Eu|congruence|lia].
      * destruct (Nat.eqb_spec k k'); [congruence|]. rewrite app_nil_r. apply T1. exact Hup.
    + intros k' l' lo hi Hin. rewrite EU, upd_nth_length. rewrite EL in Hin. apply in_snoc in Hin.
      destruct Hin as [Hin|Hin]; [eauto|]. inv Hin. apply E.nth_lt in Eu. exact Eu.
Qed.

Lemma tinv_init g base t0 : tinv (cinit g base t0).
Proof.
  constructor; cbn.
  - intros k up H. rewrite nth_error_nil' in H. discriminate.
  - intros k l lo hi [].
Qed.

Lemma creach_tinv g cfg base t0 c : creach g cfg base t0 c -> tinv c.
Proof.
  intros [tr H]. revert H. generalize (tinv_init g base t0). generalize (cinit g base t0).
  induction tr as [|e tr IH]; intros c0 T H; cbn in H.
  - inv H. exact T.
  - destruct (cstep g cfg c0 e) as [c1|] eqn:Es; [|discriminate].
    eapply IH; [|exact H]. eapply tinv_step; eauto.
Qed.

(** The data writes of upload [k], in log order, are consecutive intervals
    from its offset to its offset + the bytes issued so far, all on the region
    of its block; once everything was issued, every byte of the allocation is
    covered by one of them. *)
Theorem upload_writes_tile : forall g cfg base t0 c, creach g cfg base t0 c ->
  forall k up, nth_error (cs_ups c) k = Some up ->
    tiles (nth_error (cs_locs c) (up_abs up)) (up_off up) (data_of k (cs_log c)) (up_off up + up_issued up) /\
    (up_issued up = up_size up -> forall z, (up_off up <= z < up_off up + up_size up)%Z ->
       exists l lo hi, In (IoData k l lo hi) (cs_log c) /\
         nth_error (cs_locs c) (up_abs up) = Some l /\ (lo <= z < hi)%Z).
Proof.
  intros g cfg base t0 c R k up Hup. pose proof (ti_tiles _ (creach_tinv _ _ _ _ _ R) _ _ Hup) as T.
  split; [exact T|]. intros Hi z Hz. rewrite <- Hi in Hz.
  destruct (tiles_cover _ _ _ _ T z Hz) as (l & lo & hi & A & B & C).
  exists l, lo, hi. split; [apply in_data_of; exact A|]. split; [symmetry; exact B|exact C].
Qed.

Print Assumptions no_overwrite_after_restart_block.
Print Assumptions restored_offsets_cover.
Print Assumptions committed_space_not_overwritten_in_restored_block.
Print Assumptions upload_writes_tile.
