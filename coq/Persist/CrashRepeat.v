(** Persist/CrashRepeat.v — REPEATED crashes: the durability half of crash
    safety for arbitrarily many lives.

    A history is a list of lives; the first starts on empty media, every later
    one on the media that the crash of the previous one left
    ([crash_of base c n ch]: ANY reachable state [c] of that life, ANY prefix
    [n] of its I/O log, ANY loss choice [ch]) — so crashes during recovery,
    immediately after the restart, before the first state write of a life etc.
    are all included.  The upload tags of CrashLts.v ([r_up], the tag of
    [IoData]) are indices into the upload table of ONE life; here an upload is
    identified by (life, index) ([backed]).

    [repeated_crash_durable]: after any number of crash + restart rounds, a
    record that resolves on the final media designates the key / offset / size
    of a COMPLETED upload of some life of the history (the current or an
    earlier one), all of whose data writes lay below the durable frontier of
    the log prefix at which that life crashed — so they are part of the data
    medium of every later life ([crash_medium] keeps [m_data base]).

    Ingredients: the generalised epoch invariant of CrashRepeatEpoch.v (any
    base), the state-directory invariant of CrashReuseProofs.v generalised to
    a directory that starts with a state file and a left-over state.new
    ([DI'], [dir_survivor_any]: the surviving state file is the base's state
    file or the payload of a state write of the prefix — never the left-over
    state.new, never torn content), and the medium invariant [SafeD].
    Stdlib only; no axioms. *)
From Coq Require Import List NArith ZArith Bool Arith Lia.
From BBS Require Import Persist.PBL Persist.PBLProofs Persist.Syncer Persist.SyncerProofs
                        Persist.Crash Persist.CrashLts.
From BBS Require Import Persist.CrashReuseProofs.
From BBS Require Import Persist.CrashEpochProofs Persist.CrashRepeatEpoch.
Import ListNotations.

Local Notation log := (list (io irec)).

(** ------------------------------------------------------------------ *)
(** * the state directory of a life that starts with files *)

Section Dir.
  Definition bgood (st0 : option sfile) (L : log) (d : dirst) (f : nat) : Prop :=
    good L d f \/ (exists s, st0 = Some s /\ f = 0 /\ nth_error (d_files d) 0 = Some (Some s, true) /\ dlw L = None).

  Lemma bgood_ext st0 L d e d' f : bgood st0 L d f ->
    (forall x, nth_error (d_files d) f = Some x -> nth_error (d_files d') f = Some x) ->
    dlw (L ++ [e]) = dlw L -> bgood st0 (L ++ [e]) d' f.
  Proof.
    intros [G|(s & E1 & E2 & E3 & E4)] Hf Hl; [left; eapply good_ext; eauto|].
    right. exists s. subst f. repeat split; auto. rewrite Hl. exact E4.
  Qed.

  Lemma bgood_lt st0 L d f : bgood st0 L d f -> f < length (d_files d).
  Proof.
    intros [(st & pos & G1 & _)|(s & _ & E2 & E3 & _)]; [eapply E.nth_lt; eauto|].
    subst f. eapply E.nth_lt; eauto.
  Qed.

  Record DI' (st0 : option sfile) (L : log) (d : dirst) : Prop := mkDI' {
    di_vol' : fold_left ns_apply (d_pend d) (d_dnew d, d_dstate d) = (d_vnew d, d_vstate d);
    di_good' : forall f, cand d f -> bgood st0 L d f;
    di_new' : forall f, d_vnew d = Some f -> f < length (d_files d) /\ ~ cand d f;
    di_pc' : match dpc L with
            | 2 => exists f, d_vnew d = Some f
            | 3 => exists f st b, d_vnew d = Some f /\ nth_error (d_files d) f = Some (Some st, b) /\
                     nth_error L (dwc L) = Some (IoWriteNew st)
            | 4 => exists f st, d_vnew d = Some f /\ nth_error (d_files d) f = Some (Some st, true) /\
                     nth_error L (dwc L) = Some (IoWriteNew st)
            | 5 => d_vnew d = None /\ exists f st, d_vstate d = Some f /\
                     nth_error (d_files d) f = Some (Some st, true) /\ nth_error L (dwc L) = Some (IoWriteNew st)
            | _ => True
            end
  }.

  Lemma DI'_step st0 L d e : DI' st0 L d -> dok (dpc L) e -> DI' st0 (L ++ [e]) (dir_step d e).
  Proof.
    intros [V G N P] Hok.
    pose proof (dscan_facts L) as (F1 & F2 & F3).
    assert (Hsc : dscan (L ++ [e]) = dstep (dscan L) e) by apply dscan_snoc.
    unfold dpc, dwc, dlw in *.
    destruct (dscan L) as [[[pos pc] wc] lw] eqn:Eds. cbn [fst snd] in *. subst pos.
    assert (Hsame : forall d', d_files d' = d_files d -> d_vnew d' = d_vnew d -> d_vstate d' = d_vstate d ->
              d_dnew d' = d_dnew d -> d_dstate d' = d_dstate d -> d_pend d' = d_pend d ->
              dstep (length L, pc, wc, lw) e = (S (length L), pc, wc, lw) -> DI' st0 (L ++ [e]) d').
    { intros d' E1 E2 E3 E4 E5 E6 E7. unfold cand in *.
      constructor; unfold cand, dpc, dwc, dlw; rewrite ?Hsc, ?E7, ?E1, ?E2, ?E3, ?E4, ?E5, ?E6; cbn [fst snd]; auto.
      - intros f Hc. eapply bgood_ext; [apply G; exact Hc|rewrite E1; auto|unfold dlw; rewrite Hsc, Eds, E7; reflexivity].
      - destruct pc as [|[|[|[|[|[|?]]]]]]; auto.
        + destruct P as (f & st & b & P1 & P2 & P3). exists f, st, b. splits; auto. apply E.nth_snoc_old. exact P3.
        + destruct P as (f & st & P1 & P2 & P3). exists f, st. splits; auto. apply E.nth_snoc_old. exact P3.
        + destruct P as (P0 & f & st & P1 & P2 & P3). split; auto. exists f, st. splits; auto. apply E.nth_snoc_old. exact P3. }
    destruct e; try (apply Hsame; reflexivity).
    - (* remove *)
      constructor; unfold cand, dpc, dwc, dlw; rewrite ?Hsc; cbn [dir_step dstep fst snd d_files d_vnew d_vstate d_dnew d_dstate d_pend].
      + rewrite fold_left_app, V. reflexivity.
      + intros f Hc. apply candp_snoc in Hc. rewrite V in Hc. cbn in Hc.
        assert (Hc' : cand d f) by (destruct Hc as [Hc|Hc]; [exact Hc|apply candp_all; rewrite V; exact Hc]).
        eapply bgood_ext; [apply G; exact Hc'|auto|]. unfold dlw. rewrite Hsc, Eds. reflexivity.
      + discriminate.
      + exact Logic.I.
    - (* create *)
      cbn in Hok. subst pc.
      constructor; unfold cand, dpc, dwc, dlw; rewrite ?Hsc; cbn [dir_step dstep fst snd d_files d_vnew d_vstate d_dnew d_dstate d_pend].
      + rewrite fold_left_app, V. reflexivity.
      + intros f Hc. apply candp_snoc in Hc. rewrite V in Hc. cbn in Hc.
        assert (Hc' : cand d f) by (destruct Hc as [Hc|Hc]; [exact Hc|apply candp_all; rewrite V; exact Hc]).
        eapply bgood_ext; [apply G; exact Hc'| |].
        * intros x Hx. cbn. apply A.nth_error_app_some. exact Hx.
        * unfold dlw. rewrite Hsc, Eds. reflexivity.
      + intros f Hf. inv Hf. rewrite app_length. cbn. split; [lia|]. intros Hc.
        apply candp_snoc in Hc. rewrite V in Hc. cbn in Hc.
        assert (Hc' : cand d (length (d_files d))) by (destruct Hc as [Hc|Hc]; [exact Hc|apply candp_all; rewrite V; exact Hc]).
        pose proof (bgood_lt _ _ _ _ (G _ Hc')). lia.
      + eauto.
    - (* write *)
      cbn in Hok. subst pc. destruct P as [f Pf]. destruct (N f Pf) as [Nl Nc].
      cbn [dir_step]. rewrite Pf.
      constructor; unfold cand, dpc, dwc, dlw; rewrite ?Hsc; cbn [dstep fst snd d_files d_vnew d_vstate d_dnew d_dstate d_pend].
      + rewrite V, Pf. reflexivity.
      + intros f0 Hc. eapply bgood_ext; [apply G; exact Hc| |].
        * intros x Hx. cbn. rewrite set_nth_other; [exact Hx|]. intros ->. apply Nc. exact Hc.
        * unfold dlw. rewrite Hsc, Eds. reflexivity.
      + intros f0 Hf0. inv Hf0. rewrite set_nth_length. split; [exact Nl|exact Nc].
      + exists f, st, false. splits; auto.
        * apply set_nth_same. exact Nl.
        * apply E.nth_snoc_new.
    - (* fsync *)
      cbn in Hok. subst pc. destruct P as (f & st & b & Pf & P2 & P3). destruct (N f Pf) as [Nl Nc].
      cbn [dir_step]. rewrite Pf.
      constructor; unfold cand, dpc, dwc, dlw; rewrite ?Hsc; cbn [dstep fst snd d_files d_vnew d_vstate d_dnew d_dstate d_pend].
      + rewrite V, Pf. reflexivity.
      + intros f0 Hc. eapply bgood_ext; [apply G; exact Hc| |].
        * intros x Hx. cbn. rewrite set_nth_other; [exact Hx|]. intros ->. apply Nc. exact Hc.
        * unfold dlw. rewrite Hsc, Eds. reflexivity.
      + intros f0 Hf0. inv Hf0. rewrite set_nth_length. split; [exact Nl|exact Nc].
      + exists f, st. splits; auto.
        * rewrite set_nth_same by exact Nl. rewrite (nth_error_nth _ _ _ P2). reflexivity.
        * apply E.nth_snoc_old. exact P3.
    - (* rename *)
      cbn in Hok. subst pc. destruct P as (f & st & Pf & P2 & P3). destruct (N f Pf) as [Nl Nc].
      cbn [dir_step]. rewrite Pf.
      constructor; unfold cand, dpc, dwc, dlw; rewrite ?Hsc; cbn [dstep fst snd d_files d_vnew d_vstate d_dnew d_dstate d_pend].
      + rewrite fold_left_app, V. cbn. rewrite Pf. reflexivity.
      + intros f0 Hc. apply candp_snoc in Hc. rewrite V in Hc. cbn in Hc. rewrite Pf in Hc. cbn in Hc.
        destruct Hc as [Hc|Hc].
        * eapply bgood_ext; [apply G; exact Hc|auto|]. unfold dlw. rewrite Hsc, Eds. reflexivity.
        * inv Hc. left. exists st, wc. splits; auto.
          -- apply E.nth_snoc_old. exact P3.
          -- unfold dlw. rewrite Hsc. cbn. exact F3.
      + discriminate.
      + split; [reflexivity|]. exists f, st. splits; auto. apply E.nth_snoc_old. exact P3.
    - (* dirsync *)
      cbn in Hok. subst pc. destruct P as (P0 & f & st & Pf & P2 & P3).
      constructor; unfold cand, dpc, dwc, dlw; rewrite ?Hsc; cbn [dir_step dstep fst snd d_files d_vnew d_vstate d_dnew d_dstate d_pend].
      + reflexivity.
      + intros f0 [k Hk]. rewrite firstn_nil in Hk. cbn in Hk. rewrite Pf in Hk. inv Hk.
        left. exists st, wc. splits; auto.
        * apply E.nth_snoc_old. exact P3.
        * unfold dlw. rewrite Hsc. cbn. intros lw0 H0. inv H0. lia.
      + rewrite P0. discriminate.
      + exact Logic.I.
  Qed.

  Lemma DI'_init st0 new0 : DI' st0 [] (dir_init st0 new0).
  Proof.
    constructor.
    - destruct st0, new0; reflexivity.
    - intros f [k Hk]. right. destruct st0 as [s|], new0 as [c'|]; cbn in Hk; rewrite firstn_nil in Hk; cbn in Hk;
        try discriminate; inv Hk; exists s; repeat split.
    - intros f Hf. split.
      + destruct st0 as [s|], new0 as [c'|]; cbn in Hf; try discriminate; inv Hf; cbn; lia.
      + intros [k Hk]. destruct st0 as [s|], new0 as [c'|]; cbn in Hf, Hk; rewrite firstn_nil in Hk; cbn in Hk;
          try discriminate; inv Hf; inv Hk.
    - exact Logic.I.
  Qed.

  Lemma DI'_run st0 new0 L : shaped L -> DI' st0 L (dir_run (dir_init st0 new0) L).
  Proof.
    induction L as [|e L IH] using rev_ind; intros H; [apply DI'_init|].
    apply shaped_snoc in H. destruct H as [H1 H2]. rewrite E.dir_run_snoc. apply DI'_step; auto.
  Qed.
End Dir.

(** whatever part of the pending name-space operations took effect and whatever the loss choice
    for unsynced file contents: the surviving state file is the state file the life started
    with, or the payload of a state write of the prefix (at or after the write of the last
    attempt whose directory fsync completed) *)
Theorem dir_survivor_any (base : medium irec) (L : log) ch x : shaped L ->
  m_state (crash_medium base L ch) = Some x ->
  (m_state base = Some x /\ dlw L = None) \/
  exists pos, nth_error L pos = Some (IoWriteNew x) /\ forall lw, dlw L = Some lw -> lw <= pos.
Proof.
  intros Hs. pose proof (DI'_run (m_state base) (m_new base) L Hs) as D. unfold crash_medium.
  set (d := dir_run (dir_init (m_state base) (m_new base)) L) in *. unfold dir_crash.
  destruct (snd (fold_left ns_apply (firstn (c_dirk ch) (d_pend d)) (d_dnew d, d_dstate d))) as [f|] eqn:Ef;
    cbn [m_state]; [|discriminate].
  intros H. inv H.
  destruct (di_good' _ _ _ D f) as [(st & pos & G1 & G2 & G3)|(s & E1 & E2 & E3 & E4)]; [exists (c_dirk ch); exact Ef| |].
  - right. exists pos. unfold file_content. rewrite G1. auto.
  - left. subst f. unfold file_content. rewrite E3. auto.
Qed.

(** ------------------------------------------------------------------ *)
(** * the log of a life on any base is a sequence of state-write attempts *)

Lemma crun_shinv g cfg tr : forall c c', inv1 (cs_sys c) -> inv3 (cs_sys c) -> shinv c ->
  crun g cfg c tr = Some c' -> shinv c'.
Proof.
  induction tr as [|e tr IH]; intros c c' I1 I3 S H; cbn in H.
  - inv H. exact S.
  - destruct (cstep g cfg c e) as [c1|] eqn:Es; [|discriminate].
    destruct (cstep_sysinv _ _ _ _ _ I1 I3 Es) as [J1 J3].
    apply (IH c1 c' J1 J3); [|exact H]. exact (shinv_step g cfg c e c1 I3 S Es).
Qed.

Theorem creach_shaped_any g cfg base t0 c : creach g cfg base t0 c -> shinv c.
Proof.
  intros [tr H]. eapply crun_shinv; [| | |exact H].
  - cbn. apply restart_inv1.
  - apply init_inv3.
  - split; [intros q e Hq; cbn in Hq; destruct q; discriminate|]. cbn. discriminate.
Qed.

(** ------------------------------------------------------------------ *)
(** * one life on a base medium, then a crash *)

(** record [r] designates upload [r_up r] of the life that ended in state [c] and crashed at
    log prefix [n]: completed, same key / offset / size, all its data durable at the crash *)
Definition durable_native (c : cst) (n : nat) (r : irec) : Prop :=
  exists up, nth_error (cs_ups c) (r_up r) = Some up /\ up_key up = r_key r /\ up_off up = r_off r /\
    up_size up = r_size r /\ up_state up = UpFin true /\ up_issued up = up_size up /\
    (forall q l lo hi, nth_error (cs_log c) q = Some (IoData (r_up r) l lo hi) ->
       q < durable_upto (firstn n (cs_log c))).

Definition rseeds (g : geo) (m : medium irec) : list N :=
  epochSeeds (fst (restart (geom g) (m_state m))).

Lemma in_firstn_in {A} n (l : list A) x : In x (firstn n l) -> In x l.
Proof. intros H. apply in_firstn_nth in H. destruct H as [j [_ H]]. eapply nth_error_In; eauto. Qed.

Theorem life_crash (Back : irec -> Prop) g cfg base t0 c :
  (forall r r0, r_key r = r_key r0 -> r_off r = r_off r0 -> r_size r = r_size r0 -> Back r0 -> Back r) ->
  NoDup (rseeds g base) ->
  (forall slot r, In (slot, r) (m_index base) -> In (r_seed r) (rseeds g base) -> Back r) ->
  creach g cfg base t0 c ->
  forall n ch,
    NoDup (rseeds g (crash_of base c n ch)) /\
    forall slot r, In (slot, r) (m_index (crash_of base c n ch)) ->
      In (r_seed r) (rseeds g (crash_of base c n ch)) -> Back r \/ durable_native c n r.
Proof.
  intros Hsame Hnd Hback R n ch.
  set (old := map (fun e : nat * irec => r_seed (snd e)) (m_index base)).
  assert (HI : rcinv Back old (rseeds g base) c).
  { destruct R as [tr Htr]. eapply crun_rcinv; [exact Hsame| |exact Htr].
    apply cinit_rcinv; auto. }
  destruct HI as [[HS [HU [HL [HP HF]]]] Ho].
  destruct (creach_shaped_any _ _ _ _ _ R) as [Sh _].
  pose proof (shaped_firstn _ n Sh) as Shn.
  unfold rseeds, crash_of in *.
  (* the records of the post-crash index *)
  assert (Hidx : forall slot r, In (slot, r) (m_index (crash_medium base (firstn n (cs_log c)) ch)) ->
            In (slot, r) (m_index base) \/
            exists pos, pos < n /\ nth_error (cs_log c) pos = Some (IoIndex slot r)).
  { intros slot r Hin. rewrite crash_medium_index in Hin. apply in_app_iff in Hin.
    destruct Hin as [Hin|Hin]; [left; exact Hin|right].
    apply select_incl in Hin. apply index_writes_in in Hin. apply In_nth_error in Hin.
    destruct Hin as [pos Hpos]. apply nth_firstn in Hpos. exists pos. exact Hpos. }
  destruct (m_state (crash_medium base (firstn n (cs_log c)) ch)) as [x|] eqn:Ex.
  2:{ cbn. split; [constructor|]. intros slot r _ Hin. contradiction. }
  destruct (dir_survivor_any _ _ _ _ Shn Ex) as [[Eb _]|(q & Hq & _)].
  - (* the state file the life started with survived *)
    rewrite <- Eb. split; [exact Hnd|].
    intros slot r Hin Hs. destruct (Hidx _ _ Hin) as [Hb|(pos & Hp & Hpos)]; [left; eauto|].
    exfalso. eapply (li_N' _ _ _ _ _ _ _ _ _ _ HL); eauto.
  - (* a state file written in this life survived *)
    destruct x as [st h]. apply nth_firstn in Hq. destruct Hq as [Hqn Hq].
    pose proof (restart_seeds_prefix (geom g) (Some (st, h))) as [rest Hrest]. cbn [fst] in Hrest.
    pose proof (li_D' _ _ _ _ _ _ _ _ _ _ HL _ _ _ Hq) as Hndst.
    split; [rewrite Hrest in Hndst; eapply NoDup_app_l; exact Hndst|].
    intros slot r Hin Hs.
    assert (Hs' : In (r_seed r) (st_seeds st)) by (rewrite Hrest; apply in_app_iff; left; exact Hs).
    destruct (li_W' _ _ _ _ _ _ _ _ _ _ HL _ _ _ _ Hq Hs') as [Hns HW].
    destruct (Hidx _ _ Hin) as [Hb|(pos & Hp & Hpos)].
    + left. apply (Hback _ _ Hb). destruct HP as [_ [_ HP3]]. apply HP3.
      * eapply in_firstn_in; eauto.
      * unfold old. apply in_map_iff. exists (slot, r). auto.
    + destruct (li_R' _ _ _ _ _ _ _ _ _ _ HL _ _ _ Hpos) as [[Hok Hdata]|Hb]; [right|left; exact Hb].
      specialize (HW _ _ _ Hpos eq_refl).
      destruct (firstn_prefix (cs_log c) q n) as [l' El]; [lia|].
      pose proof (durable_mono (firstn q (cs_log c)) l') as Hm. rewrite <- El in Hm.
      destruct Hok as [up [U1 [U2 [U3 [U4 [U5 U6]]]]]].
      exists up. repeat split; auto. intros q' l lo hi Hq'. specialize (Hdata _ _ _ _ Hq'). lia.
Qed.

(** ------------------------------------------------------------------ *)
(** * histories of lives *)

Record life := mkLife {
  lf_cfg : config; lf_t0 : N;
  lf_c : cst;          (* the state the life had reached *)
  lf_n : nat;          (* the crash: a prefix of its I/O log *)
  lf_ch : choice       (* and a loss choice *)
}.

(** [lives g H m]: [H] is a sequence of lives (oldest first), the first started on empty media,
    each later one on the media left by the crash of its predecessor; [m] = the media after the
    crash of the last one *)
Inductive lives (g : geo) : list life -> medium irec -> Prop :=
| lives_nil : lives g [] medium_empty
| lives_snoc H base lf :
    lives g H base -> creach g (lf_cfg lf) base (lf_t0 lf) (lf_c lf) ->
    lives g (H ++ [lf]) (crash_of base (lf_c lf) (lf_n lf) (lf_ch lf)).

(** upload [k] of life [lf] is completed, has the key / offset / size of [r], and all its data
    writes were durable when that life crashed *)
Definition durable_upload (lf : life) (k : nat) (r : irec) : Prop :=
  exists up, nth_error (cs_ups (lf_c lf)) k = Some up /\ up_key up = r_key r /\ up_off up = r_off r /\
    up_size up = r_size r /\ up_state up = UpFin true /\ up_issued up = up_size up /\
    (forall q l lo hi, nth_error (cs_log (lf_c lf)) q = Some (IoData k l lo hi) ->
       q < durable_upto (firstn (lf_n lf) (cs_log (lf_c lf)))).

(** … of some life of the history: uploads are identified by (life, index) *)
Definition backed (H : list life) (r : irec) : Prop :=
  exists j lf k, nth_error H j = Some lf /\ durable_upload lf k r.

Lemma backed_same H r r0 : r_key r = r_key r0 -> r_off r = r_off r0 -> r_size r = r_size r0 ->
  backed H r0 -> backed H r.
Proof.
  intros E1 E2 E3 (j & lf & k & Hj & up & U). exists j, lf, k. split; [exact Hj|]. exists up.
  rewrite E1, E2, E3. exact U.
Qed.

Lemma backed_snoc H lf r : backed H r -> backed (H ++ [lf]) r.
Proof.
  intros (j & lf0 & k & Hj & U). exists j, lf0, k. split; [apply nth_snoc_old; exact Hj|exact U].
Qed.

(** the medium invariant: the restart restores duplicate-free seeds, and every index record
    whose seed is restored is backed *)
Definition SafeD (g : geo) (H : list life) (m : medium irec) : Prop :=
  NoDup (rseeds g m) /\
  forall slot r, In (slot, r) (m_index m) -> In (r_seed r) (rseeds g m) -> backed H r.

Theorem SafeD_empty g : SafeD g [] medium_empty.
Proof. split; [constructor|]. intros slot r []. Qed.

(** closed under a life and a crash, from ANY medium that satisfies it *)
Theorem SafeD_step g H base lf : SafeD g H base ->
  creach g (lf_cfg lf) base (lf_t0 lf) (lf_c lf) ->
  SafeD g (H ++ [lf]) (crash_of base (lf_c lf) (lf_n lf) (lf_ch lf)).
Proof.
  intros [S1 S2] R.
  destruct (life_crash (backed H) g _ _ _ _ (backed_same H) S1 S2 R (lf_n lf) (lf_ch lf)) as [T1 T2].
  split; [exact T1|]. intros slot r Hin Hs. destruct (T2 _ _ Hin Hs) as [Hb|Hn].
  - apply backed_snoc. exact Hb.
  - exists (length H), lf, (r_up r). split; [apply nth_snoc_new|exact Hn].
Qed.

Theorem lives_SafeD g H m : lives g H m -> SafeD g H m.
Proof.
  induction 1 as [|H base lf HL IH R]; [apply SafeD_empty|]. apply SafeD_step; assumption.
Qed.

(** ---- repeated crashes: the durability half ---- *)
Theorem repeated_crash_durable g H m : lives g H m ->
  forall slot r i, resolves g m slot r i -> backed H r.
Proof.
  intros HL slot r i [H1 H2]. destruct (lives_SafeD _ _ _ HL) as [_ S].
  apply slot_get_in in H1. destruct H1 as [H1|[slot' H1]]; [discriminate|].
  apply resolve_ref_seed in H2. apply (S slot' r H1). exact H2.
Qed.

(** the seeds restored at every restart of a history are pairwise distinct *)
Theorem repeated_crash_seeds_nodup g H m : lives g H m -> NoDup (rseeds g m).
Proof. intros HL. apply (proj1 (lives_SafeD _ _ _ HL)). Qed.

(** a record written in the CURRENT life never resolves through the state file the life started
    with (its seed was created after the restart): if the base state file survives, only base
    records resolve *)
Theorem new_record_needs_new_state g cfg base t0 c : NoDup (rseeds g base) ->
  creach g cfg base t0 c ->
  forall pos slot r, nth_error (cs_log c) pos = Some (IoIndex slot r) -> ~ In (r_seed r) (rseeds g base).
Proof.
  intros Hnd [tr Htr] pos slot r Hpos.
  assert (HI : rcinv (fun _ => True) (map (fun e : nat * irec => r_seed (snd e)) (m_index base)) (rseeds g base) c).
  { eapply crun_rcinv; [auto| |exact Htr]. apply cinit_rcinv; auto. }
  destruct HI as [[_ [_ [HL _]]] _]. eapply (li_N' _ _ _ _ _ _ _ _ _ _ HL); eauto.
Qed.

Print Assumptions repeated_crash_durable.
Print Assumptions SafeD_step.
Print Assumptions dir_survivor_any.
