(** Persist/CrashLts.v — the persistent local store as a transition system
    that EMITS the global I/O log of Persist/Crash.v.  It is the LTS of
    Persist/Syncer.v (block list + the two PeriodicSyncer loops, [Syncer.step])
    instrumented with
      - the block allocator (FIFO free list of device regions, swap-remove at
        restoration, per-block allocation cursor, a region is reusable once the
        list Release()d it AND no writer is open on it),
      - uploads/refreshes as: allocate (under the lock) -> data writes (no lock)
        -> writer done -> finalizer + key-location-map record writes (one
        lock-protected section, so every record write follows a finalizer that
        made the newest epoch open),
      - the data syncer call (begin/end), the directory operations of
        WritePersistentState (one log entry each, so a crash point may fall
        between any two of them),
    plus ghost bookkeeping used only by the theorems.  Definitions only.

    Modelled assumptions (DESIGN.md section 7): a record write is atomic; a
    record decodes under exactly the seed it was written with ([r_seed];
    RecordCodec.codec_roundtrip_thm / stale_seed_invalid_thm); a fresh seed
    differs from every earlier seed ([fresh] guard of [CFinalize]); a Block's
    finalizer succeeds only after all its bytes were issued to the device. *)
From Coq Require Import List NArith ZArith Bool Arith Lia.
From BBS Require Import Persist.PBL Persist.Syncer Persist.Crash.
Import ListNotations.

(** abstract index record *)
Record irec := mkIrec {
  r_epoch : N; r_bfl : N;          (* BlockReference *)
  r_key : N;                       (* the key (abstract) *)
  r_off : Z; r_size : Z;           (* Location offset / size *)
  r_seed : N;                      (* the hash seed the checksum was computed with *)
  r_up : nat                       (* ghost: the upload whose allocation it designates *)
}.

Inductive upstate := UpWriting | UpDone (ok : bool) | UpFin (ok : bool).

Record upinfo := mkUp {
  up_key : N;
  up_abs : nat;                    (* absolute index of the block it was allocated in *)
  up_off : Z; up_size : Z;         (* its allocation *)
  up_issued : Z;                   (* bytes issued to the device so far *)
  up_state : upstate
}.

Record geo := mkGeo {
  g_locs : list loc;               (* the allocator's block regions, in initial free-list order *)
  g_sector : Z;
  g_hinit : N                      (* key-location map hash initialization (constant within a life) *)
}.
Definition geom (g : geo) (l : loc) : bool := existsb (loc_eqb l) (g_locs g).

Record cst := mkCst {
  cs_sys : sys;
  cs_log : list (io irec);         (* the global I/O log of this life, oldest first *)
  cs_ups : list upinfo;            (* aligned with s_uploads *)
  cs_tbl : list (nat * irec);      (* all record writes incl. the base medium's: the volatile index *)
  cs_locs : list loc;              (* absolute block index -> device region *)
  cs_cur : list Z;                 (* absolute block index -> allocation cursor (bytes) *)
  cs_free : list loc;              (* allocator free list *)
  cs_held : list loc;              (* Release()d by the list, a writer still open *)
  cs_dirpc : nat;                  (* directory operations of the in-flight state write done *)
  cs_seeds : list N;               (* ghost: seeds of this life in creation order (restored first) *)
  cs_elast : list nat;             (* ghost: per seed, absolute index of the epoch's last block *)
  cs_old : list N;                 (* ghost: seeds occurring in the base index *)
  cs_nclosed : nat;                (* ghost: length cs_seeds at the last NotifySyncStarting *)
  cs_closed_at : nat;              (* ghost: length cs_log at the last NotifySyncStarting *)
  cs_nsynced : nat                 (* ghost: cs_nclosed at the start of the last completed sync *)
}.

(** ---- small helpers ---- *)
Fixpoint swap_remove (l : list loc) (x : loc) : list loc :=
  match l with
  | [] => []
  | y :: t =>
      if loc_eqb y x then match rev t with [] => [] | z :: r => z :: rev r end
      else y :: swap_remove t x
  end.
(* freeOffsets[i] = freeOffsets[last]; freeOffsets = freeOffsets[:last] *)

Fixpoint upd_nth {T} (l : list T) (i : nat) (f : T -> T) : list T :=
  match l, i with
  | [], _ => []
  | x :: t, O => f x :: t
  | x :: t, S j => x :: upd_nth t j f
  end.

Definition up_open (u : upinfo) : bool := match up_state u with UpWriting => true | _ => false end.
Definition up_loc (locs : list loc) (u : upinfo) : option loc := nth_error locs (up_abs u).
Definition loc_opt_eqb (o : option loc) (l : loc) : bool := match o with Some x => loc_eqb x l | None => false end.
Definition writer_open_on (locs : list loc) (ups : list upinfo) (l : loc) : bool :=
  existsb (fun u => up_open u && loc_opt_eqb (up_loc locs u) l) ups.

Fixpoint remove_loc (l : list loc) (x : loc) : list loc :=
  match l with
  | [] => []
  | y :: t => if loc_eqb y x then t else y :: remove_loc t x
  end.

(** ---- initial state of a life on a medium ---- *)
Definition restored_cursors (g : geo) (bl : list binfo) : list Z :=
  map (fun b => round_up (g_sector g) (b_written b)) bl.

Definition cinit (g : geo) (base : medium irec) (t0 : N) : cst :=
  let p := fst (restart (geom g) (m_state base)) in
  let locs := map b_loc (blocks p) in
  mkCst (init_sys p t0) [] [] (m_index base) locs (restored_cursors g (blocks p))
        (fold_left swap_remove locs (g_locs g)) [] 0
        (epochSeeds p) (epochLast p) (map (fun e => r_seed (snd e)) (m_index base))
        (length (epochSeeds p)) 0 (length (epochSeeds p)).

(** ---- events ---- *)
Inductive iw :=
| IwNew (slot : nat)               (* the record of the upload just finalized *)
| IwMove (from to : nat).          (* Robin-Hood displacement: the record read at [from] is re-written at [to] *)

Inductive cev :=
| CPush
| CPop
| CPutStart (index : nat) (key : N) (size : Z)
| CData (k : nat) (n : Z)
| CWriterDone (k : nat) (ok : bool)
| CFinalize (k : nat) (seed : N) (ws : list iw)
| CTick (d : N)
| CCancel
| CStep (t : tid) (a : ans)
| CDir.

(** ---- field updates ---- *)
Definition with_sys (c : cst) (s : sys) : cst :=
  mkCst s (cs_log c) (cs_ups c) (cs_tbl c) (cs_locs c) (cs_cur c) (cs_free c) (cs_held c) (cs_dirpc c)
        (cs_seeds c) (cs_elast c) (cs_old c) (cs_nclosed c) (cs_closed_at c) (cs_nsynced c).
Definition with_log (c : cst) (l : list (io irec)) : cst :=
  mkCst (cs_sys c) l (cs_ups c) (cs_tbl c) (cs_locs c) (cs_cur c) (cs_free c) (cs_held c) (cs_dirpc c)
        (cs_seeds c) (cs_elast c) (cs_old c) (cs_nclosed c) (cs_closed_at c) (cs_nsynced c).
Definition with_ups (c : cst) (u : list upinfo) : cst :=
  mkCst (cs_sys c) (cs_log c) u (cs_tbl c) (cs_locs c) (cs_cur c) (cs_free c) (cs_held c) (cs_dirpc c)
        (cs_seeds c) (cs_elast c) (cs_old c) (cs_nclosed c) (cs_closed_at c) (cs_nsynced c).
Definition with_alloc (c : cst) (locs : list loc) (cur : list Z) (free held : list loc) : cst :=
  mkCst (cs_sys c) (cs_log c) (cs_ups c) (cs_tbl c) locs cur free held (cs_dirpc c)
        (cs_seeds c) (cs_elast c) (cs_old c) (cs_nclosed c) (cs_closed_at c) (cs_nsynced c).
Definition with_dirpc (c : cst) (n : nat) : cst :=
  mkCst (cs_sys c) (cs_log c) (cs_ups c) (cs_tbl c) (cs_locs c) (cs_cur c) (cs_free c) (cs_held c) n
        (cs_seeds c) (cs_elast c) (cs_old c) (cs_nclosed c) (cs_closed_at c) (cs_nsynced c).
Definition with_index (c : cst) (l : list (io irec)) (t : list (nat * irec)) : cst :=
  mkCst (cs_sys c) l (cs_ups c) t (cs_locs c) (cs_cur c) (cs_free c) (cs_held c) (cs_dirpc c)
        (cs_seeds c) (cs_elast c) (cs_old c) (cs_nclosed c) (cs_closed_at c) (cs_nsynced c).
Definition with_seeds (c : cst) (sd : list N) (el : list nat) : cst :=
  mkCst (cs_sys c) (cs_log c) (cs_ups c) (cs_tbl c) (cs_locs c) (cs_cur c) (cs_free c) (cs_held c) (cs_dirpc c)
        sd el (cs_old c) (cs_nclosed c) (cs_closed_at c) (cs_nsynced c).
Definition with_sync_ghost (c : cst) (nclosed closed_at nsynced : nat) : cst :=
  mkCst (cs_sys c) (cs_log c) (cs_ups c) (cs_tbl c) (cs_locs c) (cs_cur c) (cs_free c) (cs_held c) (cs_dirpc c)
        (cs_seeds c) (cs_elast c) (cs_old c) nclosed closed_at nsynced.

Definition sys_step (cfg : config) (c : cst) (e : event) : option cst :=
  match step cfg (cs_sys c) e with
  | Some (Ok s') => Some (with_sys c s')
  | _ => None                       (* not enabled, or a panic (excluded by C07's no_panic) *)
  end.

(** ---- the state write in flight ---- *)
Definition writing (s : sys) : option pstate :=
  match s_r s, s_p s with
  | RW (WWriting st), _ => Some st
  | _, PW _ (WWriting st) => Some st
  | _, _ => None
  end.
Definition thread_writing (s : sys) (t : tid) : bool :=
  match t with
  | TR => match s_r s with RW (WWriting _) => true | _ => false end
  | TP => match s_p s with PW _ (WWriting _) => true | _ => false end
  end.
Definition thread_at_getstate (s : sys) (t : tid) : bool :=
  match t with
  | TR => match s_r s with RW WGetState => true | _ => false end
  | TP => match s_p s with PW _ WGetState => true | _ => false end
  end.

Definition dir_op (n : nat) (st : sfile) : io irec :=
  match n with
  | 0 => IoRemoveNew | 1 => IoCreateNew | 2 => IoWriteNew st | 3 => IoFsyncNew | 4 => IoRenameNew | _ => IoDirSync
  end.
Definition dir_ops_total : nat := 6.

(** ---- the put loop's sync steps ---- *)
Definition p_syncing (s : sys) : bool := match s_p s with PSyncing _ _ => true | _ => false end.
(** this step of the put loop executes NotifySyncStarting *)
Definition p_notifies (s : sys) : bool :=
  match s_p s with
  | PNotify _ => true
  | PSyncRet keep final => negb keep && negb final
  | _ => false
  end.
(** this step of the put loop executes NotifySyncCompleted *)
Definition p_completes (s : sys) : bool := match s_p s with PSyncRet _ _ => true | _ => false end.

(** ---- record writes of one finalizer section ---- *)
Definition mk_rec (p : pbl) (i : nat) (key : N) (off size : Z) (up : nat) : option irec :=
  match index_to_ref i p with
  | Ok ((e, bfl), sd) => Some (mkIrec e bfl key off size sd up)
  | Panic => None
  end.

Definition live_index (p : pbl) (r : irec) : option nat :=
  resolve_ref p 0 (r_epoch r) (r_bfl r) (r_seed r).

Fixpoint do_writes (p : pbl) (k : nat) (u : upinfo) (ws : list iw)
                   (log : list (io irec)) (tbl : list (nat * irec)) : option (list (io irec) * list (nat * irec)) :=
  match ws with
  | [] => Some (log, tbl)
  | IwNew slot :: rest =>
      if up_abs u <? totalReleased p then None else
      match mk_rec p (up_abs u - totalReleased p) (up_key u) (up_off u) (up_size u) k with
      | Some r => do_writes p k u rest (log ++ [IoIndex slot r]) (tbl ++ [(slot, r)])
      | None => None
      end
  | IwMove from to :: rest =>
      match slot_get tbl from None with
      | Some r0 =>
          match live_index p r0 with
          | Some i =>
              match mk_rec p i (r_key r0) (r_off r0) (r_size r0) (r_up r0) with
              | Some r => do_writes p k u rest (log ++ [IoIndex to r]) (tbl ++ [(to, r)])
              | None => None
              end
          | None => None
          end
      | None => None
      end
  end.

Definition fresh (c : cst) (seed : N) : bool :=
  negb (existsb (N.eqb seed) (cs_seeds c)) && negb (existsb (N.eqb seed) (cs_old c)).

(** regions leaving the list ([rel] = what NotifyPersistentStateWritten released) *)
Fixpoint release_regions (locs : list loc) (ups : list upinfo) (rel free held : list loc) : list loc * list loc :=
  match rel with
  | [] => (free, held)
  | l :: t => if writer_open_on locs ups l then release_regions locs ups t free (held ++ [l])
              else release_regions locs ups t (free ++ [l]) held
  end.

Definition block_size (l : loc) : Z := snd l.

(** ---- one step ---- *)
Definition cstep (g : geo) (cfg : config) (c : cst) (e : cev) : option cst :=
  let s := cs_sys c in
  let p := s_pbl s in
  match e with
  | CPush =>
      if closedForWriting p then sys_step cfg c (EPushBack None)
      else match cs_free c with
           | [] => sys_step cfg c (EPushBack None)
           | l :: fr =>
               match sys_step cfg c (EPushBack (Some l)) with
               | Some c' => Some (with_alloc c' (cs_locs c ++ [l]) (cs_cur c ++ [0%Z]) fr (cs_held c))
               | None => None
               end
           end
  | CPop => sys_step cfg c EPopFront
  | CPutStart index key size =>
      if (size <? 0)%Z then None else
      match sys_step cfg c (EPutStart index size) with
      | None => None
      | Some c' =>
          if closedForWriting p then
            Some (with_ups c' (cs_ups c ++ [mkUp key (length (cs_locs c)) 0 size 0 (UpDone false)]))
          else
            let abs := totalReleased p + index in
            match nth_error (cs_cur c) abs, nth_error (cs_locs c) abs with
            | Some off, Some l =>
                if (off + size <=? block_size l)%Z then          (* HasSpace *)
                  Some (with_alloc (with_ups c' (cs_ups c ++ [mkUp key abs off size 0 UpWriting]))
                                   (cs_locs c) (upd_nth (cs_cur c) abs (fun o => (o + size)%Z)) (cs_free c) (cs_held c))
                else None
            | _, _ => None
            end
      end
  | CData k n =>
      match nth_error (cs_ups c) k with
      | Some u =>
          match up_state u, up_loc (cs_locs c) u with
          | UpWriting, Some l =>
              if (0 <? n)%Z && (up_issued u + n <=? up_size u)%Z then
                let lo := (up_off u + up_issued u)%Z in
                Some (with_ups (with_log c (cs_log c ++ [IoData k l lo (lo + n)%Z]))
                               (upd_nth (cs_ups c) k (fun u => mkUp (up_key u) (up_abs u) (up_off u) (up_size u)
                                                                   (up_issued u + n)%Z (up_state u))))
              else None
          | _, _ => None
          end
      | None => None
      end
  | CWriterDone k ok =>
      match nth_error (cs_ups c) k with
      | Some u =>
          match up_state u with
          | UpWriting =>
              if ok && negb (up_issued u =? up_size u)%Z then None else
              let ups' := upd_nth (cs_ups c) k (fun u => mkUp (up_key u) (up_abs u) (up_off u) (up_size u)
                                                             (up_issued u) (UpDone ok)) in
              match up_loc (cs_locs c) u with
              | Some l =>
                  if existsb (loc_eqb l) (cs_held c) && negb (writer_open_on (cs_locs c) ups' l)
                  then Some (with_alloc (with_ups c ups') (cs_locs c) (cs_cur c) (cs_free c ++ [l]) (remove_loc (cs_held c) l))
                  else Some (with_ups c ups')
              | None => Some (with_ups c ups')
              end
          | _ => None
          end
      | None => None
      end
  | CFinalize k seed ws =>
      match nth_error (cs_ups c) k, nth_error (s_uploads s) k with
      | Some u, Some (Some (tok, size)) =>
          match up_state u with
          | UpDone ok =>
              if negb (fresh c seed) then None else
              let blk := if ok then Some (up_off u) else None in
              match put_finalize tok blk size seed p, sys_step cfg c (EFinalize k blk seed) with
              | Ok (p', fr), Some c1 =>
                  let bumped := length (epochSeeds p) <? length (epochSeeds p') in
                  let c2 := if bumped then with_seeds c1 (cs_seeds c ++ [seed])
                                                      (cs_elast c ++ [totalReleased p' + length (blocks p') - 1])
                            else c1 in
                  let fin (b : bool) := upd_nth (cs_ups c) k (fun u => mkUp (up_key u) (up_abs u) (up_off u) (up_size u)
                                                                          (up_issued u) (UpFin b)) in
                  match fr with
                  | FinOk _ =>
                      match do_writes p' k u ws (cs_log c) (cs_tbl c) with
                      | Some (log', tbl') => Some (with_ups (with_index c2 log' tbl') (fin true))
                      | None => None
                      end
                  | _ => match ws with [] => Some (with_ups c2 (fin false)) | _ => None end
                  end
              | _, _ => None
              end
          | _ => None
          end
      | _, _ => None
      end
  | CTick d => sys_step cfg c (ETick d)
  | CCancel => sys_step cfg c ECancel
  | CStep t a =>
      if thread_writing s t && a_ok a && negb (cs_dirpc c =? dir_ops_total) then None else
      match sys_step cfg c (EStep t a) with
      | None => None
      | Some c1 =>
          let s' := cs_sys c1 in
          match t with
          | TR =>
              (* the release loop: GetPersistentState resets the directory program; a completed
                 NotifyPersistentStateWritten hands regions back *)
              let c2 := if thread_at_getstate s TR then with_dirpc c1 0 else c1 in
              let rel := skipn (length (releasedLog p)) (releasedLog (s_pbl s')) in
              let '(fr, hd) := release_regions (cs_locs c) (cs_ups c) rel (cs_free c) (cs_held c) in
              Some (with_alloc c2 (cs_locs c) (cs_cur c) fr hd)
          | TP =>
              let c2 := if thread_at_getstate s TP then with_dirpc c1 0 else c1 in
              let rel := skipn (length (releasedLog p)) (releasedLog (s_pbl s')) in
              let '(fr, hd) := release_regions (cs_locs c) (cs_ups c) rel (cs_free c) (cs_held c) in
              let c3 := with_alloc c2 (cs_locs c) (cs_cur c) fr hd in
              (* ghost: NotifySyncCompleted, then NotifySyncStarting *)
              let nsynced := if p_completes s then cs_nclosed c else cs_nsynced c in
              let '(nclosed, closed_at) := if p_notifies s then (length (cs_seeds c), length (cs_log c))
                                           else (cs_nclosed c, cs_closed_at c) in
              let c4 := with_sync_ghost c3 nclosed closed_at nsynced in
              (* log: the DataSyncer call *)
              let log' :=
                if p_syncing s then cs_log c ++ [IoSyncEnd (a_ok a)]
                else if p_syncing s' then cs_log c ++ [IoSyncBegin]
                else cs_log c in
              Some (with_log c4 log')
          end
      end
  | CDir =>
      match writing s with
      | Some st =>
          if cs_dirpc c <? dir_ops_total
          then Some (with_dirpc (with_log c (cs_log c ++ [dir_op (cs_dirpc c) (st, g_hinit g)])) (S (cs_dirpc c)))
          else None
      | None => None
      end
  end.

Fixpoint crun (g : geo) (cfg : config) (c : cst) (tr : list cev) : option cst :=
  match tr with
  | [] => Some c
  | e :: tr' => match cstep g cfg c e with Some c' => crun g cfg c' tr' | None => None end
  end.

Definition creach (g : geo) (cfg : config) (base : medium irec) (t0 : N) (c : cst) : Prop :=
  exists tr, crun g cfg (cinit g base t0) tr = Some c.

(** the Syncer event a cev refines (None: a stutter of [Syncer.step]) *)
Definition ev_of (c : cst) (e : cev) : option event :=
  match e with
  | CPush => Some (EPushBack (if closedForWriting (s_pbl (cs_sys c)) then None else hd_error (cs_free c)))
  | CPop => Some EPopFront
  | CPutStart index _ size => Some (EPutStart index size)
  | CData _ _ | CWriterDone _ _ | CDir => None
  | CFinalize k seed _ =>
      match nth_error (cs_ups c) k with
      | Some u => match up_state u with
                  | UpDone ok => Some (EFinalize k (if ok then Some (up_off u) else None) seed)
                  | _ => None
                  end
      | None => None
      end
  | CTick d => Some (ETick d)
  | CCancel => Some ECancel
  | CStep t a => Some (EStep t a)
  end.

(** ---- what a crash leaves and what the restart resolves ---- *)
Definition crash_of (base : medium irec) (c : cst) (n : nat) (ch : choice) : medium irec :=
  crash_medium base (firstn n (cs_log c)) ch.

(** record [r] (in slot [slot] of the post-crash index) resolves to block index [i] of the restarted list *)
Definition resolves (g : geo) (m : medium irec) (slot : nat) (r : irec) (i : nat) : Prop :=
  slot_get (m_index m) slot None = Some r /\
  resolve_ref (fst (restart (geom g) (m_state m))) 0 (r_epoch r) (r_bfl r) (r_seed r) = Some i.
