(** Persist/CrashRepeatSafe.v — REPEATED crashes, the full statement.

    Uploads are identified by (life, index): the data device after a history
    [H] of lives is viewed as the list [hist_data H] of the surviving data
    writes of every life, each tagged with the number of its life;
    [towner … l z] = (life, upload) of the LAST surviving write covering byte
    [z] of region [l] (its erasure is [byte_owner] on the medium's data,
    [lives_data] / [towner_owner]).

    [good g H m r i]: record [r], seed-resolving to block [i] of the list
    restarted on medium [m] (in particular: every record that
    BlockReferenceToBlockIndex + the checksum accept), designates a COMPLETED
    upload (life j, index k) of the record's key, offset and size, all of
    whose data writes were durable when life j crashed, allocated in the very
    device region block [i] occupies, below the block's restored write
    offset, and every byte of the location is OWNED by a write of that upload
    on the data device as the whole history left it.

    [SafeF] (every seed-resolving index record is good, and the restart
    restores duplicate-free seeds and regions) holds for empty media and is
    CLOSED under a life of any length, from any reachable state, any crash
    point, any loss choice ([SafeF_step]) — hence after arbitrarily many
    crash + restart rounds ([repeated_crash]).  Stdlib only; no axioms. *)
From Coq Require Import List NArith ZArith Bool Arith Lia Permutation.
From BBS Require Import Persist.PBL Persist.PBLProofs Persist.Syncer Persist.SyncerProofs
                        Persist.Crash Persist.CrashLts.
From BBS Require Import Persist.CrashReuseProofs.
From BBS Require Import Persist.CrashRepeatEpoch Persist.CrashRepeatSim Persist.CrashRepeatShadow
                        Persist.CrashRepeatRec Persist.CrashRepeat.
Import ListNotations.

Local Notation log := (list (io irec)).

(** ------------------------------------------------------------------ *)
(** * the data device of a history, tagged by life *)

Definition life_data (lf : life) : list dwrite :=
  data_durable (firstn (lf_n lf) (cs_log (lf_c lf))) ++
  select (c_data (lf_ch lf)) (data_pending (firstn (lf_n lf) (cs_log (lf_c lf)))).

Fixpoint hist_from (j : nat) (H : list life) : list (nat * dwrite) :=
  match H with
  | [] => []
  | lf :: t => map (pair j) (life_data lf) ++ hist_from (S j) t
  end.
Definition hist_data (H : list life) : list (nat * dwrite) := hist_from 0 H.

Lemma hist_from_snoc H : forall j lf, hist_from j (H ++ [lf]) = hist_from j H ++ map (pair (j + length H)) (life_data lf).
Proof.
  induction H as [|x H IH]; intros j lf; cbn.
  - rewrite app_nil_r, Nat.add_0_r. reflexivity.
  - rewrite IH, <- app_assoc. replace (S j + length H) with (j + S (length H)) by lia. reflexivity.
Qed.

Lemma hist_data_snoc H lf : hist_data (H ++ [lf]) = hist_data H ++ map (pair (length H)) (life_data lf).
Proof. unfold hist_data. rewrite hist_from_snoc. reflexivity. Qed.

Lemma crash_medium_data (base : medium irec) (l : log) ch :
  m_data (crash_medium base l ch) = m_data base ++ data_durable l ++ select (c_data ch) (data_pending l).
Proof. unfold crash_medium. destruct (dir_crash _ _ _). reflexivity. Qed.

Lemma lives_data g H m : lives g H m -> m_data m = map snd (hist_data H).
Proof.
  induction 1 as [|H base lf HL IH R]; [reflexivity|].
  unfold crash_of. rewrite crash_medium_data, hist_data_snoc, map_app, IH. f_equal.
  rewrite map_map. cbn. rewrite map_id. reflexivity.
Qed.

(** (life, upload) of the last surviving write that covers byte [z] of region [l] *)
Fixpoint towner (T : list (nat * dwrite)) (l : loc) (z : Z) (acc : option (nat * nat)) : option (nat * nat) :=
  match T with
  | [] => acc
  | (j, w) :: t => towner t l z (if covers w l z then Some (j, owner w) else acc)
  end.

Lemma towner_app T1 T2 l z acc : towner (T1 ++ T2) l z acc = towner T2 l z (towner T1 l z acc).
Proof. revert acc. induction T1 as [|[j w] T1 IH]; intros acc; cbn; [reflexivity|apply IH]. Qed.

Lemma towner_none J D l z acc : (forall w, In w D -> covers w l z = false) ->
  towner (map (pair J) D) l z acc = acc.
Proof.
  induction D as [|w D IH]; intros H; cbn; [reflexivity|].
  rewrite (H w (or_introl eq_refl)). apply IH. intros w' Hw. apply H. right. exact Hw.
Qed.

Lemma byte_owner_acc D l z : forall acc, byte_owner D l z acc =
  match byte_owner D l z None with Some u => Some u | None => acc end.
Proof.
  induction D as [|w D IH]; intros acc; [reflexivity|].
  rewrite <- !byte_owner_step. destruct (covers w l z); [|apply IH].
  rewrite (IH (Some (owner w))). destruct (byte_owner D l z None); reflexivity.
Qed.

Lemma towner_map J D l z : forall acc, towner (map (pair J) D) l z acc =
  match byte_owner D l z None with Some u => Some (J, u) | None => acc end.
Proof.
  induction D as [|w D IH]; intros acc; [reflexivity|].
  cbn [map towner]. rewrite <- byte_owner_step. rewrite IH.
  destruct (covers w l z).
  - rewrite (byte_owner_acc D l z (Some (owner w))). destruct (byte_owner D l z None); reflexivity.
  - reflexivity.
Qed.

(** erasing the life tags gives [byte_owner] *)
Lemma towner_owner T l z : forall acc,
  option_map snd (towner T l z acc) = byte_owner (map snd T) l z (option_map snd acc).
Proof.
  induction T as [|[j w] T IH]; intros acc; [reflexivity|].
  cbn [towner map snd]. rewrite IH, <- byte_owner_step. destruct (covers w l z); reflexivity.
Qed.

(** ------------------------------------------------------------------ *)
(** * good records, safe media *)

Definition pre (g : geo) (m : medium irec) : pbl := fst (restart (geom g) (m_state m)).

Definition good (g : geo) (H : list life) (m : medium irec) (r : irec) (i : nat) : Prop :=
  exists j lf k up b l,
    nth_error H j = Some lf /\ nth_error (cs_ups (lf_c lf)) k = Some up /\
    up_key up = r_key r /\ up_off up = r_off r /\ up_size up = r_size r /\
    up_state up = UpFin true /\ up_issued up = up_size up /\
    (forall q l' lo hi, nth_error (cs_log (lf_c lf)) q = Some (IoData k l' lo hi) ->
       q < durable_upto (firstn (lf_n lf) (cs_log (lf_c lf)))) /\
    nth_error (cs_locs (lf_c lf)) (up_abs up) = Some l /\
    nth_error (blocks (pre g m)) i = Some b /\ b_loc b = l /\
    (r_off r + r_size r <= b_written b)%Z /\
    forall z, (r_off r <= z < r_off r + r_size r)%Z -> towner (hist_data H) l z None = Some (j, k).

Lemma good_same g H m r r0 i : r_key r = r_key r0 -> r_off r = r_off r0 -> r_size r = r_size r0 ->
  good g H m r0 i -> good g H m r i.
Proof.
  intros E1 E2 E3 (j & lf & k & up & b & l & G). exists j, lf, k, up, b, l. rewrite E1, E2, E3. exact G.
Qed.

Definition SafeF (g : geo) (H : list life) (m : medium irec) : Prop :=
  base_ok g m /\
  forall slot r i, In (slot, r) (m_index m) -> sres (pre g m) r i -> good g H m r i.

Theorem SafeF_empty g : SafeF g [] medium_empty.
Proof.
  split; [split; constructor|]. intros slot r i [].
Qed.

(** ------------------------------------------------------------------ *)
(** * append-only ghost tables; the allocator facts of the real run *)

Lemma cstep_prefix g cfg c e c' : cstep g cfg c e = Some c' ->
  (exists X, cs_locs c' = cs_locs c ++ X) /\
  (exists Y Z, cs_seeds c' = cs_seeds c ++ Y /\ cs_elast c' = cs_elast c ++ Z).
Proof.
  intros H. apply cstep_eff in H.
  assert (Hsame : cs_locs c' = cs_locs c -> cs_seeds c' = cs_seeds c -> cs_elast c' = cs_elast c ->
            (exists X, cs_locs c' = cs_locs c ++ X) /\
            (exists Y Z, cs_seeds c' = cs_seeds c ++ Y /\ cs_elast c' = cs_elast c ++ Z)).
  { intros -> -> ->. split; [exists []|exists [], []]; rewrite ?app_nil_r; auto. }
  eff_cases H.
  - apply obs_fields in Hobs. destruct Hobs as (_ & _ & _ & _ & _ & E6 & _ & _ & _ & E10 & E11). auto.
  - destruct Hgh as [Q1 Q2]. split; [eauto|exists [], []]. rewrite !app_nil_r. auto.
  - destruct Hgh as [Q1 Q2]. destruct Hal as (L1 & _). auto.
  - destruct Hgh as [Q1 Q2]. destruct Hal as (L1 & _). auto.
  - destruct Hgh as [Q1 Q2]. destruct Hal as (L1 & _). auto.
  - destruct Hgh as [Q1 Q2]. auto.
  - destruct Hal as (L1 & _). split; [exists []; rewrite app_nil_r; auto|eauto].
  - destruct Hgh as [Q1 Q2]. auto.
  - destruct Hgh as [Q1 Q2]. destruct Hal as (L1 & _). auto.
Qed.

Lemma crun_prefix g cfg tr : forall c c', crun g cfg c tr = Some c' ->
  (exists X, cs_locs c' = cs_locs c ++ X) /\
  (exists Y Z, cs_seeds c' = cs_seeds c ++ Y /\ cs_elast c' = cs_elast c ++ Z).
Proof.
  induction tr as [|e tr IH]; intros c c' H; cbn in H.
  - inv H. split; [exists []|exists [], []]; rewrite ?app_nil_r; auto.
  - destruct (cstep g cfg c e) as [c1|] eqn:Es; [|discriminate].
    destruct (cstep_prefix _ _ _ _ _ Es) as [[X1 E1] (Y1 & Z1 & E2 & E3)].
    destruct (IH _ _ H) as [[X2 E4] (Y2 & Z2 & E5 & E6)].
    split; [exists (X1 ++ X2)|exists (Y1 ++ Y2), (Z1 ++ Z2)]; rewrite ?app_assoc; try split; congruence.
Qed.

(** write order and tiling of the data log, transferred from the shadow run *)
Lemma rinv_real g cur0 c ch : sim c ch -> SH g cur0 ch ->
  (forall p1 p2 k1 k2 l lo1 hi1 lo2 hi2 u1 u2, p1 < p2 ->
     nth_error (cs_log c) p1 = Some (IoData k1 l lo1 hi1) -> nth_error (cs_log c) p2 = Some (IoData k2 l lo2 hi2) ->
     nth_error (cs_ups c) k1 = Some u1 -> nth_error (cs_ups c) k2 = Some u2 -> up_abs u1 <= up_abs u2) /\
  (forall k u z, nth_error (cs_ups c) k = Some u -> (up_off u <= z < up_off u + up_issued u)%Z ->
     exists p l lo hi, nth_error (cs_log c) p = Some (IoData k l lo hi) /\ (lo <= z < hi)%Z /\
       nth_error (cs_locs c) (up_abs u) = Some l).
Proof.
  intros Sm HSH. destruct (sim_fields _ _ Sm) as (F1 & F2 & F3 & _).
  destruct (sh_r _ _ _ HSH) as [_ _ _ R4 R5 _].
  assert (ND : forall q k l lo hi, nth_error (cs_log c) q = Some (IoData k l lo hi) <->
                 nth_error (cs_log ch) q = Some (IoData k l lo hi)).
  { intros. apply (sim_nth_noindex _ _ _ _ Sm). intros; discriminate. }
  split.
  - intros p1 p2 k1 k2 l lo1 hi1 lo2 hi2 u1 u2 Hlt P1 P2 K1 K2. rewrite <- F2 in K1, K2.
    exact (R4 p1 p2 k1 k2 l lo1 hi1 lo2 hi2 u1 u2 Hlt (proj1 (ND _ _ _ _ _) P1) (proj1 (ND _ _ _ _ _) P2) K1 K2).
  - intros k u z Hk Hz. rewrite <- F2 in Hk. destruct (R5 _ _ _ Hk Hz) as (p & l & lo & hi & P1 & P2 & P3).
    exists p, l, lo, hi. rewrite <- F3. split; [exact (proj2 (ND _ _ _ _ _) P1)|auto].
Qed.

(** ------------------------------------------------------------------ *)
(** * no surviving write of the new life covers the bytes of an object in a restored block,
      as long as the surviving state file still lists the block *)

Lemma no_write g base t0 c K n a b0 off size z :
  (0 < g_sector g)%Z -> NoDup (map b_loc (blocks (pre g base))) ->
  reuse_witness c K -> A.ainv (cs_cur (cinit g base t0)) c ->
  (forall a', a' < length (blocks (pre g base)) ->
     nth_error (cs_locs c) a' = nth_error (map b_loc (blocks (pre g base))) a') ->
  nth_error (blocks (pre g base)) a = Some b0 -> (off + size <= b_written b0)%Z -> (off <= z < off + size)%Z ->
  (dlw (firstn n (cs_log c)) = None \/
   exists q st, (forall lw, dlw (firstn n (cs_log c)) = Some lw -> lw <= q) /\
     nth_error (cs_log c) q = Some (IoWriteNew st) /\ K q <= a) ->
  forall p u lc lo hi, p < n -> nth_error (cs_log c) p = Some (IoData u lc lo hi) ->
    covers (u, lc, lo, hi) (b_loc b0) z = false.
Proof.
  intros Hsec Hnl [W1 W2 W3 W4] AI Hloc Hb0 Hoff Hz Hstate p u lc lo hi Hpn Hp.
  destruct (covers (u, lc, lo, hi) (b_loc b0) z) eqn:Ec; [exfalso|reflexivity].
  cbn in Ec. apply andb_true_iff in Ec. destruct Ec as [Ec Ec3]. apply andb_true_iff in Ec. destruct Ec as [Ec1 Ec2].
  apply loc_eqb_eq in Ec1. subst lc. apply Z.leb_le in Ec2. apply Z.ltb_lt in Ec3.
  destruct (A.ai_data _ _ AI _ _ _ _ (nth_error_In _ _ Hp)) as (u' & U1 & U2 & U3).
  assert (Ha : a < length (blocks (pre g base))) by (apply nth_error_Some; congruence).
  assert (Hla : nth_error (cs_locs c) a = Some (b_loc b0)).
  { rewrite (Hloc a Ha), nth_error_map, Hb0. reflexivity. }
  destruct (lt_eq_lt_dec (up_abs u') a) as [[Hlt|Heq]|Hgt].
  - (* another restored block: regions are distinct *)
    assert (Hlt' : up_abs u' < length (blocks (pre g base))) by lia.
    rewrite (Hloc _ Hlt') in U2. rewrite (Hloc a Ha) in Hla.
    assert (up_abs u' = a); [|lia].
    eapply (proj1 (NoDup_nth_error _) Hnl); [rewrite map_length; exact Hlt'|congruence].
  - (* the restored block itself: allocations start at the restored cursor *)
    assert (Hc0 : nth_error (cs_cur (cinit g base t0)) a = Some (round_up (g_sector g) (b_written b0))).
    { cbn. unfold restored_cursors. rewrite nth_error_map. fold (pre g base). rewrite Hb0. reflexivity. }
    rewrite <- Heq in Hc0. pose proof (A.ai_off0 _ _ AI _ _ _ U1 Hc0) as Hge.
    pose proof (A.round_up_ge (g_sector g) (b_written b0) Hsec). lia.
  - (* a later block on the same region: only after a state file without block [a] was durable *)
    pose proof (W4 _ _ _ _ _ _ _ Hp U1 Hgt Hla) as Hkd. unfold kd in Hkd.
    destruct (dlw (firstn p (cs_log c))) as [w|] eqn:Ew; [|lia].
    destruct (dlw_firstn (cs_log c) p n w ltac:(lia) Ew) as (w' & Ew' & Hww).
    destruct Hstate as [Hno|(q & st & Hlw & Hq & HK)]; [congruence|].
    specialize (Hlw _ Ew').
    destruct (proj2 (shaped_scan _ (shaped_firstn _ p W1)) _ Ew) as [stw Hstw].
    apply E.nth_firstn in Hstw. destruct Hstw as [_ Hstw].
    destruct (proj2 (shaped_scan _ (shaped_firstn _ n W1)) _ Ew') as [stw' Hstw'].
    apply E.nth_firstn in Hstw'. destruct Hstw' as [_ Hstw'].
    pose proof (W2 _ _ _ _ Hww Hstw Hstw') as HK1.
    pose proof (W2 _ _ _ _ Hlw Hstw' Hq) as HK2. lia.
Qed.

Lemma no_cover g base t0 c K n chd a b0 off size z :
  (0 < g_sector g)%Z -> NoDup (map b_loc (blocks (pre g base))) ->
  reuse_witness c K -> A.ainv (cs_cur (cinit g base t0)) c ->
  (forall a', a' < length (blocks (pre g base)) ->
     nth_error (cs_locs c) a' = nth_error (map b_loc (blocks (pre g base))) a') ->
  nth_error (blocks (pre g base)) a = Some b0 -> (off + size <= b_written b0)%Z -> (off <= z < off + size)%Z ->
  (dlw (firstn n (cs_log c)) = None \/
   exists q st, (forall lw, dlw (firstn n (cs_log c)) = Some lw -> lw <= q) /\
     nth_error (cs_log c) q = Some (IoWriteNew st) /\ K q <= a) ->
  forall w, In w (data_durable (firstn n (cs_log c)) ++ select chd (data_pending (firstn n (cs_log c)))) ->
    covers w (b_loc b0) z = false.
Proof.
  intros Hsec Hnl W AI Hloc Hb0 Hoff Hz Hstate w Hw.
  rewrite surv_data in Hw. apply in_map_iff in Hw. destruct Hw as ([p w'] & Ew & Hin). cbn in Ew. subst w'.
  apply surv_in in Hin. destruct Hin as (u & lc & lo & hi & -> & Hp).
  apply E.nth_firstn in Hp. destruct Hp as [Hpn Hp].
  eapply (no_write g base t0 c K n a b0 off size z); eauto.
Qed.

(** * the bytes of a completed, durable upload of the life that just crashed *)
Lemma native_owner g cfg base t0 c ch K n chx k up l z :
  creach g cfg base t0 c -> sim c ch -> SH g (cs_cur (cinit g base t0)) ch ->
  reuse_witness c K ->
  nth_error (cs_ups c) k = Some up -> up_issued up = up_size up ->
  nth_error (cs_locs c) (up_abs up) = Some l ->
  (forall q l' lo hi, nth_error (cs_log c) q = Some (IoData k l' lo hi) -> q < durable_upto (firstn n (cs_log c))) ->
  (exists q st, (forall lw, dlw (firstn n (cs_log c)) = Some lw -> lw <= q) /\
     nth_error (cs_log c) q = Some (IoWriteNew st) /\ K q <= up_abs up) ->
  (up_off up <= z < up_off up + up_size up)%Z ->
  byte_owner (data_durable (firstn n (cs_log c)) ++ select (c_data chx) (data_pending (firstn n (cs_log c)))) l z None
    = Some k.
Proof.
  intros R Sm HSH [W1 W2 W3 W4] Hk Hiss Hl Hdur (q & st & Hlw & Hq & HK) Hz.
  destruct (rinv_real _ _ _ _ Sm HSH) as [Hord Htile].
  pose proof (A.creach_ainv _ _ _ _ _ R) as AI.
  destruct (Htile k up z Hk ltac:(lia)) as (p & l0 & lo & hi & P1 & P2 & P3).
  rewrite Hl in P3. inv P3.
  pose proof (Hdur _ _ _ _ P1) as Hpd.
  pose proof (E.durable_le_length (firstn n (cs_log c))) as Hdl. rewrite firstn_length in Hdl.
  pose proof (owner_of_last_write (firstn n (cs_log c)) chx l0 z k p l0 lo hi) as Hown.
  rewrite crash_medium_data in Hown. cbn [m_data medium_empty app] in Hown. apply Hown; clear Hown.
  - rewrite E.nth_firstn_lt by lia. exact P1.
  - exact Hpd.
  - cbn. rewrite loc_eqb_refl. cbn. apply andb_true_iff. split; [apply Z.leb_le|apply Z.ltb_lt]; lia.
  - intros p' k' l' lo' hi' Hpp Hp' Hc. destruct (Nat.eq_dec k' k) as [|Hne]; [assumption|exfalso].
    apply E.nth_firstn in Hp'. destruct Hp' as [Hpn Hp'].
    cbn in Hc. apply andb_true_iff in Hc. destruct Hc as [Hc Hc3]. apply andb_true_iff in Hc. destruct Hc as [Hc1 Hc2].
    apply loc_eqb_eq in Hc1. subst l'. apply Z.leb_le in Hc2. apply Z.ltb_lt in Hc3.
    destruct (A.ai_data _ _ AI _ _ _ _ (nth_error_In _ _ Hp')) as (u' & U1 & U2 & U3).
    destruct (lt_eq_lt_dec (up_abs u') (up_abs up)) as [[Hlt|Heq]|Hgt].
    + pose proof (Hord p p' k k' l0 lo hi lo' hi' up u' Hpp P1 Hp' Hk U1). lia.
    + eapply (same_block_disjoint _ _ _ _ _ R k up k' u'); eauto using nth_error_In; lia.
    + pose proof (W4 _ _ _ _ _ _ _ Hp' U1 Hgt Hl) as Hkd. unfold kd in Hkd.
      destruct (dlw (firstn p' (cs_log c))) as [w|] eqn:Ew; [|lia].
      destruct (dlw_firstn (cs_log c) p' n w ltac:(lia) Ew) as (w' & Ew' & Hww).
      specialize (Hlw _ Ew').
      destruct (proj2 (shaped_scan _ (shaped_firstn _ p' W1)) _ Ew) as [stw Hstw].
      apply E.nth_firstn in Hstw. destruct Hstw as [_ Hstw].
      destruct (proj2 (shaped_scan _ (shaped_firstn _ n W1)) _ Ew') as [stw' Hstw'].
      apply E.nth_firstn in Hstw'. destruct Hstw' as [_ Hstw'].
      pose proof (W2 _ _ _ _ Hww Hstw Hstw') as HK1.
      pose proof (W2 _ _ _ _ Hlw Hstw' Hq) as HK2. lia.
Qed.

(** ------------------------------------------------------------------ *)
(** * closure under a life and a crash *)

Theorem SafeF_step g H base lf : length (g_locs g) < 65536 -> NoDup (g_locs g) -> (0 < g_sector g)%Z ->
  SafeF g H base -> creach g (lf_cfg lf) base (lf_t0 lf) (lf_c lf) ->
  SafeF g (H ++ [lf]) (crash_of base (lf_c lf) (lf_n lf) (lf_ch lf)).
Proof.
  intros Hg Hnd Hsec [Hbase HG] R.
  set (c := lf_c lf) in *. set (n := lf_n lf). set (chx := lf_ch lf).
  set (t0 := lf_t0 lf) in *. set (cfg := lf_cfg lf) in *.
  set (p0 := pre g base) in *.
  assert (HB : forall slot r a, In (slot, r) (m_index base) -> sres p0 r a ->
            good g H base r a /\ exists b, nth_error (blocks p0) a = Some b /\ (r_off r + r_size r <= b_written b)%Z).
  { intros slot r a Hin Hs. pose proof (HG _ _ _ Hin Hs) as Gd. split; [exact Gd|].
    destruct Gd as (j & lf0 & k & up & b & l & G1 & G2 & G3 & G4 & G5 & G6 & G7 & G8 & G9 & G10 & G11 & G12 & G13).
    exists b. auto. }
  pose proof (creach_reachinv g base Hg Hnd Hbase (good g H base) (fun r r0 a => good_same g H base r r0 a) HB
                (fun _ => True) (fun _ _ _ _ _ _ => I) (fun _ _ _ _ => I) cfg t0 c R) as [(ch & Sm & HSH) RC U M].
  destruct (region_reuse_any_base g cfg base t0 c Hg Hnd Hbase R) as [K W].
  pose proof W as [W1 W2 W3 W4].
  pose proof (A.creach_ainv _ _ _ _ _ R) as AI.
  pose proof (ginv_any_base g cfg base t0 c Hg Hnd Hbase R) as G.
  pose proof (A.gi_nodup _ _ _ G) as Hnds.
  destruct (restart_shape g (m_state base)) as (_ & RS2 & _). fold (pre g base) in RS2. fold p0 in RS2.
  (* the ghost tables extend those of the restart *)
  assert (Hpre : (exists X, cs_locs c = map b_loc (blocks p0) ++ X) /\
                 (exists Y Z, cs_seeds c = epochSeeds p0 ++ Y /\ cs_elast c = epochLast p0 ++ Z)).
  { destruct R as [tr Htr]. apply (crun_prefix _ _ _ _ _ Htr). }
  destruct Hpre as [[X HX] (Ys & Zs & HY & HZ)].
  assert (Hloc : forall a', a' < length (blocks p0) -> nth_error (cs_locs c) a' = nth_error (map b_loc (blocks p0)) a').
  { intros a' Ha'. rewrite HX, nth_error_app1 by (rewrite map_length; exact Ha'). reflexivity. }
  destruct RC as [[HSI [HU [HL [HP0 HF0]]]] Ho].
  destruct Hbase as [Hb1 Hb2]. fold (pre g base) in Hb1, Hb2. fold p0 in Hb1, Hb2.
  pose proof (shaped_firstn _ n W1) as Shn.
  unfold SafeF, crash_of. fold c n chx.
  set (m' := crash_medium base (firstn n (cs_log c)) chx).
  assert (Hidx : forall slot r, In (slot, r) (m_index m') ->
            In (slot, r) (m_index base) \/ exists pos, pos < n /\ nth_error (cs_log c) pos = Some (IoIndex slot r)).
  { intros slot r Hin. unfold m' in Hin. rewrite E.crash_medium_index in Hin. apply in_app_iff in Hin.
    destruct Hin as [Hin|Hin]; [left; exact Hin|right].
    apply E.select_incl in Hin. apply E.index_writes_in in Hin. apply In_nth_error in Hin.
    destruct Hin as [pos Hpos]. apply E.nth_firstn in Hpos. exists pos. exact Hpos. }
  destruct (m_state m') as [x|] eqn:Ex.
  2:{ assert (Epre : pre g m' = fst (restart (geom g) None)) by (unfold pre; rewrite Ex; reflexivity).
      split; [split; fold (pre g m'); rewrite Epre; constructor|].
      intros slot r i _ (j & e & S1 & _). rewrite Epre in S1. destruct j; discriminate. }
  destruct (dir_survivor_any _ _ _ _ Shn Ex) as [[Eb Hno]|(q & Hq & Hlw)].
  - (* the state file the life started with survived *)
    assert (Epre : pre g m' = p0) by (unfold pre, p0; rewrite Ex, <- Eb; reflexivity).
    split; [split; fold (pre g m'); rewrite Epre; assumption|].
    intros slot r i Hin Hs. rewrite Epre in Hs.
    destruct (Hidx _ _ Hin) as [Hb|(pos & Hp & Hpos)].
    + destruct (HG _ _ _ Hb Hs) as (j & lf0 & k & up & b & l & G1 & G2 & G3 & G4 & G5 & G6 & G7 & G8 & G9 & G10 & G11 & G12 & G13).
      exists j, lf0, k, up, b, l. rewrite Epre. splits; auto.
      * apply E.nth_snoc_old. exact G1.
      * intros z Hz. rewrite hist_data_snoc, towner_app, towner_none; [apply G13; exact Hz|].
        subst l. eapply (no_cover g base t0 c K n (c_data chx) i b); eauto.
    + exfalso. destruct Hs as (j & e & S1 & _). apply nth_error_In in S1.
      eapply (li_N' _ _ _ _ _ _ _ _ _ _ HL); eauto.
  - (* a state file written in this life survived *)
    destruct x as [[oldest bl] h]. apply E.nth_firstn in Hq. destruct Hq as [Hqn Hq].
    pose proof (W3 _ _ _ Hq) as Hst.
    set (alloc := fun (l : loc) (_ : Z) => geom g l).
    assert (Epre : pre g m' = fst (pbl_new alloc oldest bl)) by (unfold pre; rewrite Ex; reflexivity).
    destruct (mr_wr _ _ _ _ M _ _ _ Hq) as [Hnlst (kst & K1 & K2 & K3)]. cbn [snd] in Hnlst.
    split.
    { (* the restart restores duplicate-free seeds and regions *)
      split; fold (pre g m').
      - pose proof (restart_seeds_prefix (geom g) (Some ((oldest, bl), h))) as [rest Hrest]. cbn [fst] in Hrest.
        pose proof (li_D' _ _ _ _ _ _ _ _ _ _ HL _ _ _ Hq) as Hndst.
        rewrite Hrest in Hndst. unfold pre. rewrite Ex. eapply NoDup_app_l; exact Hndst.
      - rewrite Epre. destruct (A.pbl_new_fields alloc oldest bl) as [_ Hf].
        destruct (restore_blocks alloc bl 0) as [[bl' seeds'] lasts'] eqn:Er.
        destruct (Hf _ _ _ eq_refl) as (F1 & _). rewrite F1.
        eapply (NoDup_pointwise _ _ Hnlst). intros i0 x0 Hi0. rewrite nth_error_map in Hi0 |- *.
        destruct (nth_error bl' i0) as [y|] eqn:Ey; [|discriminate]. cbn in Hi0. inv Hi0.
        destruct (A.restore_blocks_loc _ _ _ _ _ _ Er _ _ Ey) as (b & B1 & B2). rewrite B1. cbn. congruence. }
    intros slot r i Hin Hs. rewrite Epre in Hs.
    destruct (sres_state _ _ _ r oldest bl alloc i (K q) Hst Hs)
      as [D (q' & bq & bi & x & Q1 & Q2 & Q3 & Q4 & Q5 & Q6 & Q7)].
    set (a := K q + i) in *.
    assert (Hkst : kst = K q).
    { destruct (K1 q' bq _ Q1 Q2) as (j1 & J1 & J2). destruct (Hst q' bq Q1) as [_ L2].
      destruct (L2 _ Q2) as (j2 & J3 & J4).
      assert (j1 = j2) by exact (A.NoDup_nth_eq _ _ _ _ Hnds J1 J3). subst j2. rewrite J2 in J4. inv J4. lia. }
    subst kst.
    assert (Hcov : O.cover (fab r a) ((oldest, bl) : pstate) (K q) r -> (r_off r + r_size r <= b_written x)%Z).
    { intros Hc. destruct (Hc q' bq Q1 Q2) as (a'' & A1 & A2). rewrite fab_nth in A1. inv A1.
      rewrite Q6. unfold a in A2. apply (A2 ltac:(lia)). cbn [snd]. replace (K q + i - K q) with i by lia. exact Q3. }
    (* an object of an earlier life in a restored block *)
    assert (Hinh : a < length (blocks p0) -> good g H base r a -> (r_off r + r_size r <= b_written x)%Z ->
              good g (H ++ [lf]) m' r i).
    { intros Ha (j & lf0 & k & up & b & l & G1 & G2 & G3 & G4 & G5 & G6 & G7 & G8 & G9 & G10 & G11 & G12 & G13) Hoff.
      fold p0 in G10.
      assert (Hreg : b_loc x = l).
      { rewrite Q5. rewrite (Hloc a Ha), nth_error_map, G10 in Q7. cbn in Q7. inv Q7. reflexivity. }
      exists j, lf0, k, up, x, l. rewrite Epre. splits; auto.
      - apply E.nth_snoc_old. exact G1.
      - intros z Hz. rewrite hist_data_snoc, towner_app, towner_none; [apply G13; exact Hz|].
        subst l. eapply (no_cover g base t0 c K n (c_data chx) a b); eauto.
        right. exists q, ((oldest, bl), h). splits; auto. unfold a. lia. }
    destruct (Hidx _ _ Hin) as [Hb|(pos & Hp & Hpos)].
    + (* a record of the base index, resolved through the new state file *)
      assert (Hs0 : sres p0 r a).
      { pose proof (DES_seed _ _ _ _ D) as Hsd.
        assert (Hold : In (r_seed r) (map (fun e : nat * irec => r_seed (snd e)) (m_index base))).
        { apply in_map_iff. exists (slot, r). auto. }
        destruct HP0 as [_ [_ HP3]]. pose proof (HP3 _ Hsd Hold) as H0.
        apply In_nth_error in H0. destruct H0 as [j0 Hj0].
        apply DES_iff in D. destruct D as (j & e & D1 & D2 & D3).
        assert (Hj0' : nth_error (cs_seeds c) j0 = Some (r_seed r)).
        { rewrite HY. apply A.nth_error_app_some. exact Hj0. }
        assert (j = j0) by exact (A.NoDup_nth_eq _ _ _ _ Hnds D1 Hj0'). subst j.
        assert (Hlt : j0 < length (epochLast p0)) by (rewrite RS2; apply nth_error_Some; unfold p0, pre; congruence).
        rewrite HZ, nth_error_app1 in D2 by exact Hlt. exists j0, e. auto. }
      pose proof (HG _ _ _ Hb Hs0) as Gd.
      assert (Ha : a < length (blocks p0)).
      { destruct Gd as (j & lf0 & k & up & b & l & _ & _ & _ & _ & _ & _ & _ & _ & _ & G10 & _).
        apply nth_error_Some. fold p0 in G10. congruence. }
      apply (Hinh Ha Gd). apply Hcov. eapply K3; eauto.
    + (* a record written in this life *)
      destruct (mr_log _ _ _ _ M _ _ _ Hpos) as (a0 & D0 & Cv & Cl).
      assert (a0 = a) by (eapply DES_fun; eauto). subst a0.
      pose proof (O.in_st_seeds ((oldest, bl) : pstate) q' bq (r_seed r) Q1 Q2) as Hseed.
      destruct (li_W' _ _ _ _ _ _ _ _ _ _ HL _ _ _ _ Hq Hseed) as [_ HW].
      specialize (HW _ _ _ Hpos eq_refl).
      pose proof (E.durable_le_length (firstn q (cs_log c))) as Hdl. rewrite firstn_length in Hdl.
      assert (Hoff : (r_off r + r_size r <= b_written x)%Z).
      { apply Hcov. eapply K2; eauto. lia. }
      destruct Cl as [[(up & N1 & N2 & N3 & N4 & N5 & N6 & N7) Hdb]|[Ha Gd]]; [|exact (Hinh Ha Gd Hoff)].
      destruct (E.firstn_prefix (cs_log c) q n) as [l' El]; [lia|].
      pose proof (E.durable_mono (firstn q (cs_log c)) l') as Hm. rewrite <- El in Hm.
      assert (Hdur : forall q0 l0 lo hi, nth_error (cs_log c) q0 = Some (IoData (r_up r) l0 lo hi) ->
                q0 < durable_upto (firstn n (cs_log c))).
      { intros q0 l0 lo hi Hq0. specialize (Hdb _ _ _ _ Hq0). lia. }
      assert (Hlu : nth_error (cs_locs c) (up_abs up) = Some (bs_loc bi)) by (rewrite N2; exact Q7).
      exists (length H), lf, (r_up r), up, x, (bs_loc bi). rewrite Epre. splits; auto.
      * apply E.nth_snoc_new.
      * intros z Hz. rewrite hist_data_snoc, towner_app, towner_map.
        unfold life_data. fold c n chx.
        rewrite (native_owner g cfg base t0 c ch K n chx (r_up r) up (bs_loc bi) z R Sm HSH W N1 N7 Hlu Hdur); [reflexivity| |lia].
        exists q, ((oldest, bl), h). splits; auto. rewrite N2. unfold a. lia.
Qed.

(** ------------------------------------------------------------------ *)
(** * arbitrarily many lives *)

Theorem lives_SafeF g H m : length (g_locs g) < 65536 -> NoDup (g_locs g) -> (0 < g_sector g)%Z ->
  lives g H m -> SafeF g H m.
Proof.
  intros Hg Hnd Hsec HL. induction HL as [|H base lf HL IH R]; [apply SafeF_empty|]. apply SafeF_step; auto.
Qed.

Lemma pre_released g m : totalReleased (pre g m) = 0.
Proof. destruct (restart_shape g (m_state m)) as (_ & _ & R3 & _). exact R3. Qed.

Lemma resolves_sres g m slot r i : resolves g m slot r i ->
  exists slot', In (slot', r) (m_index m) /\ sres (pre g m) r i.
Proof.
  intros [H1 H2]. apply E.slot_get_in in H1. destruct H1 as [H1|[slot' H1]]; [discriminate|].
  exists slot'. split; [exact H1|]. apply resolve_sres; [apply pre_released|exact H2].
Qed.

(** ---- repeated crashes ---- *)
Theorem repeated_crash g H m : length (g_locs g) < 65536 -> NoDup (g_locs g) -> (0 < g_sector g)%Z ->
  lives g H m -> forall slot r i, resolves g m slot r i -> good g H m r i.
Proof.
  intros Hg Hnd Hsec HL slot r i Hres. destruct (lives_SafeF _ _ _ Hg Hnd Hsec HL) as [_ S].
  destruct (resolves_sres _ _ _ _ _ Hres) as (slot' & Hin & Hs). eauto.
Qed.

(** … on the data device itself (life tags erased): the owner of every byte is that upload's tag *)
Theorem repeated_crash_bytes g H m : length (g_locs g) < 65536 -> NoDup (g_locs g) -> (0 < g_sector g)%Z ->
  lives g H m -> forall slot r i, resolves g m slot r i ->
  exists j lf k up b,
    nth_error H j = Some lf /\ nth_error (cs_ups (lf_c lf)) k = Some up /\
    up_key up = r_key r /\ up_off up = r_off r /\ up_size up = r_size r /\ up_state up = UpFin true /\
    nth_error (blocks (pre g m)) i = Some b /\ nth_error (cs_locs (lf_c lf)) (up_abs up) = Some (b_loc b) /\
    (r_off r + r_size r <= b_written b)%Z /\
    forall z, (r_off r <= z < r_off r + r_size r)%Z -> byte_owner (m_data m) (b_loc b) z None = Some k.
Proof.
  intros Hg Hnd Hsec HL slot r i Hres.
  destruct (repeated_crash _ _ _ Hg Hnd Hsec HL _ _ _ Hres)
    as (j & lf & k & up & b & l & G1 & G2 & G3 & G4 & G5 & G6 & G7 & G8 & G9 & G10 & G11 & G12 & G13).
  exists j, lf, k, up, b. subst l. splits; auto.
  intros z Hz. rewrite (lives_data _ _ _ HL).
  pose proof (towner_owner (hist_data H) (b_loc b) z None) as T. cbn [option_map] in T.
  rewrite <- T, (G13 z Hz). reflexivity.
Qed.

(** ---- no overwrite after restart, for a life on the media of ANY history ----
    once a data write of the new life has touched a byte of a location that resolved at the
    restart, that record never resolves again: the region was handed out again only after a
    state file without the block was durable (whether or not the write itself survives) *)
Theorem no_overwrite_after_restart g H base cfg t0 c :
  length (g_locs g) < 65536 -> NoDup (g_locs g) -> (0 < g_sector g)%Z ->
  lives g H base -> creach g cfg base t0 c ->
  forall slot r i b, resolves g base slot r i -> nth_error (blocks (pre g base)) i = Some b ->
  forall q k lo hi z, nth_error (cs_log c) q = Some (IoData k (b_loc b) lo hi) ->
    (r_off r <= z < r_off r + r_size r)%Z -> (lo <= z < hi)%Z ->
  forall n ch, q < n -> forall slot' i', ~ resolves g (crash_of base c n ch) slot' r i'.
Proof.
  intros Hg Hnd Hsec HLv R slot r i b Hres Hb q k lo hi z Hq Hz Hlohi n ch Hqn slot' i' Hres'.
  destruct (lives_SafeF _ _ _ Hg Hnd Hsec HLv) as [Hbase HG].
  destruct (resolves_sres _ _ _ _ _ Hres) as (s0 & Hin0 & Hs0).
  destruct (HG _ _ _ Hin0 Hs0) as (j & lf0 & k0 & up & b' & l & _ & _ & _ & _ & _ & _ & _ & _ & _ & G10 & _ & G12 & _).
  rewrite Hb in G10. inv G10.
  destruct (region_reuse_any_base g cfg base t0 c Hg Hnd Hbase R) as [K W].
  pose proof W as [W1 W2 W3 W4].
  pose proof (A.creach_ainv _ _ _ _ _ R) as AI.
  pose proof (ginv_any_base g cfg base t0 c Hg Hnd Hbase R) as G.
  pose proof (A.gi_nodup _ _ _ G) as Hnds.
  assert (Hpre : (exists X, cs_locs c = map b_loc (blocks (pre g base)) ++ X) /\
                 (exists Ys Zs, cs_seeds c = epochSeeds (pre g base) ++ Ys /\ cs_elast c = epochLast (pre g base) ++ Zs)).
  { destruct R as [tr Htr]. apply (crun_prefix _ _ _ _ _ Htr). }
  destruct Hpre as [[X HX] (Ys & Zs & HY & HZ)].
  assert (Hloc : forall a', a' < length (blocks (pre g base)) ->
            nth_error (cs_locs c) a' = nth_error (map b_loc (blocks (pre g base))) a').
  { intros a' Ha'. rewrite HX, nth_error_app1 by (rewrite map_length; exact Ha'). reflexivity. }
  assert (Hcv : covers (k, b_loc b', lo, hi) (b_loc b') z = true).
  { cbn. rewrite loc_eqb_refl. cbn. apply andb_true_iff. split; [apply Z.leb_le|apply Z.ltb_lt]; lia. }
  assert (Hnw : (dlw (firstn n (cs_log c)) = None \/
                 exists q0 st, (forall lw, dlw (firstn n (cs_log c)) = Some lw -> lw <= q0) /\
                   nth_error (cs_log c) q0 = Some (IoWriteNew st) /\ K q0 <= i) -> False).
  { intros Hstate.
    pose proof (no_write g base t0 c K n i b' (r_off r) (r_size r) z Hsec (proj2 Hbase) W AI Hloc Hb G12 Hz Hstate
                  q k (b_loc b') lo hi Hqn Hq) as Hf. congruence. }
  destruct (resolves_sres _ _ _ _ _ Hres') as (s1 & Hin1 & Hs1).
  pose proof (shaped_firstn _ n W1) as Shn. unfold crash_of in *.
  set (m' := crash_medium base (firstn n (cs_log c)) ch) in *.
  destruct (m_state m') as [x|] eqn:Ex.
  2:{ unfold pre in Hs1. rewrite Ex in Hs1. destruct Hs1 as (j1 & e1 & S1 & _). destruct j1; discriminate. }
  destruct (dir_survivor_any _ _ _ _ Shn Ex) as [[Eb Hno]|(q0 & Hq0 & Hlw)].
  - apply Hnw. left. exact Hno.
  - destruct x as [[oldest bl] h]. apply E.nth_firstn in Hq0. destruct Hq0 as [_ Hq0].
    pose proof (W3 _ _ _ Hq0) as Hst.
    assert (Epre : pre g m' = fst (pbl_new (fun (l : loc) (_ : Z) => geom g l) oldest bl)) by (unfold pre; rewrite Ex; reflexivity).
    rewrite Epre in Hs1.
    destruct (sres_state _ _ _ r oldest bl _ i' (K q0) Hst Hs1) as [D _].
    assert (D0 : DES (cs_seeds c) (cs_elast c) r i).
    { destruct Hs0 as (j0 & e0 & S1 & S2 & S3). apply DES_iff. exists j0, e0. rewrite HY, HZ.
      splits; auto; apply A.nth_error_app_some; assumption. }
    assert (i = K q0 + i') by (eapply DES_fun; eauto).
    apply Hnw. right. exists q0, ((oldest, bl), h). splits; auto. lia.
Qed.

Print Assumptions SafeF_step.
Print Assumptions repeated_crash.
Print Assumptions repeated_crash_bytes.
Print Assumptions no_overwrite_after_restart.
