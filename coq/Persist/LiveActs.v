(** Persist/LiveActs.v — ghost bookkeeping over the event history of the
    combined transition system of Persist/Syncer.v (definitions of the model
    are untouched; everything here is a function of states and events).

    [act_of s e]: which PersistentBlockList call(s) the step [e] performs in
    state [s]; [step_act]: the block list of the successor state is exactly
    the result of that call.  [trace]: the list of executed steps
    (before, event, after) of a schedule, so that theorems can speak about
    "step i" and "the first step after i such that ...".
    [inv_last]: epochLastAbsoluteBlockIndex is determined by the blocks'
    epoch counts (needed to relate an epoch to the blocks it spans). *)
From Coq Require Import List NArith ZArith Bool Arith Lia.
From BBS Require Import Persist.PBL Persist.PBLProofs Persist.Syncer Persist.SyncerProofs.
Import ListNotations.

(** ---- which block-list call a step performs ---- *)
Inductive act :=
| ANone
| APush (alloc : option loc)
| APop
| AFin (tok : put_token) (blk : option Z) (size : Z) (seed : N)
| ASyncStart                       (* NotifySyncStarting(false); dataSyncer() is called *)
| ASyncDone (thenFinal : bool)     (* NotifySyncCompleted; if thenFinal: NotifySyncStarting(true), dataSyncer() again *)
| AGetState (t : tid)              (* GetPersistentState; WritePersistentState is called *)
| AWritten (t : tid).              (* NotifyPersistentStateWritten *)

Definition wact (t : tid) (w : wpc) : act :=
  match w with WGetState => AGetState t | WWritten => AWritten t | _ => ANone end.

Definition act_of (s : sys) (e : event) : act :=
  match e with
  | EPushBack a => APush a
  | EPopFront => APop
  | EPutStart _ _ => ANone
  | EFinalize k blk seed =>
      match nth_error (s_uploads s) k with
      | Some (Some (tok, size)) => AFin tok blk size seed
      | _ => ANone
      end
  | ETick _ => ANone
  | ECancel => ANone
  | EStep TR _ => match s_r s with RW w => wact TR w | _ => ANone end
  | EStep TP _ =>
      match s_p s with
      | PNotify _ => ASyncStart
      | PSyncRet k f => ASyncDone (negb k && negb f)
      | PW _ w => wact TP w
      | _ => ANone
      end
  end.

Definition apply_act (a : act) (p : pbl) : outcome pbl :=
  match a with
  | ANone => Ok p
  | APush al => Ok (fst (push_back al p))
  | APop => pop_front p
  | AFin tok blk size seed => obind (put_finalize tok blk size seed p) (fun r => Ok (fst r))
  | ASyncStart => Ok (notify_sync_starting false p)
  | ASyncDone b =>
      Ok (if b then notify_sync_starting true (notify_sync_completed p) else notify_sync_completed p)
  | AGetState _ => obind (get_persistent_state p) (fun r => Ok (fst r))
  | AWritten _ => notify_state_written p
  end.

Lemma wstep_act cfg me w a s s1 w' : wstep cfg me w a s = Some (Ok (s1, w')) ->
  apply_act (wact me w) (s_pbl s) = Ok (s_pbl s1).
Proof.
  unfold wstep. destruct w; cbn.
  - destruct (s_store s); [discriminate|]. intros H; inversion H; subst. reflexivity.
  - destruct (get_persistent_state _) as [[p' st]|]; [|discriminate]. intros H; inversion H; subst. reflexivity.
  - destruct (a_ok a); intros H; inversion H; subst; reflexivity.
  - destruct (notify_state_written _); [|discriminate]. intros H; inversion H; subst. reflexivity.
  - destruct (_ <=? _)%N; [|discriminate]. intros H; inversion H; subst. reflexivity.
Qed.

Lemma step_act cfg s e s' : step cfg s e = Some (Ok s') ->
  apply_act (act_of s e) (s_pbl s) = Ok (s_pbl s').
Proof.
  destruct e as [alloc| |index size|k blk seed|d| |t a]; cbn [step act_of].
  - intros H; inversion H; subst. reflexivity.
  - destruct (blocks (s_pbl s)); [discriminate|]. cbn. destruct (pop_front _); [|discriminate].
    intros H; inversion H; subst. reflexivity.
  - destruct (_ || _); [|discriminate]. destruct (put_start _ _); [|discriminate].
    intros H; inversion H; subst. reflexivity.
  - destruct (nth_error _ _) as [[[tok sz]|]|]; try discriminate. cbn.
    destruct (put_finalize _ _ _ _ _) as [[p' fr]|]; [|discriminate]. intros H; inversion H; subst. reflexivity.
  - intros H; inversion H; subst. reflexivity.
  - intros H; inversion H; subst. reflexivity.
  - destruct t.
    + unfold rstep. destruct (s_r s) as [|ch|w].
      * intros H; inversion H; subst. reflexivity.
      * destruct (is_closed _ _); [|discriminate]. intros H; inversion H; subst. reflexivity.
      * destruct (wstep cfg TR w a s) as [[[s1 w']|]|] eqn:Ew; try discriminate.
        pose proof (wstep_act _ _ _ _ _ _ _ Ew) as Ha.
        destruct w'; intros H; inversion H; subst; exact Ha.
    + unfold pstep.
      destruct (s_p s) as [|ch|ch|dl|keep|keep final|keep final|keep final dl|keep w|].
      * intros H; inversion H; subst. reflexivity.
      * destruct (is_closed _ _); intros H; inversion H; subst; reflexivity.
      * destruct (s_cancel s && _); [|destruct (is_closed _ _); [|discriminate]];
          intros H; inversion H; subst; reflexivity.
      * destruct (s_cancel s && _); [|destruct (_ && _)%bool; [|discriminate]];
          intros H; inversion H; subst; reflexivity.
      * intros H; inversion H; subst. reflexivity.
      * destruct (a_ok a); intros H; inversion H; subst; reflexivity.
      * cbn. destruct (negb keep && negb final); intros H; inversion H; subst; reflexivity.
      * destruct (_ <=? _)%N; [|discriminate]. intros H; inversion H; subst. reflexivity.
      * destruct (wstep cfg TP w a s) as [[[s1 w']|]|] eqn:Ew; try discriminate.
        pose proof (wstep_act _ _ _ _ _ _ _ Ew) as Ha.
        destruct w'; intros H; inversion H; subst; exact Ha.
      * discriminate.
Qed.

(** ---- the executed steps of a schedule ---- *)
Fixpoint trace (cfg : config) (s : sys) (tr : list event) : list (sys * event * sys) :=
  match tr with
  | [] => []
  | e :: tr' =>
      match step cfg s e with
      | Some (Ok s') => (s, e, s') :: trace cfg s' tr'
      | _ => []
      end
  end.

Lemma trace_nth cfg tr : forall s i a e b,
  nth_error (trace cfg s tr) i = Some (a, e, b) ->
  run cfg s (firstn i tr) = Some (Ok a) /\ step cfg a e = Some (Ok b)
  /\ skipn (S i) (trace cfg s tr) = trace cfg b (skipn (S i) tr)
  /\ firstn i (trace cfg s tr) = trace cfg s (firstn i tr)
  /\ nth_error tr i = Some e.
Proof.
  induction tr as [|e0 tr IH]; intros s i a e b H.
  - destruct i; discriminate.
  - cbn [trace] in *. destruct (step cfg s e0) as [[s1|]|] eqn:Es; try (destruct i; discriminate).
    destruct i as [|i].
    + cbn in H. inversion H; subst. cbn. rewrite Es. auto.
    + cbn [nth_error] in H. destruct (IH _ _ _ _ _ H) as [H1 [H2 [H3 [H4 H5]]]].
      cbn [firstn run]. rewrite Es. splits; auto.
      cbn [trace]. rewrite Es. cbn [firstn]. rewrite H4. reflexivity.
Qed.

(** every state on the trace of a schedule started in a reachable state is reachable *)
Lemma run_app cfg tr1 : forall s tr2 s1, run cfg s tr1 = Some (Ok s1) ->
  run cfg s (tr1 ++ tr2) = run cfg s1 tr2.
Proof.
  induction tr1 as [|e tr1 IH]; intros s tr2 s1 H; cbn in *.
  - inversion H; subst. reflexivity.
  - destruct (step cfg s e) as [[s'|]|]; try discriminate. apply IH. exact H.
Qed.

Lemma reachable_run cfg alloc oldest init t0 s tr s' :
  reachable cfg alloc oldest init t0 s -> run cfg s tr = Some (Ok s') -> reachable cfg alloc oldest init t0 s'.
Proof.
  intros [tr0 H0] H. exists (tr0 ++ tr). rewrite (run_app _ _ _ _ _ H0). exact H.
Qed.

Lemma reachable_step cfg alloc oldest init t0 s e s' :
  reachable cfg alloc oldest init t0 s -> step cfg s e = Some (Ok s') -> reachable cfg alloc oldest init t0 s'.
Proof.
  intros R H. apply (reachable_run _ _ _ _ _ s [e] s' R). cbn. rewrite H. reflexivity.
Qed.

Lemma reachable_init cfg alloc oldest init t0 :
  reachable cfg alloc oldest init t0 (init_sys (fst (pbl_new alloc oldest init)) t0).
Proof. exists []. reflexivity. Qed.

(** ---- epochLast is determined by the blocks' epoch counts ---- *)
Fixpoint lasts_of (base : nat) (bs : list binfo) : list nat :=
  match bs with
  | [] => []
  | b :: r => repeat base (b_epochs b) ++ lasts_of (S base) r
  end.

Definition inv_last (p : pbl) : Prop := epochLast p = lasts_of (totalReleased p) (blocks p).

Lemma lasts_of_app base a b : lasts_of base (a ++ b) = lasts_of base a ++ lasts_of (base + length a) b.
Proof.
  revert base. induction a as [|x a IH]; intros base; cbn.
  - rewrite Nat.add_0_r. reflexivity.
  - rewrite IH, <- app_assoc. replace (S base + length a) with (base + S (length a)) by lia. reflexivity.
Qed.

Lemma lasts_of_map f base bs : (forall b, b_epochs (f b) = b_epochs b) ->
  lasts_of base (map f bs) = lasts_of base bs.
Proof.
  intros Hf. revert base. induction bs as [|b r IH]; intros base; cbn; [reflexivity|].
  rewrite Hf, IH. reflexivity.
Qed.

Lemma lasts_of_set_written base bs i w : lasts_of base (set_written bs i w) = lasts_of base bs.
Proof.
  revert base i. induction bs as [|b r IH]; intros base [|i]; cbn; auto.
  - destruct (b_written b <? w)%Z; reflexivity.
  - rewrite IH. reflexivity.
Qed.

Lemma repeat_snoc {A} (x : A) n : repeat x (S n) = repeat x n ++ [x].
Proof. induction n; cbn in *; [reflexivity|]. rewrite <- IHn. reflexivity. Qed.

Lemma lasts_of_bump base bs : bs <> [] ->
  lasts_of base (bump_last_epoch_count bs) = lasts_of base bs ++ [base + length bs - 1].
Proof.
  revert base. induction bs as [|b r IH]; [congruence|]. intros base _.
  destruct r as [|b' r'].
  - cbn [bump_last_epoch_count lasts_of b_epochs length]. rewrite !app_nil_r, repeat_snoc.
    replace (base + 1 - 1) with base by lia. reflexivity.
  - change (bump_last_epoch_count (b :: b' :: r')) with (b :: bump_last_epoch_count (b' :: r')).
    cbn [lasts_of]. rewrite IH by congruence. rewrite <- app_assoc. cbn [length].
    replace (S base + S (length r') - 1) with (base + S (S (length r')) - 1) by lia. reflexivity.
Qed.

Lemma restore_lasts alloc init : forall n bl seeds lasts,
  restore_blocks alloc init n = (bl, seeds, lasts) -> lasts = lasts_of n bl.
Proof.
  induction init as [|bs rest IH]; intros n bl seeds lasts H; cbn in H.
  - inversion H. reflexivity.
  - destruct (alloc (bs_loc bs) (bs_off bs)).
    + destruct (restore_blocks alloc rest (S n)) as [[bl' seeds'] lasts'] eqn:E.
      inversion H; subst. cbn. rewrite (IH _ _ _ _ E). reflexivity.
    + inversion H. reflexivity.
Qed.

Lemma pbl_new_inv_last alloc oldest init : inv_last (fst (pbl_new alloc oldest init)).
Proof.
  unfold pbl_new, inv_last. destruct (restore_blocks alloc init 0) as [[bl seeds] lasts] eqn:E.
  cbn. exact (restore_lasts _ _ _ _ _ _ E).
Qed.

Lemma act_inv_last a p p' : pbl_inv p -> inv_last p -> apply_act a p = Ok p' -> inv_last p'.
Proof.
  intros I L. unfold inv_last in *. destruct a as [|al| |tok blk size seed| |b|t|t]; cbn [apply_act].
  - intros H; inversion H; subst. exact L.
  - intros H; inversion H; subst. unfold push_back. destruct (closedForWriting p); [exact L|].
    destruct al; [|exact L]. cbn. rewrite lasts_of_app. cbn. rewrite app_nil_r. exact L.
  - unfold pop_front. destruct (blocks p) as [|fb rest] eqn:Eb; [discriminate|].
    destruct (nc_unblock _ _) as [[rw h1]|]; [|discriminate]. cbn [obind].
    destruct (_ || _); [discriminate|].
    match goal with |- context [if ?c then nc_block _ _ else _] => destruct c end;
      [destruct (nc_block _ _) as [pw h2]|]; intros H; inversion H; subst; clear H; cbn;
      rewrite L; cbn [lasts_of]; rewrite skipn_app, repeat_length, Nat.sub_diag; cbn [skipn];
      rewrite (skipn_all2 (repeat _ _)) by (rewrite repeat_length; lia); reflexivity.
  - unfold put_finalize.
    destruct tok as [|abs]; [intros H; inversion H; subst; exact L|].
    destruct blk as [off|]; [|intros H; inversion H; subst; exact L].
    destruct (closedForWriting p); [intros H; inversion H; subst; exact L|].
    destruct (abs <? totalReleased p); [intros H; inversion H; subst; exact L|].
    destruct (Nat.leb_spec (length (blocks p)) (abs - totalReleased p)) as [Hle|Hlt]; [discriminate|].
    match goal with |- obind (obind ?b _) _ = _ -> _ => destruct b as [[|]|] end; cbn [obind].
    + destruct (nc_unblock _ _) as [[pw h1]|]; [|discriminate]. cbn [obind].
      intros H; inversion H; subst; clear H. cbn.
      rewrite lasts_of_bump.
      * rewrite lasts_of_set_written, set_written_length, <- L. reflexivity.
      * intros E. apply (f_equal (@length _)) in E. rewrite set_written_length in E. cbn in E. lia.
    + intros H; inversion H; subst; clear H. cbn. rewrite lasts_of_set_written. exact L.
    + discriminate.
  - intros H; inversion H; subst. cbn. rewrite lasts_of_map; auto.
  - intros H; inversion H; subst. unfold notify_sync_completed.
    destruct (_ =? _); [destruct (nc_block _ _)|]; destruct b; cbn; rewrite ?map_map, lasts_of_map; auto.
  - unfold get_persistent_state. destruct (gps_loop _ _ _ _); [|discriminate].
    intros H; inversion H; subst. exact L.
  - unfold notify_state_written. destruct (_ <? _); [discriminate|].
    destruct (skipn _ _); [destruct (nc_block _ _)|]; intros H; inversion H; subst; exact L.
Qed.

(** ---- the system invariant used by the coverage and liveness proofs ---- *)
Definition linv (s : sys) : Prop := inv1 s /\ inv_last (s_pbl s).

Lemma step_linv cfg s e s' : linv s -> step cfg s e = Some (Ok s') -> linv s'.
Proof.
  intros [I L] H. destruct (step_inv1 _ _ _ _ I H) as [s1 [E [I' _]]]. inversion E; subst s1.
  split; [exact I'|]. eapply act_inv_last; [exact (proj1 I)|exact L|]. eapply step_act; eauto.
Qed.

Lemma run_linv cfg tr : forall s s', linv s -> run cfg s tr = Some (Ok s') -> linv s'.
Proof.
  induction tr as [|e tr IH]; intros s s' I H; cbn in H.
  - inversion H; subst. exact I.
  - destruct (step cfg s e) as [[s1|]|] eqn:Es; try discriminate.
    eapply IH; [|exact H]. eapply step_linv; eauto.
Qed.

Lemma reachable_linv cfg alloc oldest init t0 s : reachable cfg alloc oldest init t0 s -> linv s.
Proof.
  intros [tr H]. eapply run_linv; [|exact H]. split; [apply init_inv1|apply pbl_new_inv_last].
Qed.
