(** Persist/LiveRelease.v — COVERAGE of a block release: a block removed by
    PopFront is absent from the state passed to the first
    WritePersistentState call that starts afterwards (the state's entries are
    the blocks at absolute indices >= totalBlocksReleased, which is larger than
    the popped block's index), it is among the blocks recorded by that call's
    GetPersistentState, and NotifyPersistentStateWritten for that call releases
    exactly the recorded blocks. *)
From Coq Require Import List NArith ZArith Bool Arith Lia.
From BBS Require Import Persist.PBL Persist.PBLProofs Persist.Syncer Persist.SyncerProofs
  Persist.LiveActs Persist.LiveCover.
Import ListNotations.

(** ---- what each call does to the release bookkeeping ---- *)
Definition rel_same (p p' : pbl) : Prop :=
  toRelease p' = toRelease p /\ releasing p' = releasing p /\ releasedLog p' = releasedLog p
  /\ totalReleased p' = totalReleased p.

Lemma act_rel a p p' : apply_act a p = Ok p' ->
  match a with
  | APop => exists fb rest, blocks p = fb :: rest /\ toRelease p' = toRelease p ++ [b_loc fb]
                            /\ releasing p' = releasing p /\ releasedLog p' = releasedLog p
                            /\ totalReleased p' = S (totalReleased p)
  | AGetState _ => toRelease p' = toRelease p /\ releasing p' = length (toRelease p)
                   /\ releasedLog p' = releasedLog p /\ totalReleased p' = totalReleased p
  | AWritten _ => toRelease p' = skipn (releasing p) (toRelease p) /\ releasing p' = 0
                  /\ releasedLog p' = releasedLog p ++ firstn (releasing p) (toRelease p)
                  /\ totalReleased p' = totalReleased p
  | _ => rel_same p p'
  end.
Proof.
  destruct a as [|al| |tok blk size seed| |b|t|t]; cbn [apply_act]; unfold rel_same.
  - intros H; inversion H; subst. auto.
  - intros H; inversion H; subst. unfold push_back. destruct (closedForWriting p); [auto|].
    destruct al; cbn; auto.
  - intros H. destruct (blocks p) as [|fb rest] eqn:Eb; [unfold pop_front in H; rewrite Eb in H; discriminate|].
    destruct (pop_fields _ _ _ _ Eb H) as [_ [_ [_ [Ft [_ [_ [Fr [Fg [Fl _]]]]]]]]].
    exists fb, rest. splits; auto.
  - destruct (put_finalize _ _ _ _ _) as [[p1 fr]|] eqn:Ef; [|discriminate]. cbn. intros H; inversion H; subst.
    destruct (fin_cases _ _ _ _ _ _ _ Ef) as [[-> _]|
      (abs & off & bumped & _ & _ & _ & _ & _ & _ & _ & _ & _ & _ & Ft & _ & _ & Fr & Fg & Fl & _)]; auto.
  - intros H; inversion H; subst. cbn. auto.
  - intros H; inversion H; subst.
    destruct (nsc_fields p) as [_ [_ [_ [Ft [_ [_ [Fr [Fg [Fl _]]]]]]]]]. destruct b; cbn; auto.
  - destruct (get_persistent_state p) as [[p1 st]|] eqn:Eg; [|discriminate]. cbn. intros H; inversion H; subst.
    destruct (gps_fields _ _ _ Eg) as [Hc [Fr [Fg [Fl _]]]]. inversion Hc. auto.
  - intros H. destruct (nsw_fields _ _ H) as [Hc [Fr [Fg [Fl _]]]]. inversion Hc. auto.
Qed.

(** ---- which loop is inside a WritePersistentState call ---- *)
Definition wpc_of (t : tid) (s : sys) : option wpc :=
  match t with
  | TR => match s_r s with RW w => Some w | _ => None end
  | TP => match s_p s with PW _ w => Some w | _ => None end
  end.

Definition in_write (t : tid) (s : sys) : bool :=
  match wpc_of t s with Some (WWriting _) | Some WWritten => true | _ => false end.

Definition other (t : tid) : tid := match t with TR => TP | TP => TR end.

Lemma wstep_next cfg me w a s s1 w' : wstep cfg me w a s = Some (Ok (s1, w')) ->
  match w' with
  | Some (WWriting _) => w = WGetState
  | Some WWritten => exists st, w = WWriting st
  | _ => True
  end.
Proof.
  unfold wstep. destruct w.
  - destruct (s_store s); [discriminate|]. intros H; inversion H; subst. exact I.
  - destruct (get_persistent_state _) as [[p' st]|]; [|discriminate]. intros H; inversion H; subst. reflexivity.
  - destruct (a_ok a); intros H; inversion H; subst; try exact I; eauto.
  - destruct (notify_state_written _); [|discriminate]. intros H; inversion H; subst. exact I.
  - destruct (_ <=? _)%N; [|discriminate]. intros H; inversion H; subst. exact I.
Qed.

(** a loop is inside a write after a step only if it was before (and the step
    is not its NotifyPersistentStateWritten) or the step is its GetPersistentState *)
Lemma step_in_write cfg s e s' t : inv1 s -> step cfg s e = Some (Ok s') -> in_write t s' = true ->
  (in_write t s = true /\ act_of s e <> AWritten t) \/ act_of s e = AGetState t.
Proof.
  intros II H Hw.
  assert (forall tt aa, e <> EStep tt aa -> (s_r s' = s_r s /\ s_p s' = s_p s) -> (forall t0, act_of s e <> AWritten t0) ->
          (in_write t s = true /\ act_of s e <> AWritten t) \/ act_of s e = AGetState t) as Henv.
  { intros _ _ _ [Er Ep] Hna. left. split; [|apply Hna].
    unfold in_write, wpc_of in *. rewrite Er, Ep in Hw. exact Hw. }
  destruct e as [alloc| |index size|k blk seed|d| |t' a].
  1-6: (match type of H with step _ _ ?e = _ =>
          assert (forall t a, e <> EStep t a) as Hne by (intros t1 a0 H0; discriminate H0) end;
        apply (Henv TR (mkAns true 0)); [apply Hne|apply (env_frame cfg s _ s' Hne H)|];
        intros t0; cbn [act_of]; try discriminate).
  { destruct (nth_error _ _) as [[[tok sz]|]|]; discriminate. }
  destruct t'; cbn [step] in H.
  - (* release loop steps *)
    destruct t.
    + unfold rstep in H. unfold in_write, wpc_of in *. cbn [act_of].
      destruct (s_r s) as [|ch|w] eqn:Er.
      * inversion H; subst. cbn in Hw. discriminate.
      * destruct (is_closed _ _); [|discriminate]. inversion H; subst. cbn in Hw. discriminate.
      * destruct (wstep cfg TR w a s) as [[[s1 w']|]|] eqn:Ew; try discriminate.
        pose proof (wstep_next _ _ _ _ _ _ _ Ew) as Hn.
        destruct w' as [w'|]; inversion H; subst; cbn in Hw; [|discriminate].
        destruct w'; try discriminate.
        -- subst w. right. reflexivity.
        -- destruct Hn as [st ->]. left. split; [reflexivity|]. cbn. discriminate.
    + left. split.
      * unfold in_write, wpc_of in *. rewrite (rstep_frame _ _ _ _ II H) in Hw. exact Hw.
      * cbn [act_of]. destruct (s_r s) as [| |[]]; cbn; discriminate.
  - destruct t.
    + left. split.
      * unfold in_write, wpc_of in *. rewrite (pstep_frame _ _ _ _ II H) in Hw. exact Hw.
      * cbn [act_of]. destruct (s_p s) as [| | | | | | | |? []|]; cbn; discriminate.
    + unfold pstep in H. unfold in_write, wpc_of in *. cbn [act_of].
      destruct (s_p s) as [|ch|ch|dl|keep|keep final|keep final|keep final dl|keep w|] eqn:Ep.
      * inversion H; subst. cbn in Hw. discriminate.
      * destruct (is_closed _ _); inversion H; subst; cbn in Hw; discriminate.
      * destruct (s_cancel s && _); [|destruct (is_closed _ _); [|discriminate]];
          inversion H; subst; cbn in Hw; discriminate.
      * destruct (s_cancel s && _); [|destruct (_ && _)%bool; [|discriminate]];
          inversion H; subst; cbn in Hw; discriminate.
      * inversion H; subst. cbn in Hw. discriminate.
      * destruct (a_ok a); inversion H; subst; cbn in Hw; discriminate.
      * destruct (negb keep && negb final); inversion H; subst; cbn in Hw; discriminate.
      * destruct (_ <=? _)%N; [|discriminate]. inversion H; subst. cbn in Hw. discriminate.
      * destruct (wstep cfg TP w a s) as [[[s1 w']|]|] eqn:Ew; try discriminate.
        pose proof (wstep_next _ _ _ _ _ _ _ Ew) as Hn.
        destruct w' as [w'|]; inversion H; subst; cbn in Hw; [|destruct keep; discriminate].
        destruct w'; try discriminate.
        -- subst w. right. reflexivity.
        -- destruct Hn as [st ->]. left. split; [reflexivity|]. cbn. discriminate.
      * discriminate.
Qed.

Lemma act_written_in_write s e t : act_of s e = AWritten t -> in_write t s = true.
Proof.
  destruct e as [alloc| |index size|k blk seed|d| |t' a]; cbn [act_of]; try discriminate.
  - destruct (nth_error _ _) as [[[tok sz]|]|]; discriminate.
  - unfold in_write, wpc_of. destruct t'.
    + destruct (s_r s) as [| |w]; try discriminate. destruct w; cbn; try discriminate.
      intros H; inversion H; subst. reflexivity.
    + destruct (s_p s) as [| | | | | | | |k w|]; try discriminate. destruct w; cbn; try discriminate.
      intros H; inversion H; subst. reflexivity.
Qed.

Lemma in_write_excl s t : inv3 s -> in_write t s = true -> in_write (other t) s = false.
Proof.
  intros [_ Hx] H. unfold in_write, wpc_of, r_holds, p_holds in *.
  destruct t; cbn [other];
    destruct (s_r s) as [| |[]]; destruct (s_p s) as [| | | | | | | |? []|]; cbn in *; congruence.
Qed.

(** ---- no GetPersistentState along a schedule ---- *)
Definition is_getstate (a : act) : bool := match a with AGetState _ => true | _ => false end.

Fixpoint no_getstate (cfg : config) (s : sys) (tr : list event) : bool :=
  match tr with
  | [] => true
  | e :: tr' =>
      match step cfg s e with
      | Some (Ok s') => negb (is_getstate (act_of s e)) && no_getstate cfg s' tr'
      | _ => true
      end
  end.

(** the popped block stays in blocksToRelease, beyond the recorded count *)
Definition pending_rel (l : loc) (p : pbl) : Prop :=
  exists pre post, toRelease p = pre ++ l :: post /\ releasing p <= length pre.

Lemma act_pending l a p p' : is_getstate a = false -> apply_act a p = Ok p' ->
  pending_rel l p -> pending_rel l p' /\ totalReleased p <= totalReleased p'.
Proof.
  intros Hng Ha [pre [post [Ht Hr]]]. pose proof (act_rel _ _ _ Ha) as R.
  assert (rel_same p p' -> pending_rel l p' /\ totalReleased p <= totalReleased p') as Hsame.
  { intros [R1 [R2 [_ R4]]]. split; [|lia]. exists pre, post. rewrite R1, R2. auto. }
  destruct a as [|al| |tok blk size seed| |b|t|t]; try (apply Hsame; exact R); try discriminate.
  - destruct R as [fb [rest [_ [R1 [R2 [_ R4]]]]]]. split; [|lia].
    exists pre, (post ++ [b_loc fb]). rewrite R1, R2, Ht, <- app_assoc. auto.
  - destruct R as [R1 [R2 [_ R4]]]. split; [|lia].
    exists (skipn (releasing p) pre), post. rewrite R1, R2, Ht, skipn_app.
    replace (releasing p - length pre) with 0 by lia. cbn [skipn]. split; [reflexivity|lia].
Qed.

Lemma run_pending cfg l tr : forall s s', linv s -> pending_rel l (s_pbl s) ->
  run cfg s tr = Some (Ok s') -> no_getstate cfg s tr = true ->
  pending_rel l (s_pbl s') /\ totalReleased (s_pbl s) <= totalReleased (s_pbl s').
Proof.
  induction tr as [|e tr IH]; intros s s' I P H Hn; cbn in *.
  - inversion H; subst. auto.
  - destruct (step cfg s e) as [[s1|]|] eqn:Es; try discriminate.
    apply andb_true_iff in Hn. destruct Hn as [Hn1 Hn2]. apply negb_true_iff in Hn1.
    destruct (act_pending l _ _ _ Hn1 (step_act _ _ _ _ Es) P) as [P1 Hle].
    destruct (IH _ _ (step_linv _ _ _ _ I Es) P1 H Hn2) as [P' Hle']. split; [exact P'|lia].
Qed.

(** while thread [t] is inside the write, the recorded blocks are [R] and the
    other loop is not inside a write *)
Definition recorded (t : tid) (R : list loc) (s : sys) : Prop :=
  (in_write t s = true -> firstn (releasing (s_pbl s)) (toRelease (s_pbl s)) = R)
  /\ in_write (other t) s = false.

Lemma other_cases t t' : t' = t \/ t' = other t.
Proof. destruct t, t'; cbn; auto. Qed.

Lemma step_recorded cfg t R s e s' : linv s -> recorded t R s ->
  step cfg s e = Some (Ok s') -> is_getstate (act_of s e) = false -> recorded t R s'.
Proof.
  intros [I1 _] [HR Ho] H Hng. split.
  - intros Hw. destruct (step_in_write _ _ _ _ _ I1 H Hw) as [[Hw0 Hna]|Hg];
      [|rewrite Hg in Hng; discriminate].
    specialize (HR Hw0). pose proof (act_rel _ _ _ (step_act _ _ _ _ H)) as Rl.
    assert (rel_same (s_pbl s) (s_pbl s') -> firstn (releasing (s_pbl s')) (toRelease (s_pbl s')) = R) as Hsame.
    { intros [R1 [R2 _]]. rewrite R1, R2. exact HR. }
    destruct (act_of s e) as [|al| |tok blk size seed| |b|t1|t1] eqn:Ea; try (apply Hsame; exact Rl); try discriminate.
    + destruct Rl as [fb [rest [_ [R1 [R2 _]]]]]. rewrite R1, R2, firstn_app.
      pose proof (i_rel _ (proj1 I1)) as Hle.
      replace (releasing (s_pbl s) - length (toRelease (s_pbl s))) with 0 by lia.
      cbn [firstn]. rewrite app_nil_r. exact HR.
    + exfalso. pose proof (act_written_in_write _ _ _ Ea) as Hw1.
      destruct (other_cases t t1) as [-> | ->]; [apply Hna; reflexivity|congruence].
  - destruct (in_write (other t) s') eqn:Hw; [|reflexivity].
    destruct (step_in_write _ _ _ _ _ I1 H Hw) as [[Hw0 _]|Hg]; [congruence|rewrite Hg in Hng; discriminate].
Qed.

Lemma run_recorded cfg t R tr : forall s s', linv s -> recorded t R s ->
  run cfg s tr = Some (Ok s') -> no_getstate cfg s tr = true -> recorded t R s'.
Proof.
  induction tr as [|e tr IH]; intros s s' I P H Hn; cbn in *.
  - inversion H; subst. auto.
  - destruct (step cfg s e) as [[s1|]|] eqn:Es; try discriminate.
    apply andb_true_iff in Hn. destruct Hn as [Hn1 Hn2]. apply negb_true_iff in Hn1.
    eapply IH; [eapply step_linv; eauto| |exact H|exact Hn2]. eapply step_recorded; eauto.
Qed.

Lemma step_inv3' cfg s e s' : inv3 s -> step cfg s e = Some (Ok s') -> inv3 s'.
Proof. apply step_inv3. Qed.

(** COVERAGE of a block release.  Schedule = ... PopFront removing block [fb]
    (step i), [trA] without any GetPersistentState, a step [e4] of loop [t]
    that calls GetPersistentState and starts WritePersistentState (the first
    state write started after i).  Then: the state [st] passed to the store
    consists of blocks still in the list (entry j = block j of the current
    list, whose absolute index totalBlocksReleased + j exceeds the popped
    block's index totalBlocksReleased(before the pop)); the popped block is
    among the blocks recorded ([blocksToRelease] at that moment); and if —
    after [trB] without a further GetPersistentState — a loop [t'] runs
    NotifyPersistentStateWritten, it is that same write ([t' = t], it cannot
    have failed in between) and exactly the recorded blocks are Release()d. *)
Theorem release_covered_seg cfg s1 fb rest s1' trA s4 e4 s4' t :
  linv s1 -> inv3 s1 ->
  blocks (s_pbl s1) = fb :: rest -> step cfg s1 EPopFront = Some (Ok s1') ->
  run cfg s1' trA = Some (Ok s4) -> no_getstate cfg s1' trA = true ->
  step cfg s4 e4 = Some (Ok s4') -> act_of s4 e4 = AGetState t ->
  In (b_loc fb) (toRelease (s_pbl s4))
  /\ totalReleased (s_pbl s1) < totalReleased (s_pbl s4)
  /\ (exists st, written_state s4' t = Some st /\
        forall j e, nth_error (snd st) j = Some e ->
          exists b, nth_error (blocks (s_pbl s4)) j = Some b /\ bs_loc e = b_loc b)
  /\ forall trB s5 e5 s5' t',
       run cfg s4' trB = Some (Ok s5) -> no_getstate cfg s4' trB = true ->
       step cfg s5 e5 = Some (Ok s5') -> act_of s5 e5 = AWritten t' ->
       t' = t /\ releasedLog (s_pbl s5') = releasedLog (s_pbl s5) ++ toRelease (s_pbl s4).
Proof.
  intros I1 J1 Eb Hs1 HA HnA H4 Hg.
  pose proof (step_linv _ _ _ _ I1 Hs1) as I1'.
  pose proof (act_rel _ _ _ (step_act _ _ _ _ Hs1)) as Rp. cbn [act_of] in Rp.
  destruct Rp as [fb' [rest' [Eb' [R1 [R2 [_ R4]]]]]]. rewrite Eb in Eb'. inversion Eb'; subst fb' rest'.
  assert (pending_rel (b_loc fb) (s_pbl s1')) as P1.
  { exists (toRelease (s_pbl s1)), []. split; [exact R1|]. rewrite R2. apply (i_rel _ (proj1 (proj1 I1))). }
  destruct (run_pending _ _ _ _ _ I1' P1 HA HnA) as [[pre [post [Ht Hr]]] Hle].
  pose proof (run_linv _ _ _ _ I1' HA) as I4. pose proof (step_linv _ _ _ _ I4 H4) as I4'.
  assert (inv3 s4') as J4'.
  { assert (forall tr s s', inv3 s -> run cfg s tr = Some (Ok s') -> inv3 s') as Hrun.
    { induction tr as [|e tr IH]; intros s s' J H; cbn in H; [inversion H; subst; exact J|].
      destruct (step cfg s e) as [[sx|]|] eqn:Es; try discriminate. eapply IH; [|exact H]. eapply step_inv3; eauto. }
    eapply step_inv3; [|exact H4]. eapply Hrun; [|exact HA]. eapply step_inv3; eauto. }
  destruct (getstate_step _ _ _ _ _ H4 Hg) as [p4 [st [Hgs [Hw [Hp4 _]]]]].
  destruct (gps_fields _ _ _ Hgs) as [_ [F1 [F2 [_ [_ [_ [_ Hloop]]]]]]].
  split; [rewrite Ht; apply in_or_app; right; left; reflexivity|].
  split; [lia|].
  split.
  { exists st. split; [exact Hw|]. intros j e Hn.
    destruct (gps_prefix _ _ _ _ _ _ _ Hloop Hn) as [b [Hb [Hl _]]]. exists b. auto. }
  intros trB s5 e5 s5' t' HB HnB H5 Ha5.
  assert (in_write t s4' = true) as Hin.
  { unfold written_state in Hw. unfold in_write, wpc_of. destruct t.
    - destruct (s_r s4') as [| |[]]; try discriminate. reflexivity.
    - destruct (s_p s4') as [| | | | | | | |? []|]; try discriminate. reflexivity. }
  assert (recorded t (toRelease (s_pbl s4)) s4') as Rc.
  { split; [|apply in_write_excl; assumption]. intros _. rewrite Hp4, F1, F2. apply firstn_all. }
  pose proof (run_recorded _ _ _ _ _ _ I4' Rc HB HnB) as [Rc5 Ro5].
  pose proof (act_written_in_write _ _ _ Ha5) as Hin5.
  assert (t' = t) as ->.
  { destruct (other_cases t t') as [-> | ->]; [reflexivity|congruence]. }
  split; [reflexivity|].
  pose proof (act_rel _ _ _ (step_act _ _ _ _ H5)) as R5. rewrite Ha5 in R5.
  destruct R5 as [_ [_ [R5 _]]]. rewrite R5, (Rc5 Hin5). reflexivity.
Qed.
